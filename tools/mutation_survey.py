#!/usr/bin/env python3
"""Dev-time: systematic single-edit mutation survey. Reads the mutants enumerated by /verif/bin/mutgen (JSON lines),
applies each to a scratch copy of /repo, runs build + the existing suite (test cache shared, so only the affected
packages re-run) and, for the mutants the suite lets through, runs EVERY check (verif checkall). Writes
/verif/triage/mutation-survey2.json: per mutant {status: compile-fail|killed|survives, alarms: [checks]}.
Usage: mutation_survey.py <mutants.jsonl> [PAR]"""
import json, os, shutil, subprocess, sys, tempfile, re
from concurrent.futures import ThreadPoolExecutor
ENV = dict(os.environ, GOFLAGS="-mod=mod", GOPROXY="off", GOSUMDB="off", GOTOOLCHAIN="local"); ENV.pop("GOWORK", None)
BIN = os.environ.get("VERIF_BIN", "/verif/bin/verif")
ms = [json.loads(l) for l in open(sys.argv[1])]
PAR = int(sys.argv[2]) if len(sys.argv) > 2 else 12
OUT = "/verif/triage/mutation-survey2.json"
done = json.load(open(OUT)) if os.path.exists(OUT) else {}
def run(m):
    recheck = os.environ.get("RECHECK") and m["id"] in done and done[m["id"]].get("status") == "survives"
    if m["id"] in done and not recheck:
        return m["id"], done[m["id"]]
    tmp = tempfile.mkdtemp(prefix="verif-mut-")
    try:
        subprocess.run(f"cp -r /repo/. {tmp}/ && rm -rf {tmp}/.git", shell=True, check=True)
        path = f"{tmp}/pkg/go/{m['file']}"
        src = open(path, "rb").read()
        assert src[m["start"]:m["end"]].decode() == m["old"], m["id"]
        open(path, "wb").write(src[:m["start"]] + m["new"].encode() + src[m["end"]:])
        res = dict(file=m["file"], line=m["line"], func=m["func"], kind=m["kind"], old=m["old"][:120], new=m["new"][:120])
        if recheck:
            res["status"] = "survives"
            os.makedirs(tmp + "/.out"); shutil.copy("/verif/known-findings.json", tmp + "/.out/")
            q = subprocess.run([BIN, "checkall"], env=dict(ENV, VERIF_REPO=tmp, VERIF_DIR=tmp + "/.out"), capture_output=True, text=True)
            alarms, cur, first = [], [], {}
            for l in q.stdout.splitlines():
                mm = re.match(r"== (C\d\d) exit=(\d+)", l)
                if mm:
                    if mm.group(2) != "0":
                        alarms.append(mm.group(1)); first[mm.group(1)] = (cur[:1] or ["?"])[0][:200]
                    cur = []
                elif l.startswith("  FINDING") or l.startswith("  UNDECIDED"):
                    cur.append(l.strip())
            res["alarms"], res["first"] = alarms, first
            return m["id"], res
        p = subprocess.run("go build ./... && go vet -vettool=/bin/true ./... >/dev/null 2>&1; go build ./...", shell=True, cwd=tmp + "/pkg/go", env=ENV, capture_output=True, text=True)
        if p.returncode != 0:
            res["status"] = "compile-fail"
            return m["id"], res
        p = subprocess.run("go test -vet=off -timeout 120s ./... 2>&1 | tail -5", shell=True, cwd=tmp + "/pkg/go", env=ENV, capture_output=True, text=True)
        if "FAIL" in p.stdout or "panic" in p.stdout:
            res["status"] = "killed"
            return m["id"], res
        res["status"] = "survives"
        os.makedirs(tmp + "/.out"); shutil.copy("/verif/known-findings.json", tmp + "/.out/")
        q = subprocess.run([BIN, "checkall"], env=dict(ENV, VERIF_REPO=tmp, VERIF_DIR=tmp + "/.out"), capture_output=True, text=True)
        alarms, cur, first = [], [], {}
        for l in q.stdout.splitlines():
            mm = re.match(r"== (C\d\d) exit=(\d+)", l)
            if mm:
                if mm.group(2) != "0":
                    alarms.append(mm.group(1)); first[mm.group(1)] = (cur[:1] or ["?"])[0][:200]
                cur = []
            elif l.startswith("  FINDING") or l.startswith("  UNDECIDED"):
                cur.append(l.strip())
        res["alarms"], res["first"] = alarms, first
        return m["id"], res
    except Exception as e:
        return m["id"], dict(status="error", error=str(e)[:200])
    finally:
        shutil.rmtree(tmp, ignore_errors=True)
with ThreadPoolExecutor(max_workers=PAR) as ex:
    n = 0
    for mid, res in ex.map(run, ms):
        done[mid] = res; n += 1
        if n % 50 == 0:
            json.dump(done, open(OUT, "w"), indent=1, sort_keys=True)
            print(n, "done", flush=True)
json.dump(done, open(OUT, "w"), indent=1, sort_keys=True)
from collections import Counter
print(Counter(r.get("status") for r in done.values()))
surv = [r for r in done.values() if r.get("status") == "survives"]
print("survivors:", len(surv), "with some alarm:", sum(1 for r in surv if r.get("alarms")), "silent:", sum(1 for r in surv if not r.get("alarms")))
