#!/bin/bash
# usage: benign.sh <property> — confirms /tmp/ben/<P>.out/{1..4} (applies, builds, suite passes), files them under
# /verif/benign/<P>-<k>/ and runs EVERY check against each; prints the checks that are not silent.
P=$1; WT=/tmp/vwb-$P
export GOFLAGS=-mod=mod GOPROXY=off GOSUMDB=off GOTOOLCHAIN=local; unset GOWORK
[ -d $WT ] || git -C /repo worktree add --detach $WT HEAD >/dev/null 2>&1
for k in 1 2 3 4; do
  src=${SRC:-/tmp/ben}/$P.out/$k
  [ -f $src/patch.diff ] || continue
  git -C $WT checkout -q --detach $(git -C /repo rev-parse HEAD); git -C $WT checkout -- . ; git -C $WT clean -fdq
  if ! git -C $WT apply $src/patch.diff 2>/dev/null; then echo "== $P-$((k+${OFF:-0})) does not apply"; continue; fi
  if ! (cd $WT/pkg/go && go build ./... && go test -vet=off -count=1 ./... >/tmp/suite.$P.$k.log 2>&1); then echo "== $P-$((k+${OFF:-0})) build or suite FAILS"; continue; fi
  mkdir -p /verif/benign/$P-$((k+${OFF:-0})); cp $src/patch.diff $src/meta.json /verif/benign/$P-$((k+${OFF:-0}))/
  out=/tmp/vtest-b-$P; mkdir -p $out; cp /verif/known-findings.json $out/
  echo "== $P-$((k+${OFF:-0})) confirmed (suite passes)"
  for c in C01 C02 C03 C05 C06 C07 C08 C09 C10 C11 C12 C13 C14 C15 C16 C17 C18 C19; do
    res=$(VERIF_REPO=$WT VERIF_DIR=$out ${VERIF_BIN:-/verif/bin/verif} check $c 2>&1)
    if [ $? -ne 0 ]; then echo "   NOT SILENT: $c"; echo "$res" | grep -E "^  (FINDING|UNDECIDED)|BROKEN" | cut -c1-420 | head -6; fi
  done
done
git -C $WT checkout -- . 2>/dev/null; git -C /repo worktree remove --force $WT 2>/dev/null; rm -rf /tmp/vtest-b-$P
