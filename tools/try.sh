#!/bin/bash
# usage: try.sh <property> <patch-file | revert:<commit>>   — runs one check against a scratch worktree with the change applied
P=$1; CH=$2; WT=${VW:-/tmp/vw}
[ -d $WT ] || git -C /repo worktree add --detach $WT HEAD >/dev/null 2>&1
git -C $WT checkout -q --detach $(git -C /repo rev-parse HEAD) 2>/dev/null; git -C $WT checkout -- . ; git -C $WT clean -fdq
if [[ $CH == revert:* ]]; then git -C /repo show ${CH#revert:} | git -C $WT apply -R || { echo "cannot revert"; exit 3; }
else git -C $WT apply $CH || { echo "cannot apply"; exit 3; }; fi
mkdir -p /tmp/vtest; cp /verif/known-findings.json /tmp/vtest/; VERIF_REPO=$WT VERIF_DIR=/tmp/vtest ${VERIF_BIN:-/verif/bin/verif} check $P | grep -E "^  (FINDING|UNDECIDED)|KNOWN|BROKEN|violations=" | cut -c1-${COLS:-330}
git -C $WT checkout -- . ; git -C $WT clean -fdq
