#!/usr/bin/env python3
"""Confirms a seeded change produced by a sub-agent: applies it to a scratch worktree of /repo HEAD,
checks that it builds and that the existing suite still passes, that the demonstration fails with
the change and passes without it, and then files it under /verif/seeded/<id>-<k>/.
Usage: verify_seed.py <property> <k> [srcdir]"""
import json, os, re, shutil, subprocess, sys

ENV = dict(os.environ, GOFLAGS="-mod=mod", GOPROXY="off", GOSUMDB="off", GOTOOLCHAIN="local")
ENV.pop("GOWORK", None)
WT = os.environ.get("VW", "/tmp/vw")

def sh(cmd, cwd=None, timeout=1800):
    p = subprocess.run(cmd, shell=True, cwd=cwd, env=ENV, capture_output=True, text=True, timeout=timeout)
    return p.returncode, (p.stdout + p.stderr)

def main():
    prop, k = sys.argv[1], sys.argv[2]
    src = sys.argv[3] if len(sys.argv) > 3 else f"/tmp/seed/{prop}.out/{k}"
    meta = json.load(open(f"{src}/meta.json")) if os.path.exists(f"{src}/meta.json") else {}
    if not os.path.isdir(WT):
        rc, out = sh(f"git -C /repo worktree add --detach {WT} HEAD")
        assert rc == 0, out
    sh("git checkout -- . && git clean -fdq", cwd=WT)
    sh("git checkout --detach -q $(git -C /repo rev-parse HEAD)", cwd=WT)
    res = {"head": sh("git rev-parse --short HEAD", cwd=WT)[1].strip()}
    rc, out = sh(f"git apply {src}/patch.diff", cwd=WT)
    res["applies"] = rc == 0
    if rc != 0:
        print("patch does not apply:", out); return finish(prop, k, src, meta, res, False)
    rc, out = sh("go build ./...", cwd=WT + "/pkg/go")
    res["builds"] = rc == 0
    if rc != 0:
        print("build fails:", out[-800:]); return finish(prop, k, src, meta, res, False)
    rc, out = sh("go test -vet=off -count=1 ./... 2>&1 | tail -15", cwd=WT + "/pkg/go")
    res["suite_passes"] = ("FAIL" not in out) and rc == 0
    if not res["suite_passes"]:
        print("suite fails:", out[-800:]); return finish(prop, k, src, meta, res, False)
    # demonstration
    demo = f"{src}/demo_test.go"
    if not os.path.exists(demo):
        print("no demo_test.go; manual verification needed"); return finish(prop, k, src, meta, res, False)
    pkg = re.search(r"^package\s+(\w+)", open(demo).read(), re.M).group(1)
    pkgdir = pkg[:-5] if pkg.endswith("_test") else pkg
    if pkgdir == "parser": pkgdir = "gen"
    text = meta.get("demo", "")
    if isinstance(text, (dict, list)):
        text = json.dumps(text)
    m = re.search(r"-run[ =]+'?\"?([^ '\"]+)", text)
    tests = re.findall(r"^func (Test\w+)\(", open(demo).read(), re.M)
    run = m.group(1) if m else "^(" + "|".join(tests) + ")$"
    race = "-race " if "-race" in text else ""
    dst = f"{WT}/pkg/go/{pkgdir}/zz_seed_demo_test.go"
    shutil.copy(demo, dst)
    cmd = f"go test {race}-vet=off -count=1 -run '{run}' ./{pkgdir}/ 2>&1 | tail -25"
    rc1, out1 = sh(cmd, cwd=WT + "/pkg/go")
    res["demo_cmd"] = cmd
    res["demo_fails_with_patch"] = ("FAIL" in out1)
    res["demo_output_with_patch"] = out1[-600:]
    sh(f"git apply -R {src}/patch.diff", cwd=WT)
    rc2, out2 = sh(cmd, cwd=WT + "/pkg/go")
    res["demo_passes_without_patch"] = ("FAIL" not in out2) and ("ok" in out2)
    res["demo_output_without_patch"] = out2[-300:]
    os.remove(dst)
    sh("git checkout -- . && git clean -fdq", cwd=WT)
    ok = res["demo_fails_with_patch"] and res["demo_passes_without_patch"]
    res["demo_pkgdir"] = "pkg/go/" + pkgdir
    return finish(prop, k, src, meta, res, ok)

def finish(prop, k, src, meta, res, ok):
    res["confirmed"] = ok
    print(json.dumps({x: res[x] for x in res if not x.startswith("demo_output")}, indent=1))
    if ok:
        dst = f"/verif/seeded/{prop}-{k}"
        os.makedirs(dst, exist_ok=True)
        shutil.copy(f"{src}/patch.diff", dst)
        shutil.copy(f"{src}/demo_test.go", dst)
        meta = dict(meta)
        meta["property"] = prop
        meta["confirmed_by_me"] = {"base_commit": res["head"], "ran": ["git apply patch.diff", "go build ./...", "go test -vet=off -count=1 ./...  (full suite passes)",
            f"copy demo_test.go to {res['demo_pkgdir']}/ and: " + res["demo_cmd"] + "  (FAILS with the patch)", "git apply -R patch.diff; same command (passes)"],
            "demo_output_with_patch_tail": res["demo_output_with_patch"]}
        json.dump(meta, open(f"{dst}/meta.json", "w"), indent=1)
    sh("git checkout -- . && git clean -fdq", cwd=WT)
    return 0 if ok else 1

sys.exit(main())
