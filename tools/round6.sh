#!/bin/bash
# usage: round6.sh <property> — verifies /tmp/seed6/<P>.out/{1,2,3} as seeds <P>-10..12 and runs the check against each
P=$1; export VW=/tmp/vw-$P
for k in 1 2 3; do
  [ -f /tmp/seed6/$P.out/$k/patch.diff ] || continue
  n=$((k+15))
  python3 /verif/tools/verify_seed.py $P $n /tmp/seed6/$P.out/$k > /tmp/seed6/$P.verify.$n.log 2>&1
  if grep -q '"confirmed": true' /tmp/seed6/$P.verify.$n.log; then
    echo "== $P-$n confirmed"; COLS=260 /verif/tools/try.sh $P /verif/seeded/$P-$n/patch.diff 2>&1 | grep -E "FINDING|UNDECIDED|violations=|cannot" | head -4
  else echo "== $P-$n NOT confirmed"; tail -5 /tmp/seed6/$P.verify.$n.log; fi
done
git -C /repo worktree remove --force $VW 2>/dev/null
