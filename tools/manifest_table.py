# Table read by gen_manifest.py. One entry per claimed property; everything else must be in NOT_APPLICABLE.

check("C19", "translation_validation",
      "Translation validation without ANTLR: the automata embedded in the Go, TS and Java recognisers and the six .interp files are extracted as data, shown identical, and each rule's sub-automaton is shown language-equivalent to the rule body in the .g4 (own grammar reader + own ATN decoder + NFA equivalence with shortest distinguishing word); vocabularies, lexer commands, modes, rule priorities compared; Go listener overrides checked against the generated interface.",
      "Trusted: ANTLR serialized-ATN format v4 as decoded by /verif/sa/internal/atn; the ANTLR run-time libraries of the three targets. Equal rule languages for all rules imply equal grammars.",
      "per-rule NFA language equivalence between .g4 rule bodies and the decoded serialized ATN; integer-sequence and table identity across artefacts; go/types method-set comparison",
      "DESIGN.md section 3 (E8), section 4 (C19)")

_PENDING = "static check not built yet in this round; see DESIGN.md section 4 for the planned clauses"
for _p in ["C01","C02","C03","C05","C06","C07","C08","C09","C10","C11","C12","C13","C14","C15","C16","C17","C18"]:
    if _p not in CHECKS:
        NOT_APPLICABLE[_p] = _PENDING
NOT_APPLICABLE["C04"] = ("Equates computed integers and map key sets with extrema over all walks of arbitrary graphs (fixpoints through interlocking cycles); "
                         "every clause is value arithmetic, no sound static abstraction is in reach, and a shape rule pinning the arithmetic would be a frozen fragment.")
