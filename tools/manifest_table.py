# Table read by gen_manifest.py. One entry per claimed property; everything else must be in NOT_APPLICABLE.

check("C19", "translation_validation",
      "Translation validation without ANTLR: the automata embedded in the Go, TS and Java recognisers and the six .interp files are extracted as data, shown identical, and each rule's sub-automaton is shown language-equivalent to the rule body in the .g4 (own grammar reader + own ATN decoder + NFA equivalence with shortest distinguishing word); vocabularies, lexer commands, modes, rule priorities compared; Go listener overrides checked against the generated interface.",
      "Trusted: ANTLR serialized-ATN format v4 as decoded by /verif/sa/internal/atn; the ANTLR run-time libraries of the three targets. Equal rule languages for all rules imply equal grammars.",
      "per-rule NFA language equivalence between .g4 rule bodies and the decoded serialized ATN; integer-sequence and table identity across artefacts; go/types method-set comparison",
      "DESIGN.md section 3 (E8), section 4 (C19)")

check("C18", "proof",
      "Decision procedure over all strings: rule constants and format strings are constant-folded from the type-checked Go source, each validator becomes a boolean formula over anchored patterns, patterns are compiled with regexp/syntax and determinised over code-point classes following MatchString semantics; every clause (unique decomposition, forbidden characters, disjointness/union, exact length limits, compilability) is product-automaton reachability with a shortest witness; rule strings compared byte-for-byte with the TS and Java sources.",
      "Trusted: regexp/syntax (the parser/compiler the regexp package itself uses), go/types constant folding, the automaton construction (self-tested on every run through fixtures). Whitespace = RE2 \\s, the class the rule strings use.",
      "automata-theoretic decision procedure (regexp/syntax program -> DFA over code-point classes; product emptiness / inclusion / length spectrum); literal extraction from TS/Java sources",
      "DESIGN.md section 3 (E7), section 4 (C18)")

check("C12", "other",
      "Necessary condition decided statically: no loop over a Go map / gonum iterator and no entropy source reachable from TransformModuleFilesToModel (listener callbacks included) can influence the result or the error list - every such loop is classified by the effects of its body into order-insensitive forms or reported; no package-level state is written on that path; conflict tests use lists rebuilt from the live object or accumulated on accept (a stale list lets the last file win).",
      "Sufficient-condition prover for schedule independence; permutation invariance of success (a value argument) is not decided. Trusted: Go slices iterate in index order; enumerated order/entropy sources are complete.",
      "AST effect classification of every map-range / iterator loop in call-graph-reachable code (go/packages + go/ssa + VTA), comparator totality check, SSA taint from entropy sources, package-state write scan",
      "DESIGN.md section 3 (E3, E2), section 4 (C12)")

check("C13", "other",
      "Repository-side necessary conditions decided statically: per public entry point a may-point-to analysis shows no write (store, map update, append, copy, delete, in-place sort, library mutator) to memory reachable from an argument; no reachable function writes package-level state outside initialisers; builders never store into their receiver.",
      "History independence through ANTLR's shared prediction caches and races inside third-party code are trusted, not analysed. Library read-only/mutator tables are part of the trusted base; unknown library callees receiving argument memory fail the check.",
      "SSA inclusion-style may-point-to analysis (EXT / HOLDS marks, field-based, per-entry-point context, VTA call graph) + package-level state write scan",
      "DESIGN.md section 3 (E2), section 4 (C13)")

check("C14", "other",
      "Necessary conditions decided statically on the DSL printer: output order never comes from a map (collect-then-sort with a comparator total on the names, no later unstable partial re-sort); on every path that sorts the type definitions (modular models) what is rendered afterwards are the elements of that sorted list; the include-source-information option only flows into the trailing-comment helper, which returns \"\" when the option is off, whose result starts with ' #' and is the last verb on its output line at every use; no package-level state.",
      "Byte identity across JSON encodings is delegated to protojson; the exact documented order (module, file, name) is not decided beyond totality/determinism of the comparator.",
      "AST effect classification of map-range loops + comparator totality; SSA def-use of the option value; CFG evaluation of the helper under option=false; constant-format verb position analysis",
      "DESIGN.md section 3 (E3, E5), section 4 (C14)")

_GRAPH_NOTE = "Sufficient-condition prover / necessary-condition checker: value logic of the weight and wildcard algorithms is not decided. Trusted: Go map iteration is the only unordered source besides the enumerated gonum iterators and entropy functions; library tables in /verif/sa/internal/e2own and e3order."

check("C05", "other",
      "Schedule and error-discipline clauses decided statically: the verdict of Build cannot depend on map order, iterator order, caller order of type definitions or entropy (every loop over such a source reachable from Build is classified by effect forms; exceptions are keyed by effect signature); every error origin wraps ErrModelCycle/ErrTupleCycle/ErrInvalidModel with %w (one record per origin site with a floor, so a deleted rejection site is noticed); no callee error is dropped.",
      _GRAPH_NOTE + " The iff between 'error' and 'not well-founded' for a fixed order is NOT decided.",
      "AST effect classification of order-source loops in call-graph-reachable code; SSA backward slice of error results to sentinel origins; error-propagation def-use",
      "DESIGN.md section 3 (E3, E5), section 4 (C05)")

check("C06", "other",
      "Necessary conditions decided statically for everything reachable from Build: no order-sensitive loop over a map / gonum iterator / caller-ordered type list (loop-carried reads included), no entropy in an ordering comparison, type definitions visited on a sorted private copy, no package-level state and no builder-receiver state, no wildcard/condition slice shared between owners while appends are reachable.",
      _GRAPH_NOTE + " Commutativity of the numeric rules under operand reordering is NOT decided.",
      "AST effect classification + comparator totality; SSA entropy taint (value/key marks, field-based); package-state and receiver-state write scan; slice-origin analysis for shared backing arrays",
      "DESIGN.md section 3 (E3, E2), section 4 (C06)")

check("C10", "other",
      "Structural necessary conditions decided statically: all rewrite and restriction variants are translated; the edge-kind, node-kind and operator-label constants reaching the constructors in each translation step equal the documented table and the sibling plain builder; exclusion children are (base, subtract); operator labels contain a random id made in the same invocation; translation loops run to completion unless they fail; the empty condition is normalised before comparison; each translation step creates its edges through the documented function (add vs upsert, has-edge guard), agreed between the builders; an existing edge is matched only on paths that compared its kind and tupleset relation with the parameters; Build does not write its model argument (may-point-to).",
      _GRAPH_NOTE + " One-to-one correspondence of graph and rewrite as a whole is NOT decided.",
      "constant-propagation tables over SSA call arguments compared between sibling implementations and a documented table; may-point-to purity analysis; AST loop-exit rule",
      "DESIGN.md section 3 (E1, E2), section 4 (C10)")

check("C11", "other",
      "Necessary conditions decided statically: the schedule clause as for C05/C06; no wildcard slice is stored into a node/edge while still held by another owner when appends are reachable (slice-origin analysis: fresh, clone, append-to-own, or finding); every append to a wildcards list is dominated by !slices.Contains on the same list and element.",
      _GRAPH_NOTE + " Equality of the lists with reachability of public types is NOT decided.",
      "SSA slice-origin analysis with interprocedural parameter resolution; dominator-based guard check; AST effect classification of order-source loops",
      "DESIGN.md section 3 (E2, E3), section 4 (C11)")

check("C17", "other",
      "Structural necessary conditions decided statically for the plain graph: all rewrite/restriction variants translated with the documented edge/node kinds (equal to the sibling builder); operator labels fresh per occurrence; translation loops complete; Reversed forwards every edge field, flips endpoints and direction; no order-sensitive loop over gonum's map-backed iterators or Go maps, iterator-materialised slices sorted by a total comparator, ULIDs never reach DOT attributes or ordering comparisons, sorted private copy of types; PathExists returns the library reachability query on the looked-up nodes; an existing line is matched only after its kind and tupleset relation were compared; no argument or package-state writes.",
      _GRAPH_NOTE + " Path duality and cycle classification (gonum algorithms on run-time graphs) are NOT decided.",
      "AST effect classification of iterator/map loops; SSA entropy taint with DOT-attribute sinks; struct-field coverage of Reversed; may-point-to purity; sibling constant tables",
      "DESIGN.md section 3 (E1, E2, E3), section 4 (C17)")

check("C09", "other",
      "Grammar half decided for ALL token sequences on the parser automaton embedded in the Go package: at most one operator kind per unparenthesised level (abstract interpretation over rule automata), direct assignment leftmost on every level, non-empty restriction lists with type names, wildcard xor relation, exactly one header and EOF, container parameter types have exactly one scalar element type. Listener half: every insert into a declaration table is dominated by a lookup of the same key whose 'present' branch notifies; 'extend' misuse notified under exactly the stated condition; the collecting error listener is attached to lexer and parser, records on every path, the pre-pass hands the parser one cleaned line per input line (nothing is cut off), and any recorded error voids the result.",
      "Trusted: the ANTLR runtime rejects every input the automaton does not derive and delivers notifications to attached listeners; C19 ties the automaton to the .g4.",
      "observer products and abstract interpretation over per-rule DFAs of the decoded ATN; SSA dominator + access-path analysis of listener callbacks",
      "DESIGN.md section 3 (E8 R8.4, E5), section 4 (C09)")

check("C15", "other",
      "Decided on the enumerated paths of TransformModFile (SSA; unexported helpers, closures and package-level dispatch tables followed; a branch is taken one way only when its condition is a constant on the path): on every path on which an entry is appended to the contents, the stored value is V = ReplaceAll(QueryUnescape(node.Value), backslash, slash) (decode first, normalisation outermost) and the conditions taken before establish decode-error==nil, string tag, !Contains(V,'../'), !HasPrefix(V,'/'), HasSuffix(V,'.fga') on that very V; positions are 0 or Line-1/Column-1 of the one node whose value is reported or quoted; the schema is stored only on paths that compared the stored value equal to '1.2'; the manifest text reaches the YAML decoder unmodified; every path through one iteration of the contents loop reports exactly one error or accepts exactly once; no path that reports an error ends in the successful return. A fixed string lemma turns the guards into the stated safety of every returned path.",
      "Trusted: yaml.v3 position semantics (one-based, first character of the value); url.QueryUnescape / strings.* as documented. Which YAML documents the decoder accepts is not decided. Entry checks expressed as a table of predicates scanned with slices.IndexFunc are not unrolled (reported, DESIGN 11.7).",
      "path enumeration over SSA with interprocedural value tracing and path-sensitive constant propagation (no execution, no solver); per-path normalised condition facts with operand identity; constant/shape analysis of position expressions",
      "DESIGN.md section 3 (E6), section 4 (C15), section 11.2 (path explorer)")

check("C16", "other",
      "Structural necessary conditions decided statically: the ParseDSL pre-pass keeps line structure and prefixes (split on newline, one cleaned line per input line, only prefix-preserving operations, comment cut at the first ' #', join + trailing-newline trim only); SyntaxError stores line-1 and the column unconditionally and records on every path; listener-raised errors pass the start token of a name rule of the grammar; merge errors pair file, lines and the finder matching the conflict kind on the same symbol; the column is the first occurrence of the symbol on its line; line finders reject continuation by every name character of the lexer grammar (abstract evaluation over all bytes) and must be scoped.",
      "Trusted: ANTLR token positions refer to the stream it was given. One known finding (relation finder not scoped to its type) is listed in known-findings.json.",
      "typed-AST shape analysis of the pre-pass; SSA access-path analysis of error literals; abstract evaluation of the delimiter helper over the lexer grammar's name characters; grammar-derived name rules",
      "DESIGN.md section 3 (E9), section 4 (C16)")

check("C01", "other",
      "Structural necessary conditions of the round trip decided statically: producer/consumer agreement on protobuf oneofs between DSL listener and printer (a wrapper literal must carry the payload its consumers test); printer handles all six rewrite variants; operator printers are reachable only through the parenthesising sub-relation printer or the top level; literal/enum/operator spelling tables agree with the lexer grammar; condition expression stored and printed verbatim modulo surrounding whitespace; the printable-position predicate recurses exactly into difference base and first child of union/intersection.",
      "Identity of the composed function on every program is NOT decided (needs running parser and printer). Trusted: generated getters return the wrapper payload.",
      "go/types oneof universe + composite-literal/consumer contradiction check; call-graph who-may-call rule; constant-format shape analysis; SSA access-path recursion targets; grammar literal tables",
      "DESIGN.md section 3 (E1, E5), section 4 (C01)")

check("C02", "other",
      "Structural necessary conditions decided statically on the printer: relation text is returned only under occurrences()==0 or occurrences()==1 && isFirstPosition(own rewrite), every direct-assignment branch counts on one shared validator; recursion targets of the position predicate; all printer failures are the documented constructors; hoisting returns its argument or a fresh x[p]++x[:p]++x[p+1:]; operand loops complete; every part of a restriction is considered on every path; enum/literal tables in both directions; IsRelationAssignable handles all operator variants; a condition's expression is printed as stored; the printer does not write its input.",
      "Correctness of isFirstPosition as a predicate over all trees and re-parse equality are NOT decided. One known finding (TYPE_NAME_ANY has no DSL spelling) is listed in known-findings.json.",
      "SSA dominator/guard-shape analysis; slice-construction shape analysis; error-origin slicing; may-point-to purity; grammar literal tables",
      "DESIGN.md section 3 (E1, E5), section 4 (C02)")

check("C03", "other",
      "Structural necessary conditions decided statically: the pre-pass only blanks full-line comments, cuts at the first ' #', trims trailing blanks and keeps one line per line; the listener overrides real interface methods, reads every grammar label and consults every operator alternative; operand lists are never sub-slices sharing storage with a list in use; the rewrite stack is reset/pushed/popped exactly as the parentheses of the grammar; ParseExpression builds an operator node only on paths on which at least two operands are established (a single operand is handed back as it is); the embedded lexer/parser automata accept the identifier, whitespace, line-end and keyword-as-name shapes the property enumerates (membership evaluated on the automaton).",
      "That grammar plus callbacks compute the intended tree for every layout is NOT decided (needs running the parser).",
      "SSA shape analysis of the pre-pass; go/types method-set comparison; SSA slice-origin classification of operand-list stores; path enumeration of ParseExpression; automaton membership on the decoded ATN",
      "DESIGN.md section 3 (E9, E1, E8), section 4 (C03)")

check("C07", "other",
      "Structural necessary conditions decided on TransformModuleFilesToModel: no reachable may-panic instruction of the merger is left undischarged (same engine as C08); on every structured path through each merger loop exactly one thing happens to the item (one error, merged, or handed to an inner loop); the model is returned only with an empty error accumulator and every error return carries the nil model; every merge error is one of the five documented conflicts, raised under the documented dominating condition, and every documented conflict still has a site; an extension's relations are adopted wholesale only on paths that just found the base type itself without relations; every merge error names the file being processed and takes its position from that file's lines; every SourceInfo takes File from the file whose parse produced the object; the requested schema version is stored; the list a relation clash is tested against is rebuilt per item from the live map or accumulates accepted names; GetModuleForObjectTypeRelation has the three documented outcomes.",
      "NOT decided: the iff between success and conflict-freedom and the conservation clause ('none lost, none invented, rewrites unchanged') over all file sets - these are value arguments. Observed pre-existing behaviour outside the rules: a non-module file whose types have relations is accepted; a file that declares and extends the same type is rejected.",
      "SSA may-panic obligation discharge (E4); structured path enumeration over loop bodies; SSA dominating-condition analysis with access paths at error sites; typed-AST assignment classification",
      "DESIGN.md section 3 (E4, E5, E9), section 4 (C07)")

check("C08", "other",
      "Panic freedom of the repository's own code in packages transformer, utils, validation, errors: every may-panic SSA instruction (nil dereference, nil-map write, index/slice bounds, unchecked assertion, nil interface/function call, explicit panic) reachable from the public entry points including listener callbacks is enumerated and discharged by a positive rule (freshness/flow, parameter non-nil at all call sites, dominating nil test, library contracts, length/index facts, grammar-driven typestate of listener fields, balanced rewrite stack, container-element invariants); graph package: no possibly-nil pointer is converted to an interface (typed nil). Lexer: no configuration inside a recursive lexer rule is re-entered by one word with two different call-stack growths on pre-pass output (necessary for the quadratic bound). Syntax errors surface: collecting listener attached to lexer and parser, records on every path, any recorded error voids the result, decoder errors propagate on every path. Recursive tree walkers never hand the same unchanged node to the recursion twice on one path (no doubling of work per nesting level).",
      "NOT decided: nil dereferences/bounds inside the graph package beyond the typed-nil rule; termination and complexity in general (ANTLR prediction, regexp, yaml); panics inside third-party runtimes; well-foundedness of recursion. Known finding K2: form-feed runs make lexing cubic.",
      "SSA obligation enumeration with dominator/def-use discharge rules and call-site fixpoint; rule-invocation dominators on the decoded parser ATN for typestate; lockstep pair exploration of lexer ATN configurations; path-sensitive error propagation",
      "DESIGN.md section 3 (E4, E8 R8.6, E5), section 4 (C08)")

_PENDING = "static check not built yet in this round; see DESIGN.md section 4 for the planned clauses"
for _p in ["C01","C02","C03","C05","C06","C07","C08","C09","C10","C11","C12","C13","C14","C15","C16","C17","C18"]:
    if _p not in CHECKS:
        NOT_APPLICABLE[_p] = _PENDING
NOT_APPLICABLE["C04"] = ("Equates computed integers and map key sets with extrema over all walks of arbitrary graphs (fixpoints through interlocking cycles); "
                         "every clause is value arithmetic, no sound static abstraction is in reach, and a shape rule pinning the arithmetic would be a frozen fragment.")
