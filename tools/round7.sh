#!/bin/bash
# usage: round7.sh <property> — verifies /tmp/seed7/<P>.out/{1,2,3} as seeds <P>-19..21 (C18, C19: 16..18) and runs the check against each
P=$1; OFF=18; case $P in C18|C19) OFF=15;; esac; export VW=/tmp/vw-$P
for k in 1 2 3; do
  [ -f /tmp/seed7/$P.out/$k/patch.diff ] || continue
  n=$((k+OFF))
  python3 /verif/tools/verify_seed.py $P $n /tmp/seed7/$P.out/$k > /tmp/seed7/$P.verify.$n.log 2>&1
  if grep -q '"confirmed": true' /tmp/seed7/$P.verify.$n.log; then
    echo "== $P-$n confirmed"; COLS=260 /verif/tools/try.sh $P /verif/seeded/$P-$n/patch.diff 2>&1 | grep -E "FINDING|UNDECIDED|violations=|cannot" | head -4
  else echo "== $P-$n NOT confirmed"; tail -5 /tmp/seed7/$P.verify.$n.log; fi
done
git -C /repo worktree remove --force $VW 2>/dev/null
