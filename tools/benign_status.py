#!/usr/bin/env python3
"""Dev-time: runs every check against every confirmed harmless refactoring (/verif/benign/*) on scratch copies
and prints the (refactoring, check) pairs that are not silent. Usage: benign_status.py [benign-id-prefix ...]"""
import json, os, shutil, subprocess, sys, tempfile
from concurrent.futures import ThreadPoolExecutor
CHECKS = "C01 C02 C03 C05 C06 C07 C08 C09 C10 C11 C12 C13 C14 C15 C16 C17 C18 C19".split()
ENV = dict(os.environ, GOFLAGS="-mod=mod", GOPROXY="off", GOSUMDB="off", GOTOOLCHAIN="local"); ENV.pop("GOWORK", None)
def run(bid):
    tmp = tempfile.mkdtemp(prefix="verif-ben-")
    try:
        subprocess.run(f"cp -r /repo/. {tmp}/ && rm -rf {tmp}/.git", shell=True, check=True)
        if subprocess.run(["git", "apply", f"/verif/benign/{bid}/patch.diff"], cwd=tmp, capture_output=True).returncode != 0:
            return bid, {"apply": ["patch does not apply"]}
        os.makedirs(tmp + "/.out"); shutil.copy("/verif/known-findings.json", tmp + "/.out/")
        res = {}
        for c in CHECKS:
            p = subprocess.run([os.environ.get("VERIF_BIN", "/verif/bin/verif"), "check", c], env=dict(ENV, VERIF_REPO=tmp, VERIF_DIR=tmp + "/.out"), capture_output=True, text=True)
            if p.returncode != 0:
                res[c] = [l.strip()[:230] for l in p.stdout.splitlines() if l.startswith("  FINDING") or l.startswith("  UNDECIDED") or "BROKEN" in l][:4]
        return bid, res
    finally:
        shutil.rmtree(tmp, ignore_errors=True)
ids = sorted(os.listdir("/verif/benign"))
if len(sys.argv) > 1:
    ids = [i for i in ids if any(i.startswith(a) for a in sys.argv[1:])]
with ThreadPoolExecutor(max_workers=int(os.environ.get("PAR", "5"))) as ex:
    out = list(ex.map(run, ids))
bad = 0
for bid, res in out:
    if res:
        bad += 1
        print(f"== {bid}: " + " ".join(sorted(res)))
        if os.environ.get("V"):
            for c, ls in sorted(res.items()):
                for l in ls: print(f"     [{c}] {l}")
print(f"{len(out)} refactorings, {bad} with at least one alarm")
json.dump({b: r for b, r in out}, open("/verif/triage/benign-status.json", "w"), indent=1)
