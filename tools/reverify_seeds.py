#!/usr/bin/env python3
"""Dev-time: after a fix: commit in /repo, re-confirms every seeded change against the new HEAD: the patch applies, the
library builds, the demonstration PASSES on the clean tree and FAILS with the patch. (The full suite is not re-run here.)
Usage: reverify_seeds.py [id-prefix ...]   env PAR"""
import json, os, re, shutil, subprocess, sys, tempfile
from concurrent.futures import ThreadPoolExecutor
ENV = dict(os.environ, GOFLAGS="-mod=mod", GOPROXY="off", GOSUMDB="off", GOTOOLCHAIN="local"); ENV.pop("GOWORK", None)
ids = sorted(os.listdir("/verif/seeded"))
if len(sys.argv) > 1:
    ids = [i for i in ids if any(i.startswith(a) for a in sys.argv[1:])]
def run(vid):
    d = f"/verif/seeded/{vid}"
    demo = d + "/demo_test.go"
    if not os.path.exists(demo):
        return vid, "no-demo"
    meta = json.load(open(d + "/meta.json"))
    ran = " ".join(meta.get("confirmed_by_me", {}).get("ran", []))
    m = re.search(r"copy demo_test.go to (\S+)/ and: (go test .*?) 2>&1", ran)
    if not m:
        return vid, "no-cmd"
    pkgdir, cmd = m.group(1), m.group(2)
    tmp = tempfile.mkdtemp(prefix="verif-rv-")
    try:
        subprocess.run(f"cp -r /repo/. {tmp}/ && rm -rf {tmp}/.git", shell=True, check=True)
        shutil.copy(demo, f"{tmp}/{pkgdir}/zz_seed_demo_test.go")
        clean = subprocess.run(cmd + " 2>&1 | tail -15", shell=True, cwd=tmp + "/pkg/go", env=ENV, capture_output=True, text=True).stdout
        if subprocess.run(["git", "apply", d + "/patch.diff"], cwd=tmp, capture_output=True).returncode != 0:
            return vid, "no-apply"
        b = subprocess.run("go build ./...", shell=True, cwd=tmp + "/pkg/go", env=ENV, capture_output=True, text=True)
        if b.returncode != 0:
            return vid, "no-build"
        pat = subprocess.run(cmd + " 2>&1 | tail -15", shell=True, cwd=tmp + "/pkg/go", env=ENV, capture_output=True, text=True).stdout
        cp = "FAIL" not in clean and "panic" not in clean and re.search(r"^ok\s", clean, re.M)
        pf = "FAIL" in pat or "panic" in pat
        return vid, "ok" if cp and pf else f"clean-passes={bool(cp)} patched-fails={pf} :: {clean[-200:] if not cp else pat[-200:]}"
    finally:
        shutil.rmtree(tmp, ignore_errors=True)
with ThreadPoolExecutor(max_workers=int(os.environ.get("PAR", "8"))) as ex:
    bad = 0
    for vid, res in ex.map(run, ids):
        if res != "ok":
            bad += 1
            print(vid, res, flush=True)
print(len(ids), "seeds,", bad, "not re-confirmed")
