#!/usr/bin/env python3
"""Dev-time tool: freezes /verif/sa/internal/selftest/catalogue.json (embedded into the binary) from
  - the survey mutants that survive the test suite (/verif/triage/mutant-survey.json),
  - the confirmed seeded changes (/verif/seeded/*/patch.diff),
  - the reverts of the fix: commits listed in known-findings.json (git show <commit>, applied with -R),
  - the harmless refactorings (/verif/benign/*/patch.diff), expected silent.
Expectations default to 'caught' ('silent' for benign); 'accepted-miss' / 'accepted-alarm' are documented limits and are overridden by EXPECT below, one reason each."""
import json, os, re, subprocess

EXPECT = {
    # id: (expectation, reason)
    "seeded-C05-2": ("accepted-miss", "changes value arithmetic of the weight computation only"),
    "seeded-C05-4": ("accepted-miss", "suppresses the propagation of a pending tuple cycle inside calculateEdgeWeight: value logic of the cycle bookkeeping"),
    "seeded-C17-10": ("accepted-miss", "the existence test for a tuple-to-userset target reads the metadata map instead of the relation map: which map is consulted is value logic (C05 reports the same patch through the order rule)"),
    "seeded-C14-5": ("accepted-miss", "changes which models count as modular (any → all): a predicate over the model, no structural clause"),
    "seeded-C14-18": ("accepted-miss", "the scan that decides whether a model is modular gives up at the first type without metadata: which models count as modular is a predicate over the model (as C14-5), no structural clause"),
    "seeded-C06-17": ("accepted-miss", "typeAndRelationExists looks at the first type definition of a name only: differs only for models that declare one type twice, which the property's domain (a model maps names to definitions) excludes; no structural clause"),
    "benign-C15-12": ("accepted-alarm", "the entry checks become a package-level table of predicates scanned with slices.IndexFunc; the C15 rules read the conditions on the enumerated paths and do not unroll a table of function values, so the guards are not seen (DESIGN 11.7)"),
    "survey-C08-noguard-recurse": ("silent", "negative control: the removed guard is redundant under the grammar typestate"),
    "survey-C17-reversed-shares-ids": ("silent", "negative control: ids are immutable strings, sharing them is unobservable"),
    "survey-C17-upsert-plain-nonorm": ("silent", "negative control: behaviour-preserving"),
}
EXPECT.update(json.load(open('/verif/tools/catalogue_overrides.json')) if os.path.exists('/verif/tools/catalogue_overrides.json') else {})

def main():
    out = []
    for m in json.load(open('/verif/triage/mutant-survey.json')):
        if m['status'] != 'SURVIVES':
            continue
        out.append(dict(id='survey-' + m['id'], property=m['id'].split('-')[0], kind='replace', file='pkg/go/' + m['file'], find=m['find'], replace=m['replace']))
    for d in sorted(os.listdir('/verif/seeded')):
        meta = json.load(open(f'/verif/seeded/{d}/meta.json'))
        out.append(dict(id='seeded-' + d, property=meta['property'], kind='patch', patch=open(f'/verif/seeded/{d}/patch.diff').read(), note=meta.get('summary', '')[:300]))
    for line in json.load(open('/verif/known-findings.json'))['fixed']:
        m = re.match(r'fixed: property=(C\d+) (\w+) (.*)', line)
        diff = subprocess.run(['git', '-C', '/repo', 'show', '--format=', m.group(2)], capture_output=True, text=True, check=True).stdout
        out.append(dict(id='revert-' + m.group(2), property=m.group(1), kind='revert', patch=diff, note=m.group(3)[:300]))
    if os.path.isdir('/verif/benign'):
        for d in sorted(os.listdir('/verif/benign')):
            meta = json.load(open(f'/verif/benign/{d}/meta.json'))
            out.append(dict(id='benign-' + d, property=meta['property'], kind='patch', patch=open(f'/verif/benign/{d}/patch.diff').read(), expect='silent', note=meta.get('summary', '')[:300]))
    for v in out:
        v.setdefault('expect', 'caught')
        if v['id'] in EXPECT:
            e = EXPECT[v['id']]
            v['expect'] = e[0]
            v['note'] = (v.get('note', '') + ' | ' + e[1]).strip(' |')
    json.dump(out, open('/verif/sa/internal/selftest/catalogue.json', 'w'), indent=1)
    from collections import Counter
    print(len(out), Counter(v['expect'] for v in out))

main()
