#!/usr/bin/env python3
"""Dev-time: runs EVERY check (one process per variant, `verif checkall`) against every confirmed variant of a corpus
(/verif/seeded/* or /verif/benign/*) on scratch copies of /repo and writes the matrix to /verif/triage/<corpus>-cross.json.
For a seeded change of property X the interesting cells are X itself (must alarm) and every other check that alarms
(is that property really broken by the change, or is it a cross-property false alarm?).
Usage: cross_status.py seeded|benign [id-prefix ...]     env: PAR (default 6), VERIF_BIN"""
import json, os, re, shutil, subprocess, sys, tempfile
from concurrent.futures import ThreadPoolExecutor
ENV = dict(os.environ, GOFLAGS="-mod=mod", GOPROXY="off", GOSUMDB="off", GOTOOLCHAIN="local"); ENV.pop("GOWORK", None)
corpus = sys.argv[1]
BIN = os.environ.get("VERIF_BIN", "/verif/bin/verif")
def run(vid):
    tmp = tempfile.mkdtemp(prefix="verif-x-")
    try:
        subprocess.run(f"cp -r /repo/. {tmp}/ && rm -rf {tmp}/.git", shell=True, check=True)
        if subprocess.run(["git", "apply", f"/verif/{corpus}/{vid}/patch.diff"], cwd=tmp, capture_output=True).returncode != 0:
            return vid, {"apply": ["patch does not apply"]}
        os.makedirs(tmp + "/.out"); shutil.copy("/verif/known-findings.json", tmp + "/.out/")
        p = subprocess.run([BIN, "checkall"] + os.environ.get("CHECKS", "").split(), env=dict(ENV, VERIF_REPO=tmp, VERIF_DIR=tmp + "/.out"), capture_output=True, text=True)
        res, cur = {}, []
        for l in p.stdout.splitlines():
            m = re.match(r"== (C\d\d) exit=(\d+)", l)
            if m:
                if m.group(2) != "0":
                    res[m.group(1)] = cur[:5] or ["exit=" + m.group(2)]
                cur = []
            elif l.startswith("  FINDING") or l.startswith("  UNDECIDED") or "BROKEN" in l:
                cur.append(l.strip()[:260])
        if not re.search(r"== %s exit=" % (os.environ.get("CHECKS", "C19").split()[-1]), p.stdout):
            res["crash"] = [(p.stderr or p.stdout)[-300:]]
        return vid, res
    finally:
        shutil.rmtree(tmp, ignore_errors=True)
ids = sorted(os.listdir(f"/verif/{corpus}"))
if len(sys.argv) > 2:
    ids = [i for i in ids if any(i.startswith(a) for a in sys.argv[2:])]
with ThreadPoolExecutor(max_workers=int(os.environ.get("PAR", "6"))) as ex:
    out = list(ex.map(run, ids))
path = f"/verif/triage/{corpus}-cross.json" if not os.environ.get("CHECKS") else f"/tmp/{corpus}-cross-partial.json"
old = json.load(open(path)) if os.path.exists(path) and len(sys.argv) > 2 else {}
old.update({b: r for b, r in out})
json.dump(old, open(path, "w"), indent=1, sort_keys=True)
own_miss, cross = 0, 0
for vid, res in out:
    own = vid.split("-")[0]
    others = sorted(c for c in res if c != own)
    if corpus == "seeded" and own not in res:
        own_miss += 1
    if others:
        cross += 1
    print(f"{vid}: own={'ALARM' if own in res else 'silent'} others={' '.join(others)}")
print(f"{len(out)} variants; own check silent on {own_miss}; {cross} with an alarm of another check")
