#!/usr/bin/env python3
"""Generates /verif/MANIFEST.json from the table below (kept in one place so that the manifest is
always valid and in step with the checks that exist)."""
import json, os, sys

ENV = "GOFLAGS=-mod=mod GOPROXY=off GOSUMDB=off GOTOOLCHAIN=local GOWORK=off"

# id -> (level, level text, level note, technique, design ref)
CHECKS = {}
NOT_APPLICABLE = {}

def check(pid, level, text, note, technique, ref):
    CHECKS[pid] = dict(level=level, text=text, note=note, technique=technique, ref=ref)

exec(open(os.path.join(os.path.dirname(__file__), "manifest_table.py")).read())

def main():
    checks = []
    for pid in sorted(CHECKS):
        c = CHECKS[pid]
        checks.append({
            "property_id": pid,
            "quick_cmd": f"/verif/bin/verif check {pid} --tier quick",
            "thorough_cmd": f"/verif/bin/verif check {pid} --tier thorough",
            "evidence_file": f"/verif/evidence/{pid}.json",
            "replay_cmd_template": "cat {path}; /verif/bin/verif check " + pid + " --tier quick",
            "engine": "verif-sa",
            "level_claimed": {"category": c["level"], "text": c["text"], "design_ref": c["ref"]},
            "level_note": c["note"],
            "technique": c["technique"],
        })
    m = {
        "version": 1,
        "setup_cmd": f"cd /verif/sa && {ENV} go build -o /verif/bin/verif ./cmd/verif",
        "hooks": {
            "guard": "verif",
            "enable": "go build tag `verif` (the loader passes -tags=verif); no hook exists, static analysis needs none",
            "baseline_off_cmd": f"cd /repo/pkg/go && {ENV} go test -vet=off -count=1 ./...",
            "source_commits": [],
            "add_only": True,
        },
        "engines": [{
            "name": "verif-sa",
            "path": "/verif/sa",
            "serves_properties": sorted(CHECKS),
            "kind_free_text": "repository-specific static analyser (go/packages + go/types + go/ssa + own grammar/ATN/automata kit); never executes repository code",
        }],
        "checks": checks,
        "notes": "Static analysis only. Every check parses and type-checks /repo's working tree on each run; findings are keyed by rule+construct; known findings in /verif/known-findings.json.",
        "not_applicable": [{"property_id": k, "reason": v} for k, v in sorted(NOT_APPLICABLE.items())],
    }
    json.dump(m, open("/verif/MANIFEST.json", "w"), indent=1)
    print("wrote MANIFEST.json with", len(checks), "checks,", len(NOT_APPLICABLE), "not applicable")

main()
