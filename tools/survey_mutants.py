#!/usr/bin/env python3
"""Dev-time tool: runs every candidate mutant (survey survivors + seeded patches + fix reverts) against the
check of its property on a scratch copy of /repo and writes /verif/sa/mutants/catalogue.json with the observed outcome."""
import json, os, re, shutil, subprocess, sys, tempfile
from concurrent.futures import ThreadPoolExecutor

ENV = dict(os.environ, GOFLAGS="-mod=mod", GOPROXY="off", GOSUMDB="off", GOTOOLCHAIN="local")
ENV.pop("GOWORK", None)

def sh(cmd, cwd=None, env=None):
    p = subprocess.run(cmd, shell=True, cwd=cwd, env=env or ENV, capture_output=True, text=True)
    return p.returncode, p.stdout + p.stderr

def candidates():
    out = []
    for m in json.load(open('/verif/triage/mutant-survey.json')):
        if m['status'] != 'SURVIVES':
            continue
        prop = m['id'].split('-')[0]
        out.append(dict(id='survey-' + m['id'], property=prop, kind='replace', file='pkg/go/' + m['file'], find=m['find'], replace=m['replace']))
    for d in sorted(os.listdir('/verif/seeded')):
        meta = json.load(open(f'/verif/seeded/{d}/meta.json'))
        out.append(dict(id='seeded-' + d, property=meta['property'], kind='patch', patch=f'seeded/{d}/patch.diff', note=meta.get('summary', '')[:200]))
    for line in json.load(open('/verif/known-findings.json'))['fixed']:
        m = re.match(r'fixed: property=(C\d+) (\w+) (.*)', line)
        out.append(dict(id='revert-' + m.group(2), property=m.group(1), kind='revert', commit=m.group(2), note=m.group(3)[:200]))
    return out

def run(m):
    tmp = tempfile.mkdtemp(prefix='verif-mut-')
    try:
        sh(f"cp -r /repo/. {tmp}/ && rm -rf {tmp}/.git")
        if m['kind'] == 'replace':
            p = os.path.join(tmp, m['file'])
            s = open(p).read()
            if m['find'] not in s:
                return 'not-applicable', 'find text no longer present'
            open(p, 'w').write(s.replace(m['find'], m['replace'], 1))
        elif m['kind'] == 'patch':
            rc, out = sh(f"git apply /verif/{m['patch']}", cwd=tmp)
            if rc != 0:
                return 'not-applicable', out[-200:]
        else:
            rc, out = sh(f"git -C /repo show {m['commit']} | git apply -R", cwd=tmp)
            if rc != 0:
                return 'not-applicable', out[-200:]
        rc, out = sh("go build ./...", cwd=tmp + "/pkg/go")
        if rc != 0:
            return 'no-compile', out[-200:]
        os.makedirs(tmp + '/.out', exist_ok=True)
        shutil.copy('/verif/known-findings.json', tmp + '/.out/')
        env = dict(ENV, VERIF_REPO=tmp, VERIF_DIR=tmp + '/.out')
        results = {}
        props = [m['property']] + [p for p in sys.argv[1:] if p != m['property']]
        for prop in props:
            rc, out = sh(f"/verif/bin/verif check {prop} --tier quick", env=env)
            lines = [l.strip() for l in out.splitlines() if l.startswith('  FINDING') or l.startswith('  UNDECIDED')]
            results[prop] = (rc, lines[:2])
        rc, lines = results[m['property']]
        return ('caught' if rc == 1 else ('missed' if rc == 0 else 'checker-error')), (lines[0][:230] if lines else '')
    finally:
        shutil.rmtree(tmp, ignore_errors=True)

def main():
    cands = candidates()
    with ThreadPoolExecutor(max_workers=6) as ex:
        outs = list(ex.map(run, cands))
    cat = []
    for m, (status, detail) in zip(cands, outs):
        m = dict(m); m['observed'] = status; m['first_report'] = detail
        cat.append(m)
        print(f"{status:15s} {m['id']:45s} {detail[:150]}")
    os.makedirs('/verif/sa/mutants', exist_ok=True)
    json.dump(cat, open('/verif/sa/mutants/survey-result.json', 'w'), indent=1)
    from collections import Counter
    print(Counter(c['observed'] for c in cat))

main()
