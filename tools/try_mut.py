#!/usr/bin/env python3
"""Dev-time: applies one mutant of /tmp/mutants.jsonl (by id prefix) to a scratch copy and runs the given checks. Usage: try_mut.py <id> <check>..."""
import json, os, subprocess, sys, tempfile, shutil
ENV = dict(os.environ, GOFLAGS="-mod=mod", GOPROXY="off", GOSUMDB="off", GOTOOLCHAIN="local"); ENV.pop("GOWORK", None)
ms = [json.loads(l) for l in open(os.environ.get("MUTANTS", "/tmp/mutants.jsonl"))]
m = [x for x in ms if x["id"].startswith(sys.argv[1])][0]
tmp = tempfile.mkdtemp(prefix="verif-tm-")
subprocess.run(f"cp -r /repo/. {tmp}/ && rm -rf {tmp}/.git", shell=True, check=True)
path = f"{tmp}/pkg/go/{m['file']}"
src = open(path, "rb").read()
open(path, "wb").write(src[:m["start"]] + m["new"].encode() + src[m["end"]:])
os.makedirs(tmp + "/.out"); shutil.copy("/verif/known-findings.json", tmp + "/.out/")
print("##", m["id"], m["func"], repr(m["old"][:60]), "=>", repr(m["new"][:30]))
for c in sys.argv[2:]:
    p = subprocess.run([os.environ.get("VERIF_BIN", "/verif/bin/verif-dev"), "check", c], env=dict(ENV, VERIF_REPO=tmp, VERIF_DIR=tmp + "/.out"), capture_output=True, text=True)
    for l in p.stdout.splitlines():
        if l.startswith("  FINDING") or l.startswith("  UNDECIDED") or "violations=" in l:
            print("  ", l.strip()[:int(os.environ.get("COLS", "260"))])
shutil.rmtree(tmp, ignore_errors=True)
