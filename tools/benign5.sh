#!/bin/bash
# usage: benign5.sh <property> — confirms /tmp/ben5/<P>.out/{1..4} (applies, builds, suite passes), files them under
# /verif/benign/<P>-<n>/ (numbered after the existing ones) and runs EVERY check (verif checkall) against each.
P=$1; WT=/tmp/vwb-$P; SRC=${SRC:-/tmp/ben5}
export GOFLAGS=-mod=mod GOPROXY=off GOSUMDB=off GOTOOLCHAIN=local; unset GOWORK
OFF=${OFF:-$(ls /verif/benign | grep -c "^$P-")}
[ -d $WT ] || git -C /repo worktree add --detach $WT HEAD >/dev/null 2>&1
for k in 1 2 3 4; do
  src=$SRC/$P.out/$k; n=$((k+OFF))
  [ -f $src/patch.diff ] || continue
  git -C $WT checkout -q --detach $(git -C /repo rev-parse HEAD); git -C $WT checkout -- . ; git -C $WT clean -fdq
  if ! git -C $WT apply $src/patch.diff 2>/dev/null; then echo "== $P-$n does not apply"; continue; fi
  if ! (cd $WT/pkg/go && go build ./... && go test -vet=off -count=1 ./... >/tmp/suite.$P.$k.log 2>&1); then echo "== $P-$n build or suite FAILS"; continue; fi
  mkdir -p /verif/benign/$P-$n; cp $src/patch.diff $src/meta.json /verif/benign/$P-$n/
  out=/tmp/vtest-b-$P; mkdir -p $out; cp /verif/known-findings.json $out/
  echo "== $P-$n confirmed (suite passes)"
  VERIF_REPO=$WT VERIF_DIR=$out ${VERIF_BIN:-/verif/bin/verif} checkall 2>&1 | awk '/^  (FINDING|UNDECIDED)|BROKEN/{buf=buf "\n      " substr($0,1,400)} /^== C[0-9][0-9] exit=/{ if ($3!="exit=0") print "   NOT SILENT: " $2 buf; buf=""}'
done
git -C $WT checkout -- . 2>/dev/null; git -C /repo worktree remove --force $WT 2>/dev/null; rm -rf /tmp/vtest-b-$P
