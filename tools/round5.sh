#!/bin/bash
# usage: round5.sh <property> — verifies /tmp/seed5/<P>.out/{1,2,3} as seeds <P>-10..12 and runs the check against each
P=$1; export VW=/tmp/vw-$P
for k in 1 2 3; do
  [ -f /tmp/seed5/$P.out/$k/patch.diff ] || continue
  n=$((k+12))
  python3 /verif/tools/verify_seed.py $P $n /tmp/seed5/$P.out/$k > /tmp/seed5/$P.verify.$n.log 2>&1
  if grep -q '"confirmed": true' /tmp/seed5/$P.verify.$n.log; then
    echo "== $P-$n confirmed"; COLS=260 /verif/tools/try.sh $P /verif/seeded/$P-$n/patch.diff 2>&1 | grep -E "FINDING|UNDECIDED|violations=|cannot" | head -4
  else echo "== $P-$n NOT confirmed"; tail -5 /tmp/seed5/$P.verify.$n.log; fi
done
git -C /repo worktree remove --force $VW 2>/dev/null
