// Command mutgen (dev-time) enumerates single-edit mutants of the non-test, non-generated Go sources of /repo/pkg/go
// as byte-range replacements (JSON lines on stdout). It only reads the sources; applying and judging the mutants is
// done by tools/mutation_survey.py on scratch copies.
package main

import (
	"encoding/json"
	"fmt"
	"go/ast"
	"go/parser"
	"go/token"
	"os"
	"path/filepath"
	"strings"
)

type mutant struct {
	ID    string `json:"id"`
	File  string `json:"file"`
	Line  int    `json:"line"`
	Func  string `json:"func"`
	Kind  string `json:"kind"`
	Start int    `json:"start"`
	End   int    `json:"end"`
	Old   string `json:"old"`
	New   string `json:"new"`
}

func main() {
	root := "/repo/pkg/go"
	if len(os.Args) > 1 {
		root = os.Args[1]
	}
	var out []mutant
	for _, dir := range []string{"transformer", "graph", "utils", "validation", "errors"} {
		files, _ := filepath.Glob(filepath.Join(root, dir, "*.go"))
		for _, path := range files {
			if strings.HasSuffix(path, "_test.go") {
				continue
			}
			src, err := os.ReadFile(path)
			if err != nil {
				panic(err)
			}
			fset := token.NewFileSet()
			f, err := parser.ParseFile(fset, path, src, 0)
			if err != nil {
				panic(err)
			}
			rel, _ := filepath.Rel(root, path)
			off := func(p token.Pos) int { return fset.Position(p).Offset }
			add := func(fn, kind string, s, e token.Pos, repl string) {
				m := mutant{File: rel, Line: fset.Position(s).Line, Func: fn, Kind: kind, Start: off(s), End: off(e), Old: string(src[off(s):off(e)]), New: repl}
				m.ID = fmt.Sprintf("%s:%d:%s:%d", strings.TrimSuffix(filepath.Base(rel), ".go"), m.Line, kind, len(out))
				out = append(out, m)
			}
			for _, d := range f.Decls {
				fd, ok := d.(*ast.FuncDecl)
				if !ok || fd.Body == nil {
					continue
				}
				fn := fd.Name.Name
				ast.Inspect(fd.Body, func(n ast.Node) bool {
					set2 := os.Getenv("MUTGEN_SET") == "2"
					switch x := n.(type) {
					case *ast.IfStmt:
						if set2 {
							return true
						}
						add(fn, "cond-neg", x.Cond.Pos(), x.Cond.End(), "!("+string(src[off(x.Cond.Pos()):off(x.Cond.End())])+")")
						// a guard that only returns / continues: delete it
						if x.Else == nil && x.Init == nil && len(x.Body.List) == 1 {
							switch x.Body.List[0].(type) {
							case *ast.ReturnStmt, *ast.BranchStmt:
								add(fn, "guard-del", x.Pos(), x.End(), "")
							}
						}
					case *ast.BinaryExpr:
						if set2 {
							return true
						}
						swap := map[token.Token]string{token.EQL: "!=", token.NEQ: "==", token.LSS: "<=", token.LEQ: "<", token.GTR: ">=", token.GEQ: ">", token.LAND: "||", token.LOR: "&&"}
						if r, ok := swap[x.Op]; ok {
							add(fn, "binop", x.OpPos, x.OpPos+token.Pos(len(x.Op.String())), r)
						}
						if x.Op == token.ADD || x.Op == token.SUB {
							if bl, ok := x.Y.(*ast.BasicLit); ok && bl.Kind == token.INT {
								r := "-"
								if x.Op == token.SUB {
									r = "+"
								}
								add(fn, "arith", x.OpPos, x.OpPos+1, r)
							}
						}
					case *ast.BasicLit:
						if set2 {
							return true
						}
						if x.Kind == token.INT && (x.Value == "0" || x.Value == "1" || x.Value == "2") {
							add(fn, "const", x.Pos(), x.End(), map[string]string{"0": "1", "1": "0", "2": "1"}[x.Value])
						}
					case *ast.SelectorExpr:
						if os.Getenv("MUTGEN_SET") == "2" {
							swapSel := map[string]string{"from": "to", "to": "from", "GetBase": "GetSubtract", "GetSubtract": "GetBase", "GetUnion": "GetIntersection", "GetIntersection": "GetUnion",
								"Line": "Column", "Column": "Line", "Start": "End", "End": "Start", "GetModule": "GetFile", "wildcards": "conditions"}
							if r, ok := swapSel[x.Sel.Name]; ok {
								add(fn, "selector", x.Sel.Pos(), x.Sel.End(), r)
							}
						}
					case *ast.CallExpr:
						if os.Getenv("MUTGEN_SET") == "2" && len(x.Args) >= 2 {
							// swap the first two arguments when they are spelled as plain identifiers / selectors (type errors do not compile and are dropped)
							a0, a1 := string(src[off(x.Args[0].Pos()):off(x.Args[0].End())]), string(src[off(x.Args[1].Pos()):off(x.Args[1].End())])
							if a0 != a1 && !strings.ContainsAny(a0+a1, "\"`\n") {
								add(fn, "arg-swap", x.Args[0].Pos(), x.Args[1].End(), a1+", "+a0)
							}
						}
					case *ast.Ident:
						if os.Getenv("MUTGEN_SET") == "2" {
							groups := [][]string{{"DirectEdge", "RewriteEdge", "TTUEdge", "ComputedEdge"}, {"SpecificType", "SpecificTypeAndRelation", "OperatorNode", "SpecificTypeWildcard"},
								{"UnionOperator", "IntersectionOperator", "ExclusionOperator"}, {"ErrModelCycle", "ErrTupleCycle", "ErrInvalidModel"}, {"Infinite", "0"}}
							for _, g := range groups {
								for i, n := range g {
									if x.Name == n {
										add(fn, "enum", x.Pos(), x.End(), g[(i+1)%len(g)])
									}
								}
							}
							return true
						}
						if x.Name == "true" {
							add(fn, "bool", x.Pos(), x.End(), "false")
						} else if x.Name == "false" {
							add(fn, "bool", x.Pos(), x.End(), "true")
						}
					case *ast.BranchStmt:
						if set2 {
							return true
						}
						if x.Tok == token.CONTINUE && x.Label == nil {
							add(fn, "branch", x.Pos(), x.End(), "break")
						} else if x.Tok == token.BREAK && x.Label == nil {
							add(fn, "branch", x.Pos(), x.End(), "continue")
						}
					case *ast.ExprStmt:
						if set2 {
							return true
						}
						if _, ok := x.X.(*ast.CallExpr); ok {
							add(fn, "call-del", x.Pos(), x.End(), "")
						}
					case *ast.AssignStmt:
						if set2 {
							return true
						}
						if x.Tok == token.ASSIGN {
							add(fn, "assign-del", x.Pos(), x.End(), "")
						}
					case *ast.UnaryExpr:
						if set2 {
							return true
						}
						if x.Op == token.NOT {
							add(fn, "not-del", x.OpPos, x.OpPos+1, "")
						}
					}
					return true
				})
			}
		}
	}
	enc := json.NewEncoder(os.Stdout)
	for _, m := range out {
		_ = enc.Encode(m)
	}
}
