// Command mutgen (dev-time) enumerates single-edit mutants of the non-test, non-generated Go sources of /repo/pkg/go
// as byte-range replacements (JSON lines on stdout). It only reads the sources; applying and judging the mutants is
// done by tools/mutation_survey.py on scratch copies.
package main

import (
	"encoding/json"
	"fmt"
	"go/ast"
	"go/parser"
	"go/token"
	"os"
	"path/filepath"
	"strings"
)

type mutant struct {
	ID    string `json:"id"`
	File  string `json:"file"`
	Line  int    `json:"line"`
	Func  string `json:"func"`
	Kind  string `json:"kind"`
	Start int    `json:"start"`
	End   int    `json:"end"`
	Old   string `json:"old"`
	New   string `json:"new"`
}

func main() {
	root := "/repo/pkg/go"
	if len(os.Args) > 1 {
		root = os.Args[1]
	}
	var out []mutant
	for _, dir := range []string{"transformer", "graph", "utils", "validation", "errors"} {
		files, _ := filepath.Glob(filepath.Join(root, dir, "*.go"))
		for _, path := range files {
			if strings.HasSuffix(path, "_test.go") {
				continue
			}
			src, err := os.ReadFile(path)
			if err != nil {
				panic(err)
			}
			fset := token.NewFileSet()
			f, err := parser.ParseFile(fset, path, src, 0)
			if err != nil {
				panic(err)
			}
			rel, _ := filepath.Rel(root, path)
			off := func(p token.Pos) int { return fset.Position(p).Offset }
			add := func(fn, kind string, s, e token.Pos, repl string) {
				m := mutant{File: rel, Line: fset.Position(s).Line, Func: fn, Kind: kind, Start: off(s), End: off(e), Old: string(src[off(s):off(e)]), New: repl}
				m.ID = fmt.Sprintf("%s:%d:%s:%d", strings.TrimSuffix(filepath.Base(rel), ".go"), m.Line, kind, len(out))
				out = append(out, m)
			}
			for _, d := range f.Decls {
				fd, ok := d.(*ast.FuncDecl)
				if !ok || fd.Body == nil {
					continue
				}
				fn := fd.Name.Name
				ast.Inspect(fd.Body, func(n ast.Node) bool {
					switch x := n.(type) {
					case *ast.IfStmt:
						add(fn, "cond-neg", x.Cond.Pos(), x.Cond.End(), "!("+string(src[off(x.Cond.Pos()):off(x.Cond.End())])+")")
						// a guard that only returns / continues: delete it
						if x.Else == nil && x.Init == nil && len(x.Body.List) == 1 {
							switch x.Body.List[0].(type) {
							case *ast.ReturnStmt, *ast.BranchStmt:
								add(fn, "guard-del", x.Pos(), x.End(), "")
							}
						}
					case *ast.BinaryExpr:
						swap := map[token.Token]string{token.EQL: "!=", token.NEQ: "==", token.LSS: "<=", token.LEQ: "<", token.GTR: ">=", token.GEQ: ">", token.LAND: "||", token.LOR: "&&"}
						if r, ok := swap[x.Op]; ok {
							add(fn, "binop", x.OpPos, x.OpPos+token.Pos(len(x.Op.String())), r)
						}
						if x.Op == token.ADD || x.Op == token.SUB {
							if bl, ok := x.Y.(*ast.BasicLit); ok && bl.Kind == token.INT {
								r := "-"
								if x.Op == token.SUB {
									r = "+"
								}
								add(fn, "arith", x.OpPos, x.OpPos+1, r)
							}
						}
					case *ast.BasicLit:
						if x.Kind == token.INT && (x.Value == "0" || x.Value == "1" || x.Value == "2") {
							add(fn, "const", x.Pos(), x.End(), map[string]string{"0": "1", "1": "0", "2": "1"}[x.Value])
						}
					case *ast.Ident:
						if x.Name == "true" {
							add(fn, "bool", x.Pos(), x.End(), "false")
						} else if x.Name == "false" {
							add(fn, "bool", x.Pos(), x.End(), "true")
						}
					case *ast.BranchStmt:
						if x.Tok == token.CONTINUE && x.Label == nil {
							add(fn, "branch", x.Pos(), x.End(), "break")
						} else if x.Tok == token.BREAK && x.Label == nil {
							add(fn, "branch", x.Pos(), x.End(), "continue")
						}
					case *ast.ExprStmt:
						if _, ok := x.X.(*ast.CallExpr); ok {
							add(fn, "call-del", x.Pos(), x.End(), "")
						}
					case *ast.AssignStmt:
						if x.Tok == token.ASSIGN {
							add(fn, "assign-del", x.Pos(), x.End(), "")
						}
					case *ast.UnaryExpr:
						if x.Op == token.NOT {
							add(fn, "not-del", x.OpPos, x.OpPos+1, "")
						}
					}
					return true
				})
			}
		}
	}
	enc := json.NewEncoder(os.Stdout)
	for _, m := range out {
		_ = enc.Encode(m)
	}
}
