// Command pathxdump is a development aid: it enumerates the paths of one function of the repository with the
// path explorer and prints their number, ends and (optionally) the facts and calls of the first paths.
// usage: pathxdump <pkg> <func | Type.method> [n]
package main

import (
	"fmt"
	"os"
	"strconv"
	"strings"
	"time"

	"golang.org/x/tools/go/ssa"

	"verif/sa/internal/load"
	"verif/sa/internal/pathx"
)

func main() {
	if len(os.Args) < 3 {
		fmt.Fprintln(os.Stderr, "usage: pathxdump <pkg> <func|Type.method> [n]")
		os.Exit(2)
	}
	p, err := load.Load(true)
	if err != nil {
		fmt.Fprintln(os.Stderr, err)
		os.Exit(1)
	}
	var fn *ssa.Function
	if i := strings.Index(os.Args[2], "."); i > 0 {
		fn = p.Method(os.Args[1], os.Args[2][:i], os.Args[2][i+1:])
	} else {
		fn = p.Func(os.Args[1], os.Args[2])
	}
	if fn == nil {
		fmt.Fprintln(os.Stderr, "function not found")
		os.Exit(1)
	}
	n := 0
	if len(os.Args) > 3 {
		n, _ = strconv.Atoi(os.Args[3])
	}
	t0 := time.Now()
	ex := &pathx.Explorer{Root: fn, MaxPaths: 200000}
	paths := ex.Explore()
	ends := map[string]int{}
	for _, pt := range paths {
		ends[pt.End]++
	}
	fmt.Printf("%s: %d paths %v overflow=%v in %s\n", fn.Name(), len(paths), ends, ex.Overflow, time.Since(t0))
	for i, pt := range paths {
		if i >= n {
			break
		}
		fmt.Printf("-- path %d (%s)\n", i, pt.End)
		for _, f := range pt.Facts(-1) {
			fmt.Printf("   fact %s = %v\n", pathx.StripUnique(f.Atom), f.Value)
		}
		for _, ev := range pt.Events {
			if c, ok := ev.Instr.(*ssa.Call); ok {
				fmt.Printf("   call %s\n", c.Common().Value.String())
			}
		}
	}
}
