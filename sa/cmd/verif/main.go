// Command verif decides the claimed clauses of properties C01..C19 for openfga/language by static
// analysis of /repo's current working tree. See /verif/DESIGN.md.
package main

import (
	"fmt"
	"os"
	"runtime/debug"
	"sort"

	"verif/sa/internal/oblig"
	"verif/sa/internal/props"
)

func usage() {
	fmt.Fprintln(os.Stderr, "usage: verif check <property-id> [--tier quick|thorough] | verif list")
	os.Exit(2)
}

func main() {
	if len(os.Args) < 2 {
		usage()
	}
	switch os.Args[1] {
	case "list":
		ids := make([]string, 0, len(props.Checks))
		for id := range props.Checks {
			ids = append(ids, id)
		}
		sort.Strings(ids)
		for _, id := range ids {
			fmt.Println(id)
		}
	case "check":
		if len(os.Args) < 3 {
			usage()
		}
		id := os.Args[2]
		tier := os.Getenv("VERIF_TIER")
		for i := 3; i < len(os.Args); i++ {
			if os.Args[i] == "--tier" && i+1 < len(os.Args) {
				tier = os.Args[i+1]
				i++
			}
		}
		if tier != "thorough" {
			tier = "quick"
		}
		c, ok := props.Checks[id]
		if !ok {
			fmt.Fprintf(os.Stderr, "unknown property %s\n", id)
			os.Exit(2)
		}
		os.Exit(run(id, tier, c))
	default:
		usage()
	}
}

func run(id, tier string, c props.Check) (code int) {
	r := oblig.New(id, c.Level, tier)
	defer func() {
		if p := recover(); p != nil {
			// a crash of the analysis is an undecided obligation, never a pass
			r.Unknown("checker", "panic", "-", fmt.Sprintf("analysis panicked: %v\n%s", p, debug.Stack()))
			code = r.Finish()
			if code == 0 {
				code = 1
			}
		}
	}()
	c.Run(r)
	return r.Finish()
}
