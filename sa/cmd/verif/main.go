// Command verif decides the claimed clauses of properties C01..C19 for openfga/language by static
// analysis of /repo's current working tree. See /verif/DESIGN.md.
package main

import (
	"fmt"
	"os"
	"runtime/debug"
	"sort"

	"verif/sa/internal/load"
	"verif/sa/internal/oblig"
	"verif/sa/internal/props"
	"verif/sa/internal/selftest"
)

func usage() {
	fmt.Fprintln(os.Stderr, "usage: verif check <property-id> [--tier quick|thorough] | verif list | verif selftest [property-id...]")
	os.Exit(2)
}

func main() {
	if len(os.Args) < 2 {
		usage()
	}
	switch os.Args[1] {
	case "list":
		ids := make([]string, 0, len(props.Checks))
		for id := range props.Checks {
			ids = append(ids, id)
		}
		sort.Strings(ids)
		for _, id := range ids {
			fmt.Println(id)
		}
	case "selftest":
		// regression gate for the checker itself: every catalogue variant must get the verdict it was filed with
		vd := os.Getenv("VERIF_DIR")
		if vd == "" {
			vd = "/verif"
		}
		outs, err := selftest.Run(os.Args[2:], vd, 8)
		if err != nil {
			fmt.Fprintln(os.Stderr, err)
			os.Exit(2)
		}
		for _, o := range outs {
			mark := "ok  "
			if !o.OK {
				mark = "DIFF"
			}
			fmt.Printf("%s %-14s %-14s %-42s %s\n", mark, o.Expect, o.Observed, o.ID, o.Report)
		}
		sum, bad := selftest.Summary(outs)
		fmt.Printf("selftest variants=%d unexpected=%d %s\n", len(outs), bad, sum)
		if bad > 0 {
			os.Exit(1)
		}
	case "checkall":
		// dev-time: several checks over one tree in one process, the program loaded once; prints one
		// "== <id> exit=<code>" line per check after that check's own output
		load.Memo = true
		ids := os.Args[2:]
		if len(ids) == 0 {
			for id := range props.Checks {
				ids = append(ids, id)
			}
			sort.Strings(ids)
		}
		worst := 0
		for _, id := range ids {
			c, ok := props.Checks[id]
			if !ok {
				fmt.Fprintf(os.Stderr, "unknown property %s\n", id)
				os.Exit(2)
			}
			code := run(id, "quick", c)
			fmt.Printf("== %s exit=%d\n", id, code)
			if code > worst {
				worst = code
			}
		}
		os.Exit(worst)
	case "check":
		if len(os.Args) < 3 {
			usage()
		}
		id := os.Args[2]
		tier := os.Getenv("VERIF_TIER")
		for i := 3; i < len(os.Args); i++ {
			if os.Args[i] == "--tier" && i+1 < len(os.Args) {
				tier = os.Args[i+1]
				i++
			}
		}
		if tier != "thorough" {
			tier = "quick"
		}
		c, ok := props.Checks[id]
		if !ok {
			fmt.Fprintf(os.Stderr, "unknown property %s\n", id)
			os.Exit(2)
		}
		os.Exit(run(id, tier, c))
	default:
		usage()
	}
}

func run(id, tier string, c props.Check) (code int) {
	r := oblig.New(id, c.Level, tier)
	defer func() {
		if p := recover(); p != nil {
			// a crash of the analysis is an undecided obligation, never a pass
			r.Unknown("checker", "panic", "-", fmt.Sprintf("analysis panicked: %v\n%s", p, debug.Stack()))
			code = r.Finish()
			if code == 0 {
				code = 1
			}
		}
	}()
	c.Run(r)
	if tier == "thorough" && os.Getenv("VERIF_NO_SELFTEST") == "" {
		// sensitivity of the checker: the frozen source variants of this property are re-analysed and the
		// verdicts recorded in the evidence; they describe the checker, not /repo, and do not change the exit code
		if outs, err := selftest.Run([]string{id}, r.VerifDir(), 8); err == nil {
			sum, bad := selftest.Summary(outs)
			r.Extra["variant_selftest"] = map[string]any{"summary": sum, "unexpected": bad, "variants": outs}
			fmt.Printf("  selftest property=%s variants=%d unexpected=%d %s\n", id, len(outs), bad, sum)
		} else {
			r.Extra["variant_selftest"] = map[string]any{"error": err.Error()}
		}
	}
	return r.Finish()
}
