// Package g4 is a small reader for the subset of ANTLR 4 grammar syntax used by OpenFGALexer.g4
// and OpenFGAParser.g4: rule bodies as regular expressions over literals, ranges, rule/token
// references, complements, wildcards; labels; lexer commands; modes; the tokens{} block.
// Anything outside the subset is an error (an unresolved anchor, never a silent pass).
package g4

import (
	"fmt"
	"os"
	"strconv"
	"strings"
	"unicode"
)

// Node kinds of a rule body.
type (
	Node interface{}
	// Alt is a choice between alternatives, in source order.
	Alt struct{ Alts []Node }
	// Seq is a concatenation.
	Seq struct{ Items []Node }
	// Rep is X?, X*, X+ and their non-greedy forms.
	Rep struct {
		X         Node
		Min       int
		Inf       bool
		NonGreedy bool
	}
	// Lit is a quoted literal (a sequence of code points in a lexer grammar).
	Lit struct{ S []rune }
	// Range is 'a'..'z'.
	Range struct{ Lo, Hi rune }
	// Ref references a rule or token by name; Label is set for label=Ref.
	Ref struct{ Name, Label string }
	// Not is ~X where X is a set (literal char, range, token ref, or alternatives of those).
	Not struct{ X Node }
	// Wild is '.'.
	Wild struct{}
)

// Command is a lexer command such as pushMode(CONDITION_DEF), popMode, type(RPAREN), channel(HIDDEN).
type Command struct{ Name, Arg string }

// Rule is one grammar rule.
type Rule struct {
	Name     string
	Fragment bool
	Mode     string // lexer only
	Body     Node
	Commands []Command
	Labels   []Label
}

// Label is label=element inside a rule.
type Label struct{ Name, Target string }

// Grammar is a parsed .g4 file.
type Grammar struct {
	Kind       string // "lexer" or "parser"
	Name       string
	TokenVocab string
	Tokens     []string // tokens { ... }
	Modes      []string // DEFAULT_MODE first
	Rules      []*Rule
	ByName     map[string]*Rule
}

type tok struct {
	kind string // id, lit, punct, eof
	s    string
	lit  []rune
	pos  int
}

type lexer struct {
	src  []rune
	i    int
	toks []tok
}

func (lx *lexer) err(msg string) error {
	line := 1 + strings.Count(string(lx.src[:lx.i]), "\n")
	return fmt.Errorf("g4: line %d: %s", line, msg)
}

func (lx *lexer) run() error {
	for lx.i < len(lx.src) {
		c := lx.src[lx.i]
		switch {
		case unicode.IsSpace(c):
			lx.i++
		case c == '/' && lx.i+1 < len(lx.src) && lx.src[lx.i+1] == '/':
			for lx.i < len(lx.src) && lx.src[lx.i] != '\n' {
				lx.i++
			}
		case c == '/' && lx.i+1 < len(lx.src) && lx.src[lx.i+1] == '*':
			j := lx.i + 2
			for j+1 < len(lx.src) && !(lx.src[j] == '*' && lx.src[j+1] == '/') {
				j++
			}
			if j+1 >= len(lx.src) {
				return lx.err("unterminated block comment")
			}
			lx.i = j + 2
		case c == '\'':
			start := lx.i
			lx.i++
			var out []rune
			for {
				if lx.i >= len(lx.src) {
					return lx.err("unterminated literal")
				}
				ch := lx.src[lx.i]
				if ch == '\'' {
					lx.i++
					break
				}
				if ch == '\\' {
					lx.i++
					if lx.i >= len(lx.src) {
						return lx.err("bad escape")
					}
					e := lx.src[lx.i]
					lx.i++
					switch e {
					case 'n':
						out = append(out, '\n')
					case 'r':
						out = append(out, '\r')
					case 't':
						out = append(out, '\t')
					case 'f':
						out = append(out, '\f')
					case 'b':
						out = append(out, '\b')
					case '\\', '\'', '"':
						out = append(out, e)
					case 'u':
						if lx.i < len(lx.src) && lx.src[lx.i] == '{' {
							end := lx.i
							for end < len(lx.src) && lx.src[end] != '}' {
								end++
							}
							v, err := strconv.ParseInt(string(lx.src[lx.i+1:end]), 16, 32)
							if err != nil {
								return lx.err("bad \\u{...} escape")
							}
							out = append(out, rune(v))
							lx.i = end + 1
						} else {
							if lx.i+4 > len(lx.src) {
								return lx.err("bad \\u escape")
							}
							v, err := strconv.ParseInt(string(lx.src[lx.i:lx.i+4]), 16, 32)
							if err != nil {
								return lx.err("bad \\u escape")
							}
							out = append(out, rune(v))
							lx.i += 4
						}
					default:
						return lx.err(fmt.Sprintf("unsupported escape \\%c", e))
					}
					continue
				}
				out = append(out, ch)
				lx.i++
			}
			lx.toks = append(lx.toks, tok{kind: "lit", lit: out, pos: start})
		case unicode.IsLetter(c) || c == '_':
			start := lx.i
			for lx.i < len(lx.src) && (unicode.IsLetter(lx.src[lx.i]) || unicode.IsDigit(lx.src[lx.i]) || lx.src[lx.i] == '_') {
				lx.i++
			}
			lx.toks = append(lx.toks, tok{kind: "id", s: string(lx.src[start:lx.i]), pos: start})
		default:
			start := lx.i
			two := ""
			if lx.i+1 < len(lx.src) {
				two = string(lx.src[lx.i : lx.i+2])
			}
			switch two {
			case "..", "->", "*?", "+?", "??":
				lx.toks = append(lx.toks, tok{kind: "punct", s: two, pos: start})
				lx.i += 2
				continue
			}
			if strings.ContainsRune(":;|()?*+~.={},", c) {
				lx.toks = append(lx.toks, tok{kind: "punct", s: string(c), pos: start})
				lx.i++
				continue
			}
			return lx.err(fmt.Sprintf("unexpected character %q", c))
		}
	}
	lx.toks = append(lx.toks, tok{kind: "eof", pos: lx.i})
	return nil
}

type parser struct {
	toks []tok
	i    int
	src  []rune
	cur  *Rule
}

func (p *parser) peek() tok { return p.toks[p.i] }
func (p *parser) next() tok { t := p.toks[p.i]; p.i++; return t }
func (p *parser) isP(s string) bool {
	t := p.peek()
	return t.kind == "punct" && t.s == s
}
func (p *parser) err(msg string) error {
	line := 1 + strings.Count(string(p.src[:p.peek().pos]), "\n")
	return fmt.Errorf("g4: line %d: %s (at %q)", line, msg, p.peek().s)
}
func (p *parser) expectP(s string) error {
	if !p.isP(s) {
		return p.err("expected " + s)
	}
	p.i++
	return nil
}

// ParseFile reads and parses a grammar file.
func ParseFile(path string) (*Grammar, error) {
	b, err := os.ReadFile(path)
	if err != nil {
		return nil, err
	}
	return Parse(string(b))
}

// Parse parses grammar text.
func Parse(text string) (*Grammar, error) {
	lx := &lexer{src: []rune(text)}
	if err := lx.run(); err != nil {
		return nil, err
	}
	p := &parser{toks: lx.toks, src: lx.src}
	g := &Grammar{ByName: map[string]*Rule{}, Modes: []string{"DEFAULT_MODE"}}
	t := p.next()
	if t.kind != "id" || (t.s != "lexer" && t.s != "parser") {
		return nil, fmt.Errorf("g4: expected 'lexer grammar' or 'parser grammar'")
	}
	g.Kind = t.s
	if t = p.next(); t.s != "grammar" {
		return nil, fmt.Errorf("g4: expected 'grammar'")
	}
	g.Name = p.next().s
	if err := p.expectP(";"); err != nil {
		return nil, err
	}
	mode := "DEFAULT_MODE"
	for p.peek().kind != "eof" {
		t := p.peek()
		if t.kind != "id" {
			return nil, p.err("expected a declaration")
		}
		switch t.s {
		case "options":
			p.next()
			if err := p.expectP("{"); err != nil {
				return nil, err
			}
			for !p.isP("}") {
				k := p.next()
				if err := p.expectP("="); err != nil {
					return nil, err
				}
				v := p.next()
				if k.s == "tokenVocab" {
					g.TokenVocab = v.s
				}
				if err := p.expectP(";"); err != nil {
					return nil, err
				}
			}
			p.next()
			continue
		case "tokens":
			p.next()
			if err := p.expectP("{"); err != nil {
				return nil, err
			}
			for !p.isP("}") {
				k := p.next()
				if k.kind != "id" {
					return nil, p.err("expected token name")
				}
				g.Tokens = append(g.Tokens, k.s)
				if p.isP(",") {
					p.next()
				}
			}
			p.next()
			continue
		case "mode":
			p.next()
			mode = p.next().s
			g.Modes = append(g.Modes, mode)
			if err := p.expectP(";"); err != nil {
				return nil, err
			}
			continue
		case "import", "channels":
			return nil, p.err("unsupported declaration " + t.s)
		}
		r := &Rule{Mode: mode}
		if t.s == "fragment" {
			p.next()
			r.Fragment = true
		}
		nt := p.next()
		if nt.kind != "id" {
			return nil, p.err("expected rule name")
		}
		r.Name = nt.s
		if err := p.expectP(":"); err != nil {
			return nil, err
		}
		p.cur = r
		body, err := p.alternatives()
		if err != nil {
			return nil, err
		}
		r.Body = body
		if p.isP("->") {
			p.next()
			for {
				c := Command{Name: p.next().s}
				if p.isP("(") {
					p.next()
					c.Arg = p.next().s
					if err := p.expectP(")"); err != nil {
						return nil, err
					}
				}
				r.Commands = append(r.Commands, c)
				if p.isP(",") {
					p.next()
					continue
				}
				break
			}
		}
		if err := p.expectP(";"); err != nil {
			return nil, err
		}
		if g.Kind == "parser" {
			r.Mode = ""
		}
		if _, dup := g.ByName[r.Name]; dup {
			return nil, fmt.Errorf("g4: rule %s declared twice", r.Name)
		}
		g.Rules = append(g.Rules, r)
		g.ByName[r.Name] = r
	}
	return g, nil
}

func (p *parser) alternatives() (Node, error) {
	var alts []Node
	for {
		s, err := p.sequence()
		if err != nil {
			return nil, err
		}
		alts = append(alts, s)
		if p.isP("|") {
			p.next()
			continue
		}
		break
	}
	if len(alts) == 1 {
		return alts[0], nil
	}
	return &Alt{Alts: alts}, nil
}

func (p *parser) sequence() (Node, error) {
	var items []Node
	for {
		t := p.peek()
		if t.kind == "eof" || (t.kind == "punct" && (t.s == "|" || t.s == ")" || t.s == ";" || t.s == "->")) {
			break
		}
		e, err := p.element()
		if err != nil {
			return nil, err
		}
		items = append(items, e)
	}
	if len(items) == 1 {
		return items[0], nil
	}
	return &Seq{Items: items}, nil
}

func (p *parser) element() (Node, error) {
	label := ""
	if p.peek().kind == "id" && p.toks[p.i+1].kind == "punct" && p.toks[p.i+1].s == "=" {
		label = p.next().s
		p.next()
	}
	a, err := p.atom()
	if err != nil {
		return nil, err
	}
	if label != "" {
		switch x := a.(type) {
		case *Ref:
			x.Label = label
			p.cur.Labels = append(p.cur.Labels, Label{Name: label, Target: x.Name})
		default:
			return nil, p.err("label on a non-reference element is outside the supported subset")
		}
	}
	for {
		t := p.peek()
		if t.kind != "punct" {
			break
		}
		switch t.s {
		case "?":
			a = &Rep{X: a, Min: 0}
		case "*":
			a = &Rep{X: a, Min: 0, Inf: true}
		case "+":
			a = &Rep{X: a, Min: 1, Inf: true}
		case "??":
			a = &Rep{X: a, Min: 0, NonGreedy: true}
		case "*?":
			a = &Rep{X: a, Min: 0, Inf: true, NonGreedy: true}
		case "+?":
			a = &Rep{X: a, Min: 1, Inf: true, NonGreedy: true}
		default:
			return a, nil
		}
		p.next()
	}
	return a, nil
}

func (p *parser) atom() (Node, error) {
	t := p.peek()
	switch {
	case t.kind == "lit":
		p.next()
		if p.isP("..") {
			p.next()
			hi := p.next()
			if hi.kind != "lit" || len(hi.lit) != 1 || len(t.lit) != 1 {
				return nil, p.err("bad range")
			}
			return &Range{Lo: t.lit[0], Hi: hi.lit[0]}, nil
		}
		return &Lit{S: t.lit}, nil
	case t.kind == "id":
		p.next()
		return &Ref{Name: t.s}, nil
	case t.kind == "punct" && t.s == "(":
		p.next()
		a, err := p.alternatives()
		if err != nil {
			return nil, err
		}
		if err := p.expectP(")"); err != nil {
			return nil, err
		}
		return a, nil
	case t.kind == "punct" && t.s == "~":
		p.next()
		a, err := p.atom()
		if err != nil {
			return nil, err
		}
		return &Not{X: a}, nil
	case t.kind == "punct" && t.s == ".":
		p.next()
		return &Wild{}, nil
	}
	return nil, p.err("unexpected token in rule body")
}

// NonGreedyCount counts non-greedy sub-rules in a body.
func NonGreedyCount(n Node) int {
	c := 0
	Walk(n, func(x Node) {
		if r, ok := x.(*Rep); ok && r.NonGreedy {
			c++
		}
	})
	return c
}

// Walk visits every node of a body.
func Walk(n Node, f func(Node)) {
	if n == nil {
		return
	}
	f(n)
	switch x := n.(type) {
	case *Alt:
		for _, a := range x.Alts {
			Walk(a, f)
		}
	case *Seq:
		for _, a := range x.Items {
			Walk(a, f)
		}
	case *Rep:
		Walk(x.X, f)
	case *Not:
		Walk(x.X, f)
	}
}

// SingleLiteral returns the literal text if the rule body is exactly one quoted literal.
func (r *Rule) SingleLiteral() (string, bool) {
	if l, ok := r.Body.(*Lit); ok {
		return string(l.S), true
	}
	return "", false
}

// LiteralAlternatives returns the literals if the body is a literal or an alternation of literals.
func (r *Rule) LiteralAlternatives() ([]string, bool) {
	switch b := r.Body.(type) {
	case *Lit:
		return []string{string(b.S)}, true
	case *Alt:
		var out []string
		for _, a := range b.Alts {
			l, ok := a.(*Lit)
			if !ok {
				return nil, false
			}
			out = append(out, string(l.S))
		}
		return out, true
	}
	return nil, false
}
