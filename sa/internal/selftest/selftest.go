// Package selftest re-runs the checker against a frozen catalogue of source variants of
// openfga/language (seeded defects, survey mutants, reverts of the fix: commits, harmless
// refactorings) and compares the verdict with the one confirmed when the variant was filed.
// It analyses the variants' source exactly as a normal run analyses /repo; no repository code is run.
package selftest

import (
	_ "embed"
	"encoding/json"
	"fmt"
	"os"
	"os/exec"
	"path/filepath"
	"sort"
	"strings"
	"sync"

	"verif/sa/internal/load"
)

//go:embed catalogue.json
var catalogueJSON []byte

// Variant is one catalogue entry.
type Variant struct {
	ID       string `json:"id"`
	Property string `json:"property"`
	Kind     string `json:"kind"` // replace | patch | revert
	File     string `json:"file,omitempty"`
	Find     string `json:"find,omitempty"`
	Replace  string `json:"replace,omitempty"`
	Patch    string `json:"patch,omitempty"` // unified diff text (revert: applied with -R)
	Expect   string `json:"expect"`          // caught | silent | accepted-miss | accepted-alarm
	Rule     string `json:"rule,omitempty"`  // first reporting rule when filed
	Note     string `json:"note,omitempty"`
}

// Outcome of one variant.
type Outcome struct {
	ID       string `json:"id"`
	Expect   string `json:"expect"`
	Observed string `json:"observed"` // caught | silent | not-applicable | error
	Report   string `json:"first_report,omitempty"`
	OK       bool   `json:"as_expected"`
}

func Catalogue() ([]Variant, error) {
	var v []Variant
	err := json.Unmarshal(catalogueJSON, &v)
	return v, err
}

func apply(v Variant, dir string) (bool, string) {
	switch v.Kind {
	case "replace":
		p := filepath.Join(dir, v.File)
		b, err := os.ReadFile(p)
		if err != nil {
			return false, err.Error()
		}
		if !strings.Contains(string(b), v.Find) {
			return false, "the text this variant edits is no longer present"
		}
		return true, errStr(os.WriteFile(p, []byte(strings.Replace(string(b), v.Find, v.Replace, 1)), 0o644))
	case "patch", "revert":
		pf := filepath.Join(dir, ".variant.diff")
		if err := os.WriteFile(pf, []byte(v.Patch), 0o644); err != nil {
			return false, err.Error()
		}
		args := []string{"apply"}
		if v.Kind == "revert" {
			args = append(args, "-R")
		}
		cmd := exec.Command("git", append(args, pf)...)
		cmd.Dir = dir
		// outside any repository: git apply works on plain directories
		cmd.Env = append(os.Environ(), "GIT_CEILING_DIRECTORIES="+filepath.Dir(dir))
		out, err := cmd.CombinedOutput()
		os.Remove(pf)
		if err != nil {
			return false, "patch no longer applies: " + lastLine(string(out))
		}
		return true, ""
	}
	return false, "unknown kind " + v.Kind
}

func errStr(err error) string {
	if err != nil {
		return err.Error()
	}
	return ""
}

func lastLine(s string) string {
	l := strings.Split(strings.TrimSpace(s), "\n")
	return l[len(l)-1]
}

func runOne(self string, v Variant, knownFile string) Outcome {
	o := Outcome{ID: v.ID, Expect: v.Expect}
	tmp, err := os.MkdirTemp("", "verif-variant-")
	if err != nil {
		o.Observed, o.Report = "error", err.Error()
		return o
	}
	defer os.RemoveAll(tmp)
	src := load.RepoRoot()
	if out, err := exec.Command("cp", "-r", src+"/.", tmp+"/").CombinedOutput(); err != nil {
		o.Observed, o.Report = "error", "copy failed: "+lastLine(string(out))
		return o
	}
	os.RemoveAll(filepath.Join(tmp, ".git"))
	ok, msg := apply(v, tmp)
	if !ok || msg != "" {
		o.Observed, o.Report = "not-applicable", msg
		o.OK = true // the tree changed under the catalogue: nothing can be said
		return o
	}
	outDir := filepath.Join(tmp, ".verif-out")
	os.MkdirAll(outDir, 0o755)
	if b, err := os.ReadFile(knownFile); err == nil {
		os.WriteFile(filepath.Join(outDir, "known-findings.json"), b, 0o644)
	}
	cmd := exec.Command(self, "check", v.Property, "--tier", "quick")
	cmd.Env = append(os.Environ(), "VERIF_REPO="+tmp, "VERIF_DIR="+outDir, "VERIF_TIER=quick")
	out, err := cmd.CombinedOutput()
	code := 0
	if err != nil {
		if ee, ok := err.(*exec.ExitError); ok {
			code = ee.ExitCode()
		} else {
			o.Observed, o.Report = "error", err.Error()
			return o
		}
	}
	for _, l := range strings.Split(string(out), "\n") {
		t := strings.TrimSpace(l)
		if strings.HasPrefix(t, "FINDING") || strings.HasPrefix(t, "UNDECIDED") {
			if len(t) > 300 {
				t = t[:300]
			}
			o.Report = t
			break
		}
	}
	switch code {
	case 0:
		o.Observed = "silent"
	case 1:
		o.Observed = "caught"
	default:
		o.Observed = "error"
		if o.Report == "" {
			o.Report = lastLine(string(out))
		}
	}
	switch v.Expect {
	case "caught":
		o.OK = o.Observed == "caught"
	case "silent":
		o.OK = o.Observed == "silent"
	default: // accepted-miss, accepted-alarm: documented limits, any verdict is recorded
		o.OK = o.Observed != "error"
	}
	return o
}

// Run runs the catalogue entries of the given properties (all when empty) with the given parallelism.
func Run(properties []string, verifDir string, par int) ([]Outcome, error) {
	cat, err := Catalogue()
	if err != nil {
		return nil, err
	}
	self, err := os.Executable()
	if err != nil {
		return nil, err
	}
	want := map[string]bool{}
	for _, p := range properties {
		want[p] = true
	}
	var sel []Variant
	for _, v := range cat {
		if len(want) == 0 || want[v.Property] {
			sel = append(sel, v)
		}
	}
	outs := make([]Outcome, len(sel))
	sem := make(chan struct{}, par)
	var wg sync.WaitGroup
	for i := range sel {
		wg.Add(1)
		sem <- struct{}{}
		go func(i int) {
			defer wg.Done()
			defer func() { <-sem }()
			outs[i] = runOne(self, sel[i], filepath.Join(verifDir, "known-findings.json"))
		}(i)
	}
	wg.Wait()
	sort.SliceStable(outs, func(i, j int) bool { return outs[i].ID < outs[j].ID })
	return outs, nil
}

// Summary renders counts.
func Summary(outs []Outcome) (string, int) {
	c := map[string]int{}
	bad := 0
	for _, o := range outs {
		c[o.Expect+"→"+o.Observed]++
		if !o.OK {
			bad++
		}
	}
	var ks []string
	for k := range c {
		ks = append(ks, fmt.Sprintf("%s=%d", k, c[k]))
	}
	sort.Strings(ks)
	return strings.Join(ks, " "), bad
}
