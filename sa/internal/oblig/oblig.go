// Package oblig holds obligation records, known-finding matching and the evidence writer.
package oblig

import (
	"encoding/json"
	"fmt"
	"os"
	"path/filepath"
	"sort"
	"strings"
	"time"
)

// Status of an obligation.
const (
	Discharged = "discharged"
	Finding    = "finding"
	Undecided  = "undecided"
)

// Record is one obligation produced by a rule.
type Record struct {
	Rule      string `json:"rule"`
	Construct string `json:"construct"` // key: built from resolved objects only, never a line number
	Pos       string `json:"pos"`       // file:line, for humans only
	Status    string `json:"status"`
	By        string `json:"by,omitempty"` // sub-rule that discharged it
	Detail    string `json:"detail,omitempty"`
}

// RuleInfo documents a rule in the evidence.
type RuleInfo struct {
	Text       string         `json:"text"`
	Kind       string         `json:"kind"`            // "instance-table" or "universe"
	Floor      int            `json:"floor,omitempty"` // minimum number of instances confirmed by reading (instance-table rules)
	HandCount  int            `json:"hand_count,omitempty"`
	Instances  int            `json:"instances"`
	Discharged int            `json:"discharged"`
	Findings   int            `json:"findings"`
	Undecided  int            `json:"undecided"`
	ByRule     map[string]int `json:"discharged_by,omitempty"`
}

// Report accumulates everything one property check produces.
type Report struct {
	Property    string
	Level       string
	Tier        string
	Seed        int
	Explanation string
	NotCovered  []string
	Assumptions []string
	Analysed    map[string]any
	Extra       map[string]any
	Rules       map[string]*RuleInfo
	Records     []Record
	Broken      []string // checker self-test failures (CHECKER-BROKEN)
	start       time.Time
	verifDir    string
}

// New starts a report.
func New(property, level, tier string) *Report {
	seed := 0
	fmt.Sscanf(os.Getenv("VERIF_SEED"), "%d", &seed)
	vd := os.Getenv("VERIF_DIR")
	if vd == "" {
		vd = "/verif"
	}
	return &Report{Property: property, Level: level, Tier: tier, Seed: seed,
		Analysed: map[string]any{}, Extra: map[string]any{}, Rules: map[string]*RuleInfo{},
		start: time.Now(), verifDir: vd}
}

// VerifDir is the directory evidence/replay/known-findings live in.
func (r *Report) VerifDir() string { return r.verifDir }

// Rule declares a rule (idempotent) and returns its info.
func (r *Report) Rule(id, kind, text string, floor int) *RuleInfo {
	if ri, ok := r.Rules[id]; ok {
		return ri
	}
	ri := &RuleInfo{Text: text, Kind: kind, Floor: floor, ByRule: map[string]int{}}
	r.Rules[id] = ri
	return ri
}

// Add appends a record.
func (r *Report) Add(rec Record) {
	r.Records = append(r.Records, rec)
}

// OK adds a discharged record.
func (r *Report) OK(rule, construct, pos, by, detail string) {
	r.Add(Record{Rule: rule, Construct: construct, Pos: pos, Status: Discharged, By: by, Detail: detail})
}

// Bad adds a finding.
func (r *Report) Bad(rule, construct, pos, detail string) {
	r.Add(Record{Rule: rule, Construct: construct, Pos: pos, Status: Finding, Detail: detail})
}

// Unknown adds an undecided obligation (counts as failure).
func (r *Report) Unknown(rule, construct, pos, detail string) {
	r.Add(Record{Rule: rule, Construct: construct, Pos: pos, Status: Undecided, Detail: detail})
}

// BrokenChecker records a self-test failure.
func (r *Report) BrokenChecker(msg string) { r.Broken = append(r.Broken, msg) }

// Known is the committed known-findings file.
type Known struct {
	Findings []KnownFinding `json:"findings"`
	Fixed    []string       `json:"fixed"`
}

// KnownFinding identifies one genuine defect that is recorded rather than repaired.
type KnownFinding struct {
	Property  string `json:"property"`
	Rule      string `json:"rule"`
	Construct string `json:"construct"`
	What      string `json:"what"`
}

func loadKnown(dir string) (*Known, error) {
	k := &Known{}
	b, err := os.ReadFile(filepath.Join(dir, "known-findings.json"))
	if err != nil {
		if os.IsNotExist(err) {
			return k, nil
		}
		return nil, err
	}
	if err := json.Unmarshal(b, k); err != nil {
		return nil, err
	}
	return k, nil
}

// uniqueConstructs appends an ordinal (source order as produced) to colliding rule+construct keys.
func (r *Report) uniqueConstructs() {
	seen := map[string]int{}
	for i := range r.Records {
		k := r.Records[i].Rule + "\x00" + r.Records[i].Construct
		seen[k]++
		if seen[k] > 1 {
			r.Records[i].Construct = fmt.Sprintf("%s#%d", r.Records[i].Construct, seen[k])
		}
	}
}

// Finish evaluates floors, matches findings against the known-findings file, writes evidence and
// replay files, prints the protocol lines and returns the process exit code.
func (r *Report) Finish() int {
	r.uniqueConstructs()
	known, err := loadKnown(r.verifDir)
	if err != nil {
		fmt.Printf("CHECKER-BROKEN property=%s cannot read known-findings.json: %v\n", r.Property, err)
		return 2
	}
	// per-rule statistics and floors
	for _, rec := range r.Records {
		ri := r.Rules[rec.Rule]
		if ri == nil {
			ri = r.Rule(rec.Rule, "universe", "(undeclared rule)", 0)
		}
		ri.Instances++
		switch rec.Status {
		case Discharged:
			ri.Discharged++
			ri.ByRule[rec.By]++
		case Finding:
			ri.Findings++
		default:
			ri.Undecided++
		}
	}
	ruleIDs := make([]string, 0, len(r.Rules))
	for id := range r.Rules {
		ruleIDs = append(ruleIDs, id)
	}
	sort.Strings(ruleIDs)
	for _, id := range ruleIDs {
		ri := r.Rules[id]
		if ri.Kind == "instance-table" && ri.Instances < ri.Floor {
			r.Records = append(r.Records, Record{Rule: id, Construct: "floor:" + id, Pos: "-", Status: Undecided,
				Detail: fmt.Sprintf("rule matched %d instances, fewer than the %d confirmed by reading: anchors no longer resolve", ri.Instances, ri.Floor)})
			ri.Undecided++
		}
	}

	violations := 0
	knownReported := []string{}
	os.MkdirAll(filepath.Join(r.verifDir, "replay"), 0o755)
	// stale replay files of this property are removed so that a replay path always belongs to this run
	if old, _ := filepath.Glob(filepath.Join(r.verifDir, "replay", r.Property+"-*.json")); old != nil {
		for _, f := range old {
			os.Remove(f)
		}
	}
	n := 0
	for _, rec := range r.Records {
		if rec.Status == Discharged {
			continue
		}
		if rec.Status == Finding {
			if kf := matchKnown(known, r.Property, rec); kf != nil {
				line := fmt.Sprintf("KNOWN-FINDING: property=%s %s %s — %s", r.Property, rec.Rule, rec.Construct, kf.What)
				fmt.Println(line)
				knownReported = append(knownReported, rec.Rule+" "+rec.Construct)
				continue
			}
		}
		n++
		violations++
		path := filepath.Join(r.verifDir, "replay", fmt.Sprintf("%s-%d.json", r.Property, n))
		b, _ := json.MarshalIndent(map[string]any{"property": r.Property, "record": rec,
			"how_to_replay": fmt.Sprintf("%s/bin/verif check %s   # re-derives this record from the current tree; look for rule=%s construct=%s", r.verifDir, r.Property, rec.Rule, rec.Construct)}, "", " ")
		os.WriteFile(path, b, 0o644)
		fmt.Printf("  %s %s [%s] %s at %s: %s\n", strings.ToUpper(rec.Status), rec.Rule, r.Property, rec.Construct, rec.Pos, rec.Detail)
		fmt.Printf("VIOLATION property=%s replay=%s\n", r.Property, path)
	}
	for _, b := range r.Broken {
		fmt.Printf("CHECKER-BROKEN property=%s %s\n", r.Property, b)
	}

	r.writeEvidence(ruleIDs, violations, knownReported)

	// summary for humans
	tot, dis := 0, 0
	for _, id := range ruleIDs {
		ri := r.Rules[id]
		tot += ri.Instances
		dis += ri.Discharged
		fmt.Printf("  rule %-8s %-14s instances=%-4d discharged=%-4d findings=%d undecided=%d\n", id, ri.Kind, ri.Instances, ri.Discharged, ri.Findings, ri.Undecided)
	}
	fmt.Printf("%s tier=%s obligations=%d discharged=%d known-findings=%d violations=%d wall=%.1fs\n",
		r.Property, r.Tier, tot, dis, len(knownReported), violations, time.Since(r.start).Seconds())
	if len(r.Broken) > 0 {
		return 2
	}
	if violations > 0 {
		return 1
	}
	return 0
}

func matchKnown(k *Known, prop string, rec Record) *KnownFinding {
	for i := range k.Findings {
		f := &k.Findings[i]
		if f.Property == prop && f.Rule == rec.Rule && f.Construct == rec.Construct {
			return f
		}
	}
	return nil
}

func (r *Report) writeEvidence(ruleIDs []string, violations int, knownReported []string) {
	tot, dis := 0, 0
	for _, id := range ruleIDs {
		tot += r.Rules[id].Instances
		dis += r.Rules[id].Discharged
	}
	// samples: one record per rule plus every non-discharged record
	samples := []any{}
	seenRule := map[string]int{}
	for _, rec := range r.Records {
		if rec.Status != Discharged || seenRule[rec.Rule] < 2 {
			samples = append(samples, rec)
			seenRule[rec.Rule]++
		}
		if len(samples) >= 60 {
			break
		}
	}
	distinct := map[string]bool{}
	for _, rec := range r.Records {
		distinct[rec.Rule+"\x00"+rec.Construct] = true
	}
	cov := map[string]any{
		"explanation":             r.Explanation,
		"not_covered":             r.NotCovered,
		"obligations":             tot,
		"discharged":              dis,
		"evaluations":             tot,
		"distinct_nontrivial":     len(distinct),
		"rule":                    "one obligation per (rule, construct) found in the resolved program of /repo on this run; distinct = distinct (rule, construct) keys; all are non-trivial in the sense that each is a program construct a rule had to classify",
		"samples":                 samples,
		"rules":                   r.Rules,
		"analysed":                r.Analysed,
		"known_findings_reported": knownReported,
		"exhaustive":              true,
		"checker_broken":          r.Broken,
	}
	for k, v := range r.Extra {
		cov[k] = v
	}
	ev := map[string]any{
		"property_id": r.Property,
		"tier":        r.Tier,
		"seed":        r.Seed,
		"level":       r.Level,
		"coverage":    cov,
		"assumptions": r.Assumptions,
		"wall_s":      time.Since(r.start).Seconds(),
		"violations":  violations,
	}
	b, err := json.MarshalIndent(ev, "", " ")
	if err != nil {
		fmt.Printf("CHECKER-BROKEN property=%s cannot encode evidence: %v\n", r.Property, err)
		return
	}
	os.MkdirAll(filepath.Join(r.verifDir, "evidence"), 0o755)
	if err := os.WriteFile(filepath.Join(r.verifDir, "evidence", r.Property+".json"), b, 0o644); err != nil {
		fmt.Printf("CHECKER-BROKEN property=%s cannot write evidence: %v\n", r.Property, err)
	}
}
