package e6modfile

import (
	"fmt"
	"go/constant"
	"go/token"
	"go/types"
	"sort"
	"strings"

	"golang.org/x/tools/go/ssa"

	"verif/sa/internal/load"
	"verif/sa/internal/oblig"
	"verif/sa/internal/pathx"
)

// The fga.mod rules, decided on the enumerated paths of TransformModFile (helpers and closures followed).

type litEvent struct {
	kind string // "error", "accept"
	lit  pathx.Term
	ev   pathx.Event
	name string // struct name

}

func namedStruct(t types.Type) string {
	for {
		switch x := t.(type) {
		case *types.Pointer:
			t = x.Elem()
			continue
		case *types.Named:
			if _, ok := x.Underlying().(*types.Struct); ok {
				return x.Obj().Name()
			}
		}
		return ""
	}
}

func isErrorType(t types.Type) bool {
	return types.Implements(t, errIface()) || types.Implements(types.NewPointer(t), errIface())
}

// literalOf: the struct literal a value denotes on the path (the literal itself, its address, or its value wrapped
// in an interface).
func literalOf(p *pathx.Path, t pathx.Term) (pathx.Term, bool) {
	for i := 0; i < 6; i++ {
		t = p.Resolve(t)
		switch x := t.V.(type) {
		case *ssa.Alloc:
			if namedStruct(x.Type()) != "" {
				return t, true
			}
			return t, false
		case *ssa.MakeInterface:
			t = t.Sub(x.X)
		case *ssa.ChangeInterface:
			t = t.Sub(x.X)
		case *ssa.UnOp:
			if x.Op != token.MUL {
				return t, false
			}
			t = t.Sub(x.X)
		default:
			return t, false
		}
	}
	return t, false
}

// appended lists the values a variadic call (append, multierror.Append) adds, as stored on the path.
func appended(p *pathx.Path, ev pathx.Event) ([]pathx.Term, bool) {
	call, ok := ev.Instr.(*ssa.Call)
	if !ok || len(call.Common().Args) != 2 {
		return nil, false
	}
	va := p.Resolve(ev.Term(call.Common().Args[1]))
	sl, ok := va.V.(*ssa.Slice)
	if !ok {
		return nil, false // append(x, y...): a computed list
	}
	arr, ok := sl.X.(*ssa.Alloc)
	if !ok {
		return nil, false
	}
	var out []pathx.Term
	for _, e := range p.Events {
		st, ok := e.Instr.(*ssa.Store)
		if !ok || e.F != va.F || e.E != va.E || e.Seq > ev.Seq {
			continue
		}
		if ia, ok := st.Addr.(*ssa.IndexAddr); ok && ia.X == ssa.Value(arr) {
			out = append(out, p.Resolve(e.Term(st.Val)))
		}
	}
	return out, true
}

func classify(p *pathx.Path, ev pathx.Event) []litEvent {
	call, ok := ev.Instr.(*ssa.Call)
	if !ok {
		return nil
	}
	cc := call.Common()
	kind := ""
	if b, isB := cc.Value.(*ssa.Builtin); isB && b.Name() == "append" && len(cc.Args) == 2 {
		if sl, ok := cc.Args[0].Type().Underlying().(*types.Slice); ok {
			switch {
			case namedStruct(sl.Elem()) == "ModFileStringProperty":
				kind = "accept"
			case isErrorType(sl.Elem()) || types.IsInterface(sl.Elem()) && sl.Elem().String() == "error":
				kind = "error"
			}
		}
	}
	if c := cc.StaticCallee(); c != nil && c.Name() == "Append" && c.Pkg != nil && strings.Contains(c.Pkg.Pkg.Path(), "go-multierror") {
		kind = "error"
	}
	if kind == "" {
		return nil
	}
	elems, ok := appended(p, ev)
	if !ok {
		return []litEvent{{kind: kind + "-list", ev: ev}}
	}
	var out []litEvent
	for _, e := range elems {
		lit, isLit := literalOf(p, e)
		le := litEvent{kind: kind, ev: ev}
		if isLit {
			le.lit, le.name = lit, namedStruct(lit.V.Type())
		}
		out = append(out, le)
	}
	return out
}

func constString(p *pathx.Path, t pathx.Term) (string, bool) {
	t = p.Resolve(t)
	c, ok := t.V.(*ssa.Const)
	if !ok || c.Value == nil || c.Value.Kind() != constant.String {
		return "", false
	}
	return constant.StringVal(c.Value), true
}

func libCall(p *pathx.Path, t pathx.Term) (string, *ssa.Call, pathx.Term) {
	t = p.Resolve(t)
	call, ok := t.V.(*ssa.Call)
	if !ok {
		return "", nil, t
	}
	c := call.Common().StaticCallee()
	if c == nil || c.Pkg == nil {
		return "", nil, t
	}
	return c.Pkg.Pkg.Path() + "." + c.Name(), call, t
}

// posOf reads a Line/Column value: the constant 0, or <node>.<Field> - 1.
func posOf(p *pathx.Path, t pathx.Term) (node, field string, ok bool) {
	if t.IsZero() {
		return "", "0", true // field not set: zero value
	}
	t = p.Resolve(t)
	for {
		if cv, isCv := t.V.(*ssa.Convert); isCv {
			t = p.Resolve(t.Sub(cv.X))
			continue
		}
		break
	}
	if c, isC := t.V.(*ssa.Const); isC {
		if c.Value != nil && c.Value.Kind() == constant.Int && c.Int64() == 0 {
			return "", "0", true
		}
		return "", "", false
	}
	bo, isB := t.V.(*ssa.BinOp)
	if !isB || bo.Op != token.SUB {
		return "", "", false
	}
	one, isC := p.Resolve(t.Sub(bo.Y)).V.(*ssa.Const)
	if !isC || one.Value == nil || one.Int64() != 1 {
		return "", "", false
	}
	s := p.Render(t.Sub(bo.X))
	i := strings.LastIndex(s, ".")
	if i < 0 {
		return "", "", false
	}
	return s[:i], s[i+1:], true
}

// quotedValues lists the <node>.Value paths a message is built from.
func quotedValues(p *pathx.Path, t pathx.Term, depth int, out *[]string) {
	if depth > 8 || t.IsZero() {
		return
	}
	t = p.Resolve(t)
	switch x := t.V.(type) {
	case *ssa.BinOp:
		if x.Op == token.ADD {
			quotedValues(p, t.Sub(x.X), depth+1, out)
			quotedValues(p, t.Sub(x.Y), depth+1, out)
		}
		return
	case *ssa.Const:
		return
	case *ssa.MakeInterface:
		quotedValues(p, t.Sub(x.X), depth+1, out)
		return
	case *ssa.Call:
		if c := x.Common().StaticCallee(); c != nil && c.Pkg != nil && c.Pkg.Pkg.Path() == "fmt" {
			for _, a := range x.Common().Args {
				quotedValues(p, t.Sub(a), depth+1, out)
			}
			return
		}
	case *ssa.Slice:
		// variadic arguments of Sprintf
		if arr, ok := x.X.(*ssa.Alloc); ok {
			for _, e := range p.Events {
				if st, ok := e.Instr.(*ssa.Store); ok && e.F == t.F && e.E == t.E {
					if ia, ok := st.Addr.(*ssa.IndexAddr); ok && ia.X == ssa.Value(arr) {
						quotedValues(p, e.Term(st.Val), depth+1, out)
					}
				}
			}
			return
		}
	}
	s := p.Render(t)
	if strings.HasSuffix(s, ".Value") {
		*out = append(*out, strings.TrimSuffix(s, ".Value"))
	}
}

type verdicts struct {
	r     *oblig.Report
	p     *load.Prog
	state map[string]string // rule|construct → "bad" once bad
	okMsg map[string][2]string
	pos   map[string]string
	order []string
}

func (v *verdicts) key(rule, construct string) string { return rule + "|" + construct }

func (v *verdicts) ok(rule, construct, pos, method, detail string) {
	k := v.key(rule, construct)
	if _, has := v.state[k]; !has {
		v.state[k] = "ok"
		v.okMsg[k] = [2]string{method, detail}
		v.pos[k] = pos
		v.order = append(v.order, k)
	}
}

func (v *verdicts) bad(rule, construct, pos, why string) {
	k := v.key(rule, construct)
	if v.state[k] == "bad" {
		return
	}
	if _, has := v.state[k]; !has {
		v.order = append(v.order, k)
	}
	v.state[k] = "bad"
	v.okMsg[k] = [2]string{"", why}
	v.pos[k] = pos
}

func (v *verdicts) flush() {
	for _, k := range v.order {
		parts := strings.SplitN(k, "|", 2)
		if v.state[k] == "bad" {
			v.r.Bad(parts[0], parts[1], v.pos[k], v.okMsg[k][1])
		} else {
			v.r.OK(parts[0], parts[1], v.pos[k], v.okMsg[k][0], v.okMsg[k][1])
		}
	}
}

// RunPaths decides R6.1, R6.2, R6.4, R6.5 (schema guard), R5.3 and R5.1 on the enumerated paths. It returns false
// when the paths could not be enumerated (the caller then reports the rules as undecided).
func RunPaths(p *load.Prog, r *oblig.Report, fn *ssa.Function) bool {
	ex := &pathx.Explorer{Root: fn, MaxPaths: 60000}
	paths := ex.Explore()
	if ex.Overflow || len(paths) == 0 {
		r.Unknown("R6.1", "paths:TransformModFile", p.Pos(fn.Pos()), fmt.Sprintf("the paths of TransformModFile could not be enumerated (%d explored, limit reached: %v)", len(paths), ex.Overflow))
		return false
	}
	v := &verdicts{r: r, p: p, state: map[string]string{}, okMsg: map[string][2]string{}, pos: map[string]string{}}
	pos := func(in ssa.Instruction) string { return p.Pos(in.Pos()) }
	litPos := func(le litEvent) string {
		if !le.lit.IsZero() {
			return p.Pos(le.lit.V.Pos())
		}
		return pos(le.ev.Instr)
	}
	// the loop over the items of the contents node: an element of a []*yaml.Node taken at a loop index
	var loopHdr *ssa.BasicBlock
	var loopFn *ssa.Function
	for _, pt := range paths {
		for _, vis := range pt.Trace {
			if loopHdr != nil {
				break
			}
			for _, in := range vis.B.Instrs {
				ia, ok := in.(*ssa.IndexAddr)
				if !ok {
					continue
				}
				sl, isSl := ia.X.Type().Underlying().(*types.Slice)
				if !isSl || !strings.HasSuffix(sl.Elem().String(), "yaml.v3.Node") {
					continue
				}
				idx := ia.Index
				if bo, isB := idx.(*ssa.BinOp); isB && bo.Op == token.ADD {
					idx = bo.X
				}
				if ph, isPhi := idx.(*ssa.Phi); isPhi && len(ex.LoopBody(ph.Block())) > 0 {
					loopHdr, loopFn = ph.Block(), vis.B.Parent()
				}
			}
		}
	}
	accepts, literals, schemaStores, successes, unmarshals := 0, map[string]bool{}, 0, 0, 0
	type outcome struct{ errs, accepts int }
	hist := map[outcome]int{}
	loopPathsSeen := 0
	for _, pt := range paths {
		if pt.End == "cut" || pt.End == "panic" {
			continue
		}
		var evs []litEvent
		for _, ev := range pt.Events {
			evs = append(evs, classify(pt, ev)...)
		}
		nErr := 0
		for _, le := range evs {
			if strings.HasPrefix(le.kind, "error") {
				nErr++
			}
		}
		// ---- R5.1: the manifest is returned only when nothing was reported
		if pt.Ret != nil && len(pt.Ret.Results) == 2 {
			errRes := pt.Resolve(pt.RetTerm(1))
			first := pt.Resolve(pt.RetTerm(0))
			if c, isC := errRes.V.(*ssa.Const); isC && c.IsNil() {
				if fc, isFC := first.V.(*ssa.Const); !isFC || !fc.IsNil() {
					successes++
					if nErr > 0 {
						v.bad("R5.1", "success-guard:TransformModFile", pos(pt.Ret), "the manifest is returned on a path on which an error was reported: a rejected entry can be silently filtered")
					} else {
						v.ok("R5.1", "success-guard:TransformModFile", pos(pt.Ret), "path-enumeration", "no path that reports an error ends in the successful return")
					}
				}
			}
		}
		// ---- R5.3: one outcome per entry
		if loopHdr != nil {
			lo, hi := -1, -1
			body := ex.LoopBody(loopHdr)
			var lf *pathx.Frame
			for _, vis := range pt.Trace {
				if vis.B.Parent() != loopFn {
					continue
				}
				if lo < 0 && body[vis.B] && vis.B != loopHdr {
					lo, lf = vis.Seq, vis.F
					continue
				}
				if lo >= 0 && hi < 0 && vis.F == lf && (vis.B == loopHdr || !body[vis.B]) {
					hi = vis.Seq
				}
			}
			if lo >= 0 {
				if hi < 0 {
					hi = 1 << 30
				}
				o := outcome{}
				for _, le := range evs {
					if le.ev.Seq < lo || le.ev.Seq > hi {
						continue
					}
					if strings.HasPrefix(le.kind, "error") {
						o.errs++
					} else {
						o.accepts++
					}
				}
				hist[o]++
				loopPathsSeen++
			}
		}
		for _, le := range evs {
			if le.kind == "accept-list" || le.kind == "error-list" {
				continue
			}
			if le.lit.IsZero() {
				if le.kind == "accept" {
					v.bad("R6.1", "accepted-value-chain", pos(le.ev.Instr), "what is appended to the contents is not a ModFileStringProperty literal whose fields can be read")
				}
				continue
			}
			fields := pt.Fields(le.lit)
			facts := pt.Facts(le.ev.NCond)
			if le.kind == "accept" {
				accepts++
				// ---- R6.1: V = ReplaceAll(QueryUnescape(node.Value), "\\", "/")
				val, hasV := fields["Value"]
				nodePath, why := "", ""
				var decode pathx.Term
				if !hasV {
					why = "the accepted entry has no Value"
				} else if n, call, ct := libCall(pt, val); n != "strings.ReplaceAll" {
					why = "the returned value is not the result of strings.ReplaceAll(decoded, \"\\\\\", \"/\") (outermost step must be the separator normalisation); it is " + pathx.StripUnique(pt.Render(val))
				} else {
					old, ok1 := constString(pt, ct.Sub(call.Common().Args[1]))
					nw, ok2 := constString(pt, ct.Sub(call.Common().Args[2]))
					d := pt.Resolve(ct.Sub(call.Common().Args[0]))
					exd, isEx := d.V.(*ssa.Extract)
					switch {
					case !ok1 || !ok2 || old != "\\" || nw != "/":
						why = fmt.Sprintf("ReplaceAll(%q → %q) is not the backslash normalisation", old, nw)
					case !isEx || exd.Index != 0:
						why = "separator normalisation is applied to something other than the decoded value: an encoded backslash (%5C) is decoded after normalisation and survives"
					default:
						dn, dcall, dt := libCall(pt, d.Sub(exd.Tuple))
						if dn != "net/url.QueryUnescape" && dn != "net/url.PathUnescape" {
							why = "the value normalised is not the result of url.QueryUnescape/PathUnescape but of " + dn
						} else {
							src := pt.Render(dt.Sub(dcall.Common().Args[0]))
							if strings.HasSuffix(src, ".Value") {
								nodePath, decode = strings.TrimSuffix(src, ".Value"), dt
							} else {
								why = "the decoded string is not the Value of a YAML node but " + pathx.StripUnique(src)
							}
						}
					}
				}
				if why != "" {
					v.bad("R6.1", "accepted-value-chain", litPos(le), why)
					continue
				}
				v.ok("R6.1", "accepted-value-chain", litPos(le), "def-use on every path", "V = ReplaceAll(QueryUnescape("+pathx.StripUnique(nodePath)+".Value), \"\\\\\", \"/\")")
				// ---- R6.2: the guards, on the very value V
				vs := pt.Render(val)
				want := []struct {
					key, atom, desc string
					val             bool
				}{
					{"decode-error-nil", pt.Render(decode) + "#1 == nil", "err == nil of the decode", true},
					{"string-tag", nodePath + ".Tag == \"!!str\"", "node.Tag == \"!!str\"", true},
					{"no-dotdot", "strings.Contains(" + vs + ", \"../\")", "!strings.Contains(V, \"../\")", false},
					{"not-absolute", "strings.HasPrefix(" + vs + ", \"/\")", "!strings.HasPrefix(V, \"/\")", false},
					{"fga-suffix", "strings.HasSuffix(" + vs + ", \".fga\")", "strings.HasSuffix(V, \".fga\")", true},
				}
				for _, w := range want {
					construct := "accept-guard:" + w.key
					got, wrong := false, ""
					for _, f := range facts {
						if f.Atom == w.atom && f.Value == w.val {
							got = true
						}
						// the same test on another operand
						if strings.HasPrefix(w.atom, "strings.") {
							i, j := strings.Index(w.atom, "("), strings.LastIndex(w.atom, ",")
							if i > 0 && j > i && strings.HasPrefix(f.Atom, w.atom[:i+1]) && strings.HasSuffix(f.Atom, w.atom[j:]) && f.Atom != w.atom && f.Value == w.val {
								wrong = f.Atom
							}
						}
					}
					switch {
					case got:
						v.ok("R6.2", construct, litPos(le), "path-condition on every path", w.desc)
					case wrong != "":
						v.bad("R6.2", construct, litPos(le), "the guard "+w.desc+" is applied to "+pathx.StripUnique(wrong)+", not to the value V that is returned: a spelling that differs between the two slips through")
					default:
						v.bad("R6.2", construct, litPos(le), "an entry is accepted on a path on which "+w.desc+" was not established")
					}
				}
				for _, f := range []string{"Line", "Column"} {
					node, fld, ok := posOf(pt, fields[f])
					construct := "position:accepted-entry:" + f
					if ok && node == nodePath && fld == f {
						v.ok("R6.4", construct, litPos(le), "same-node", pathx.StripUnique(node)+"."+f+" - 1")
					} else {
						v.bad("R6.4", construct, litPos(le), fmt.Sprintf("%s of an accepted entry is %s, expected %s.%s - 1 (zero-based position of the node the value came from)", f, pathx.StripUnique(describePos(node, fld, ok)), pathx.StripUnique(nodePath), f))
					}
				}
				continue
			}
			// ---- R6.4 for reported errors
			judgeLiteral(pt, v, le.lit, fields, litPos(le), literals)
		}
		// ---- R6.5: the manifest text reaches the decoder unmodified
		for _, ev := range pt.Events {
			call, ok := ev.Instr.(*ssa.Call)
			if !ok {
				continue
			}
			if c := call.Common().StaticCallee(); c == nil || c.Pkg == nil || c.Pkg.Pkg.Path() != "gopkg.in/yaml.v3" || c.Name() != "Unmarshal" {
				continue
			}
			unmarshals++
			arg := pt.Resolve(ev.Term(call.Common().Args[0]))
			okArg := false
			if cv, isCv := arg.V.(*ssa.Convert); isCv {
				if prm, isP := pt.Resolve(arg.Sub(cv.X)).V.(*ssa.Parameter); isP && prm.Parent() == fn {
					okArg = true
				}
			}
			if okArg {
				v.ok("R6.5", "decoder-input-verbatim", pos(call), "def-use on every path", "yaml.Unmarshal([]byte(data), …) with data the parameter itself")
			} else {
				v.bad("R6.5", "decoder-input-verbatim", pos(call), "the text handed to the YAML decoder is not the parameter itself ("+pathx.StripUnique(pt.Render(arg))+"): reported lines and columns no longer refer to the caller's text")
			}
		}
		// ---- properties stored into the result (schema, name, contents) and R6.5
		for _, ev := range pt.Events {
			st, ok := ev.Instr.(*ssa.Store)
			if !ok {
				continue
			}
			if _, isFA := st.Addr.(*ssa.FieldAddr); !isFA {
				continue
			}
			lit, isLit := literalOf(pt, ev.Term(st.Val))
			if !isLit {
				continue
			}
			name := namedStruct(lit.V.Type())
			if name != "ModFileStringProperty" && name != "ModFileArrayProperty" {
				continue
			}
			fields := pt.Fields(lit)
			judgeLiteral(pt, v, lit, fields, p.Pos(lit.V.Pos()), literals)
			addr := pt.Render(ev.Term(st.Addr))
			if strings.HasSuffix(addr, ".Schema") && name == "ModFileStringProperty" {
				schemaStores++
				sv := "‹none›"
				if val, has := fields["Value"]; has {
					sv = pt.Render(val)
				}
				okSchema := false
				for _, f := range pt.Facts(ev.NCond) {
					if f.Atom == sv+" == \"1.2\"" && f.Value {
						okSchema = true
					}
				}
				if okSchema {
					v.ok("R6.5", "schema-is-1.2", pos(st), "path-condition on every path", "the stored schema value == \"1.2\"")
				} else {
					v.bad("R6.5", "schema-is-1.2", pos(st), "the schema property is stored on a path on which its value ("+pathx.StripUnique(sv)+") was not compared equal to \"1.2\"")
				}
			}
		}
	}
	if accepts == 0 {
		r.Unknown("R6.1", "anchor:accept-site", p.Pos(fn.Pos()), "no ModFileStringProperty appended to the contents list on any path: anchor no longer resolves")
	}
	if schemaStores == 0 {
		r.Unknown("R6.5", "schema-is-1.2", p.Pos(fn.Pos()), "no store of the schema property found on any path")
	}
	if unmarshals == 0 {
		r.Unknown("R6.5", "decoder-input-verbatim", p.Pos(fn.Pos()), "no yaml.Unmarshal call found on any path")
	}
	if successes == 0 {
		r.Unknown("R5.1", "success-guard:TransformModFile", p.Pos(fn.Pos()), "no successful return found on any path")
	}
	// R5.3
	construct := "one-outcome-per-entry:contents-loop"
	switch {
	case loopHdr == nil || loopPathsSeen == 0:
		r.Unknown("R5.3", construct, p.Pos(fn.Pos()), "the loop over the items of the contents node was not found")
	default:
		var keys []string
		bad, total := 0, 0
		for o, n := range hist {
			keys = append(keys, fmt.Sprintf("errors=%d accepts=%d ×%d", o.errs, o.accepts, n))
			total += n
			if o.errs+o.accepts != 1 {
				bad += n
			}
		}
		sort.Strings(keys)
		if bad == 0 {
			v.ok("R5.3", construct, p.Pos(loopHdr.Instrs[0].Pos()), "path-enumeration", fmt.Sprintf("%d paths through one iteration: %s", total, strings.Join(keys, "; ")))
		} else {
			v.bad("R5.3", construct, p.Pos(loopHdr.Instrs[0].Pos()), fmt.Sprintf("%d of %d paths through one iteration of the loop do not produce exactly one outcome (%s): an offending entry is skipped silently or reported more than once", bad, total, strings.Join(keys, "; ")))
		}
	}
	v.flush()
	return true
}

// judgeLiteral (R6.4): Line/Column of a property or an error are 0/0, or Line-1/Column-1 of one node — the node
// whose value the literal carries or quotes.
func judgeLiteral(pt *pathx.Path, v *verdicts, lit pathx.Term, fields map[string]pathx.Term, pos string, seen map[string]bool) {
	name := namedStruct(lit.V.Type())
	// one instance per place of TransformModFile where the literal comes into being (the literal itself, or the call
	// that leads to the helper that builds it)
	at := pos
	for f := lit.F; f != nil && f.Parent != nil; f = f.Parent {
		if f.Parent.Parent == nil && f.Site != nil {
			at = v.p.Pos(f.Site.Pos())
		}
	}
	construct := fmt.Sprintf("position:%s@%s", name, at)
	seen[construct] = true
	ln, lf, ok1 := posOf(pt, fields["Line"])
	cn, cf, ok2 := posOf(pt, fields["Column"])
	switch {
	case !ok1 || !ok2:
		v.bad("R6.4", construct, pos, "Line/Column are neither the constant 0 nor node.Line-1 / node.Column-1")
	case lf == "0" && cf == "0":
		v.ok("R6.4", construct, pos, "zero", "no node to point at")
	case ln != cn || lf != "Line" || cf != "Column":
		v.bad("R6.4", construct, pos, fmt.Sprintf("Line is %s and Column is %s: they must be Line-1 and Column-1 of the same node", pathx.StripUnique(describePos(ln, lf, ok1)), pathx.StripUnique(describePos(cn, cf, ok2))))
	default:
		okNode := true
		if val, has := fields["Value"]; has && name == "ModFileStringProperty" {
			if vp := pt.Render(val); vp != ln+".Value" {
				okNode = false
			}
		}
		if msg, has := fields["Msg"]; has {
			var quoted []string
			quotedValues(pt, msg, 0, &quoted)
			for _, q := range quoted {
				if q != ln {
					okNode = false
				}
			}
		}
		if okNode {
			v.ok("R6.4", construct, pos, "same-node", pathx.StripUnique(ln))
		} else {
			v.bad("R6.4", construct, pos, "the position points at "+pathx.StripUnique(ln)+" but the value reported belongs to another node")
		}
	}
}
