// Package e6modfile decides the fga.mod clauses (C15) on TransformModFile: the value chain of every
// accepted path, the guards on that same value, the positions, the schema, and that every rejected
// entry produces exactly one error.
package e6modfile

import (
	"fmt"
	"go/ast"
	"go/constant"
	"go/token"
	"go/types"
	"os"
	"sort"
	"strings"

	"golang.org/x/tools/go/ssa"

	"verif/sa/internal/e5path"
	"verif/sa/internal/load"
	"verif/sa/internal/oblig"
)

func staticName(v ssa.Value) (string, *ssa.Call) {
	call, ok := v.(*ssa.Call)
	if !ok {
		return "", nil
	}
	c := call.Common().StaticCallee()
	if c == nil || c.Pkg == nil {
		return "", call
	}
	return c.Pkg.Pkg.Path() + "." + c.Name(), call
}

func constStr(v ssa.Value) (string, bool) {
	c, ok := v.(*ssa.Const)
	if !ok || c.Value == nil || c.Value.Kind() != constant.String {
		return "", false
	}
	return constant.StringVal(c.Value), true
}

func structName(t types.Type) string {
	if p, ok := t.Underlying().(*types.Pointer); ok {
		t = p.Elem()
	}
	if n, ok := t.(*types.Named); ok {
		return n.Obj().Name()
	}
	return ""
}

// literal: an Alloc (or value built field by field) of a named struct, with the values stored per field. A literal
// made inside a helper or a local closure of the analysed function is one instance per call, the helper's
// parameters and the closure's captured variables bound to what the caller passes.
type literal struct {
	alloc  *ssa.Alloc
	name   string
	fields map[string]ssa.Value
	pos    token.Pos
	env    map[ssa.Value]ssa.Value
	site   *ssa.BasicBlock   // where the instance comes into being in the analysed function
	inner  []*ssa.BasicBlock // the blocks inside helpers that lead to it (outermost first)
	retOf  *ssa.Function     // the helper that returns this literal as its first result together with a nil error
	call   *ssa.Call         // the call (in the analysed function) through which the instance exists
}

func envPath(v ssa.Value, env map[ssa.Value]ssa.Value) string {
	return e5path.WithBindings(v, env)
}

func fieldsOf(al *ssa.Alloc) map[string]ssa.Value {
	out := map[string]ssa.Value{}
	t, ok := al.Type().Underlying().(*types.Pointer).Elem().Underlying().(*types.Struct)
	if !ok || al.Referrers() == nil {
		return out
	}
	for _, ref := range *al.Referrers() {
		fa, ok := ref.(*ssa.FieldAddr)
		if !ok || fa.Referrers() == nil {
			continue
		}
		for _, r2 := range *fa.Referrers() {
			if st, ok := r2.(*ssa.Store); ok {
				out[t.Field(fa.Field).Name()] = st.Val
			}
		}
	}
	return out
}

// closureOf resolves the callee of a call of a local closure.
func closureOf(v ssa.Value) *ssa.MakeClosure {
	switch x := v.(type) {
	case *ssa.MakeClosure:
		return x
	case *ssa.UnOp:
		if al, ok := x.X.(*ssa.Alloc); ok && al.Referrers() != nil {
			var found *ssa.MakeClosure
			for _, ref := range *al.Referrers() {
				if st, ok := ref.(*ssa.Store); ok && st.Addr == ssa.Value(al) {
					mc, isMC := st.Val.(*ssa.MakeClosure)
					if !isMC || found != nil {
						return nil
					}
					found = mc
				}
			}
			return found
		}
	}
	return nil
}

func literalsOf(root *ssa.Function, names map[string]bool) []literal {
	var out []literal
	var walk func(fn *ssa.Function, env map[ssa.Value]ssa.Value, site *ssa.BasicBlock, inner []*ssa.BasicBlock, via *ssa.Call, depth int)
	walk = func(fn *ssa.Function, env map[ssa.Value]ssa.Value, site *ssa.BasicBlock, inner []*ssa.BasicBlock, via *ssa.Call, depth int) {
		ei := -1
		res := fn.Signature.Results()
		for i := 0; i < res.Len(); i++ {
			t := res.At(i).Type()
			if types.Implements(t, errIface()) {
				ei = i
			}
		}
		for _, b := range fn.Blocks {
			for _, in := range b.Instrs {
				switch x := in.(type) {
				case *ssa.Alloc:
					if !names[structName(x.Type())] {
						continue
					}
					l := literal{alloc: x, name: structName(x.Type()), fields: fieldsOf(x), pos: x.Pos(), env: env, site: site, call: via}
					if fn == root {
						l.site = b
					} else {
						l.inner = append(append([]*ssa.BasicBlock{}, inner...), b)
						l.pos = via.Pos()
						// returned as the first result together with a nil error?
						if x.Referrers() != nil && ei > 0 {
							for _, ref := range *x.Referrers() {
								ld, ok := ref.(*ssa.UnOp)
								if !ok || ld.Referrers() == nil {
									continue
								}
								for _, r2 := range *ld.Referrers() {
									if ret, ok := r2.(*ssa.Return); ok && len(ret.Results) > ei && ret.Results[0] == ssa.Value(ld) {
										if c, isC := ret.Results[ei].(*ssa.Const); isC && c.IsNil() {
											l.retOf = fn
											l.inner[len(l.inner)-1] = ret.Block()
										}
									}
								}
							}
						}
					}
					out = append(out, l)
				case *ssa.Call:
					if depth >= 3 {
						continue
					}
					var callee *ssa.Function
					sub := map[ssa.Value]ssa.Value{}
					for k, v := range env {
						sub[k] = v // the enclosing contexts stay bound (arguments are rendered in them)
					}
					bind := func(v ssa.Value) ssa.Value {
						for i := 0; i < 3; i++ {
							if b2, ok := env[v]; ok && b2 != v {
								v = b2
								continue
							}
							break
						}
						return v
					}
					if h := x.Common().StaticCallee(); h != nil && h.Pkg == root.Pkg && h != root && h != fn && len(h.Blocks) > 0 && closureOf(x.Common().Value) == nil {
						callee = h
					} else if mc := closureOf(x.Common().Value); mc != nil {
						if cf, ok := mc.Fn.(*ssa.Function); ok && len(cf.Blocks) > 0 {
							callee = cf
							for i, fv := range cf.FreeVars {
								if i >= len(mc.Bindings) {
									continue
								}
								bv := mc.Bindings[i]
								if cell, ok := bv.(*ssa.Alloc); ok && cell.Referrers() != nil {
									var stored ssa.Value
									n := 0
									for _, ref := range *cell.Referrers() {
										if st, ok := ref.(*ssa.Store); ok && st.Addr == ssa.Value(cell) {
											stored = st.Val
											n++
										}
									}
									if n == 1 {
										sub[fv] = bind(stored)
									}
								} else {
									sub[fv] = bind(bv)
								}
							}
						}
					}
					if callee == nil {
						continue
					}
					for i, prm := range callee.Params {
						if i < len(x.Common().Args) {
							sub[prm] = bind(x.Common().Args[i])
						}
					}
					s2, v2 := site, via
					in2 := inner
					if fn == root {
						s2, v2 = b, x
					} else {
						in2 = append(append([]*ssa.BasicBlock{}, inner...), b)
					}
					walk(callee, sub, s2, in2, v2, depth+1)
				}
			}
		}
	}
	walk(root, nil, nil, nil, nil, 0)
	return out
}

var errIfaceCache *types.Interface

func errIface() *types.Interface {
	if errIfaceCache == nil {
		errIfaceCache = types.Universe.Lookup("error").Type().Underlying().(*types.Interface)
	}
	return errIfaceCache
}

// posExpr classifies a Line/Column value: "0", or "<node path>.<Field>-1", or other.
func posExpr(v ssa.Value, env map[ssa.Value]ssa.Value) (node, field string, ok bool) {
	if c, isC := v.(*ssa.Const); isC && c.Value != nil && c.Value.Kind() == constant.Int {
		if c.Int64() == 0 {
			return "", "0", true
		}
		return "", "", false
	}
	bo, isB := v.(*ssa.BinOp)
	if !isB || bo.Op != token.SUB {
		return "", "", false
	}
	c, isC := bo.Y.(*ssa.Const)
	if !isC || c.Value == nil || c.Int64() != 1 {
		return "", "", false
	}
	path := envPath(bo.X, env)
	if os.Getenv("VERIF_E6_DEBUG") != "" {
		ks := ""
		for k, v := range env {
			ks += fmt.Sprintf(" %T:%s->%s", k, k.Name(), e5path.AccessPath(v))
		}
		fmt.Fprintf(os.Stderr, "E6 posExpr %s => %q env{%s}\n", bo.X.Name(), path, ks)
	}
	i := strings.LastIndex(path, ".")
	if i < 0 {
		return "", "", false
	}
	return path[:i], path[i+1:], true
}

// Run decides all E6 rules.
func Run(p *load.Prog, r *oblig.Report) {
	r.Rule("R6.1", "instance-table", "every accepted path value is ReplaceAll(QueryUnescape(node.Value), \"\\\\\", \"/\") — decode first, separator normalisation outermost, nothing else in the chain", 1)
	r.Rule("R6.2", "instance-table", "the accept site is dominated by: decode error nil, string tag, !Contains(V,\"../\"), !HasPrefix(V,\"/\"), HasSuffix(V,\".fga\") — all on the very value V that is returned", 5)
	r.Rule("R6.4", "instance-table", "Line/Column of every property and error are the constant 0 or node.Line-1 / node.Column-1 of one node, the node whose value is reported", 8)
	r.Rule("R6.5", "instance-table", "the schema is stored only when its value equals \"1.2\"; the manifest text reaches the YAML decoder unmodified", 2)
	r.Rule("R5.3", "instance-table", "on every path through the contents loop exactly one thing happens: one error is appended or the entry is accepted", 1)
	r.Rule("R5.1", "instance-table", "the manifest is returned only when the error accumulator is empty", 1)
	fn := p.Func("transformer", "TransformModFile")
	if fn == nil {
		r.Unknown("R6.1", "anchor:TransformModFile", "-", "function not found")
		return
	}
	pos := func(ps token.Pos) string { return p.Pos(ps) }

	// ---- accept sites: stores of a ModFileStringProperty literal that flow into append(contents, …)
	lits := literalsOf(fn, map[string]bool{"ModFileStringProperty": true, "ModFileArrayProperty": true, "ModFileValidationError": true})
	var accepted []literal
	for _, l := range lits {
		if l.name != "ModFileStringProperty" {
			continue
		}
		// is the literal's value used as an append operand?
		inAppend := false
		if refs := l.alloc.Referrers(); refs != nil {
			for _, ref := range *refs {
				if u, ok := ref.(*ssa.UnOp); ok && u.Referrers() != nil {
					for _, r2 := range *u.Referrers() {
						if st, ok := r2.(*ssa.Store); ok {
							if _, isIdx := st.Addr.(*ssa.IndexAddr); isIdx {
								inAppend = true
							}
						}
					}
				}
			}
		}
		// or: returned by an item helper together with a nil error, and the helper's first result is what is appended
		if !inAppend && l.retOf != nil && l.call != nil && l.call.Common().StaticCallee() == l.retOf && l.call.Referrers() != nil {
			for _, ref := range *l.call.Referrers() {
				ex, ok := ref.(*ssa.Extract)
				if !ok || ex.Index != 0 || ex.Referrers() == nil {
					continue
				}
				for _, r2 := range *ex.Referrers() {
					st, ok := r2.(*ssa.Store)
					if !ok {
						continue
					}
					if _, isIdx := st.Addr.(*ssa.IndexAddr); !isIdx {
						continue
					}
					// the append must happen only when the helper's error is nil
					guarded := false
					for _, ce := range e5path.DominatingConds(st.Block()) {
						if c, isB := ce.Cond.(*ssa.BinOp); isB {
							if e2, isEx := c.X.(*ssa.Extract); isEx && e2.Tuple == ssa.Value(l.call) && e2.Index > 0 {
								if cn, isC := c.Y.(*ssa.Const); isC && cn.IsNil() && ((c.Op == token.NEQ && !ce.Branch) || (c.Op == token.EQL && ce.Branch)) {
									guarded = true
								}
							}
						}
					}
					if guarded {
						inAppend = true
						l.site = st.Block()
					} else {
						r.Bad("R6.2", "accept-guard:helper-error-nil", pos(st.Pos()), "the item returned by "+l.retOf.Name()+" is appended without testing the error it returns with it: a rejected entry is accepted")
					}
				}
			}
		}
		if inAppend {
			accepted = append(accepted, l)
		}
	}
	if len(accepted) == 0 {
		r.Unknown("R6.1", "anchor:accept-site", pos(fn.Pos()), "no ModFileStringProperty appended to the contents list: anchor no longer resolves")
	}
	for _, l := range accepted {
		v := l.fields["Value"]
		construct := "accepted-value-chain"
		// outermost: strings.ReplaceAll(D, "\\", "/") — in this function, or as the successful result of a decode helper
		okChain := false
		var nodePath string
		why := ""
		chainV := v
		var helperCall *ssa.Call // V = helper(node.Value): the chain lives in the helper
		var helperParam *ssa.Parameter
		if ex, ok := v.(*ssa.Extract); ok && ex.Index == 0 {
			if hc, ok := ex.Tuple.(*ssa.Call); ok {
				if h := hc.Common().StaticCallee(); h != nil && h.Pkg == fn.Pkg && len(h.Blocks) > 0 && h.Signature.Results().Len() == 2 {
					for _, sr := range e5path.SuccessReturns(h) {
						if len(sr.Results) == 2 {
							chainV = sr.Results[0]
							helperCall = hc
						}
					}
				}
			}
		}
		name, call := staticName(chainV)
		var decodeTuple ssa.Value
		if name == "strings.ReplaceAll" {
			old, ok1 := constStr(call.Common().Args[1])
			nw, ok2 := constStr(call.Common().Args[2])
			if ok1 && ok2 && old == "\\" && nw == "/" {
				d := call.Common().Args[0]
				if ex, ok := d.(*ssa.Extract); ok && ex.Index == 0 {
					dn, dcall := staticName(ex.Tuple)
					if dn == "net/url.QueryUnescape" || dn == "net/url.PathUnescape" {
						decodeTuple = ex.Tuple
						srcV := dcall.Common().Args[0]
						if prm, isP := srcV.(*ssa.Parameter); isP && helperCall != nil {
							helperParam = prm
							for i, q := range prm.Parent().Params {
								if q == prm && i < len(helperCall.Common().Args) {
									srcV = helperCall.Common().Args[i]
								}
							}
						}
						src := envPath(srcV, l.env)
						if strings.HasSuffix(src, ".Value") {
							okChain = true
							nodePath = strings.TrimSuffix(src, ".Value")
						} else {
							why = "the decoded string is not the Value of a YAML node but " + src
						}
					} else {
						why = "the value normalised is not the result of url.QueryUnescape/PathUnescape but of " + dn
					}
				} else {
					why = "separator normalisation is applied to something other than the decoded value: an encoded backslash (%5C) is decoded after normalisation and survives"
				}
			} else {
				why = fmt.Sprintf("ReplaceAll(%q → %q) is not the backslash normalisation", old, nw)
			}
		} else {
			why = "the returned value is not the result of strings.ReplaceAll(decoded, \"\\\\\", \"/\") (outermost step must be the separator normalisation); it is " + e5path.AccessPath(chainV)
		}
		_ = helperParam
		if okChain {
			r.OK("R6.1", construct, pos(l.pos), "def-use", "V = ReplaceAll(QueryUnescape("+nodePath+".Value), \"\\\\\", \"/\")")
		} else {
			r.Bad("R6.1", construct, pos(l.pos), why)
			continue
		}
		// ---- guards
		type guard struct {
			key  string
			desc string
		}
		want := []guard{
			{"decode-error-nil", "err == nil of the decode"},
			{"string-tag", "node.Tag == \"!!str\""},
			{"no-dotdot", "!strings.Contains(V, \"../\")"},
			{"not-absolute", "!strings.HasPrefix(V, \"/\")"},
			{"fga-suffix", "strings.HasSuffix(V, \".fga\")"},
		}
		got := map[string]bool{}
		wrongOperand := map[string]string{}
		// the decode error: in this function, or the error result of the decode helper (which must return the decode error itself)
		errTuple := decodeTuple
		if helperCall != nil {
			errTuple = nil
			if helperForwardsDecodeError(helperCall.Common().StaticCallee(), decodeTuple) {
				errTuple = helperCall
			}
		}
		var allConds []e5path.CondEdge
		allConds = append(allConds, e5path.DominatingConds(l.site)...)
		for _, ib := range l.inner {
			allConds = append(allConds, e5path.DominatingConds(ib)...)
		}
		// a selector variable: `problem == ""` holds only when the variable still has its initial "" — that is, on the
		// one way into the join on which no case assigned a message: the conditions of that way are implied
		for _, ce := range append([]e5path.CondEdge{}, allConds...) {
			bo, isB := ce.Cond.(*ssa.BinOp)
			if !isB || (bo.Op != token.EQL && bo.Op != token.NEQ) {
				continue
			}
			phi, isPhi := bo.X.(*ssa.Phi)
			if s, isS := constStr(bo.Y); !isPhi || !isS || s != "" || (bo.Op == token.EQL) != ce.Branch {
				continue
			}
			var emptyPred *ssa.BasicBlock
			n := 0
			for i, e := range phi.Edges {
				if s, isS := constStr(e); isS && s == "" {
					emptyPred = phi.Block().Preds[i]
					n++
				}
			}
			if n != 1 {
				continue
			}
			allConds = append(allConds, e5path.DominatingConds(emptyPred)...)
			if ifi, ok := emptyPred.Instrs[len(emptyPred.Instrs)-1].(*ssa.If); ok {
				allConds = append(allConds, e5path.CondEdge{Cond: ifi.Cond, Branch: emptyPred.Succs[0] == phi.Block(), If: ifi})
			}
		}
		for _, ce := range allConds {
			for {
				u, isNot := ce.Cond.(*ssa.UnOp)
				if !isNot || u.Op != token.NOT {
					break
				}
				ce.Cond, ce.Branch = u.X, !ce.Branch
			}
			switch c := ce.Cond.(type) {
			case *ssa.BinOp:
				if ex, ok := c.X.(*ssa.Extract); ok && errTuple != nil && ex.Tuple == errTuple && ex.Index == 1 {
					if cn, ok := c.Y.(*ssa.Const); ok && cn.IsNil() && ((c.Op == token.NEQ && !ce.Branch) || (c.Op == token.EQL && ce.Branch)) {
						got["decode-error-nil"] = true
					}
				}
				if envPath(c.X, l.env) == nodePath+".Tag" {
					if s, ok := constStr(c.Y); ok && s == "!!str" && ((c.Op == token.NEQ && !ce.Branch) || (c.Op == token.EQL && ce.Branch)) {
						got["string-tag"] = true
					}
				}
			case *ssa.Call:
				type fact struct {
					call    *ssa.Call
					branch  bool
					operand ssa.Value
				}
				facts := []fact{{c, ce.Branch, nil}}
				// a boolean helper of the package: what its result implies about the library tests it makes on its parameter
				if h := c.Common().StaticCallee(); h != nil && h.Pkg == fn.Pkg && len(h.Blocks) > 0 && len(h.Params) == len(c.Common().Args) {
					facts = nil
					for _, im := range impliedTests(h, ce.Branch) {
						var operand ssa.Value
						if prm, isP := im.call.Common().Args[0].(*ssa.Parameter); isP {
							for i, q := range h.Params {
								if q == prm {
									operand = c.Common().Args[i]
								}
							}
						}
						facts = append(facts, fact{im.call, im.branch, operand})
					}
				}
				for _, f := range facts {
					n, cc := staticName(f.call)
					if cc == nil || len(cc.Common().Args) != 2 {
						continue
					}
					arg, _ := constStr(cc.Common().Args[1])
					key := ""
					switch {
					case n == "strings.Contains" && arg == "../" && !f.branch:
						key = "no-dotdot"
					case n == "strings.HasPrefix" && arg == "/" && !f.branch:
						key = "not-absolute"
					case n == "strings.HasSuffix" && arg == ".fga" && f.branch:
						key = "fga-suffix"
					}
					if key == "" {
						continue
					}
					operand := cc.Common().Args[0]
					if f.operand != nil {
						operand = f.operand
					}
					if operand == v {
						got[key] = true
					} else {
						wrongOperand[key] = e5path.AccessPath(operand)
					}
				}
			}
		}
		for _, g := range want {
			construct := "accept-guard:" + g.key
			switch {
			case got[g.key]:
				r.OK("R6.2", construct, pos(l.pos), "dominating-condition", g.desc)
			case wrongOperand[g.key] != "":
				r.Bad("R6.2", construct, pos(l.pos), "the guard "+g.desc+" is applied to "+wrongOperand[g.key]+", not to the value V that is returned: a spelling that differs between the two slips through")
			default:
				r.Bad("R6.2", construct, pos(l.pos), "the accept site is not dominated by "+g.desc)
			}
		}
		// positions of the accepted entry must be those of the same node
		for _, f := range []string{"Line", "Column"} {
			node, fld, ok := posExpr(l.fields[f], l.env)
			construct := "position:accepted-entry:" + f
			if ok && node == nodePath && fld == f {
				r.OK("R6.4", construct, pos(l.pos), "same-node", node+"."+f+" - 1")
			} else {
				r.Bad("R6.4", construct, pos(l.pos), fmt.Sprintf("%s of an accepted entry is %s, expected %s.%s - 1 (zero-based position of the node the value came from)", f, describePos(node, fld, ok), nodePath, f))
			}
		}
	}
	// ---- positions of all other literals
	n := 0
	for _, l := range lits {
		isAccepted := false
		for _, a := range accepted {
			if a.alloc == l.alloc {
				isAccepted = true
			}
		}
		if isAccepted {
			continue
		}
		n++
		ln, lf, ok1 := posExpr(l.fields["Line"], l.env)
		cn, cf, ok2 := posExpr(l.fields["Column"], l.env)
		construct := fmt.Sprintf("position:%s", l.name)
		switch {
		case !ok1 || !ok2:
			r.Bad("R6.4", construct, pos(l.pos), "Line/Column are neither the constant 0 nor node.Line-1 / node.Column-1")
		case lf == "0" && cf == "0":
			r.OK("R6.4", construct, pos(l.pos), "zero", "no node to point at")
		case ln != cn || lf != "Line" || cf != "Column":
			r.Bad("R6.4", construct, pos(l.pos), fmt.Sprintf("Line is %s and Column is %s: they must be Line-1 and Column-1 of the same node", describePos(ln, lf, ok1), describePos(cn, cf, ok2)))
		default:
			// the node must be the one whose Value/Tag the literal reports or the enclosing branch examined
			okNode := true
			if val, has := l.fields["Value"]; has && l.name == "ModFileStringProperty" {
				if vp := envPath(val, l.env); vp != ln+".Value" {
					okNode = false
				}
			}
			if msg, has := l.fields["Msg"]; has {
				// messages that quote a node's value must quote the node they point at
				if prm, isP := msg.(*ssa.Parameter); isP && l.env[prm] != nil {
					msg = l.env[prm] // the message is built by the caller of the constructor helper
				}
				if bo, isB := msg.(*ssa.BinOp); isB {
					if q := envPath(bo.Y, l.env); strings.HasSuffix(q, ".Value") && q != ln+".Value" {
						okNode = false
						if os.Getenv("VERIF_E6_DEBUG") != "" {
							fmt.Fprintf(os.Stderr, "E6 msg path %q vs position node %q\n", q, ln)
						}
					}
				}
			}
			if okNode {
				r.OK("R6.4", construct, pos(l.pos), "same-node", ln)
			} else {
				r.Bad("R6.4", construct, pos(l.pos), "the position points at "+ln+" but the value reported belongs to another node")
			}
		}
	}
	// ---- schema
	for _, b := range fn.Blocks {
		for _, in := range b.Instrs {
			st, ok := in.(*ssa.Store)
			if !ok || !strings.HasSuffix(e5path.AccessPath(st.Addr), ".Schema") || structName(st.Val.Type()) != "ModFileStringProperty" {
				continue
			}
			okSchema := false
			for _, ce := range e5path.DominatingConds(b) {
				if bo, isB := ce.Cond.(*ssa.BinOp); isB && strings.HasSuffix(e5path.AccessPath(bo.X), ".Schema.Value") {
					if s, isS := constStr(bo.Y); isS && s == "1.2" && ((bo.Op == token.NEQ && !ce.Branch) || (bo.Op == token.EQL && ce.Branch)) {
						okSchema = true
					}
				}
			}
			// the property comes from a schema helper together with a nil error: the store happens only on the nil
			// error, and the helper returns a nil error only under Value == "1.2" (its parameter bound to the schema node)
			if ex, isEx := st.Val.(*ssa.Extract); isEx && !okSchema && ex.Index == 0 {
				if hc, isCall := ex.Tuple.(*ssa.Call); isCall {
					errNil := false
					for _, ce := range e5path.DominatingConds(b) {
						if c, isB := ce.Cond.(*ssa.BinOp); isB {
							if e2, isE2 := c.X.(*ssa.Extract); isE2 && e2.Tuple == ssa.Value(hc) && e2.Index > 0 {
								if cn, isC := c.Y.(*ssa.Const); isC && cn.IsNil() && ((c.Op == token.NEQ && !ce.Branch) || (c.Op == token.EQL && ce.Branch)) {
									errNil = true
								}
							}
						}
					}
					for _, l := range lits {
						if l.retOf == nil || l.call != hc || !errNil {
							continue
						}
						for _, ib := range l.inner {
							for _, ce := range e5path.DominatingConds(ib) {
								if bo, isB := ce.Cond.(*ssa.BinOp); isB && strings.HasSuffix(envPath(bo.X, l.env), ".Schema.Value") {
									if s, isS := constStr(bo.Y); isS && s == "1.2" && ((bo.Op == token.NEQ && !ce.Branch) || (bo.Op == token.EQL && ce.Branch)) {
										okSchema = true
									}
								}
							}
						}
					}
				}
			}
			if okSchema {
				r.OK("R6.5", "schema-is-1.2", pos(st.Pos()), "dominating-condition", "Schema.Value == \"1.2\"")
			} else {
				r.Bad("R6.5", "schema-is-1.2", pos(st.Pos()), "the schema property is stored without the guard Schema.Value == \"1.2\"")
			}
		}
	}
	// manifest text reaches the decoder unmodified
	foundUnmarshal := false
	for _, b := range fn.Blocks {
		for _, in := range b.Instrs {
			nme, call := staticName(valueOf(in))
			if nme != "gopkg.in/yaml.v3.Unmarshal" {
				continue
			}
			foundUnmarshal = true
			arg := call.Common().Args[0]
			okArg := false
			if cv, ok := arg.(*ssa.Convert); ok {
				if prm, ok := cv.X.(*ssa.Parameter); ok && prm.Parent() == fn {
					okArg = true
				}
			}
			if okArg {
				r.OK("R6.5", "decoder-input-verbatim", pos(call.Pos()), "def-use", "yaml.Unmarshal([]byte(data), …) with data the parameter itself")
			} else {
				r.Bad("R6.5", "decoder-input-verbatim", pos(call.Pos()), "the text handed to the YAML decoder is not the parameter itself ("+e5path.AccessPath(arg)+"): reported lines and columns no longer refer to the caller's text")
			}
		}
	}
	if !foundUnmarshal {
		r.Unknown("R6.5", "decoder-input-verbatim", pos(fn.Pos()), "no yaml.Unmarshal call found")
	}
	// ---- success return guarded by the accumulator
	for _, ret := range e5path.SuccessReturns(fn) {
		okRet := false
		for _, ce := range e5path.DominatingConds(ret.Block()) {
			if bo, isB := ce.Cond.(*ssa.BinOp); isB {
				if call, isCall := bo.X.(*ssa.Call); isCall {
					if bi, isBi := call.Common().Value.(*ssa.Builtin); isBi && bi.Name() == "len" && strings.HasSuffix(e5path.AccessPath(call.Common().Args[0]), ".Errors") {
						if c, isC := bo.Y.(*ssa.Const); isC && c.Int64() == 0 && ((bo.Op == token.NEQ && !ce.Branch) || (bo.Op == token.EQL && ce.Branch)) {
							okRet = true
						}
					}
				}
			}
		}
		// the early return of the decoder's error has a nil first result; skip returns whose first result is nil
		if c, isC := ret.Results[0].(*ssa.Const); isC && c.IsNil() {
			continue
		}
		if okRet {
			r.OK("R5.1", "success-guard:TransformModFile", pos(ret.Pos()), "dominating-condition", "len(errors.Errors) == 0")
		} else {
			r.Bad("R5.1", "success-guard:TransformModFile", pos(ret.Pos()), "the manifest is returned without the guard len(errors.Errors) == 0: a rejected entry can be silently filtered")
		}
	}
	loopPaths(p, r)
}

func valueOf(in ssa.Instruction) ssa.Value {
	if v, ok := in.(ssa.Value); ok {
		return v
	}
	return nil
}

func describePos(node, fld string, ok bool) string {
	if !ok {
		return "an unrecognised expression"
	}
	if fld == "0" {
		return "0"
	}
	return node + "." + fld + " - 1"
}

// loopPaths (R5.3) enumerates the structured paths through the body of the contents loop and counts
// error appends and accepts on each.
func loopPaths(p *load.Prog, r *oblig.Report) {
	fd, pk := p.FuncDecl("transformer", "TransformModFile")
	if fd == nil {
		return
	}
	info := pk.TypesInfo
	var loop *ast.RangeStmt
	ast.Inspect(fd.Body, func(n ast.Node) bool {
		if rs, ok := n.(*ast.RangeStmt); ok && loop == nil {
			// the loop over the items of the contents node: the only range over a list of YAML nodes
			if tv, ok := info.Types[rs.X]; ok {
				if sl, isSlice := tv.Type.Underlying().(*types.Slice); isSlice && strings.HasSuffix(sl.Elem().String(), "yaml.v3.Node") {
					loop = rs
				}
			}
		}
		return true
	})
	construct := "one-outcome-per-entry:contents-loop"
	if loop == nil {
		r.Unknown("R5.3", construct, p.Pos(fd.Pos()), "the loop over Contents.Content was not found")
		return
	}
	type path struct {
		errs, accepts int
		done          bool
		trace         []string
	}
	undecided := ""
	isAppendTo := func(as *ast.AssignStmt) string {
		if len(as.Lhs) != 1 || len(as.Rhs) != 1 {
			return ""
		}
		call, ok := as.Rhs[0].(*ast.CallExpr)
		if !ok {
			return ""
		}
		lhs := types.ExprString(as.Lhs[0])
		if sel, ok := call.Fun.(*ast.SelectorExpr); ok && sel.Sel.Name == "Append" && len(call.Args) >= 1 && types.ExprString(call.Args[0]) == lhs {
			if tv, ok := info.Types[as.Lhs[0]]; ok && strings.Contains(tv.Type.String(), "multierror.Error") {
				return "error"
			}
		}
		if id, ok := call.Fun.(*ast.Ident); ok && id.Name == "append" && len(call.Args) >= 1 && types.ExprString(call.Args[0]) == lhs {
			if tv, ok := info.Types[as.Lhs[0]]; ok && strings.Contains(tv.Type.String(), "ModFileStringProperty") {
				return "accept"
			}
		}
		return ""
	}
	// reportsViaHelper: the callee is a function literal bound to a local (or a function of the package) whose body
	// appends to the error accumulator on every path (its top-level statements)
	reportsViaHelper := func(call *ast.CallExpr) bool {
		id, ok := call.Fun.(*ast.Ident)
		if !ok {
			return false
		}
		obj := info.Uses[id]
		var body *ast.BlockStmt
		ast.Inspect(fd, func(n ast.Node) bool {
			switch x := n.(type) {
			case *ast.AssignStmt:
				for i, l := range x.Lhs {
					if lid, ok := l.(*ast.Ident); ok && info.Defs[lid] == obj && i < len(x.Rhs) {
						if fl, ok := x.Rhs[i].(*ast.FuncLit); ok {
							body = fl.Body
						}
					}
				}
			}
			return true
		})
		if body == nil {
			for _, f := range pk.Syntax {
				for _, d := range f.Decls {
					if hd, ok := d.(*ast.FuncDecl); ok && hd.Body != nil && info.Defs[hd.Name] == obj {
						body = hd.Body
					}
				}
			}
		}
		if body == nil {
			return false
		}
		for _, st := range body.List {
			if as, ok := st.(*ast.AssignStmt); ok && isAppendTo(as) == "error" {
				return true
			}
		}
		return false
	}
	var walk func(stmts []ast.Stmt, in []path) []path
	walk = func(stmts []ast.Stmt, in []path) []path {
		cur := in
		for _, st := range stmts {
			var live, finished []path
			for _, pt := range cur {
				if pt.done {
					finished = append(finished, pt)
				} else {
					live = append(live, pt)
				}
			}
			if len(live) == 0 {
				return cur
			}
			switch s := st.(type) {
			case *ast.AssignStmt:
				switch isAppendTo(s) {
				case "error":
					for i := range live {
						live[i].errs++
					}
				case "accept":
					for i := range live {
						live[i].accepts++
					}
				}
			case *ast.BranchStmt:
				if s.Tok == token.CONTINUE {
					for i := range live {
						live[i].done = true
					}
				} else {
					undecided = "branch statement " + s.Tok.String() + " in the loop body"
				}
			case *ast.IfStmt:
				thenP := walk(s.Body.List, clonePaths(live))
				var elseP []path
				switch e := s.Else.(type) {
				case nil:
					elseP = clonePaths(live)
				case *ast.BlockStmt:
					elseP = walk(e.List, clonePaths(live))
				case *ast.IfStmt:
					elseP = walk([]ast.Stmt{e}, clonePaths(live))
				}
				live = append(thenP, elseP...)
			case *ast.BlockStmt:
				live = walk(s.List, live)
			case *ast.ExprStmt:
				// a call of a local closure (or package helper) whose body appends to the error accumulator
				if call, ok := s.X.(*ast.CallExpr); ok && reportsViaHelper(call) {
					for i := range live {
						live[i].errs++
					}
				}
			case *ast.SwitchStmt:
				// each clause is one way through; without a default the item may pass on untouched
				var outP []path
				hasDefault := false
				for _, c := range s.Body.List {
					cc := c.(*ast.CaseClause)
					if cc.List == nil {
						hasDefault = true
					}
					outP = append(outP, walk(cc.Body, clonePaths(live))...)
				}
				if !hasDefault {
					outP = append(outP, clonePaths(live)...)
				}
				live = outP
			case *ast.DeclStmt, *ast.EmptyStmt:
			default:
				undecided = fmt.Sprintf("statement %T in the loop body (nested loops are not enumerated)", st)
			}
			cur = append(finished, live...)
		}
		return cur
	}
	paths := walk(loop.Body.List, []path{{}})
	if undecided != "" {
		r.Unknown("R5.3", construct, p.Pos(loop.Pos()), "cannot enumerate the paths of the loop body: "+undecided)
		return
	}
	hist := map[string]int{}
	bad := 0
	for _, pt := range paths {
		k := fmt.Sprintf("errors=%d accepts=%d", pt.errs, pt.accepts)
		hist[k]++
		if pt.errs+pt.accepts != 1 {
			bad++
		}
	}
	var keys []string
	for k, v := range hist {
		keys = append(keys, fmt.Sprintf("%s ×%d", k, v))
	}
	sort.Strings(keys)
	if bad == 0 {
		r.OK("R5.3", construct, p.Pos(loop.Pos()), "path-enumeration", fmt.Sprintf("%d structured paths: %s", len(paths), strings.Join(keys, "; ")))
	} else {
		r.Bad("R5.3", construct, p.Pos(loop.Pos()), fmt.Sprintf("%d of %d paths through the loop body do not produce exactly one outcome (%s): an offending entry is skipped silently or reported more than once", bad, len(paths), strings.Join(keys, "; ")))
	}
}

func clonePaths[T any](in []T) []T { return append([]T(nil), in...) }

// helperForwardsDecodeError: every return of h with a nil error is dominated by the decode error being nil
// (so a nil error of the helper means the decode succeeded).
func helperForwardsDecodeError(h *ssa.Function, decodeTuple ssa.Value) bool {
	if h == nil || decodeTuple == nil {
		return false
	}
	rets := e5path.SuccessReturns(h)
	if len(rets) == 0 {
		return false
	}
	for _, ret := range rets {
		ok := false
		for _, ce := range e5path.DominatingConds(ret.Block()) {
			if c, isB := ce.Cond.(*ssa.BinOp); isB {
				if ex, isEx := c.X.(*ssa.Extract); isEx && ex.Tuple == decodeTuple && ex.Index == 1 {
					if cn, isC := c.Y.(*ssa.Const); isC && cn.IsNil() && ((c.Op == token.NEQ && !ce.Branch) || (c.Op == token.EQL && ce.Branch)) {
						ok = true
					}
				}
			}
		}
		if !ok {
			return false
		}
	}
	return true
}

type impliedTest struct {
	call   *ssa.Call
	branch bool
}

// impliedTests: the library predicate calls whose outcome is determined whenever the boolean helper h
// returns want (facts common to every way of returning want). Handles straight returns of a call,
// negation, and short-circuit && / || (compiled to phis).
func impliedTests(h *ssa.Function, want bool) []impliedTest {
	var all [][]impliedTest
	for _, b := range h.Blocks {
		ret, ok := b.Instrs[len(b.Instrs)-1].(*ssa.Return)
		if !ok || len(ret.Results) != 1 {
			continue
		}
		base := pathTests(b)
		for _, alt := range valueTests(ret.Results[0], want, 0) {
			if alt == nil {
				continue // this way of producing the value cannot yield want
			}
			all = append(all, append(append([]impliedTest{}, base...), alt.tests...))
		}
	}
	if len(all) == 0 {
		return nil
	}
	// intersection over the alternatives
	var out []impliedTest
	for _, t := range all[0] {
		inAll := true
		for _, other := range all[1:] {
			found := false
			for _, o := range other {
				if o == t {
					found = true
				}
			}
			if !found {
				inAll = false
			}
		}
		if inAll {
			out = append(out, t)
		}
	}
	return out
}

type testAlt struct{ tests []impliedTest }

func pathTests(b *ssa.BasicBlock) []impliedTest {
	var out []impliedTest
	for _, ce := range e5path.DominatingConds(b) {
		for _, alt := range valueTests(ce.Cond, ce.Branch, 0) {
			if alt != nil {
				out = append(out, alt.tests...)
				break
			}
		}
	}
	return out
}

// valueTests: the ways v can have the boolean value want, each with the predicate calls it fixes; a nil entry is an impossible way.
func valueTests(v ssa.Value, want bool, depth int) []*testAlt {
	if depth > 6 {
		return []*testAlt{{}}
	}
	switch x := v.(type) {
	case *ssa.Const:
		if x.Value != nil && (x.Value.String() == "true") == want {
			return []*testAlt{{}}
		}
		return []*testAlt{nil}
	case *ssa.Call:
		return []*testAlt{{tests: []impliedTest{{x, want}}}}
	case *ssa.UnOp:
		if x.Op == token.NOT {
			return valueTests(x.X, !want, depth+1)
		}
	case *ssa.Phi:
		var out []*testAlt
		for i, e := range x.Edges {
			pred := x.Block().Preds[i]
			base := pathTests(pred)
			if ifi, ok := pred.Instrs[len(pred.Instrs)-1].(*ssa.If); ok {
				br := pred.Succs[0] == x.Block()
				for _, alt := range valueTests(ifi.Cond, br, depth+1) {
					if alt != nil {
						base = append(base, alt.tests...)
						break
					}
				}
			}
			for _, alt := range valueTests(e, want, depth+1) {
				if alt == nil {
					continue
				}
				out = append(out, &testAlt{tests: append(append([]impliedTest{}, base...), alt.tests...)})
			}
		}
		if len(out) == 0 {
			return []*testAlt{nil}
		}
		return out
	}
	return []*testAlt{{}}
}
