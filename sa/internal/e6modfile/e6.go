// Package e6modfile decides the fga.mod clauses (C15) on TransformModFile: the value chain of every
// accepted path, the guards on that same value, the positions, the schema, and that every rejected
// entry produces exactly one error.
package e6modfile

import (
	"go/types"

	"golang.org/x/tools/go/ssa"

	"verif/sa/internal/load"
	"verif/sa/internal/oblig"
)

func staticName(v ssa.Value) (string, *ssa.Call) {
	call, ok := v.(*ssa.Call)
	if !ok {
		return "", nil
	}
	c := call.Common().StaticCallee()
	if c == nil || c.Pkg == nil {
		return "", call
	}
	return c.Pkg.Pkg.Path() + "." + c.Name(), call
}

var errIfaceCache *types.Interface

func errIface() *types.Interface {
	if errIfaceCache == nil {
		errIfaceCache = types.Universe.Lookup("error").Type().Underlying().(*types.Interface)
	}
	return errIfaceCache
}

// Run decides all E6 rules.
func Run(p *load.Prog, r *oblig.Report) {
	r.Rule("R6.1", "path-enumeration", "every accepted path value is ReplaceAll(QueryUnescape(node.Value), \"\\\\\", \"/\") — decode first, separator normalisation outermost, nothing else in the chain", 1)
	r.Rule("R6.2", "path-enumeration", "on every path on which an entry is accepted, these were established before: decode error nil, string tag, !Contains(V,\"../\"), !HasPrefix(V,\"/\"), HasSuffix(V,\".fga\") — all on the very value V that is returned", 5)
	r.Rule("R6.4", "path-enumeration", "Line/Column of every property and error are the constant 0 or node.Line-1 / node.Column-1 of one node, the node whose value is reported", 8)
	r.Rule("R6.5", "path-enumeration", "the schema is stored only when its value equals \"1.2\"; the manifest text reaches the YAML decoder unmodified", 2)
	r.Rule("R5.3", "path-enumeration", "on every path through one iteration of the contents loop exactly one thing happens: one error is reported or the entry is accepted", 1)
	r.Rule("R5.1", "path-enumeration", "no path on which an error is reported ends in the successful return of the manifest", 1)
	fn := p.Func("transformer", "TransformModFile")
	if fn == nil {
		r.Unknown("R6.1", "anchor:TransformModFile", "-", "function not found")
		return
	}
	// all rules are decided on the enumerated paths of TransformModFile (helpers and closures followed): see e6x.go
	RunPaths(p, r, fn)
}

func valueOf(in ssa.Instruction) ssa.Value {
	if v, ok := in.(ssa.Value); ok {
		return v
	}
	return nil
}

func describePos(node, fld string, ok bool) string {
	if !ok {
		return "an unrecognised expression"
	}
	if fld == "0" {
		return "0"
	}
	return node + "." + fld + " - 1"
}
