package e8grammar

import (
	"fmt"
	"sort"
	"strings"

	"verif/sa/internal/atn"
	"verif/sa/internal/fa"
	"verif/sa/internal/oblig"
)

// R86 — lexer stack divergence.
//
// The ANTLR lexer keeps one configuration per (ATN state, call stack). If, from some configuration
// c inside a recursive lexer rule, one non-empty word w leads back to the same state with two
// different stack growths, then after n repetitions of w there are Θ(n) live stack heights, each a
// context of size Θ(n): Θ(n²) work per character, cubic in total. Absence of such a (c, w) is
// therefore necessary for the quadratic bound of C08.
//
// Model: a run is tracked relative to its start as (state, exact frames of calls of non-recursive
// rules, number h of frames of recursive rules pushed since the start); a run may not pop below
// its start. Two runs on the same word are explored in lockstep for up to maxLen characters.
// cutSet: characters the DSL pre-pass guarantees are never immediately followed by '\n'.

type dconf struct {
	st int
	ex string // comma-joined exact frames
	h  int
}

func (w *World) R86(r *oblig.Report, rule string, cutSet string, maxLen int) {
	r.Rule(rule, "universe", "no lexer configuration inside a recursive rule is re-entered by one word with two different stack growths (stack divergence makes lexing cubic)", 0)
	art := w.Arts["go/lexer"]
	if art == nil || w.GoLexer == nil {
		r.Unknown(rule, "anchor:go-lexer", "-", "Go lexer automaton missing")
		return
	}
	a := w.GoLexer
	nr := len(a.RuleStart)
	// rule call graph and recursive rules
	calls := make([]map[int]bool, nr)
	for i := range calls {
		calls[i] = map[int]bool{}
	}
	recFollow := map[int][]int{} // recursive rule → follow states of its recursive call sites
	for _, e := range a.Edges {
		if e.Type == atn.TRule {
			calls[a.States[e.Src].Rule][e.A2] = true
		}
	}
	reach := func(from int) map[int]bool {
		seen := map[int]bool{}
		stack := []int{from}
		for len(stack) > 0 {
			x := stack[len(stack)-1]
			stack = stack[:len(stack)-1]
			for c := range calls[x] {
				if !seen[c] {
					seen[c] = true
					stack = append(stack, c)
				}
			}
		}
		return seen
	}
	recursive := map[int]bool{}
	for i := 0; i < nr; i++ {
		if reach(i)[i] {
			recursive[i] = true
		}
	}
	var recNames []string
	for i := range recursive {
		recNames = append(recNames, art.Rules[i])
	}
	sort.Strings(recNames)
	r.Analysed["recursive_lexer_rules"] = recNames
	for _, e := range a.Edges {
		if e.Type == atn.TRule && recursive[e.A2] {
			if !recursive[a.States[e.Src].Rule] {
				continue // entered from outside the recursion: an ordinary call
			}
			recFollow[e.A2] = append(recFollow[e.A2], e.Trg)
		}
	}
	// character classes of the whole lexer
	dummy := fa.New()
	s0 := dummy.AddState()
	s1 := dummy.AddState()
	uni := universe("lexer", 0)
	for _, e := range a.Edges {
		iv, neg, ok := a.EdgeSymbols(e)
		if !ok {
			continue
		}
		set := toFA(iv)
		if neg {
			set = fa.Complement(set, uni)
		}
		dummy.AddSet(s0, s1, set)
	}
	for _, c := range cutSet + "\n" {
		dummy.AddSet(s0, s1, []fa.Interval{{Lo: int(c), Hi: int(c)}})
	}
	classes := fa.Classes(dummy)
	isCut := make([]bool, len(classes))
	isNL := make([]bool, len(classes))
	for i, c := range classes {
		if c.Lo == c.Hi {
			if strings.ContainsRune(cutSet, rune(c.Lo)) {
				isCut[i] = true
			}
			if c.Lo == '\n' {
				isNL[i] = true
			}
		}
	}
	edgeHas := func(e *atn.Edge, class int) bool {
		iv, neg, _ := a.EdgeSymbols(e)
		in := false
		rep := classes[class].Lo
		for _, v := range iv {
			if rep >= v.Lo && rep <= v.Hi {
				in = true
			}
		}
		return in != neg
	}
	undecided := ""
	// one-side epsilon closure (relative configurations)
	closure := func(start dconf) []dconf {
		seen := map[dconf]bool{start: true}
		stack := []dconf{start}
		for len(stack) > 0 {
			c := stack[len(stack)-1]
			stack = stack[:len(stack)-1]
			push := func(n dconf) {
				if n.h > maxLen+2 || len(n.ex) > 200 {
					return
				}
				if !seen[n] {
					seen[n] = true
					stack = append(stack, n)
				}
			}
			s := a.States[c.st]
			if s.Type == atn.StRuleStop {
				if c.ex != "" {
					i := strings.LastIndex(c.ex, ",")
					var ret int
					fmt.Sscanf(c.ex[i+1:], "%d", &ret)
					push(dconf{ret, c.ex[:i], c.h})
				} else if recursive[s.Rule] && c.h > 0 {
					for _, f := range recFollow[s.Rule] {
						push(dconf{f, "", c.h - 1})
					}
				}
				continue
			}
			for _, e := range s.Out {
				switch e.Type {
				case atn.TEpsilon, atn.TAction, atn.TPredicate, atn.TPrecedence:
					push(dconf{e.Trg, c.ex, c.h})
				case atn.TRule:
					if recursive[e.A2] && recursive[s.Rule] {
						if c.ex != "" {
							undecided = "a recursive lexer rule is called from inside a fragment call: the stack abstraction does not cover this shape"
							continue
						}
						push(dconf{e.A1, "", c.h + 1})
					} else {
						push(dconf{e.A1, fmt.Sprintf("%s,%d", c.ex, e.Trg), c.h})
					}
				}
			}
		}
		out := make([]dconf, 0, len(seen))
		for c := range seen {
			out = append(out, c)
		}
		return out
	}
	consume := func(c dconf, class int) []dconf {
		var out []dconf
		for _, e := range a.States[c.st].Out {
			switch e.Type {
			case atn.TAtom, atn.TRange, atn.TSet, atn.TNotSet, atn.TWildcard:
				if edgeHas(e, class) {
					out = append(out, dconf{e.Trg, c.ex, c.h})
				}
			}
		}
		return out
	}
	type pair struct {
		a, b    dconf
		lastCut bool
	}
	type item struct {
		p    pair
		word []int
	}
	witnesses := map[string]string{} // word → rule
	startStates := 0
	for si, s := range a.States {
		if s.Rule < 0 || !recursive[s.Rule] || s.Type == atn.StRuleStop {
			continue
		}
		// only states from which something can be consumed directly are needed as cycle anchors
		consuming := false
		for _, e := range s.Out {
			switch e.Type {
			case atn.TAtom, atn.TRange, atn.TSet, atn.TNotSet, atn.TWildcard:
				consuming = true
			}
		}
		if !consuming {
			continue
		}
		startStates++
		for _, startCut := range []bool{false, true} {
			start := dconf{si, "", 0}
			frontier := []item{{pair{start, start, startCut}, nil}}
			seen := map[pair]bool{}
			for depth := 0; depth < maxLen; depth++ {
				var next []item
				for _, it := range frontier {
					for class := range classes {
						if it.p.lastCut && isNL[class] {
							continue // the pre-pass never leaves a cut-set character in front of a line break
						}
						as := consume(it.p.a, class)
						bs := consume(it.p.b, class)
						if len(as) == 0 || len(bs) == 0 {
							continue
						}
						word := append(append([]int{}, it.word...), class)
						for _, a1 := range as {
							for _, ca := range closure(a1) {
								for _, b1 := range bs {
									for _, cb := range closure(b1) {
										np := pair{ca, cb, isCut[class]}
										if ca.st == si && cb.st == si && ca.ex == "" && cb.ex == "" && ca.h != cb.h && np.lastCut == startCut {
											var sb strings.Builder
											for _, c := range word {
												sb.WriteRune(rune(classes[c].Lo))
											}
											witnesses[sb.String()] = art.Rules[s.Rule]
										}
										if !seen[np] {
											seen[np] = true
											next = append(next, item{np, word})
										}
									}
								}
							}
						}
					}
				}
				frontier = next
			}
		}
	}
	r.Analysed["divergence_anchor_states"] = startStates
	r.Analysed["lexer_character_classes"] = len(classes)
	r.Analysed["prepass_cut_set"] = cutSet
	if undecided != "" {
		r.Unknown(rule, "lexer-divergence:model", "pkg/go/gen/openfga_lexer.go", undecided)
	}
	if len(witnesses) == 0 {
		r.OK(rule, "lexer-divergence", "pkg/go/gen/openfga_lexer.go", "pair-exploration", fmt.Sprintf("%d anchor states in recursive rules %v, words up to length %d: no word re-enters a configuration with two different stack growths", startStates, recNames, maxLen))
		return
	}
	// group the witness words by the set of characters they use and keep the sets that are minimal
	// by inclusion: a smaller set explains every word over a superset
	type group struct {
		chars string
		words []string
		rule  string
	}
	groups := map[string]*group{}
	for w, rl := range witnesses {
		set := map[rune]bool{}
		for _, c := range w {
			set[c] = true
		}
		var cs []rune
		for c := range set {
			cs = append(cs, c)
		}
		sort.Slice(cs, func(i, j int) bool { return cs[i] < cs[j] })
		k := string(cs)
		if groups[k] == nil {
			groups[k] = &group{chars: k, rule: rl}
		}
		groups[k].words = append(groups[k].words, w)
	}
	var keys []string
	for k := range groups {
		keys = append(keys, k)
	}
	sort.Slice(keys, func(i, j int) bool {
		if len(keys[i]) != len(keys[j]) {
			return len(keys[i]) < len(keys[j])
		}
		return keys[i] < keys[j]
	})
	var minimal []string
	for _, k := range keys {
		dominated := false
		for _, m := range minimal {
			sub := true
			for _, c := range m {
				if !strings.ContainsRune(k, c) {
					sub = false
				}
			}
			if sub {
				dominated = true
			}
		}
		if !dominated {
			minimal = append(minimal, k)
		}
	}
	for _, k := range minimal {
		g := groups[k]
		sort.Slice(g.words, func(i, j int) bool {
			if len(g.words[i]) != len(g.words[j]) {
				return len(g.words[i]) < len(g.words[j])
			}
			return g.words[i] < g.words[j]
		})
		r.Bad(rule, fmt.Sprintf("lexer-divergence:%s:chars %q", g.rule, k), "OpenFGALexer.g4", fmt.Sprintf("inside lexer rule %s a run of the characters %q (shortest pumpable word %q) can be read with two different call-stack growths and returns to the same state: n repetitions keep Θ(n) stack heights alive, so lexing costs Θ(n³) — a few hundred bytes stall the caller", g.rule, k, g.words[0]))
	}
}

func isRepetition(w, m string) bool {
	if len(m) == 0 || len(w)%len(m) != 0 {
		return false
	}
	return strings.Repeat(m, len(w)/len(m)) == w
}
