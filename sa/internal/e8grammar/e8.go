// Package e8grammar holds the grammar/automaton engine: artefact identity, vocabulary checks,
// per-rule language equivalence between the .g4 rule bodies and the serialized ATN, grammar path
// properties, the rule-invocation graph and the lexer stack-divergence analysis.
package e8grammar

import (
	"fmt"
	"path/filepath"
	"sort"
	"strings"

	"verif/sa/internal/atn"
	"verif/sa/internal/fa"
	"verif/sa/internal/g4"
	"verif/sa/internal/oblig"
)

// World is everything read from the repository for the grammar engine.
type World struct {
	Root      string
	LexerG    *g4.Grammar
	ParserG   *g4.Grammar
	Arts      map[string]*atn.Artefact // key: "<lang>/<lexer|parser>" and "interp-<pkg>/<lexer|parser>"
	GoLexer   *atn.ATN
	GoParser  *atn.ATN
	TokenFile map[string][2]map[string]int // key as Arts for interp dirs: names, literals
	Errs      []string                     // unresolved anchors
}

var genDirs = map[string]string{
	"go":   "pkg/go/gen",
	"js":   "pkg/js/gen",
	"java": "pkg/java/src/main/gen/dev/openfga/language/antlr",
}

// Load reads grammars and artefacts. Missing or unreadable artefacts are collected in Errs.
func Load(root string) *World {
	w := &World{Root: root, Arts: map[string]*atn.Artefact{}, TokenFile: map[string][2]map[string]int{}}
	var err error
	if w.LexerG, err = g4.ParseFile(filepath.Join(root, "OpenFGALexer.g4")); err != nil {
		w.Errs = append(w.Errs, err.Error())
	}
	if w.ParserG, err = g4.ParseFile(filepath.Join(root, "OpenFGAParser.g4")); err != nil {
		w.Errs = append(w.Errs, err.Error())
	}
	add := func(key string, a *atn.Artefact, err error) {
		if err != nil {
			w.Errs = append(w.Errs, fmt.Sprintf("%s: %v", key, err))
			return
		}
		w.Arts[key] = a
	}
	a, err := atn.FromGo(filepath.Join(root, genDirs["go"], "openfga_lexer.go"))
	add("go/lexer", a, err)
	a, err = atn.FromGo(filepath.Join(root, genDirs["go"], "openfga_parser.go"))
	add("go/parser", a, err)
	a, err = atn.FromTS(filepath.Join(root, genDirs["js"], "OpenFGALexer.ts"))
	add("ts/lexer", a, err)
	a, err = atn.FromTS(filepath.Join(root, genDirs["js"], "OpenFGAParser.ts"))
	add("ts/parser", a, err)
	a, err = atn.FromJava(filepath.Join(root, genDirs["java"], "OpenFGALexer.java"))
	add("java/lexer", a, err)
	a, err = atn.FromJava(filepath.Join(root, genDirs["java"], "OpenFGAParser.java"))
	add("java/parser", a, err)
	for _, lang := range []string{"go", "js", "java"} {
		for _, which := range []string{"Lexer", "Parser"} {
			key := "interp-" + lang + "/" + strings.ToLower(which)
			a, err = atn.FromInterp(filepath.Join(root, genDirs[lang], "OpenFGA"+which+".interp"))
			add(key, a, err)
			names, lits, err := atn.Tokens(filepath.Join(root, genDirs[lang], "OpenFGA"+which+".tokens"))
			if err != nil {
				w.Errs = append(w.Errs, fmt.Sprintf("%s tokens: %v", key, err))
			} else {
				w.TokenFile[key] = [2]map[string]int{names, lits}
			}
		}
	}
	if a := w.Arts["go/lexer"]; a != nil {
		if w.GoLexer, err = atn.Decode(a.Ints); err != nil {
			w.Errs = append(w.Errs, "go/lexer: "+err.Error())
		}
	}
	if a := w.Arts["go/parser"]; a != nil {
		if w.GoParser, err = atn.Decode(a.Ints); err != nil {
			w.Errs = append(w.Errs, "go/parser: "+err.Error())
		}
	}
	return w
}

// ArtKeys returns artefact keys for one grammar kind in a fixed order.
func ArtKeys(kind string) []string {
	return []string{"go/" + kind, "ts/" + kind, "java/" + kind, "interp-go/" + kind, "interp-js/" + kind, "interp-java/" + kind}
}

func eqInts(a, b []int) (bool, int) {
	n := min(len(a), len(b))
	for i := 0; i < n; i++ {
		if a[i] != b[i] {
			return false, i
		}
	}
	if len(a) != len(b) {
		return false, n
	}
	return true, -1
}

func eqStrs(a, b []string) (bool, string) {
	n := min(len(a), len(b))
	for i := 0; i < n; i++ {
		if a[i] != b[i] {
			return false, fmt.Sprintf("index %d: %q vs %q", i, a[i], b[i])
		}
	}
	if len(a) != len(b) {
		return false, fmt.Sprintf("length %d vs %d", len(a), len(b))
	}
	return true, ""
}

func trimTrailingEmpty(s []string) []string {
	for len(s) > 0 && s[len(s)-1] == "" {
		s = s[:len(s)-1]
	}
	return s
}

// R81 artefact identity.
func (w *World) R81(r *oblig.Report) (programs, comparisons int) {
	r.Rule("R8.1", "instance-table", "the serialized ATN and the vocabulary tables extracted from the Go, TS and Java recognisers and the six .interp files are identical per grammar; .tokens files agree with the symbolic/literal tables; all headers name one ANTLR version", 40)
	for _, e := range w.Errs {
		r.Unknown("R8.1", "anchor:"+e, "-", "artefact or grammar could not be read: "+e)
	}
	versions := map[string][]string{}
	for _, kind := range []string{"lexer", "parser"} {
		keys := ArtKeys(kind)
		ref := w.Arts[keys[0]]
		if ref == nil {
			continue
		}
		programs++
		if ref.Header != "" {
			versions[ref.Header] = append(versions[ref.Header], keys[0])
		}
		for _, k := range keys[1:] {
			o := w.Arts[k]
			if o == nil {
				continue
			}
			programs++
			if o.Header != "" {
				versions[o.Header] = append(versions[o.Header], k)
			}
			comparisons++
			if ok, at := eqInts(ref.Ints, o.Ints); ok {
				r.OK("R8.1", "atn-identity:"+keys[0]+"="+k, rel(w.Root, o.Path), "int-seq", fmt.Sprintf("%d integers equal", len(o.Ints)))
			} else {
				r.Bad("R8.1", "atn-identity:"+keys[0]+"="+k, rel(w.Root, o.Path), fmt.Sprintf("serialized ATN differs from %s at integer %d (lengths %d / %d)", keys[0], at, len(ref.Ints), len(o.Ints)))
			}
			for _, tb := range []struct {
				name string
				a, b []string
			}{
				{"rule-names", ref.Rules, o.Rules},
				{"symbolic-names", trimTrailingEmpty(ref.Symbolic), trimTrailingEmpty(o.Symbolic)},
				{"literal-names", trimTrailingEmpty(ref.Literal), trimTrailingEmpty(o.Literal)},
				{"channel-names", ref.Channels, o.Channels},
				{"mode-names", ref.Modes, o.Modes},
			} {
				if kind == "parser" && (tb.name == "channel-names" || tb.name == "mode-names") {
					continue
				}
				comparisons++
				if ok, why := eqStrs(tb.a, tb.b); ok {
					r.OK("R8.1", tb.name+":"+keys[0]+"="+k, rel(w.Root, o.Path), "table", fmt.Sprintf("%d entries equal", len(tb.b)))
				} else {
					r.Bad("R8.1", tb.name+":"+keys[0]+"="+k, rel(w.Root, o.Path), tb.name+" differ: "+why)
				}
			}
		}
		// .tokens files against the reference tables
		for _, lang := range []string{"go", "js", "java"} {
			k := "interp-" + lang + "/" + kind
			tf, ok := w.TokenFile[k]
			if !ok {
				continue
			}
			comparisons++
			bad := ""
			wantNames, wantLits := map[string]int{}, map[string]int{}
			for i, s := range ref.Symbolic {
				if s != "" {
					wantNames[s] = i
				}
			}
			for i, s := range ref.Literal {
				if s != "" {
					wantLits[s] = i
				}
			}
			if !eqMap(tf[0], wantNames) {
				bad = "symbolic token numbering differs"
			} else if !eqMap(tf[1], wantLits) {
				bad = "literal token numbering differs"
			}
			if bad == "" {
				r.OK("R8.1", "tokens-file:"+k, "-", "tokens", fmt.Sprintf("%d names, %d literals", len(tf[0]), len(tf[1])))
			} else {
				r.Bad("R8.1", "tokens-file:"+k, "-", bad)
			}
		}
	}
	if len(versions) == 1 {
		for v, ks := range versions {
			r.OK("R8.1", "antlr-version", "-", "header", fmt.Sprintf("ANTLR %s in %d generated sources", v, len(ks)))
		}
	} else {
		r.Bad("R8.1", "antlr-version", "-", fmt.Sprintf("generated sources name %d different ANTLR versions: %v", len(versions), versions))
	}
	return
}

func eqMap(a, b map[string]int) bool {
	if len(a) != len(b) {
		return false
	}
	for k, v := range a {
		if bv, ok := b[k]; !ok || bv != v {
			return false
		}
	}
	return true
}

func rel(root, p string) string {
	if r, err := filepath.Rel(root, p); err == nil {
		return r
	}
	return p
}

// ExpectedVocab derives the lexer vocabulary from the .g4 declarations.
func ExpectedVocab(lg *g4.Grammar) (symbolic []string, literal []string, ruleNames []string) {
	symbolic = []string{""}
	idx := map[string]int{}
	add := func(n string) {
		if _, ok := idx[n]; !ok {
			idx[n] = len(symbolic)
			symbolic = append(symbolic, n)
		}
	}
	for _, t := range lg.Tokens {
		add(t)
	}
	for _, rl := range lg.Rules {
		ruleNames = append(ruleNames, rl.Name)
		if rl.Fragment {
			continue
		}
		hasType := false
		for _, c := range rl.Commands {
			if c.Name == "type" {
				hasType = true
			}
		}
		if !hasType {
			add(rl.Name)
		}
	}
	literal = make([]string, len(symbolic))
	for _, rl := range lg.Rules {
		if rl.Fragment {
			continue
		}
		if s, ok := rl.SingleLiteral(); ok {
			if i, ok := idx[rl.Name]; ok && literal[i] == "" {
				literal[i] = "'" + s + "'"
			}
		}
	}
	return
}

// R82 vocabulary against the grammar declarations.
func (w *World) R82(r *oblig.Report) {
	r.Rule("R8.2", "instance-table", "rule names, symbolic token names, literal names and modes of the embedded Go tables equal what the .g4 files declare (order included)", 6)
	if w.LexerG == nil || w.ParserG == nil || w.Arts["go/lexer"] == nil || w.Arts["go/parser"] == nil {
		r.Unknown("R8.2", "anchor:grammars", "-", "grammar or Go artefact missing")
		return
	}
	sym, lit, lrules := ExpectedVocab(w.LexerG)
	gl, gp := w.Arts["go/lexer"], w.Arts["go/parser"]
	chk := func(name string, got, want []string) {
		if ok, why := eqStrs(trimTrailingEmpty(got), trimTrailingEmpty(want)); ok {
			r.OK("R8.2", name, "-", "table", fmt.Sprintf("%d entries", len(want)))
		} else {
			r.Bad("R8.2", name, "-", "generated table differs from the .g4 declarations: "+why)
		}
	}
	chk("lexer-rule-names", gl.Rules, lrules)
	chk("lexer-symbolic-names", gl.Symbolic, sym)
	chk("lexer-literal-names", gl.Literal, lit)
	chk("lexer-modes", gl.Modes, w.LexerG.Modes)
	var prules []string
	for _, rl := range w.ParserG.Rules {
		prules = append(prules, rl.Name)
	}
	chk("parser-rule-names", gp.Rules, prules)
	chk("parser-symbolic-names", gp.Symbolic, sym)
	chk("parser-literal-names", gp.Literal, lit)
	if w.ParserG.TokenVocab != w.LexerG.Name {
		r.Bad("R8.2", "parser-tokenVocab", "-", fmt.Sprintf("parser grammar uses tokenVocab=%s, lexer grammar is %s", w.ParserG.TokenVocab, w.LexerG.Name))
	} else {
		r.OK("R8.2", "parser-tokenVocab", "-", "option", w.ParserG.TokenVocab)
	}
	// every token referenced by the parser grammar is declared
	symIdx := map[string]bool{"EOF": true}
	for _, s := range sym {
		symIdx[s] = true
	}
	missing := []string{}
	for _, rl := range w.ParserG.Rules {
		g4.Walk(rl.Body, func(n g4.Node) {
			if ref, ok := n.(*g4.Ref); ok && isTokenName(ref.Name) && !symIdx[ref.Name] {
				missing = append(missing, rl.Name+"→"+ref.Name)
			}
		})
	}
	if len(missing) == 0 {
		r.OK("R8.2", "parser-token-refs", "-", "declared", "every token referenced by a parser rule is declared by the lexer grammar")
	} else {
		r.Bad("R8.2", "parser-token-refs", "-", "parser rules reference undeclared tokens: "+strings.Join(missing, ", "))
	}
}

func isTokenName(s string) bool { return s != "" && s[0] >= 'A' && s[0] <= 'Z' }

// universe of symbols for complements and wildcards.
func universe(kind string, maxTok int) fa.Interval {
	if kind == "lexer" {
		return fa.Interval{Lo: 0, Hi: 0x10FFFF}
	}
	return fa.Interval{Lo: 1, Hi: maxTok}
}

// ATNRuleNFA builds the NFA of rule ri's sub-automaton; rule transitions become reference symbols.
func ATNRuleNFA(a *atn.ATN, ri int, kind string) (*fa.NFA, error) {
	n := fa.New()
	m := map[int]int{}
	st := func(s int) int {
		if v, ok := m[s]; ok {
			return v
		}
		v := n.AddState()
		m[s] = v
		return v
	}
	if ri >= len(a.RuleStart) || a.RuleStop[ri] < 0 {
		return nil, fmt.Errorf("rule %d has no start/stop state", ri)
	}
	n.Start = st(a.RuleStart[ri])
	stop := st(a.RuleStop[ri])
	n.Accept[stop] = true
	uni := universe(kind, a.MaxTokenType)
	for si, s := range a.States {
		if s.Rule != ri || s.Type == atn.StRuleStop {
			continue
		}
		for _, e := range s.Out {
			if a.States[e.Trg].Rule != ri {
				return nil, fmt.Errorf("edge %d->%d leaves rule %d", e.Src, e.Trg, ri)
			}
			from, to := st(si), st(e.Trg)
			switch e.Type {
			case atn.TEpsilon, atn.TAction, atn.TPredicate, atn.TPrecedence:
				n.AddEps(from, to)
			case atn.TRule:
				n.AddRef(from, to, e.A2)
			default:
				iv, neg, ok := a.EdgeSymbols(e)
				if !ok {
					return nil, fmt.Errorf("unknown transition type %d", e.Type)
				}
				set := toFA(iv)
				if neg {
					set = fa.Complement(set, uni)
				}
				n.AddSet(from, to, set)
			}
		}
	}
	return n, nil
}

func toFA(iv []atn.Interval) []fa.Interval {
	out := make([]fa.Interval, len(iv))
	for i, v := range iv {
		out[i] = fa.Interval{Lo: v.Lo, Hi: v.Hi}
	}
	return out
}

type builder struct {
	n       *fa.NFA
	kind    string
	uni     fa.Interval
	ruleIdx map[string]int
	tokIdx  map[string]int
}

// G4RuleNFA builds a Thompson NFA from a rule body.
func G4RuleNFA(rule *g4.Rule, kind string, ruleIdx, tokIdx map[string]int, maxTok int) (*fa.NFA, error) {
	b := &builder{n: fa.New(), kind: kind, uni: universe(kind, maxTok), ruleIdx: ruleIdx, tokIdx: tokIdx}
	s := b.n.AddState()
	e, err := b.build(rule.Body, s)
	if err != nil {
		return nil, fmt.Errorf("rule %s: %v", rule.Name, err)
	}
	b.n.Start = s
	b.n.Accept[e] = true
	return b.n, nil
}

// setOf interprets a node as a symbol set (for ~X).
func (b *builder) setOf(x g4.Node) ([]fa.Interval, error) {
	switch v := x.(type) {
	case *g4.Lit:
		if b.kind != "lexer" || len(v.S) != 1 {
			return nil, fmt.Errorf("literal %q is not a single character set element", string(v.S))
		}
		return []fa.Interval{{Lo: int(v.S[0]), Hi: int(v.S[0])}}, nil
	case *g4.Range:
		return []fa.Interval{{Lo: int(v.Lo), Hi: int(v.Hi)}}, nil
	case *g4.Ref:
		if b.kind == "parser" && isTokenName(v.Name) {
			t, ok := b.tokIdx[v.Name]
			if !ok {
				return nil, fmt.Errorf("unknown token %s", v.Name)
			}
			return []fa.Interval{{Lo: t, Hi: t}}, nil
		}
		return nil, fmt.Errorf("reference %s inside a set", v.Name)
	case *g4.Alt:
		var out []fa.Interval
		for _, a := range v.Alts {
			s, err := b.setOf(a)
			if err != nil {
				return nil, err
			}
			out = append(out, s...)
		}
		return out, nil
	}
	return nil, fmt.Errorf("unsupported set element %T", x)
}

func (b *builder) build(x g4.Node, from int) (int, error) {
	n := b.n
	switch v := x.(type) {
	case nil:
		return from, nil
	case *g4.Seq:
		cur := from
		for _, it := range v.Items {
			var err error
			if cur, err = b.build(it, cur); err != nil {
				return 0, err
			}
		}
		return cur, nil
	case *g4.Alt:
		end := n.AddState()
		for _, a := range v.Alts {
			s := n.AddState()
			n.AddEps(from, s)
			e, err := b.build(a, s)
			if err != nil {
				return 0, err
			}
			n.AddEps(e, end)
		}
		return end, nil
	case *g4.Rep:
		s := n.AddState()
		n.AddEps(from, s)
		e, err := b.build(v.X, s)
		if err != nil {
			return 0, err
		}
		end := n.AddState()
		n.AddEps(e, end)
		if v.Min == 0 {
			n.AddEps(from, end)
		}
		if v.Inf {
			n.AddEps(e, s)
		}
		return end, nil
	case *g4.Lit:
		if b.kind != "lexer" {
			return 0, fmt.Errorf("string literal in parser rule is outside the supported subset")
		}
		cur := from
		for _, c := range v.S {
			nx := n.AddState()
			n.AddSet(cur, nx, []fa.Interval{{Lo: int(c), Hi: int(c)}})
			cur = nx
		}
		return cur, nil
	case *g4.Range:
		nx := n.AddState()
		n.AddSet(from, nx, []fa.Interval{{Lo: int(v.Lo), Hi: int(v.Hi)}})
		return nx, nil
	case *g4.Wild:
		nx := n.AddState()
		n.AddSet(from, nx, []fa.Interval{b.uni})
		return nx, nil
	case *g4.Not:
		set, err := b.setOf(v.X)
		if err != nil {
			return 0, err
		}
		nx := n.AddState()
		n.AddSet(from, nx, fa.Complement(set, b.uni))
		return nx, nil
	case *g4.Ref:
		nx := n.AddState()
		if v.Name == "EOF" {
			n.AddSet(from, nx, []fa.Interval{{Lo: atn.EOF, Hi: atn.EOF}})
			return nx, nil
		}
		if b.kind == "parser" && isTokenName(v.Name) {
			t, ok := b.tokIdx[v.Name]
			if !ok {
				return 0, fmt.Errorf("unknown token %s", v.Name)
			}
			n.AddSet(from, nx, []fa.Interval{{Lo: t, Hi: t}})
			return nx, nil
		}
		ri, ok := b.ruleIdx[v.Name]
		if !ok {
			return 0, fmt.Errorf("unknown rule %s", v.Name)
		}
		n.AddRef(from, nx, ri)
		return nx, nil
	}
	return 0, fmt.Errorf("unsupported node %T", x)
}

// Index helpers.
func ruleIndex(names []string) map[string]int {
	m := map[string]int{}
	for i, n := range names {
		m[n] = i
	}
	return m
}

func tokenIndex(sym []string) map[string]int {
	m := map[string]int{}
	for i, n := range sym {
		if n != "" {
			m[n] = i
		}
	}
	return m
}

// WordString renders a distinguishing word.
func WordString(word []fa.Sym, classes []fa.Interval, kind string, sym []string, rules []string) string {
	var parts []string
	for _, s := range word {
		if s.Ref >= 0 {
			if s.Ref < len(rules) {
				parts = append(parts, "<"+rules[s.Ref]+">")
			} else {
				parts = append(parts, fmt.Sprintf("<rule %d>", s.Ref))
			}
			continue
		}
		c := classes[s.Class].Lo
		if kind == "lexer" {
			parts = append(parts, fmt.Sprintf("%q", rune(c)))
		} else if c == atn.EOF {
			parts = append(parts, "EOF")
		} else if c >= 0 && c < len(sym) && sym[c] != "" {
			parts = append(parts, sym[c])
		} else {
			parts = append(parts, fmt.Sprintf("tok%d", c))
		}
	}
	if len(parts) == 0 {
		return "ε"
	}
	return strings.Join(parts, " ")
}

// R83 checks one artefact's ATN against the grammar rule by rule.
func (w *World) R83(r *oblig.Report, artKey string, kind string) (queries int) {
	r.Rule("R8.3", "instance-table", "for every rule, the rule's sub-automaton in the serialized ATN accepts exactly the language of the rule body written in the .g4 (rule references atomic); lexer commands, non-greedy sub-rule counts, mode membership and order, and rule→token-type tables agree", 102)
	art := w.Arts[artKey]
	var g *g4.Grammar
	if kind == "lexer" {
		g = w.LexerG
	} else {
		g = w.ParserG
	}
	if art == nil || g == nil || w.LexerG == nil {
		r.Unknown("R8.3", "anchor:"+artKey, "-", "artefact or grammar missing")
		return
	}
	a, err := atn.Decode(art.Ints)
	if err != nil {
		r.Unknown("R8.3", "decode:"+artKey, rel(w.Root, art.Path), err.Error())
		return
	}
	wantType := 1
	if kind == "lexer" {
		wantType = 0
	}
	if a.GrammarType != wantType {
		r.Bad("R8.3", "grammar-type:"+artKey, rel(w.Root, art.Path), fmt.Sprintf("serialized grammar type %d, expected %d", a.GrammarType, wantType))
	}
	sym, _, _ := ExpectedVocab(w.LexerG)
	if a.MaxTokenType != len(sym)-1 {
		r.Bad("R8.3", "max-token-type:"+artKey, rel(w.Root, art.Path), fmt.Sprintf("serialized maxTokenType %d, grammar declares %d token types", a.MaxTokenType, len(sym)-1))
	}
	if len(a.RuleStart) != len(g.Rules) {
		r.Bad("R8.3", "rule-count:"+artKey, rel(w.Root, art.Path), fmt.Sprintf("ATN has %d rules, grammar %d", len(a.RuleStart), len(g.Rules)))
		return
	}
	var names []string
	for _, rl := range g.Rules {
		names = append(names, rl.Name)
	}
	ridx := ruleIndex(names)
	tidx := tokenIndex(sym)
	for i, rl := range g.Rules {
		key := fmt.Sprintf("rule-language:%s:%s", artKey, rl.Name)
		an, err := ATNRuleNFA(a, i, kind)
		if err != nil {
			r.Unknown("R8.3", key, "-", err.Error())
			continue
		}
		gn, err := G4RuleNFA(rl, kind, ridx, tidx, len(sym)-1)
		if err != nil {
			r.Unknown("R8.3", key, "-", err.Error())
			continue
		}
		queries++
		eq, word, classes, byA, pairs := fa.Equivalent(gn, an)
		if eq {
			r.OK("R8.3", key, "-", "equivalence", fmt.Sprintf("%d subset pairs explored", pairs))
		} else {
			side := "the serialized ATN but not the .g4 body"
			if byA {
				side = "the .g4 body but not the serialized ATN"
			}
			r.Bad("R8.3", key, "-", fmt.Sprintf("rule %s: word [%s] is accepted by %s", rl.Name, WordString(word, classes, kind, sym, names), side))
		}
		// non-greedy decisions
		ng := 0
		for _, s := range a.States {
			if s.Rule == i && s.NonGreedy {
				ng++
			}
		}
		if want := g4.NonGreedyCount(rl.Body); ng != want {
			r.Bad("R8.3", fmt.Sprintf("non-greedy:%s:%s", artKey, rl.Name), "-", fmt.Sprintf("rule %s: %d non-greedy decisions in the ATN, %d non-greedy sub-rules in the .g4", rl.Name, ng, want))
		}
		if kind == "lexer" {
			// token type
			want := 0
			if !rl.Fragment {
				if t, ok := tidx[rl.Name]; ok {
					hasType := false
					for _, c := range rl.Commands {
						if c.Name == "type" {
							hasType = true
						}
					}
					if !hasType {
						want = t
					}
				}
			}
			if a.RuleToken[i] != want {
				r.Bad("R8.3", fmt.Sprintf("rule-token-type:%s:%s", artKey, rl.Name), "-", fmt.Sprintf("rule %s: ATN token type %d, grammar implies %d", rl.Name, a.RuleToken[i], want))
			}
			// commands
			var got []string
			for si, s := range a.States {
				if s.Rule != i {
					continue
				}
				_ = si
				for _, e := range s.Out {
					if e.Type == atn.TAction {
						if e.A2 < 0 || e.A2 >= len(a.Actions) {
							got = append(got, fmt.Sprintf("action#%d", e.A2))
							continue
						}
						got = append(got, actionString(a.Actions[e.A2], sym, art.Modes, art.Channels))
					}
				}
			}
			var want2 []string
			for _, c := range rl.Commands {
				if c.Arg != "" {
					want2 = append(want2, c.Name+"("+c.Arg+")")
				} else {
					want2 = append(want2, c.Name)
				}
			}
			sort.Strings(got)
			sort.Strings(want2)
			if ok, why := eqStrs(got, want2); !ok {
				r.Bad("R8.3", fmt.Sprintf("lexer-commands:%s:%s", artKey, rl.Name), "-", fmt.Sprintf("rule %s: commands in ATN %v, in .g4 %v (%s)", rl.Name, got, want2, why))
			} else if len(want2) > 0 {
				r.OK("R8.3", fmt.Sprintf("lexer-commands:%s:%s", artKey, rl.Name), "-", "commands", strings.Join(want2, ","))
			}
		}
	}
	if kind == "lexer" {
		// mode membership and rule priority order
		if len(a.ModeStart) != len(g.Modes) {
			r.Bad("R8.3", "modes:"+artKey, "-", fmt.Sprintf("ATN has %d modes, grammar %d", len(a.ModeStart), len(g.Modes)))
		} else {
			for mi, ms := range a.ModeStart {
				var got []string
				for _, e := range a.States[ms].Out {
					if e.Type == atn.TEpsilon {
						tr := a.States[e.Trg].Rule
						if tr >= 0 && tr < len(names) && a.RuleStart[tr] == e.Trg {
							got = append(got, names[tr])
							continue
						}
					}
					got = append(got, fmt.Sprintf("?%d", e.Trg))
				}
				var want []string
				for _, rl := range g.Rules {
					if !rl.Fragment && rl.Mode == g.Modes[mi] {
						want = append(want, rl.Name)
					}
				}
				if ok, why := eqStrs(got, want); ok {
					r.OK("R8.3", fmt.Sprintf("mode-rules:%s:%s", artKey, g.Modes[mi]), "-", "order", fmt.Sprintf("%d token rules in priority order", len(want)))
				} else {
					r.Bad("R8.3", fmt.Sprintf("mode-rules:%s:%s", artKey, g.Modes[mi]), "-", "token rules of the mode (priority order) differ: "+why)
				}
			}
		}
	}
	return
}

func actionString(ac atn.Action, sym, modes, channels []string) string {
	name := func(tbl []string, i int) string {
		if i >= 0 && i < len(tbl) && tbl[i] != "" {
			return tbl[i]
		}
		return fmt.Sprint(i)
	}
	switch ac.Type {
	case atn.ActChannel:
		ch := name(channels, ac.D1)
		if ch == "DEFAULT_TOKEN_CHANNEL" {
			ch = "DEFAULT_TOKEN_CHANNEL"
		}
		return "channel(" + ch + ")"
	case atn.ActPushMode:
		return "pushMode(" + name(modes, ac.D1) + ")"
	case atn.ActPopMode:
		return "popMode"
	case atn.ActMode:
		return "mode(" + name(modes, ac.D1) + ")"
	case atn.ActType:
		return "type(" + name(sym, ac.D1) + ")"
	case atn.ActSkip:
		return "skip"
	case atn.ActMore:
		return "more"
	}
	return fmt.Sprintf("action(%d,%d,%d)", ac.Type, ac.D1, ac.D2)
}
