package e8grammar

import (
	"fmt"
	"go/ast"
	"go/parser"
	"go/token"
	"math/big"
	"path/filepath"
	"sort"
	"strconv"
	"strings"

	"verif/sa/internal/atn"
	"verif/sa/internal/oblig"
)

// LL(1) lookahead of the embedded parser automaton, context-insensitive at rule exits: LOOK(s) is
// the set of tokens that can be consumed first on some path from s; when a path leaves the rule
// it continues after every call site of that rule (global FOLLOW).
type looker struct {
	a    *atn.ATN
	memo map[int]map[int]bool
	busy map[int]bool
}

func (l *looker) look(s int, stack []int, seen map[string]bool, out map[int]bool) {
	key := fmt.Sprint(s, stack)
	if seen[key] {
		return
	}
	seen[key] = true
	st := l.a.States[s]
	if st.Type == atn.StRuleStop {
		if len(stack) > 0 {
			l.look(stack[len(stack)-1], stack[:len(stack)-1], seen, out)
			return
		}
		// leave the rule the walk started in: continue after every call of it
		for _, e := range l.a.Edges {
			if e.Type == atn.TRule && e.A2 == st.Rule {
				l.look(e.Trg, nil, seen, out)
			}
		}
		return
	}
	for _, e := range st.Out {
		switch e.Type {
		case atn.TEpsilon, atn.TAction, atn.TPredicate, atn.TPrecedence:
			l.look(e.Trg, stack, seen, out)
		case atn.TRule:
			if len(stack) > 40 {
				continue
			}
			l.look(e.A1, append(append([]int{}, stack...), e.Trg), seen, out)
		default:
			iv, neg, ok := l.a.EdgeSymbols(e)
			if !ok {
				continue
			}
			if neg {
				in := map[int]bool{}
				for _, v := range iv {
					for t := v.Lo; t <= v.Hi; t++ {
						in[t] = true
					}
				}
				for t := 1; t <= l.a.MaxTokenType; t++ {
					if !in[t] {
						out[t] = true
					}
				}
			} else {
				for _, v := range iv {
					for t := v.Lo; t <= v.Hi; t++ {
						out[t] = true
					}
				}
			}
		}
	}
}

// altLooks returns the lookahead set of every alternative of decision state s.
func (l *looker) altLooks(s int) []map[int]bool {
	var out []map[int]bool
	for _, e := range l.a.States[s].Out {
		m := map[int]bool{}
		switch e.Type {
		case atn.TEpsilon, atn.TAction, atn.TPredicate, atn.TPrecedence:
			l.look(e.Trg, nil, map[string]bool{}, m)
		default:
			// a decision state with a consuming edge is not an LL(1) block start
			return nil
		}
		out = append(out, m)
	}
	return out
}

func setKeyInts(m map[int]bool) string {
	var ks []int
	for k := range m {
		ks = append(ks, k)
	}
	sort.Ints(ks)
	return fmt.Sprint(ks)
}

// R87Lookahead: every hard-coded LL(1) test of the generated Go parser — `switch LA(1) { case … }`,
// `_la == T`, and the 64-bit membership masks — names exactly the lookahead set of one alternative
// of the decision state set just before it. AdaptivePredict sites consult the automaton itself.
func (w *World) R87Lookahead(r *oblig.Report, rule string) {
	art := w.Arts["go/parser"]
	if art == nil || w.GoParser == nil {
		r.Unknown(rule, "anchor:go-parser", "-", "Go parser artefact or ATN missing")
		return
	}
	a := w.GoParser
	path := filepath.Join(w.Root, genDirs["go"], "openfga_parser.go")
	fset := token.NewFileSet()
	f, err := parser.ParseFile(fset, path, nil, 0)
	if err != nil {
		r.Unknown(rule, "anchor:parse-go-parser", rel(w.Root, path), err.Error())
		return
	}
	tokIdx := tokenIndex(art.Symbolic)
	tokName := func(t int) string {
		if t == atn.EOF {
			return "EOF"
		}
		if t >= 0 && t < len(art.Symbolic) && art.Symbolic[t] != "" {
			return art.Symbolic[t]
		}
		return strconv.Itoa(t)
	}
	names := func(m map[int]bool) string {
		var ks []int
		for k := range m {
			ks = append(ks, k)
		}
		sort.Ints(ks)
		var out []string
		for _, k := range ks {
			out = append(out, tokName(k))
		}
		return "{" + strings.Join(out, ", ") + "}"
	}
	lk := &looker{a: a}
	ruleIdx := map[string]int{}
	for i, n := range art.Rules {
		ruleIdx[upperFirst(n)] = i
	}
	tokOf := func(e ast.Expr) (int, bool) {
		s := strings.TrimPrefix(fmt.Sprint(e), "OpenFGAParser")
		if s == "EOF" {
			return atn.EOF, true
		}
		t, ok := tokIdx[s]
		return t, ok
	}
	// tokens a boolean lookahead expression accepts: _la == T, a || b, mask form, parentheses, !
	var accepts func(e ast.Expr) (map[int]bool, bool)
	accepts = func(e ast.Expr) (map[int]bool, bool) {
		switch x := ast.Unparen(e).(type) {
		case *ast.BinaryExpr:
			switch x.Op {
			case token.EQL:
				if id, ok := x.X.(*ast.Ident); ok && id.Name == "_la" {
					if t, ok := tokOf(x.Y); ok {
						return map[int]bool{t: true}, true
					}
				}
			case token.LOR:
				l, ok1 := accepts(x.X)
				rr, ok2 := accepts(x.Y)
				if ok1 && ok2 {
					for k := range rr {
						l[k] = true
					}
					return l, true
				}
			case token.LAND:
				// (int64(_la) & ^0x3f) == 0 && ((int64(1) << _la) & MASK) != 0   (tokens 0..63)
				// (int64(_la-64) & ^0x3f) == 0 && ((int64(1) << (_la-64)) & MASK) != 0
				src := types(x)
				if strings.Contains(src, "int64(1) << ") {
					off := 0
					if strings.Contains(src, "_la - 64") {
						off = 64
					}
					var mask *big.Int
					ast.Inspect(x.Y, func(n ast.Node) bool {
						if bl, ok := n.(*ast.BasicLit); ok && bl.Kind == token.INT && bl.Value != "1" && bl.Value != "0" && bl.Value != "64" {
							mask, _ = new(big.Int).SetString(bl.Value, 0)
						}
						return true
					})
					if mask != nil {
						m := map[int]bool{}
						for i := 0; i < 64; i++ {
							if mask.Bit(i) == 1 {
								m[i+off] = true
							}
						}
						return m, true
					}
				}
			}
		}
		return nil, false
	}
	sites := 0
	for _, d := range f.Decls {
		fd, ok := d.(*ast.FuncDecl)
		if !ok || fd.Recv == nil || fd.Body == nil {
			continue
		}
		ri, isRule := ruleIdx[fd.Name.Name]
		if !isRule {
			continue
		}
		ruleName := art.Rules[ri]
		pos := func(n ast.Node) string { return fmt.Sprintf("%s:%d", rel(w.Root, path), fset.Position(n.Pos()).Line) }
		check := func(n ast.Node, state int, got map[int]bool, form string, ord int) {
			sites++
			construct := fmt.Sprintf("gen-lookahead:%s:state %d:%s#%d", ruleName, state, form, ord)
			if state < 0 || state >= len(a.States) || a.States[state].Rule != ri {
				r.Bad(rule, construct, pos(n), fmt.Sprintf("lookahead test after SetState(%d), which is not a state of rule %s in the embedded automaton", state, ruleName))
				return
			}
			alts := lk.altLooks(state)
			// loop tests sit at the loop-back/entry state reached through the block: also try the states the decision state reaches by epsilon
			cands := append([]map[int]bool{}, alts...)
			for _, e := range a.States[state].Out {
				if e.Type == atn.TEpsilon {
					cands = append(cands, lk.altLooks(e.Trg)...)
				}
			}
			// a set match (`if !(set) { recover } else { consume }`) tests the symbols of the consuming edge itself
			for _, e := range a.States[state].Out {
				if iv, neg, ok := a.EdgeSymbols(e); ok {
					m := map[int]bool{}
					in := map[int]bool{}
					for _, v := range iv {
						for t := v.Lo; t <= v.Hi; t++ {
							in[t] = true
						}
					}
					for t := 1; t <= a.MaxTokenType; t++ {
						if in[t] != neg {
							m[t] = true
						}
					}
					if in[atn.EOF] && !neg {
						m[atn.EOF] = true
					}
					cands = append(cands, m)
				}
			}
			for _, c := range cands {
				if setKeyInts(c) == setKeyInts(got) {
					r.OK(rule, construct, pos(n), "ll1-lookahead", names(got))
					return
				}
			}
			var all []string
			for _, c := range cands {
				all = append(all, names(c))
			}
			r.Bad(rule, construct, pos(n), fmt.Sprintf("the generated code tests the lookahead set %s after SetState(%d), but no alternative of that decision in the embedded automaton has this lookahead (alternatives: %s): the generated parser was edited by hand or is stale", names(got), state, strings.Join(all, " | ")))
		}
		var walk func(list []ast.Stmt)
		walk = func(list []ast.Stmt) {
			state := -1
			ord := 0
			for _, st := range list {
				switch s := st.(type) {
				case *ast.ExprStmt:
					if call, ok := s.X.(*ast.CallExpr); ok {
						if sel, ok := call.Fun.(*ast.SelectorExpr); ok && sel.Sel.Name == "SetState" && len(call.Args) == 1 {
							if bl, ok := call.Args[0].(*ast.BasicLit); ok {
								state, _ = strconv.Atoi(bl.Value)
							}
						}
					}
				case *ast.BlockStmt:
					walk(s.List)
				case *ast.LabeledStmt:
					walk([]ast.Stmt{s.Stmt})
				case *ast.IfStmt:
					cond := s.Cond
					neg := false
					if u, ok := ast.Unparen(cond).(*ast.UnaryExpr); ok && u.Op == token.NOT {
						cond, neg = u.X, true
					}
					if got, ok := accepts(cond); ok && strings.Contains(types(cond), "_la") {
						_ = neg // `if !(set)` guards the recovery branch of a set match: the set is still the tested set
						ord++
						check(s, state, got, "if", ord)
					}
					walk(s.Body.List)
					if eb, ok := s.Else.(*ast.BlockStmt); ok {
						walk(eb.List)
					} else if ei, ok := s.Else.(*ast.IfStmt); ok {
						walk([]ast.Stmt{ei})
					}
				case *ast.ForStmt:
					if s.Cond != nil {
						if got, ok := accepts(s.Cond); ok {
							ord++
							check(s, state, got, "for", ord)
						}
					}
					walk(s.Body.List)
				case *ast.SwitchStmt:
					isLA := s.Tag != nil && strings.Contains(types(s.Tag), "LA(1)")
					for _, c := range s.Body.List {
						cc := c.(*ast.CaseClause)
						if isLA && cc.List != nil {
							got := map[int]bool{}
							okAll := true
							for _, e := range cc.List {
								t, ok := tokOf(e)
								if !ok {
									okAll = false
								}
								got[t] = true
							}
							if okAll {
								ord++
								check(cc, state, got, "case", ord)
							} else {
								sites++
								r.Unknown(rule, fmt.Sprintf("gen-lookahead:%s:state %d:case", ruleName, state), pos(cc), "case list names an unknown token")
							}
						}
						walk(cc.Body)
					}
				}
			}
		}
		walk(fd.Body.List)
	}
	if sites == 0 {
		r.Unknown(rule, "gen-lookahead", rel(w.Root, path), "no hard-coded lookahead test found in the generated parser")
	}
}

func types(e ast.Node) string {
	var sb strings.Builder
	fs := token.NewFileSet()
	_ = fs
	ast.Inspect(e, func(n ast.Node) bool {
		switch x := n.(type) {
		case *ast.Ident:
			sb.WriteString(x.Name + " ")
		case *ast.BasicLit:
			sb.WriteString(x.Value + " ")
		case *ast.BinaryExpr:
			// operators are rendered in-order below through a second pass
		}
		return true
	})
	// cheap but sufficient rendering: use go/printer-free ExprString for expressions
	if ex, ok := e.(ast.Expr); ok {
		return exprString(ex)
	}
	return sb.String()
}

func exprString(e ast.Expr) string {
	switch x := e.(type) {
	case *ast.Ident:
		return x.Name
	case *ast.BasicLit:
		return x.Value
	case *ast.ParenExpr:
		return "(" + exprString(x.X) + ")"
	case *ast.BinaryExpr:
		return exprString(x.X) + " " + x.Op.String() + " " + exprString(x.Y)
	case *ast.UnaryExpr:
		return x.Op.String() + exprString(x.X)
	case *ast.CallExpr:
		var as []string
		for _, a := range x.Args {
			as = append(as, exprString(a))
		}
		return exprString(x.Fun) + "(" + strings.Join(as, ", ") + ")"
	case *ast.SelectorExpr:
		return exprString(x.X) + "." + x.Sel.Name
	}
	return "?"
}
