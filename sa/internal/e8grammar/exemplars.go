package e8grammar

import (
	"fmt"
	"strings"

	"verif/sa/internal/atn"
	"verif/sa/internal/oblig"
)

// parserAccepts decides membership of a token sequence in the language of a parser rule of the
// embedded automaton (recursive-transition-network recognition with memoisation; the grammar has no
// left recursion). Nothing is executed: the automaton is data.
func parserAccepts(a *atn.ATN, rule int, toks []int) bool {
	type key struct{ rule, pos int }
	memo := map[key]map[int]bool{}
	busy := map[key]bool{}
	var match func(rule, pos int) map[int]bool
	match = func(rule, pos int) map[int]bool {
		k := key{rule, pos}
		if m, ok := memo[k]; ok {
			return m
		}
		if busy[k] {
			return nil
		}
		busy[k] = true
		ends := map[int]bool{}
		type conf struct{ st, pos int }
		seen := map[conf]bool{}
		work := []conf{{a.RuleStart[rule], pos}}
		for len(work) > 0 {
			c := work[len(work)-1]
			work = work[:len(work)-1]
			if seen[c] {
				continue
			}
			seen[c] = true
			st := a.States[c.st]
			if st.Type == atn.StRuleStop {
				ends[c.pos] = true
				continue
			}
			for _, e := range st.Out {
				switch e.Type {
				case atn.TEpsilon, atn.TAction, atn.TPredicate, atn.TPrecedence:
					work = append(work, conf{e.Trg, c.pos})
				case atn.TRule:
					for end := range match(e.A2, c.pos) {
						work = append(work, conf{e.Trg, end})
					}
				default:
					if c.pos >= len(toks) {
						continue
					}
					iv, neg, ok := a.EdgeSymbols(e)
					if !ok {
						continue
					}
					in := false
					for _, v := range iv {
						if toks[c.pos] >= v.Lo && toks[c.pos] <= v.Hi {
							in = true
						}
					}
					if e.Type == atn.TWildcard {
						in, neg = toks[c.pos] != atn.EOF, false
					}
					if in != neg {
						work = append(work, conf{e.Trg, c.pos + 1})
					}
				}
			}
		}
		busy[k] = false
		memo[k] = ends
		return ends
	}
	return match(rule, 0)[len(toks)]
}

// LayoutExemplars (R8.9): the parser automaton embedded in the Go package derives one token sequence for
// each layout the property enumerates (C03) — restriction lists spread over several lines, blanks around
// brackets, commas and colons, redundant parentheses, keywords used as names, module files with extensions,
// conditions with parameters on several lines. A grammar edit that stops admitting one of them breaks the
// property even if every copy of the automaton is regenerated consistently.
func (w *World) LayoutExemplars(r *oblig.Report, rule string) {
	g, err := w.view()
	if err != nil {
		r.Unknown(rule, "anchor:parser-atn", "-", err.Error())
		return
	}
	main, ok := g.ruleIdx["main"]
	if !ok {
		r.Unknown(rule, "anchor:main", "-", "parser rule main not found")
		return
	}
	short := map[string]string{"W": "WHITESPACE", "NL": "NEWLINE", "ID": "IDENTIFIER", "XID": "EXTENDED_IDENTIFIER", "VER": "SCHEMA_VERSION",
		"PT": "CONDITION_PARAM_TYPE", "PC": "CONDITION_PARAM_CONTAINER", "WITH": "KEYWORD_WITH"}
	header := "MODEL NL SCHEMA W VER"
	typ := "NL TYPE W ID NL TYPE W ID NL RELATIONS"
	exemplars := []struct{ name, toks string }{
		{"restrictions over several lines, the last one conditioned", header + " " + typ + " NL DEFINE W ID COLON W LBRACKET NL ID COMMA NL ID HASH ID COMMA NL ID W WITH W ID NL RPRACKET NL EOF"},
		{"blanks around brackets, commas and colons", header + " " + typ + " NL DEFINE W ID W COLON W LBRACKET W ID W COMMA W ID COLON STAR W RPRACKET EOF"},
		{"redundant parentheses around a group and around the whole expression", header + " " + typ + " NL DEFINE W ID COLON W LPAREN LPAREN ID W OR W ID RPAREN W AND W ID RPAREN EOF"},
		{"parenthesised group after a direct assignment; exclusion; tuple-to-userset", header + " " + typ + " NL DEFINE W ID COLON W LBRACKET ID RPRACKET W OR W LPAREN ID W FROM W ID W BUT_NOT W ID RPAREN EOF"},
		{"keywords as type, relation and restriction names", header + " NL TYPE W TYPE NL RELATIONS NL DEFINE W RELATION COLON W LBRACKET MODEL COMMA SCHEMA HASH MODULE RPRACKET NL DEFINE W EXTEND COLON W RELATION EOF"},
		{"dotted / slashed / dashed names", header + " NL TYPE W XID NL RELATIONS NL DEFINE W XID COLON W LBRACKET XID HASH XID RPRACKET W OR W XID W FROM W XID EOF"},
		{"module file with an extension and blank-line separators", "MODULE W ID NL EXTEND W TYPE W ID NL RELATIONS NL DEFINE W ID COLON W ID NL TYPE W ID NL EOF"},
		{"condition with parameters on several lines and a container type", header + " NL TYPE W ID NL CONDITION W ID LPAREN NL ID COLON W PT COMMA NL ID COLON W PC LESS PT GREATER NL RPAREN W LBRACE NL W ID W EQUALS W ID NL RBRACE NL EOF"},
		{"leading blank line and indentation before the header", "W NL " + header + " " + typ + " NL DEFINE W ID COLON W ID EOF"},
	}
	for _, ex := range exemplars {
		construct := "parser-admits:" + ex.name
		var toks []int
		bad := ""
		for _, n := range strings.Fields(ex.toks) {
			if full, ok := short[n]; ok {
				n = full
			}
			if n == "EOF" {
				toks = append(toks, atn.EOF)
				continue
			}
			t, ok := g.tokIdx[n]
			if !ok {
				bad = n
				break
			}
			toks = append(toks, t)
		}
		switch {
		case bad != "":
			r.Unknown(rule, construct, "pkg/go/gen/openfga_parser.go", "token "+bad+" is not in the vocabulary of the embedded parser")
		case parserAccepts(g.a, main, toks):
			r.OK(rule, construct, "pkg/go/gen/openfga_parser.go", "automaton-membership", fmt.Sprintf("%d tokens derived from main", len(toks)))
		default:
			r.Bad(rule, construct, "pkg/go/gen/openfga_parser.go", "the parser automaton embedded in the Go package does not derive the token sequence ["+ex.toks+"]: a layout the property lists as permitted ("+ex.name+") is a syntax error")
		}
	}
}
