package e8grammar

import (
	"fmt"
	"sort"
	"strings"

	"verif/sa/internal/atn"
	"verif/sa/internal/fa"
	"verif/sa/internal/oblig"
)

// grammarView is the parser automaton embedded in the Go package, rule by rule, as DFAs whose
// symbols are single tokens and atomic rule references.
type grammarView struct {
	w       *World
	a       *atn.ATN
	rules   []string
	sym     []string
	ruleIdx map[string]int
	tokIdx  map[string]int
	dfa     map[int]*fa.DFA
	classes []fa.Interval
	refs    map[int][]int // rule → referenced rules
}

func (w *World) view() (*grammarView, error) {
	art := w.Arts["go/parser"]
	if art == nil || w.GoParser == nil {
		return nil, fmt.Errorf("Go parser automaton not available")
	}
	g := &grammarView{w: w, a: w.GoParser, rules: art.Rules, sym: art.Symbolic, ruleIdx: ruleIndex(art.Rules), tokIdx: tokenIndex(art.Symbolic), dfa: map[int]*fa.DFA{}, refs: map[int][]int{}}
	// every token its own class
	g.classes = append(g.classes, fa.Interval{Lo: atn.EOF, Hi: atn.EOF})
	for t := 1; t <= g.a.MaxTokenType; t++ {
		g.classes = append(g.classes, fa.Interval{Lo: t, Hi: t})
	}
	for ri := range g.rules {
		n, err := ATNRuleNFA(g.a, ri, "parser")
		if err != nil {
			return nil, fmt.Errorf("rule %s: %v", g.rules[ri], err)
		}
		d := fa.Determinize(n, g.classes)
		g.dfa[ri] = d
		g.refs[ri] = d.Refs
	}
	return g, nil
}

func (g *grammarView) tok(s fa.Sym) int {
	if s.Ref >= 0 {
		return -99
	}
	return g.classes[s.Class].Lo
}

func (g *grammarView) word(w []fa.Sym) string {
	return WordString(w, g.classes, "parser", g.sym, g.rules)
}

// forAll explores the product of a rule DFA with an integer observer; at every accepting state the
// observer value must satisfy ok. Returns a shortest violating word.
func (g *grammarView) forAll(ri int, init int, step func(obs int, s fa.Sym) int, ok func(obs int) bool) (bool, []fa.Sym, int) {
	d := g.dfa[ri]
	type node struct {
		st, obs, prev int
		via           fa.Sym
	}
	q := []node{{0, init, -1, fa.Sym{}}}
	seen := map[[2]int]bool{{0, init}: true}
	for i := 0; i < len(q); i++ {
		cur := q[i]
		if d.Accept[cur.st] && !ok(cur.obs) {
			var w []fa.Sym
			for j := i; q[j].prev >= 0; j = q[j].prev {
				w = append([]fa.Sym{q[j].via}, w...)
			}
			return false, w, len(seen)
		}
		// deterministic symbol order for reproducible witnesses
		idxs := make([]int, 0, len(d.Next[cur.st]))
		for si := range d.Next[cur.st] {
			idxs = append(idxs, si)
		}
		sort.Ints(idxs)
		for _, si := range idxs {
			nx := d.Next[cur.st][si]
			no := step(cur.obs, d.Syms[si])
			k := [2]int{nx, no}
			if seen[k] {
				continue
			}
			seen[k] = true
			q = append(q, node{nx, no, i, d.Syms[si]})
		}
	}
	return true, nil, len(seen)
}

func (g *grammarView) reach(from int) map[int]bool {
	seen := map[int]bool{from: true}
	stack := []int{from}
	for len(stack) > 0 {
		r := stack[len(stack)-1]
		stack = stack[:len(stack)-1]
		for _, c := range g.refs[r] {
			if !seen[c] {
				seen[c] = true
				stack = append(stack, c)
			}
		}
	}
	return seen
}

// R84 decides the grammar-level clauses of C09 on the automaton that actually runs.
func (w *World) R84(r *oblig.Report) {
	r.Rule("R8.4", "instance-table", "grammar path properties on the parser automaton embedded in the Go package: for every token sequence the listed structural defects are underivable", 9)
	g, err := w.view()
	if err != nil {
		r.Unknown("R8.4", "anchor:parser-atn", "-", err.Error())
		return
	}
	need := func(kind string, names ...string) ([]int, bool) {
		var out []int
		for _, n := range names {
			var i int
			var ok bool
			if kind == "rule" {
				i, ok = g.ruleIdx[n]
			} else {
				i, ok = g.tokIdx[n]
			}
			if !ok {
				r.Unknown("R8.4", "anchor:"+kind+":"+n, "OpenFGAParser.g4", kind+" "+n+" not found in the embedded vocabulary")
				return nil, false
			}
			out = append(out, i)
		}
		return out, true
	}
	rl, ok1 := need("rule", "main", "modelHeader", "moduleHeader", "relationDeclaration", "relationDef", "relationDefDirectAssignment", "relationDefTypeRestriction",
		"relationDefTypeRestrictionBase", "extended_identifier", "identifier", "parameterType", "conditionParameter", "condition")
	tk, ok2 := need("token", "OR", "AND", "BUT_NOT", "LPAREN", "RPAREN", "WHITESPACE", "STAR", "HASH", "CONDITION_PARAM_TYPE", "CONDITION_PARAM_CONTAINER", "LESS", "GREATER")
	if !ok1 || !ok2 {
		return
	}
	rMain, rModel, rModule, rDecl, rDef, rDA, rTR, rTRB, rExtID, rID, rPT := rl[0], rl[1], rl[2], rl[3], rl[4], rl[5], rl[6], rl[7], rl[8], rl[9], rl[10]
	tOR, tAND, tBN, tLP, tRP, tWS, tSTAR, tHASH, tPT, tPC, tLESS, tGT := tk[0], tk[1], tk[2], tk[3], tk[4], tk[5], tk[6], tk[7], tk[8], tk[9], tk[10], tk[11]
	_ = rDef
	states := 0
	relRules := g.reach(rDef) // the definition itself; the declaration may be preceded by a comment, whose text is arbitrary

	// paren rules: every word starts with LPAREN and ends with RPAREN (computed, not named)
	paren := map[int]bool{}
	for ri := range g.rules {
		// obs: 0 = nothing read, 1 = first was LPAREN & last is RPAREN, 2 = first was LPAREN, last other, 3 = first not LPAREN
		okAll, _, n := g.forAll(ri, 0, func(o int, s fa.Sym) int {
			t := g.tok(s)
			switch o {
			case 0:
				if t == tLP {
					return 2
				}
				return 3
			case 3:
				return 3
			default:
				if t == tRP {
					return 1
				}
				return 2
			}
		}, func(o int) bool { return o == 1 })
		states += n
		if okAll {
			paren[ri] = true
		}
	}
	var parenNames []string
	for ri := range paren {
		parenNames = append(parenNames, g.rules[ri])
	}
	sort.Strings(parenNames)

	// G1: operator kinds per nesting level. Abstract value: bit0 OR seen, bit1 AND seen, bits2-3 BUT_NOT count (0,1,2+).
	combine := func(a, b int) int {
		bn := (a >> 2) + (b >> 2)
		if bn > 2 {
			bn = 2
		}
		return (a|b)&3 | bn<<2
	}
	summary := map[int]map[int]bool{}
	for ri := range relRules {
		summary[ri] = map[int]bool{}
	}
	for changed, iter := true, 0; changed && iter < 50; iter++ {
		changed = false
		for ri := range relRules {
			// explore DFA with a SET of abstract values per state (subset product): enumerate outcomes
			d := g.dfa[ri]
			type key struct{ st, val int }
			seen := map[key]bool{{0, 0}: true}
			stack := []key{{0, 0}}
			for len(stack) > 0 {
				cur := stack[len(stack)-1]
				stack = stack[:len(stack)-1]
				if d.Accept[cur.st] && !summary[ri][cur.val] {
					summary[ri][cur.val] = true
					changed = true
				}
				for si, nx := range d.Next[cur.st] {
					s := d.Syms[si]
					var contrib []int
					if s.Ref >= 0 {
						if paren[s.Ref] || !relRules[s.Ref] {
							contrib = []int{0} // a parenthesised group opens a new level
						} else {
							for v := range summary[s.Ref] {
								contrib = append(contrib, v)
							}
						}
					} else {
						switch g.tok(s) {
						case tOR:
							contrib = []int{1}
						case tAND:
							contrib = []int{2}
						case tBN:
							contrib = []int{4}
						default:
							contrib = []int{0}
						}
					}
					for _, cv := range contrib {
						k := key{nx, combine(cur.val, cv)}
						if !seen[k] {
							seen[k] = true
							stack = append(stack, k)
						}
					}
				}
			}
			states += len(seen)
		}
	}
	describe := func(v int) string {
		var p []string
		if v&1 != 0 {
			p = append(p, "OR")
		}
		if v&2 != 0 {
			p = append(p, "AND")
		}
		if v>>2 == 1 {
			p = append(p, "BUT_NOT")
		}
		if v>>2 >= 2 {
			p = append(p, "BUT_NOT twice")
		}
		return strings.Join(p, "+")
	}
	badLevel := ""
	for ri := range relRules {
		for v := range summary[ri] {
			kinds := v&1 + (v>>1)&1
			if v>>2 > 0 {
				kinds++
			}
			if kinds > 1 || v>>2 > 1 {
				badLevel = fmt.Sprintf("rule %s can derive, on one nesting level without parentheses, the operators %s", g.rules[ri], describe(v))
			}
		}
	}
	if badLevel == "" {
		r.OK("R8.4", "G1:one-operator-kind-per-level", "pkg/go/gen/openfga_parser.go", "abstract-interpretation", fmt.Sprintf("every unparenthesised level reachable from relationDef carries at most one of OR/AND/BUT_NOT (BUT_NOT at most once); parenthesised rules: %s", strings.Join(parenNames, ", ")))
	} else {
		r.Bad("R8.4", "G1:one-operator-kind-per-level", "pkg/go/gen/openfga_parser.go", "mixed operators at one nesting level are derivable: "+badLevel)
	}

	// G2: a direct assignment is leftmost on every level down from relationDef: in every rule that can
	// contain one, a reference to a rule that can contain one is preceded only by LPAREN / WHITESPACE.
	canDA := map[int]bool{rDA: true}
	for changed := true; changed; {
		changed = false
		for ri := range relRules {
			if canDA[ri] {
				continue
			}
			for _, c := range g.refs[ri] {
				if canDA[c] {
					canDA[ri] = true
					changed = true
				}
			}
		}
	}
	g2bad := ""
	for ri := range relRules {
		if !canDA[ri] || ri == rDA {
			continue
		}
		// obs: 0 = only LPAREN/WS so far, 1 = something else seen, 2 = violation
		okAll, wit, n := g.forAll(ri, 0, func(o int, s fa.Sym) int {
			if o == 2 {
				return 2
			}
			if s.Ref >= 0 {
				if canDA[s.Ref] && o == 1 {
					return 2
				}
				return 1
			}
			t := g.tok(s)
			if o == 0 && (t == tLP || t == tWS) {
				return 0
			}
			return 1
		}, func(o int) bool { return o != 2 })
		states += n
		if !okAll {
			g2bad = fmt.Sprintf("in rule %s the derivation [%s] places a direct-assignment-capable operand after another operand or operator", g.rules[ri], g.word(wit))
		}
	}
	if g2bad == "" {
		var names []string
		for ri := range canDA {
			names = append(names, g.rules[ri])
		}
		sort.Strings(names)
		r.OK("R8.4", "G2:direct-assignment-leftmost", "pkg/go/gen/openfga_parser.go", "observer-product", "rules that can contain a direct assignment: "+strings.Join(names, ", ")+"; each places it first (after LPAREN/WHITESPACE only)")
	} else {
		r.Bad("R8.4", "G2:direct-assignment-leftmost", "pkg/go/gen/openfga_parser.go", "a direct assignment that is not the first operand is derivable: "+g2bad)
	}

	// G3: no empty restriction list
	countRef := func(ri, ref int, min, max int) (bool, []fa.Sym) {
		okAll, wit, n := g.forAll(ri, 0, func(o int, s fa.Sym) int {
			if s.Ref == ref && o < 3 {
				return o + 1
			}
			return o
		}, func(o int) bool { return o >= min && o <= max })
		states += n
		return okAll, wit
	}
	g3 := ""
	if ok, wit := countRef(rDA, rTR, 1, 3); !ok {
		g3 = "relationDefDirectAssignment derives [" + g.word(wit) + "] without a type restriction"
	}
	if ok, wit := countRef(rTR, rTRB, 1, 1); !ok && g3 == "" {
		g3 = "relationDefTypeRestriction derives [" + g.word(wit) + "] without exactly one restriction base"
	}
	if ok, wit := countRef(rTRB, rExtID, 1, 2); !ok && g3 == "" {
		g3 = "relationDefTypeRestrictionBase derives [" + g.word(wit) + "] without a type name"
	}
	for _, ri := range []int{rExtID, rID} {
		okAll, wit, n := g.forAll(ri, 0, func(o int, s fa.Sym) int { return min(o+1, 2) }, func(o int) bool { return o == 1 })
		states += n
		if !okAll && g3 == "" {
			g3 = g.rules[ri] + " derives [" + g.word(wit) + "], which is not exactly one symbol"
		}
	}
	if g3 == "" {
		r.OK("R8.4", "G3:non-empty-restriction-list", "pkg/go/gen/openfga_parser.go", "observer-product", "every direct assignment has >= 1 restriction, every restriction exactly one base with a type name")
	} else {
		r.Bad("R8.4", "G3:non-empty-restriction-list", "pkg/go/gen/openfga_parser.go", "an empty or nameless type restriction is derivable: "+g3)
	}

	// G4: wildcard and relation exclude each other
	okAll, wit, n := g.forAll(rTRB, 0, func(o int, s fa.Sym) int {
		switch g.tok(s) {
		case tSTAR:
			return o | 1
		case tHASH:
			return o | 2
		}
		return o
	}, func(o int) bool { return o != 3 })
	states += n
	if okAll {
		r.OK("R8.4", "G4:wildcard-xor-relation", "pkg/go/gen/openfga_parser.go", "observer-product", "no derivation of a restriction base has both ':*' and '#relation'")
	} else {
		r.Bad("R8.4", "G4:wildcard-xor-relation", "pkg/go/gen/openfga_parser.go", "a restriction with wildcard and relation is derivable: ["+g.word(wit)+"]")
	}

	// G5: exactly one header, input consumed to EOF
	okAll, wit, n = g.forAll(rMain, 0, func(o int, s fa.Sym) int {
		cnt, last := o&3, 0
		if s.Ref == rModel || s.Ref == rModule {
			if cnt < 2 {
				cnt++
			}
		}
		if g.tok(s) == atn.EOF {
			last = 4
		}
		return cnt | last
	}, func(o int) bool { return o == 1|4 })
	states += n
	if okAll {
		r.OK("R8.4", "G5:exactly-one-header", "pkg/go/gen/openfga_parser.go", "observer-product", "every derivation of main has exactly one of modelHeader/moduleHeader and ends in EOF")
	} else {
		r.Bad("R8.4", "G5:exactly-one-header", "pkg/go/gen/openfga_parser.go", "main derives ["+g.word(wit)+"]: both, neither or a header without EOF")
	}

	// G6: parameterType = TYPE | CONTAINER '<' TYPE '>'
	spec := fa.New()
	s0, s1, s2, s3, s4 := spec.AddState(), spec.AddState(), spec.AddState(), spec.AddState(), spec.AddState()
	spec.Start = s0
	one := func(t int) []fa.Interval { return []fa.Interval{{Lo: t, Hi: t}} }
	spec.AddSet(s0, s4, one(tPT))
	spec.AddSet(s0, s1, one(tPC))
	spec.AddSet(s1, s2, one(tLESS))
	spec.AddSet(s2, s3, one(tPT))
	spec.AddSet(s3, s4, one(tGT))
	spec.Accept[s4] = true
	ptNFA, err := ATNRuleNFA(g.a, rPT, "parser")
	if err != nil {
		r.Unknown("R8.4", "G6:parameter-type-shape", "-", err.Error())
	} else if eq, word, classes, byA, pairs := fa.Equivalent(ptNFA, spec); eq {
		states += pairs
		r.OK("R8.4", "G6:parameter-type-shape", "pkg/go/gen/openfga_parser.go", "equivalence", "parameterType = TYPE | CONTAINER LESS TYPE GREATER exactly")
	} else {
		side := "missing from the grammar"
		if byA {
			side = "derivable although the property excludes it"
		}
		r.Bad("R8.4", "G6:parameter-type-shape", "pkg/go/gen/openfga_parser.go", "parameter type ["+WordString(word, classes, "parser", g.sym, g.rules)+"] is "+side+" (a container needs exactly one scalar element type)")
	}

	// G7: operator tokens occur only where G1 saw them: nowhere else under relationDeclaration through a
	// complement set (a `~X` or `.` element would silently accept OR/AND as ordinary text)
	g7 := ""
	for ri := range relRules {
		for _, st := range g.a.States {
			if st.Rule != ri {
				continue
			}
			for _, e := range st.Out {
				if e.Type == atn.TNotSet || e.Type == atn.TWildcard {
					g7 = "rule " + g.rules[ri] + " consumes tokens through a complement/wildcard element"
				}
			}
		}
	}
	if g7 == "" {
		r.OK("R8.4", "G7:no-wildcards-in-relation-rules", "pkg/go/gen/openfga_parser.go", "edge-scan", fmt.Sprintf("%d rules reachable from relationDef use explicit tokens only", len(relRules)))
	} else {
		r.Bad("R8.4", "G7:no-wildcards-in-relation-rules", "pkg/go/gen/openfga_parser.go", g7)
	}
	// G8: a condition has at least one... parameters list shape: every conditionParameter has exactly one parameterType
	if ok, wit := countRef(rl[11], rPT, 1, 1); ok {
		r.OK("R8.4", "G8:parameter-has-one-type", "pkg/go/gen/openfga_parser.go", "observer-product", "every condition parameter has exactly one type")
	} else {
		r.Bad("R8.4", "G8:parameter-has-one-type", "pkg/go/gen/openfga_parser.go", "conditionParameter derives ["+g.word(wit)+"]")
	}
	// G9: relationDeclaration has exactly one relationDef (the whole definition is one expression)
	if ok, wit := countRef(rDecl, rDef, 1, 1); ok {
		r.OK("R8.4", "G9:one-definition-per-declaration", "pkg/go/gen/openfga_parser.go", "observer-product", "every relation declaration has exactly one definition")
	} else {
		r.Bad("R8.4", "G9:one-definition-per-declaration", "pkg/go/gen/openfga_parser.go", "relationDeclaration derives ["+g.word(wit)+"]")
	}
	r.Analysed["grammar_product_states"] = states
	r.Analysed["parenthesised_rules"] = parenNames
}

// RuleDominators (R8.5): rules that lie on every invocation path from main to each rule.
func (w *World) RuleDominators() (map[string][]string, error) {
	g, err := w.view()
	if err != nil {
		return nil, err
	}
	n := len(g.rules)
	root := g.ruleIdx["main"]
	dom := make([]map[int]bool, n)
	all := map[int]bool{}
	for i := 0; i < n; i++ {
		all[i] = true
	}
	for i := 0; i < n; i++ {
		dom[i] = map[int]bool{}
		if i == root {
			dom[i][i] = true
		} else {
			for k := range all {
				dom[i][k] = true
			}
		}
	}
	preds := map[int][]int{}
	for r, cs := range g.refs {
		for _, c := range cs {
			preds[c] = append(preds[c], r)
		}
	}
	for changed := true; changed; {
		changed = false
		for i := 0; i < n; i++ {
			if i == root {
				continue
			}
			nd := map[int]bool{}
			first := true
			for _, p := range preds[i] {
				if first {
					for k := range dom[p] {
						nd[k] = true
					}
					first = false
				} else {
					for k := range nd {
						if !dom[p][k] {
							delete(nd, k)
						}
					}
				}
			}
			nd[i] = true
			if len(nd) != len(dom[i]) {
				dom[i] = nd
				changed = true
			}
		}
	}
	out := map[string][]string{}
	for i := 0; i < n; i++ {
		for k := range dom[i] {
			out[g.rules[i]] = append(out[g.rules[i]], g.rules[k])
		}
		sort.Strings(out[g.rules[i]])
	}
	return out, nil
}

// NameRules: parser rules every derivation of which is exactly one token (directly or through such
// rules): the "name" rules an error may point at.
func (w *World) NameRules() (map[string]bool, error) {
	g, err := w.view()
	if err != nil {
		return nil, err
	}
	out := map[string]bool{}
	for changed := true; changed; {
		changed = false
		for ri, name := range g.rules {
			if out[name] {
				continue
			}
			okAll, _, _ := g.forAll(ri, 0, func(o int, s fa.Sym) int {
				if s.Ref >= 0 && !out[g.rules[s.Ref]] {
					return 3
				}
				if o >= 2 {
					return o
				}
				return o + 1
			}, func(o int) bool { return o == 1 })
			if okAll {
				out[name] = true
				changed = true
			}
		}
	}
	return out, nil
}

// LexerRuleAccepts simulates the lexer automaton (rule references expanded through a call stack) and
// reports whether the named rule can consume exactly the given word.
func (w *World) LexerRuleAccepts(rule string, word string) (bool, error) {
	art := w.Arts["go/lexer"]
	if art == nil || w.GoLexer == nil {
		return false, fmt.Errorf("Go lexer automaton not available")
	}
	a := w.GoLexer
	ri, ok := ruleIndex(art.Rules)[rule]
	if !ok {
		return false, fmt.Errorf("lexer rule %s not found", rule)
	}
	rs := []rune(word)
	type cfg struct {
		st, pos int
		stack   string
	}
	start := cfg{a.RuleStart[ri], 0, ""}
	seen := map[cfg]bool{start: true}
	queue := []cfg{start}
	for len(queue) > 0 {
		c := queue[0]
		queue = queue[1:]
		s := a.States[c.st]
		if s.Type == atn.StRuleStop {
			if c.stack == "" {
				if s.Rule == ri && c.pos == len(rs) {
					return true, nil
				}
				continue
			}
			i := strings.LastIndex(c.stack, ",")
			var ret int
			fmt.Sscanf(c.stack[i+1:], "%d", &ret)
			n := cfg{ret, c.pos, c.stack[:i]}
			if !seen[n] {
				seen[n] = true
				queue = append(queue, n)
			}
			continue
		}
		for _, e := range s.Out {
			var n cfg
			switch e.Type {
			case atn.TEpsilon, atn.TAction, atn.TPredicate, atn.TPrecedence:
				n = cfg{e.Trg, c.pos, c.stack}
			case atn.TRule:
				if len(c.stack) > 400 {
					continue
				}
				n = cfg{e.A1, c.pos, fmt.Sprintf("%s,%d", c.stack, e.Trg)}
			default:
				if c.pos >= len(rs) {
					continue
				}
				iv, neg, _ := a.EdgeSymbols(e)
				in := false
				for _, v := range iv {
					if int(rs[c.pos]) >= v.Lo && int(rs[c.pos]) <= v.Hi {
						in = true
					}
				}
				if in == neg {
					continue
				}
				n = cfg{e.Trg, c.pos + 1, c.stack}
			}
			if !seen[n] {
				seen[n] = true
				queue = append(queue, n)
			}
		}
	}
	return false, nil
}

// LayoutVocabulary (R8.8, C03): the lexer automaton that runs accepts the layout and identifier
// shapes the property enumerates (sample words from the property text, evaluated on the automaton),
// and the parser's identifier rule admits the keywords that may be used as names.
func (w *World) LayoutVocabulary(r *oblig.Report, rule string) {
	must := []struct{ rule, word, what string }{
		{"EXTENDED_IDENTIFIER", "acme.eng-team", "dotted and dashed identifier"},
		{"EXTENDED_IDENTIFIER", "org/parent-unit.v2", "slashed, dashed and dotted identifier"},
		{"EXTENDED_IDENTIFIER", "a-b", "dashed identifier"},
		{"EXTENDED_IDENTIFIER", "a/b", "slashed identifier"},
		{"EXTENDED_IDENTIFIER", "a.b", "dotted identifier"},
		{"IDENTIFIER", "folder_2-x", "identifier with underscore, digit and dash"},
		{"WHITESPACE", "\t", "tab indentation"},
		{"WHITESPACE", "  ", "space indentation"},
		{"NEWLINE", "\n", "LF line end"},
		{"NEWLINE", "\r\n", "CRLF line end"},
		{"NEWLINE", "\n\n  \n\t", "blank lines followed by indentation"},
	}
	mustNot := []struct{ rule, word, what string }{
		{"EXTENDED_IDENTIFIER", "a..b", "two adjacent separators"},
		{"EXTENDED_IDENTIFIER", "-a", "leading dash"},
		{"IDENTIFIER", "1a", "leading digit"},
	}
	for _, m := range must {
		ok, err := w.LexerRuleAccepts(m.rule, m.word)
		construct := fmt.Sprintf("lexer-accepts:%s:%q", m.rule, m.word)
		switch {
		case err != nil:
			r.Unknown(rule, construct, "pkg/go/gen/openfga_lexer.go", err.Error())
		case ok:
			r.OK(rule, construct, "pkg/go/gen/openfga_lexer.go", "automaton-membership", m.what)
		default:
			r.Bad(rule, construct, "pkg/go/gen/openfga_lexer.go", fmt.Sprintf("the embedded lexer rule %s does not accept %q (%s), which the property lists as a permitted layout", m.rule, m.word, m.what))
		}
	}
	for _, m := range mustNot {
		ok, err := w.LexerRuleAccepts(m.rule, m.word)
		construct := fmt.Sprintf("lexer-rejects:%s:%q", m.rule, m.word)
		switch {
		case err != nil:
			r.Unknown(rule, construct, "pkg/go/gen/openfga_lexer.go", err.Error())
		case !ok:
			r.OK(rule, construct, "pkg/go/gen/openfga_lexer.go", "automaton-membership", m.what)
		default:
			r.Bad(rule, construct, "pkg/go/gen/openfga_lexer.go", fmt.Sprintf("the embedded lexer rule %s accepts %q (%s)", m.rule, m.word, m.what))
		}
	}
	// keywords usable as names
	g, err := w.view()
	if err != nil {
		r.Unknown(rule, "anchor:parser-atn", "-", err.Error())
		return
	}
	ri, ok := g.ruleIdx["identifier"]
	if !ok {
		r.Unknown(rule, "anchor:identifier", "-", "parser rule identifier not found")
		return
	}
	d := g.dfa[ri]
	for _, kw := range []string{"MODEL", "SCHEMA", "TYPE", "RELATION", "MODULE", "EXTEND", "IDENTIFIER"} {
		t, okT := g.tokIdx[kw]
		construct := "keyword-as-name:" + kw
		acc := false
		if okT {
			for si, nx := range d.Next[0] {
				if s := d.Syms[si]; s.Ref < 0 && g.classes[s.Class].Lo == t && d.Accept[nx] {
					acc = true
				}
			}
		}
		if acc {
			r.OK(rule, construct, "pkg/go/gen/openfga_parser.go", "automaton-membership", "identifier → "+kw)
		} else {
			r.Bad(rule, construct, "pkg/go/gen/openfga_parser.go", "the parser rule identifier does not admit the token "+kw+": that keyword cannot be used as a name")
		}
	}
}

// RuleRefs returns the rule-invocation graph of the embedded parser automaton: rule → referenced rules.
func (w *World) RuleRefs() (map[string][]string, error) {
	g, err := w.view()
	if err != nil {
		return nil, err
	}
	out := map[string][]string{}
	for ri, name := range g.rules {
		out[name] = []string{}
		for _, c := range g.refs[ri] {
			out[name] = append(out[name], g.rules[c])
		}
	}
	return out, nil
}
