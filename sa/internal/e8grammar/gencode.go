package e8grammar

import (
	"fmt"
	"go/ast"
	"go/parser"
	"go/token"
	"path/filepath"
	"strconv"
	"strings"

	"verif/sa/internal/atn"
	"verif/sa/internal/oblig"
)

func upperFirst(s string) string {
	if s == "" {
		return s
	}
	return strings.ToUpper(s[:1]) + s[1:]
}

// R87 checks the generated recursive-descent Go parser against the automaton it embeds: every
// `p.SetState(N)` that is followed by `p.Match(TOKEN)` or by a call of a rule function must
// correspond to an atom / rule transition leaving ATN state N with that token / rule; labelled
// elements are assigned to the context field the .g4 label names. A hand edit of a rule function
// (the automaton arrays untouched) is detected here.
func (w *World) R87(r *oblig.Report) {
	r.Rule("R8.7", "instance-table", "the generated Go rule functions follow the embedded automaton: each SetState(N)+Match(T)/rule call is a transition of ATN state N; labels are assigned from the element the .g4 labels", 150)
	art := w.Arts["go/parser"]
	if art == nil || w.GoParser == nil || w.ParserG == nil {
		r.Unknown("R8.7", "anchor:go-parser", "-", "Go parser artefact or ATN missing")
		return
	}
	a := w.GoParser
	path := filepath.Join(w.Root, genDirs["go"], "openfga_parser.go")
	fset := token.NewFileSet()
	f, err := parser.ParseFile(fset, path, nil, 0)
	if err != nil {
		r.Unknown("R8.7", "anchor:parse-go-parser", rel(w.Root, path), err.Error())
		return
	}
	ruleIdx := map[string]int{}
	for i, n := range art.Rules {
		ruleIdx[upperFirst(n)] = i
	}
	tokIdx := tokenIndex(art.Symbolic)
	labels := map[string]map[string]string{} // rule → label → target
	for _, rl := range w.ParserG.Rules {
		m := map[string]string{}
		for _, lb := range rl.Labels {
			m[lb.Name] = lb.Target
		}
		labels[rl.Name] = m
	}
	sites := 0
	bad := 0
	covered := map[int]bool{}
	for _, d := range f.Decls {
		fd, ok := d.(*ast.FuncDecl)
		if !ok || fd.Recv == nil || fd.Body == nil {
			continue
		}
		ri, isRule := ruleIdx[fd.Name.Name]
		if !isRule {
			continue
		}
		if st, ok := fd.Recv.List[0].Type.(*ast.StarExpr); !ok || fmt.Sprint(st.X) != "OpenFGAParser" {
			continue
		}
		covered[ri] = true
		ruleName := art.Rules[ri]
		pos := func(n ast.Node) string { return fmt.Sprintf("%s:%d", rel(w.Root, path), fset.Position(n.Pos()).Line) }
		// p.X(...) call inside a statement (not descending into nested blocks)
		findCall := func(st ast.Stmt) (*ast.CallExpr, string) {
			var found *ast.CallExpr
			name := ""
			ast.Inspect(st, func(n ast.Node) bool {
				if _, isBlock := n.(*ast.BlockStmt); isBlock {
					return false
				}
				call, ok := n.(*ast.CallExpr)
				if !ok || found != nil {
					return true
				}
				sel, ok := call.Fun.(*ast.SelectorExpr)
				if !ok {
					return true
				}
				if id, ok := sel.X.(*ast.Ident); ok && id.Name == "p" {
					if sel.Sel.Name == "Match" || sel.Sel.Name == "SetState" {
						found, name = call, sel.Sel.Name
					} else if _, isR := ruleIdx[sel.Sel.Name]; isR && len(call.Args) == 0 {
						found, name = call, sel.Sel.Name
					}
				}
				return true
			})
			return found, name
		}
		var walk func(list []ast.Stmt)
		walk = func(list []ast.Stmt) {
			state := -1
			var lastCall string // what the previous element produced: rule name or token, for label checks
			for _, st := range list {
				switch s := st.(type) {
				case *ast.BlockStmt:
					walk(s.List)
					continue
				case *ast.IfStmt:
					walk(s.Body.List)
					if eb, ok := s.Else.(*ast.BlockStmt); ok {
						walk(eb.List)
					} else if ei, ok := s.Else.(*ast.IfStmt); ok {
						walk([]ast.Stmt{ei})
					}
					continue
				case *ast.ForStmt:
					walk(s.Body.List)
					continue
				case *ast.SwitchStmt:
					for _, cc := range s.Body.List {
						walk(cc.(*ast.CaseClause).Body)
					}
					continue
				case *ast.LabeledStmt:
					walk([]ast.Stmt{s.Stmt})
					continue
				}
				// label assignment: localctx.(*XContext).label = _x
				if as, ok := st.(*ast.AssignStmt); ok && len(as.Lhs) == 1 {
					if sel, ok := as.Lhs[0].(*ast.SelectorExpr); ok {
						if _, isTA := sel.X.(*ast.TypeAssertExpr); isTA && lastCall != "" {
							want, declared := labels[ruleName][sel.Sel.Name]
							sites++
							construct := fmt.Sprintf("gen-label:%s.%s", ruleName, sel.Sel.Name)
							switch {
							case !declared:
								bad++
								r.Bad("R8.7", construct, pos(st), "generated code assigns context field "+sel.Sel.Name+", which is not a label of rule "+ruleName+" in the .g4")
							case upperFirst(want) != lastCall && want != lastCall:
								bad++
								r.Bad("R8.7", construct, pos(st), fmt.Sprintf("label %s of rule %s is assigned from %s, the .g4 labels %s", sel.Sel.Name, ruleName, lastCall, want))
							default:
								r.OK("R8.7", construct, pos(st), "label", want)
							}
							continue
						}
					}
				}
				call, name := findCall(st)
				if call == nil {
					continue
				}
				if name == "SetState" {
					if bl, ok := call.Args[0].(*ast.BasicLit); ok {
						state, _ = strconv.Atoi(bl.Value)
					}
					continue
				}
				if state < 0 || state >= len(a.States) {
					continue
				}
				sites++
				construct := fmt.Sprintf("gen-step:%s:state %d", ruleName, state)
				okStep := false
				what := ""
				if name == "Match" {
					tokName := strings.TrimPrefix(fmt.Sprint(call.Args[0]), "OpenFGAParser")
					tt, known := tokIdx[tokName]
					if tokName == "EOF" {
						tt, known = atn.EOF, true
					}
					what = "Match(" + tokName + ")"
					lastCall = tokName
					for _, e := range a.States[state].Out {
						if e.Type == atn.TAtom && known && ((e.A3 != 0 && tt == atn.EOF) || (e.A3 == 0 && e.A1 == tt)) {
							okStep = true
						}
					}
				} else {
					what = "call of rule " + name
					lastCall = name
					for _, e := range a.States[state].Out {
						if e.Type == atn.TRule && e.A2 == ruleIdx[name] {
							okStep = true
						}
					}
				}
				if a.States[state].Rule != ri {
					okStep = false
				}
				if okStep {
					r.OK("R8.7", construct, pos(st), "transition", what)
				} else {
					bad++
					r.Bad("R8.7", construct, pos(st), fmt.Sprintf("rule function %s performs %s in ATN state %d, but the embedded automaton has no such transition there: the generated code was edited by hand or is stale", fd.Name.Name, what, state))
				}
				state = -1
			}
		}
		walk(fd.Body.List)
	}
	for i, n := range art.Rules {
		if !covered[i] {
			r.Bad("R8.7", "gen-rule-function:"+n, rel(w.Root, path), "no generated function for rule "+n)
		}
	}
	_ = sites
	_ = bad
}

// R87Decls: the functions the generated Go parser file declares are those the ANTLR Go target generates for this
// grammar — one method of *OpenFGAParser per grammar rule and nothing else on the parser, and at package level only
// the parser constructor / initialisers and the three context constructors per rule. A helper added by hand (a
// lookahead shortcut, a "fast path") is behaviour the other targets and the embedded automaton do not have.
func (w *World) R87Decls(r *oblig.Report, rule string) {
	art := w.Arts["go/parser"]
	if art == nil {
		r.Unknown(rule, "gen-decls:anchor", "-", "Go parser artefact missing")
		return
	}
	path := filepath.Join(w.Root, genDirs["go"], "openfga_parser.go")
	fset := token.NewFileSet()
	f, err := parser.ParseFile(fset, path, nil, 0)
	if err != nil {
		r.Unknown(rule, "gen-decls:parse", rel(w.Root, path), err.Error())
		return
	}
	rules := map[string]bool{}
	for _, n := range art.Rules {
		rules[upperFirst(n)] = true
	}
	seenRule := map[string]bool{}
	bad, dispatch := 0, 0
	for _, d := range f.Decls {
		fd, ok := d.(*ast.FuncDecl)
		if !ok {
			continue
		}
		pos := fmt.Sprintf("%s:%d", rel(w.Root, path), fset.Position(fd.Pos()).Line)
		if fd.Recv != nil {
			st, ok := fd.Recv.List[0].Type.(*ast.StarExpr)
			if !ok || fmt.Sprint(st.X) != "OpenFGAParser" {
				// methods of the context types: EnterRule / ExitRule of <Rule>Context hand the context to the
				// listener's Enter<Rule> / Exit<Rule> and to no other callback
				if ok && (fd.Name.Name == "EnterRule" || fd.Name.Name == "ExitRule") && strings.HasSuffix(fmt.Sprint(st.X), "Context") && fd.Body != nil {
					ruleName := strings.TrimSuffix(fmt.Sprint(st.X), "Context")
					if !rules[ruleName] {
						continue
					}
					want := strings.TrimSuffix(fd.Name.Name, "Rule") + ruleName
					var called []string
					ast.Inspect(fd.Body, func(n ast.Node) bool {
						if ce, ok := n.(*ast.CallExpr); ok {
							if se, ok := ce.Fun.(*ast.SelectorExpr); ok && (strings.HasPrefix(se.Sel.Name, "Enter") || strings.HasPrefix(se.Sel.Name, "Exit")) {
								called = append(called, se.Sel.Name)
							}
						}
						return true
					})
					dispatch++
					if len(called) != 1 || called[0] != want {
						bad++
						r.Bad(rule, "gen-decls:dispatch:"+ruleName+"."+fd.Name.Name, pos, fmt.Sprintf("%sContext.%s calls %v on the listener; ANTLR generates exactly one call, of %s: a listener sees this rule entered or left the wrong number of times, or under a name no grammar rule has", ruleName, fd.Name.Name, called, want))
					}
				}
				continue
			}
			if rules[fd.Name.Name] {
				seenRule[fd.Name.Name] = true
				continue
			}
			bad++
			r.Bad(rule, "gen-decls:parser-method:"+fd.Name.Name, pos, "the generated parser declares the method "+fd.Name.Name+", which is not the function of a grammar rule: ANTLR generates one parser method per rule and no other; this one was added by hand")
			continue
		}
		n := fd.Name.Name
		okName := n == "NewOpenFGAParser" || n == "OpenFGAParserInit" || n == "openfgaparserParserInit"
		for _, pre := range []string{"NewEmpty", "InitEmpty", "New"} {
			if strings.HasPrefix(n, pre) && strings.HasSuffix(n, "Context") && rules[strings.TrimSuffix(strings.TrimPrefix(n, pre), "Context")] {
				okName = true
			}
		}
		if !okName {
			bad++
			r.Bad(rule, "gen-decls:function:"+n, pos, "the generated parser file declares the function "+n+", which ANTLR does not generate for this grammar")
		}
	}
	for name := range rules {
		if !seenRule[name] {
			bad++
			r.Bad(rule, "gen-decls:missing:"+name, rel(w.Root, path), "grammar rule "+name+" has no parser method in the generated Go file")
		}
	}
	if dispatch != 2*len(rules) {
		bad++
		r.Bad(rule, "gen-decls:dispatch-count", rel(w.Root, path), fmt.Sprintf("%d EnterRule/ExitRule methods found for %d grammar rules: each rule context has one of each", dispatch, len(rules)))
	}
	if bad == 0 {
		r.OK(rule, "gen-decls", rel(w.Root, path), "declared-set", fmt.Sprintf("%d parser methods, one per grammar rule; only generated constructors at package level; %d EnterRule/ExitRule methods each call the one listener callback of their rule", len(seenRule), dispatch))
	}
}
