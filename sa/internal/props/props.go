// Package props selects, per property, the rules that decide its claimed clauses.
package props

import "verif/sa/internal/oblig"

// Check is one property check.
type Check struct {
	Level string
	Run   func(r *oblig.Report)
}

// Checks is the registry, filled by the init functions of the per-property files.
var Checks = map[string]Check{}
