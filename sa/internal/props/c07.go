package props

import (
	"verif/sa/internal/e5path"
	"verif/sa/internal/e9pos"
	"verif/sa/internal/oblig"
)

func init() {
	Checks["C07"] = Check{Level: "other", Run: runC07}
}

// the documented conflicts and the condition each is raised under (from the property statement)
var rejectionSpecs = []e5path.RejectionSpec{
	{MsgPrefix: "duplicate type definition", Requires: []string{"slices.Contains|]#1 is true|] is true", "is true"}}, // membership in the list, or in a set, of the types seen so far
	{MsgPrefix: "file is not a module", Requires: []string{".Metadata"}},
	{MsgPrefix: "duplicate condition", Requires: []string{"#1 is true"}},
	{MsgPrefix: "extended type", Requires: []string{"== -1 is true|#1 is false|== nil is true"}}, // the base type was looked for and not found (index -1, ok false, or nil)
	{MsgPrefix: "relation", Requires: []string{"slices.Contains|.Relations[", "is true"}},
}

func runC07(r *oblig.Report) {
	r.Explanation = "Decides structural necessary conditions of C07 on TransformModuleFilesToModel: (E4) no reachable instruction of the merger, the DSL listener or the helpers can panic (same engine and rules as C08, universe restricted to what the merger reaches); " +
		"(R5.3) on every structured path through each loop exactly one thing happens to the item — one error, or it is merged, or it is handed to an inner loop (errors.As on the parser's error is shown total by the types of the callee's returns); " +
		"(R5.1) the model is returned only with an empty accumulator and every error return carries the nil model; (C07.2') every merge error is one of the documented conflicts and is dominated by the documented condition, and every documented conflict still has a site; " +
		"(R9.4) every merge error names the file being processed and takes its position from that file; (C07.5) every SourceInfo takes its File from the file whose parse produced the object; the requested schema version is stored; " +
		"(C07.8) the list a relation clash is tested against is rebuilt from the live map for every item; (C07.7) GetModuleForObjectTypeRelation has the documented three outcomes."
	r.NotCovered = []string{"the iff between success and conflict-freedom and conservation ('none lost, none invented') over all file sets (value arguments)",
		"a file with a model header and no type at all is not recognised as a non-module file (nothing in it carries a module name to test)"}
	r.Assumptions = []string{"as C08 for the panic engine"}
	c := NewCtx(r)
	if c == nil {
		return
	}
	r.Rule("E4", "universe", "no may-panic instruction reachable from the merger is left undischarged", 0)
	panicFreedom(c, r, "E4", []string{"transformer.TransformModuleFilesToModel", "utils.GetModuleForObjectTypeRelation"}, map[string]bool{"transformer": true, "utils": true, "errors": true})
	r.Rule("R5.3", "instance-table", "exactly one outcome per item on every path through every loop", 5)
	r.Rule("R5.1", "instance-table", "never a partial model", 2)
	r.Rule("C07.2", "instance-table", "merge errors are the documented conflicts under the documented conditions", 5)
	r.Rule("R9.4", "instance-table", "merge errors name the file being processed", 7)
	r.Rule("C07.5", "instance-table", "attribution uses the declaring file; requested schema version", 5)
	r.Rule("C07.8", "instance-table", "conflict membership lists are rebuilt per item", 2)
	r.Rule("C07.7", "instance-table", "module lookup has the documented outcomes", 1)
	e5path.MergerLoops(c.P, r, "R5.3")
	e5path.NeverPartial(c.P, r, "R5.1")
	e5path.RejectionSites(c.P, r, "C07.2", rejectionSpecs)
	e9pos.MergeErrors(c.P, r, "R9.4")
	e5path.ForwardedErrors(c.P, r, "R9.4")
	e5path.Attribution(c.P, r, "C07.5")
	e5path.FreshMembership(c.P, r, "C07.8")
	r.Rule("C07.9", "path-enumeration", "an extension's relations are adopted wholesale only after the base type itself was found to have none", 1)
	e5path.LiveAdoption(c.P, r, "C07.9")
	mfs := c.Reach(c.Entries("transformer.TransformModuleFilesToModel"))
	r.Rule("C07.11", "instance-table", "a definition is taken for an extension by comparing it with the recorded extension definition, not by its name", 1)
	e5path.ExtensionByDefinition(c.P, r, "C07.11", mfs)
	r.Rule("C07.12", "instance-table", "'file is not a module' is decided by the module name attached to a type, not by the presence of metadata", 1)
	e5path.ModuleByModuleName(c.P, r, "C07.12", mfs)
	e5path.ModuleLookupShape(c.P, r, "C07.7")
	noPackageState(c.P, r, c.Reach(c.Entries("transformer.TransformModuleFilesToModel", "utils.GetModuleForObjectTypeRelation")))
}
