package props

import (
	"verif/sa/internal/e2own"
	"verif/sa/internal/e3order"
	"verif/sa/internal/e5path"
	"verif/sa/internal/oblig"
)

func init() {
	Checks["C14"] = Check{Level: "other", Run: runC14}
}

func runC14(r *oblig.Report) {
	r.Explanation = "Decides necessary conditions of C14 on the DSL printer: (1) output order never comes from a map — every map range reachable from TransformJSONProtoToDSL / TransformJSONStringToDSL is collect-then-sort " +
		"with a comparator that is total on the collected names (its only zero-returning path compares the names themselves), or another order-insensitive form; no later unstable re-sort with a partial comparator; " +
		"(1b) on every path that sorts the type definitions (modular models) the types rendered afterwards are the elements of that sorted list; (2) the include-source-information option is only ever forwarded, as an argument, into the trailing-comment helper; with the option false the helper returns the empty string on every path; " +
		"its non-empty result starts with \" #\" on one line and every use of it is the last verb on its output line of a constant format; (3) no package-level state is written."
	r.NotCovered = []string{"byte identity across JSON encodings (delegated to protojson producing equal messages)", "that names cannot contain line breaks",
		"that the comparator implements exactly the documented (unattributed first, module, file, name) order — only its totality and determinism are decided"}
	r.Assumptions = []string{"sort.Strings / slices.Sort* sort according to their comparator", "fmt.Sprintf substitutes verbs left to right"}
	c := NewCtx(r)
	if c == nil {
		return
	}
	fs := c.Reach(c.Entries("transformer.TransformJSONProtoToDSL", "transformer.TransformJSONStringToDSL"))
	c.noteReach("reachable", fs)
	r.Rule("R3.1", "universe", "every loop over a map / gonum iterator reachable from the printer is order-insensitive by form (collect-then-sort with total comparator etc.)", 0).HandCount = 3
	r.Rule("R3.4", "universe", "no entropy source reaches an ordering comparison", 0)
	r.Rule("R2.2", "universe", "no write to package-level state", 0)
	r.Rule("R5.7", "instance-table", "the source-information option flows only into the trailing-comment helper; helper returns \"\" when off; its result is the last verb on its line everywhere", 5)
	a := &e3order.Analyzer{P: c.P, R: r}
	a.CollectLoops(fs)
	a.Classify("R3.1")
	a.OrderCalls("R3.1", fs)
	a.Entropy("R3.4", fs, false)
	e2own.Globals(c.P, r, "R2.2", fs)
	r.Rule("R1.6i", "universe", "index loops over a list (type definitions, relations, conditions, restrictions) start at 0 and run to len(list)", 0)
	e5path.IndexLoopsCoverList(c.P, r, "R1.6i", fs)
	helper := c.Entry("transformer.constructSourceComment")
	e5path.OptionFlow(c.P, r, "R5.7", "transformOptions", "includeSourceInformation", helper, fs)
	e5path.HelperFalse(c.P, r, "R5.7", helper, "includeSourceInformation")
	e5path.LastOnLine(c.P, r, "R5.7", helper, fs)
	r.Rule("C14.2", "path-enumeration", "on every path that sorts the type definitions (modular models), the types rendered afterwards are the elements of the sorted list itself", 1)
	e5path.SortedListIsRendered(c.P, r, "C14.2")
	r.Analysed["order_source_loops"] = len(a.Loops)
	e3order.SelfTest(r)
}
