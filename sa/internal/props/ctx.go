package props

import (
	"fmt"
	"go/types"
	"sort"
	"strings"

	"golang.org/x/tools/go/ssa"

	"verif/sa/internal/e2own"
	"verif/sa/internal/e9pos"
	"verif/sa/internal/load"
	"verif/sa/internal/oblig"
)

// Ctx is the loaded program plus the entry-point table.
type Ctx struct {
	P *load.Prog
	R *oblig.Report
}

// NewCtx loads /repo/pkg/go (syntax, types, SSA). A load failure is an undecided obligation.
func NewCtx(r *oblig.Report) *Ctx {
	p, err := load.Load(true)
	if err != nil {
		r.Unknown("load", "load:./...", "-", err.Error())
		return nil
	}
	r.Analysed["packages"] = len(p.Pkgs)
	return &Ctx{P: p, R: r}
}

// noPackageState (R2.2) is a clause of every property that describes a result as a function of the input: no repository
// function reachable from the property's entry points writes package-level state outside initialisers (a cache, a pool,
// a memo table, a lazily filled index). With such state a result can depend on, or be overwritten by, another call.
func noPackageState(p *load.Prog, r *oblig.Report, fs []*ssa.Function) {
	r.Rule("R2.2", "universe", "no function reachable from the property's entry points writes package-level state outside initialisers (no cache, pool or memo shared between calls)", 0)
	e2own.Globals(p, r, "R2.2", fs)
}

// prePassClauses runs the pre-pass rule (R9.1) and keeps the clauses that matter for the property at hand: the rule
// decides seven things about ParseDSL's comment/blank pre-pass, and a property that only needs "every line reaches the
// parser at its own line number" must not raise an alarm because, say, the comment marker changed. Undecided records
// (anchors that no longer resolve) are always kept. keep lists construct names without the "prepass:" prefix.
func prePassClauses(p *load.Prog, r *oblig.Report, rule string, keep ...string) *e9pos.PrePass {
	scratch := oblig.New("scratch", "other", r.Tier)
	pp := e9pos.PrePassShape(p, scratch, rule)
	want := map[string]bool{}
	for _, k := range keep {
		want["prepass:"+k] = true
	}
	for _, rec := range scratch.Records {
		if want[rec.Construct] || rec.Status == oblig.Undecided {
			r.Add(rec)
		}
	}
	return pp
}

// Entry resolves "pkg.Func" or "pkg.Type.Method"; a missing entry point is an unresolved anchor.
func (c *Ctx) Entry(spec string) *ssa.Function {
	parts := strings.Split(spec, ".")
	var f *ssa.Function
	switch len(parts) {
	case 2:
		f = c.P.Func(parts[0], parts[1])
	case 3:
		f = c.P.Method(parts[0], parts[1], parts[2])
	}
	if f == nil {
		c.R.Unknown("anchor", "entry:"+spec, "-", "entry point "+spec+" does not resolve in the current tree")
	}
	return f
}

// Entries resolves several entry points, skipping (and reporting) the missing ones.
func (c *Ctx) Entries(specs ...string) []*ssa.Function {
	var out []*ssa.Function
	for _, s := range specs {
		if f := c.Entry(s); f != nil {
			out = append(out, f)
		}
	}
	return out
}

// ListenerMethods returns the Enter*/Exit* methods declared on OpenFgaDslListener and the
// SyntaxError method of the error listener: they are invoked by the ANTLR runtime.
func (c *Ctx) ListenerMethods() []*ssa.Function {
	var out []*ssa.Function
	pk := c.P.Pkgs["transformer"]
	for _, tn := range []string{"OpenFgaDslListener", "OpenFgaDslErrorListener"} {
		obj := pk.Types.Scope().Lookup(tn)
		if obj == nil {
			c.R.Unknown("anchor", "type:transformer."+tn, "-", "type not found")
			continue
		}
		named := obj.Type().(*types.Named)
		for i := 0; i < named.NumMethods(); i++ {
			m := named.Method(i)
			if f := c.P.SSA.FuncValue(m); f != nil {
				out = append(out, f)
			}
		}
	}
	return out
}

// Reach returns the repository functions (generated code excluded) reachable from roots through
// the whole-program VTA call graph; the listener callbacks are added whenever ParseDSL is reached.
func (c *Ctx) Reach(roots []*ssa.Function) []*ssa.Function {
	all := c.P.Reachable(roots, func(*ssa.Function) bool { return true })
	if pd := c.P.Func("transformer", "ParseDSL"); pd != nil && all[pd] {
		more := c.P.Reachable(c.ListenerMethods(), func(*ssa.Function) bool { return true })
		for f := range more {
			all[f] = true
		}
	}
	keep := map[*ssa.Function]bool{}
	for f := range all {
		// source functions, and the instantiations of the repository's own generic helpers
		if load.InRepoNonGen(f) && (f.Synthetic == "" || strings.HasPrefix(f.Synthetic, "instance of")) {
			keep[f] = true
		}
	}
	return load.SortedFuncs(keep)
}

// FuncNames lists names for the evidence.
func FuncNames(fs []*ssa.Function) []string {
	out := make([]string, 0, len(fs))
	for _, f := range fs {
		out = append(out, load.FuncName(f))
	}
	sort.Strings(out)
	return out
}

func (c *Ctx) noteReach(key string, fs []*ssa.Function) {
	c.R.Analysed[key+"_functions"] = len(fs)
	if len(fs) == 0 {
		c.R.Unknown("anchor", "reach:"+key, "-", "no repository function reachable from the entry points: anchors no longer resolve")
	}
	ins := 0
	for _, f := range fs {
		for _, b := range f.Blocks {
			ins += len(b.Instrs)
		}
	}
	c.R.Analysed[key+"_ssa_instructions"] = ins
	_ = fmt.Sprint
}
