package props

import (
	"verif/sa/internal/e5path"
	"verif/sa/internal/e8grammar"
	"verif/sa/internal/e9pos"
	"verif/sa/internal/load"
	"verif/sa/internal/oblig"
)

func init() {
	Checks["C16"] = Check{Level: "other", Run: runC16}
}

var notifyingMethods = []string{"EnterTypeDef", "EnterCondition", "ExitConditionParameter", "ExitTypeDef", "ExitRelationDeclaration"}

func runC16(r *oblig.Report) {
	r.Explanation = "Decides structural necessary conditions of C16: (R9.1) the comment/whitespace pre-pass of ParseDSL splits on \"\\n\", emits exactly one cleaned line per input line, each \"\" or a prefix of its input line " +
		"(only prefix-preserving operations; comment cut at the FIRST \" #\"), joins with \"\\n\" and afterwards only trims trailing newlines — so a (line, column) in the cleaned text is a valid (line, column) of the input; " +
		"(R9.2) SyntaxError stores line-1 and the column unchanged, unconditionally, and records on every path; (R9.3) every listener-raised error passes the start token of the name it complains about (an accessor on ctx whose text the callback reads), never ctx.GetStart(); " +
		"(R9.4) every merge error names its file, takes Line/Column from one ConstructLineAndColumnData call on the lines of that same file, with the finder matching the kind of conflict applied to the same symbol; " +
		"(R9.5) the line finders reject a continuation of the name by every name character of the lexer grammar (abstract evaluation of the helper over all bytes), and the relation finder must be scoped to its type."
	r.NotCovered = []string{"token positions inside ANTLR (trusted to refer to the character stream it was given)", "the column of merge errors (not claimed by the property)"}
	r.Assumptions = []string{"ANTLR reports one-based lines and zero-based columns relative to its input stream", "an EOF error is reported at the end of the last cleaned line"}
	c := NewCtx(r)
	if c == nil {
		return
	}
	w := e8grammar.Load(load.RepoRoot())
	r.Rule("R9.1", "instance-table", "pre-pass keeps line structure and prefixes", 4)
	r.Rule("R9.2", "instance-table", "one-based to zero-based exactly once, unconditionally; every syntax error recorded", 3)
	r.Rule("R9.3", "instance-table", "listener-raised errors point at the offending name", 5)
	r.Rule("R9.4", "instance-table", "merge errors pair file, lines and finder", 6)
	r.Rule("R9.5", "instance-table", "line finders are delimited and scoped", 5)
	prePassClauses(c.P, r, "R9.1", "join", "one-line-out-per-line-in", "split", "prefix", "line-loop")
	e9pos.LineConversion(c.P, r, "R9.2")
	e5path.SyntaxErrorAlwaysRecords(c.P, r, "R9.2")
	nameRules, err := w.NameRules()
	if err != nil {
		r.Unknown("R9.3", "anchor:name-rules", "-", err.Error())
	}
	r.Analysed["name_rules"] = nameRules
	e9pos.OffendingTokens(c.P, r, "R9.3", notifyingMethods, nameRules)
	e9pos.MergeErrors(c.P, r, "R9.4")
	r.Rule("R9.4c", "instance-table", "the merger's line table and the text given to the module parser are the file's contents as given", 2)
	e9pos.MergeTextVerbatim(c.P, r, "R9.4c")
	r.Rule("R9.6", "instance-table", "the column of a merge conflict is the first occurrence of the name on its line", 1)
	e9pos.ColumnIsFirstOccurrence(c.P, r, "R9.6")
	e9pos.Finders(c.P, r, "R9.5", w.LexerG)
	noPackageState(c.P, r, c.Reach(c.Entries("transformer.TransformDSLToProto", "transformer.TransformModularDSLToProto", "transformer.TransformModuleFilesToModel")))
}
