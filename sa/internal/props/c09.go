package props

import (
	"verif/sa/internal/e5path"
	"verif/sa/internal/e8grammar"
	"verif/sa/internal/e9pos"
	"verif/sa/internal/load"
	"verif/sa/internal/oblig"
)

func init() {
	Checks["C09"] = Check{Level: "other", Run: runC09}
}

var declarationTables = []e5path.TableSpec{
	{Func: "ExitRelationDeclaration", MapPath: "l.currentTypeDef.Relations", What: "relation"},
	{Func: "ExitConditionParameter", MapPath: "l.currentCondition.Parameters", What: "condition parameter"},
	{Func: "ExitTypeDef", MapPath: "l.typeDefExtensions", What: "type extension"},
}

func runC09(r *oblig.Report) {
	r.Explanation = "Decides C09 in two halves. Grammar half (R8.4), a statement about ALL token sequences, computed on the parser automaton embedded in the Go package (tied to the .g4 by C19): " +
		"on every unparenthesised nesting level at most one of OR/AND/BUT_NOT can be derived (abstract interpretation over the rule automata, parenthesised rules computed, not named); a rule that can contain a direct assignment only ever occurs first on its level; " +
		"restriction lists are non-empty and each restriction has a type name; wildcard and relation exclude each other; exactly one header and EOF; a container parameter type has exactly one scalar element type. " +
		"Listener half: every insert into a declaration table (relations, conditions, parameters, extensions) is dominated by a lookup of the same key in the same table whose 'present' branch notifies the error listeners (R5.4); " +
		"'extend' outside a modular model is notified under exactly the stated condition; the collecting error listener is attached to lexer and parser, records every error on every path, and any recorded error voids the result (R5.1, R5.2)."
	r.NotCovered = []string{"that the ANTLR runtime reports an error for every token sequence outside the grammar (trusted)", "duplicate type definitions inside one non-modular file (not in the property's list)"}
	r.Assumptions = []string{"the ANTLR 4.13.1 Go runtime rejects every input the automaton does not derive and delivers NotifyErrorListeners to the attached listeners", "C19 ties the embedded automaton to the .g4"}
	w := e8grammar.Load(load.RepoRoot())
	w.R84(r)
	c := NewCtx(r)
	if c == nil {
		return
	}
	r.Rule("R5.4", "instance-table", "check-before-insert on the four declaration tables", 5)
	r.Rule("R5.1", "instance-table", "any collected error voids the result", 2)
	r.Rule("R5.2", "instance-table", "the returned error listener is attached to lexer and parser and records every error", 4)
	r.Rule("R5.4x", "instance-table", "'extend' misuse is notified under exactly the stated conditions", 1)
	e5path.CheckBeforeInsert(c.P, r, "R5.4", declarationTables)
	e5path.ConditionDeclared(c.P, r, "R5.4")
	e5path.NotifyGuards(c.P, r, "R5.4x", "EnterTypeDef", 1, []string{
		"ctx.GetTypeName() == nil is false", "ctx.EXTEND() != nil is true", "l.isModularModel is false"}, "extend in a non-modular model")
	e5path.ErrorsVoidResult(c.P, r, "R5.1", c.Entry("transformer.TransformDSLToProto"))
	e5path.ErrorsVoidResult(c.P, r, "R5.1", c.Entry("transformer.TransformModularDSLToProto"))
	e5path.ListenerWiring(c.P, r, "R5.2")
	// the whole document reaches the parser: a pre-pass that drops lines (or the rest of the text) lets a violation
	// behind the cut pass unseen (shared with C03/C16)
	r.Rule("R9.1", "instance-table", "the pre-pass hands the parser every line of the input: split at the line breaks, one cleaned line per input line, joined again, only an inline comment cut off", 4)
	pp := prePassClauses(c.P, r, "R9.1", "join", "one-line-out-per-line-in", "split", "inline-comment-cut", "line-loop")
	r.Rule("R9.1n", "instance-table", "the pre-pass and the lexer agree on where a line ends (a comment is cut to the end of the LEXER's line)", 3)
	e9pos.LineEndsAgree(r, "R9.1n", w.LexerG, pp)
	e5path.SyntaxErrorAlwaysRecords(c.P, r, "R5.2")
	lfs := c.Reach(c.Entries("transformer.TransformDSLToProto", "transformer.TransformModularDSLToProto"))
	r.Rule("R5.4s", "path-enumeration", "a declaration that meets the conditions under which its callback registers it is registered or reported on every path of that callback (never dropped from the bookkeeping silently)", 3)
	e5path.NeverDroppedSilently(c.P, r, "R5.4s", declarationTables)
	r.Rule("R5.4d", "universe", "the declaration tables the listener holds only grow while a document is walked (no delete, no clear)", 0)
	e5path.TablesOnlyGrow(c.P, r, "R5.4d", lfs)
	noPackageState(c.P, r, lfs)
}
