package props

import (
	"verif/sa/internal/e1variants"
	"verif/sa/internal/e8grammar"
	"verif/sa/internal/load"
	"verif/sa/internal/oblig"
)

func init() {
	Checks["C19"] = Check{Level: "translation_validation", Run: runC19}
}

func runC19(r *oblig.Report) {
	r.Explanation = "Translation validation of the generated recognisers against the two .g4 files without running ANTLR: " +
		"(R8.1) the serialized ATNs and vocabulary tables of the Go, TS and Java recognisers and of the six .interp files are extracted as data and are identical per grammar, .tokens files agree, one ANTLR version; " +
		"(R8.2) the vocabularies equal what the .g4 files declare; " +
		"(R8.3) for each of the lexer and parser rules the rule's sub-automaton in the embedded ATN is language-equivalent to the rule body written in the .g4 (own .g4 reader, own ATN decoder, NFA equivalence with shortest distinguishing word), lexer commands / non-greedy counts / mode order / rule→token types agree; " +
		"(R1.5) every Enter*/Exit* method of the Go listener overrides a method of the generated listener interface with the same signature."
	r.NotCovered = []string{"run-time behaviour of the ANTLR libraries of the three targets (trusted)", "alternative order inside a parser rule (does not change the accepted language; ambiguity resolution only)"}
	r.Assumptions = []string{"ANTLR 4 serialized-ATN format version 4 as decoded by /verif/sa/internal/atn", "equal rule languages for every rule imply equal context-free grammars"}
	w := e8grammar.Load(load.RepoRoot())
	programs, cmp := w.R81(r)
	w.R82(r)
	q := w.R83(r, "go/lexer", "lexer")
	q += w.R83(r, "go/parser", "parser")
	w.R87(r)
	r.Rule("R8.7b", "instance-table", "every hard-coded LL(1) lookahead test of the generated Go parser names the lookahead set of an alternative of its decision state in the embedded automaton", 40)
	w.R87Lookahead(r, "R8.7b")
	r.Rule("R8.7c", "instance-table", "the generated Go parser declares one parser method per grammar rule and no hand-written function", 1)
	w.R87Decls(r, "R8.7c")
	// R1.5 needs the type-checked Go packages
	if p, err := load.LoadPatterns(false, "./transformer", "./gen"); err != nil {
		r.Unknown("load", "load:transformer+gen", "-", err.Error())
	} else {
		r.Rule("R1.5", "instance-table", "every Enter*/Exit* method of the Go listener overrides a method of the generated listener interface with an identical signature; SyntaxError overrides antlr.ErrorListener's; every grammar label is read; every operator alternative is consulted", 30)
		e1variants.ListenerOverrides(p, r, "R1.5")
		e1variants.GrammarCoverage(p, r, "R1.5", w.ParserG)
	}
	if r.Tier == "thorough" {
		// quick compares the TS/Java/.interp copies as integer sequences (R8.1); thorough repeats the per-rule equivalence on each
		for _, k := range []string{"ts", "java", "interp-go", "interp-js", "interp-java"} {
			q += w.R83(r, k+"/lexer", "lexer")
			q += w.R83(r, k+"/parser", "parser")
		}
	}
	r.Extra["programs"] = programs
	r.Extra["disagreements_checked"] = cmp + q
	r.Analysed["artefacts"] = len(w.Arts)
	if w.GoLexer != nil && w.GoParser != nil {
		r.Analysed["lexer_atn"] = map[string]int{"states": len(w.GoLexer.States), "rules": len(w.GoLexer.RuleStart), "edges": len(w.GoLexer.Edges), "modes": len(w.GoLexer.ModeStart), "actions": len(w.GoLexer.Actions)}
		r.Analysed["parser_atn"] = map[string]int{"states": len(w.GoParser.States), "rules": len(w.GoParser.RuleStart), "edges": len(w.GoParser.Edges), "decisions": len(w.GoParser.Decisions)}
	}
}
