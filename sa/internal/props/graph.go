package props

import (
	"golang.org/x/tools/go/ssa"

	"verif/sa/internal/e1variants"
	"verif/sa/internal/e2own"
	"verif/sa/internal/e3order"
	"verif/sa/internal/e5path"
	"verif/sa/internal/oblig"
)

func init() {
	Checks["C05"] = Check{Level: "other", Run: runC05}
	Checks["C06"] = Check{Level: "other", Run: runC06}
	Checks["C10"] = Check{Level: "other", Run: runC10}
	Checks["C11"] = Check{Level: "other", Run: runC11}
	Checks["C17"] = Check{Level: "other", Run: runC17}
}

const typeDefElem = "openfga/v1.TypeDefinition"

var weightedStructs = []string{"graph.WeightedAuthorizationModelNode", "graph.WeightedAuthorizationModelEdge"}
var plainStructs = []string{"graph.AuthorizationModelEdge", "graph.AuthorizationModelNode"}

// reviewed: the only error UpsertEdge can return is for a nil node operand
var dropExceptions = []e5path.DropException{
	{Caller: "(*graph.WeightedAuthorizationModelGraphBuilder).parseTupleToUserset", Callee: "(*graph.WeightedAuthorizationModelGraph).UpsertEdge",
		Reason: "UpsertEdge fails only for a nil node; parentNode is the relation/operator node handed down from GetOrAddNode and nodeSource is the result of GetOrAddNode, which never returns nil"},
}

// scheduleClauses: E3 over everything reachable from Build (shared by C05, C06, C11).
func scheduleClauses(c *Ctx, r *oblig.Report, fs []*ssa.Function, build *ssa.Function) {
	r.Rule("R3.1", "universe", "every loop over a map / gonum iterator / caller-ordered type list reachable from Build is order-insensitive by form, or a reviewed bag-like exception keyed by its effect signature", 0).HandCount = 13
	r.Rule("R3.4", "universe", "no entropy source (ULID, time, rand) reaches an ordering comparison or sort", 0)
	r.Rule("R3.5", "instance-table", "Build visits type definitions on a private copy sorted by a total comparator", 1)
	a := &e3order.Analyzer{P: c.P, R: r, CallerOrderElem: typeDefElem}
	a.CollectLoops(fs)
	a.Classify("R3.1")
	a.OrderCalls("R3.1", fs)
	a.Entropy("R3.4", fs, false)
	a.SortedCopy("R3.5", build, typeDefElem)
	r.Analysed["order_source_loops"] = len(a.Loops)
	e3order.SelfTest(r)
}

func runC05(r *oblig.Report) {
	r.Explanation = "Decides the schedule and error-discipline clauses of C05: (1) the verdict of Build cannot depend on map iteration order, gonum iterator order, the caller's order of type definitions or entropy (E3 over all code reachable from Build; " +
		"the start order of the weight assignment must come from an ordered source); (2) every error that can leave Build wraps ErrModelCycle, ErrTupleCycle or ErrInvalidModel with %w (backward slice from every error return, one record per origin site, " +
		"floor = the sites confirmed by reading, so a deleted rejection site is noticed); (3) no error of a callee is dropped: each is returned directly or tested against nil and returned on the non-nil branch."
	r.NotCovered = []string{"the equivalence between 'error' and 'not well-founded' for a fixed traversal order: back-edge classification (isTupleCycle), the self-loop shortcut and the weight strategies are value logic over arbitrary graphs",
		"whether a given input model is accepted or rejected"}
	r.Assumptions = []string{"fmt.Errorf with %w makes errors.Is succeed for the wrapped sentinel", "Go map iteration order is unspecified"}
	c := NewCtx(r)
	if c == nil {
		return
	}
	build := c.Entry("graph.WeightedAuthorizationModelGraphBuilder.Build")
	fs := c.Reach([]*ssa.Function{build})
	c.noteReach("reachable", fs)
	scheduleClauses(c, r, fs, build)
	r.Rule("R5.5", "instance-table", "every error origin reachable from Build is a sentinel or wraps one with %w", 8)
	e5path.ErrorProvenance(c.P, r, "R5.5", "graph", []string{"ErrModelCycle", "ErrTupleCycle", "ErrInvalidModel"}, fs)
	r.Rule("R5.5r", "instance-table", "the distinct reasons for which the weighted builder rejects a model (error formats, sentinels returned as they are) are all still there", 10)
	e5path.RejectionReasons(c.P, r, "R5.5r", "graph", fs)
	r.Rule("R5.6", "instance-table", "no callee error is dropped on the way to Build's result", 9)
	e5path.Propagation(c.P, r, "R5.6", fs, dropExceptions)
	r.Rule("R1.6c", "instance-table", "loops of the weight calculation that collect (pending cycles, dependants, weights) run to completion unless they fail", 3)
	e5path.CollectingLoopsCompleteIn(c.P, r, "R1.6c", "graph", fs)
	r.Rule("C10.4", "instance-table", "operator nodes get a unique label derived from a random id made in the same invocation (two occurrences never share a node, or the verdict is about another graph)", 1)
	(&e3order.Analyzer{P: c.P, R: r}).FreshLabels("C10.4", fs, []string{"GetOrAddNode", "AddNode"}, "uniqueLabel", "nodeType", 2)
	r.Rule("C05.8", "universe", "a map the weight calculation makes and fills is stored, returned or handed on (a computed result is never thrown away)", 0)
	e5path.NoDiscardedMaps(c.P, r, "C05.8", fs)
	r.Rule("C05.7", "instance-table", "the cycle segment of the ancestor path starts at the first edge leaving the revisited node (located by the edge's source, never its target)", 1)
	e5path.CycleSegmentStart(c.P, r, "C05.7")
	r.Rule("C05.6", "path-enumeration", "an edge that gets the placeholder weight of an unresolved cycle root is filed among that root's dependants on the same path", 1)
	e5path.PlaceholderRegistered(c.P, r, "C05.6", fs)
	r.Rule("C05.10", "instance-table", "an intersection is computed over operands (the edges of one restriction / one tuple to userset together), and a running set that became empty is never refilled", 1)
	e5path.IntersectionPerOperand(c.P, r, "C05.10", fs)
	r.Rule("C05.11", "instance-table", "the subtracted side of an exclusion is its last operand (edges grouped), not its last edge", 1)
	e5path.ExclusionPerOperand(c.P, r, "C05.11", fs)
	r.Rule("C05.12", "instance-table", "the weights of a resolved cycle root are stored only when they are not empty; the empty case is an error (no terminal type)", 1)
	e5path.RootReachesSomething(c.P, r, "C05.12", fs)
	r.Rule("C05.13", "path-enumeration", "an edge is filed among the dependants of a cycle root only where a tuple on the cycle it joins was established", 2)
	e5path.DependantClassified(c.P, r, "C05.13", fs)
	r.Rule("C05.9", "path-enumeration", "the placeholder weight of an unresolved cycle is given only after the cycle classifier's verdict or a tuple kind (TTU, direct) of the edge itself was established on the path", 1)
	e5path.PlaceholderNeedsTuple(c.P, r, "C05.9", fs)
	r.Rule("C05.5", "path-enumeration", "a node without outgoing edges that is not a terminal type ends the weight calculation in an error", 3)
	e5path.NoTerminalTypeRejected(c.P, r, "C05.5", fs)
	r.Rule("C05.4", "path-enumeration", "AssignWeights starts the weight calculation from every node it has not visited yet", 1)
	e5path.EveryNodeWeighed(c.P, r, "C05.4")
	// the verdict is a function of the model alone: no state survives a Build call in the builder or in the package
	r.Rule("R2.2", "universe", "no write to package-level state", 0)
	r.Rule("R2.1r", "instance-table", "builder methods never store into their receiver", 1)
	e2own.Globals(c.P, r, "R2.2", fs)
	e2own.ReceiverState(c.P, r, "R2.1r", "graph", "WeightedAuthorizationModelGraphBuilder", fs)
}

func runC06(r *oblig.Report) {
	r.Explanation = "Decides necessary conditions of C06 for everything reachable from WeightedAuthorizationModelGraphBuilder.Build: (1) no order-sensitive loop over a map, a gonum iterator or the caller-ordered type list, no entropy value in an ordering comparison (E3); " +
		"(2) type definitions are visited on a private copy sorted by a total comparator, relations in sorted order (R3.5/R3.1 form S); (3) the package writes no package-level state and the builder methods never store into their receiver, so concurrent and repeated builds cannot interact (R2.2, R2.1r); " +
		"(4) no wildcard/condition slice is shared between two nodes/edges while an append to such a field is reachable (R2.3)."
	r.NotCovered = []string{"'reordering the operands of a union or intersection changes no weights' (commutativity of the numeric rules is a value property)", "duplicate type names (outside the property's domain)"}
	r.Assumptions = []string{"Go map iteration order is the only unordered source besides the enumerated iterators and entropy functions", "append may write into spare capacity of its first operand"}
	c := NewCtx(r)
	if c == nil {
		return
	}
	build := c.Entry("graph.WeightedAuthorizationModelGraphBuilder.Build")
	fs := c.Reach([]*ssa.Function{build})
	c.noteReach("reachable", fs)
	scheduleClauses(c, r, fs, build)
	r.Rule("R2.2", "universe", "no write to package-level state", 0)
	r.Rule("R2.1r", "instance-table", "builder methods never store into their receiver", 1)
	r.Rule("R2.3", "instance-table", "no slice stored into wildcards/conditions is shared with another node/edge while appends to such fields are reachable", 10)
	e2own.Globals(c.P, r, "R2.2", fs)
	e2own.ReceiverState(c.P, r, "R2.1r", "graph", "WeightedAuthorizationModelGraphBuilder", fs)
	e2own.SharedSlices(c.P, r, "R2.3", build, fs, []string{"wildcards", "conditions"}, weightedStructs)
	r.Rule("R1.6c", "instance-table", "loops of the weight calculation that collect (pending cycles, dependants, weights) run to completion unless they fail", 3)
	e5path.CollectingLoopsCompleteIn(c.P, r, "R1.6c", "graph", fs)
	r.Rule("C05.10", "instance-table", "operand order: an intersection is computed over operands and a running set that became empty is never refilled from a later operand", 1)
	e5path.IntersectionPerOperand(c.P, r, "C05.10", fs)
	r.Rule("C05.11", "instance-table", "operand order: the subtracted side of an exclusion is its last operand, not its last edge", 1)
	e5path.ExclusionPerOperand(c.P, r, "C05.11", fs)
	r.Rule("C05.13", "path-enumeration", "operand order: an edge is filed among the dependants of a cycle root only where a tuple on the cycle it joins was established", 2)
	e5path.DependantClassified(c.P, r, "C05.13", fs)
}

func runC11(r *oblig.Report) {
	r.Explanation = "Decides necessary conditions of C11: (1) the schedule clause as for C05/C06 — no order-sensitive iteration or entropy reaches the wildcard lists; (2) a wildcard list is never appended to while another node or edge shares its backing array " +
		"(every store into a wildcards field stores a fresh slice, a clone, or an append to the same field — R2.3); (3) every append to a wildcards field is dominated by !slices.Contains(sameList, sameElement), so lists have no duplicates by construction."
	r.NotCovered = []string{"equality of the lists with graph reachability of public types, in particular on and behind tuple cycles and under intersections (a value property of the propagation algorithm)"}
	r.Assumptions = []string{"append may write into spare capacity of its first operand"}
	c := NewCtx(r)
	if c == nil {
		return
	}
	build := c.Entry("graph.WeightedAuthorizationModelGraphBuilder.Build")
	fs := c.Reach([]*ssa.Function{build})
	c.noteReach("reachable", fs)
	scheduleClauses(c, r, fs, build)
	r.Rule("R2.3", "instance-table", "no wildcard slice is shared between owners while appends are reachable", 10)
	r.Rule("C11.3", "instance-table", "every append to a wildcards list is guarded by !slices.Contains on the same list and element", 2)
	e2own.SharedSlices(c.P, r, "R2.3", build, fs, []string{"wildcards"}, weightedStructs)
	e2own.GuardedAppends(c.P, r, "C11.3", fs, "wildcards", weightedStructs)
	r.Rule("C11.6", "path-enumeration", "a wildcard list that is not empty is only ever extended, and an element found missing from it is appended", 3)
	e5path.WildcardListsOnlyGrow(c.P, r, "C11.6", fs)
	r.Rule("R1.7", "instance-table", "the accessors of the weighted graph's nodes and edges return the field they are named after (GetWildcards is how the property is observed)", 8)
	e5path.AccessorFidelity(c.P, r, "R1.7", []string{"WeightedAuthorizationModelEdge", "WeightedAuthorizationModelNode"})
	r.Rule("C11.5", "instance-table", "the public type named in a wildcard list is the wildcard label without its two-character suffix ':*'", 1)
	e5path.WildcardNameStrip(c.P, r, "C11.5", fs)
	r.Rule("C11.4", "path-enumeration", "the dependants of a resolved tuple-cycle root receive the wildcards of that root and of nothing else", 2)
	e5path.RootWildcardsReachDependants(c.P, r, "C11.4", fs)
	noPackageState(c.P, r, fs)
}

var usersetAll = []string{"This", "ComputedUserset", "TupleToUserset", "Union", "Intersection", "Difference"}

func runC10(r *oblig.Report) {
	r.Explanation = "Decides structural necessary conditions of C10: (1) the weighted builder's rewrite translation handles all six rewrite variants and its direct-assignment translation all restriction variants (R1.1); " +
		"(2) the edge-kind and node-kind constants passed to the edge/node constructors in each translation step are the documented ones and equal those of the sibling plain builder; operator labels and the (base, subtract) order of exclusion children agree (R1.4); " +
		"(3) building never modifies the model: may-point-to analysis rooted at Build's model argument finds no write (R2.1); (4) the empty condition is normalised to 'none' before UpsertEdge compares conditions."
	r.NotCovered = []string{"the one-to-one correspondence between graph and rewrite as a whole (needs running the builder)", "edge de-duplication logic"}
	r.Assumptions = []string{"edge kinds: 0 direct, 1 rewrite, 2 TTU, 3 computed (constants of the graph package)"}
	c := NewCtx(r)
	if c == nil {
		return
	}
	build := c.Entry("graph.WeightedAuthorizationModelGraphBuilder.Build")
	fs := c.Reach([]*ssa.Function{build})
	c.noteReach("reachable", fs)
	r.Rule("R1.1", "instance-table", "consumers of the rewrite / restriction oneofs handle every required variant", 2)
	r.Rule("R1.4", "instance-table", "edge-kind, node-kind, operator-label tables and exclusion order agree between the two builders and with the documented table", 12)
	r.Rule("R2.1", "instance-table", "Build does not write memory reachable from its arguments", 1)
	r.Rule("C10.5", "instance-table", "condition normalisation dominates the comparison loop in UpsertEdge", 1)
	e1variants.Consumers(c.P, r, "R1.1", []e1variants.Consumer{
		{Pkg: "graph", Func: "WeightedAuthorizationModelGraphBuilder.parseRewrite", Message: "Userset", Required: usersetAll},
		{Pkg: "graph", Func: "WeightedAuthorizationModelGraphBuilder.parseThis", Message: "RelationReference", Required: []string{"RelationOrWildcard", "Wildcard", "Relation", "Type", "Condition"}},
	})
	e1variants.Siblings(c.P, r, "R1.4", "weighted")
	e2own.ArgPurity(c.P, r, "R2.1", build, fs)
	e5path.NormalisedBeforeCompare(c.P, r, "C10.5", c.Entry("graph.WeightedAuthorizationModelGraph.UpsertEdge"), "condition")
	r.Rule("C10.6", "path-enumeration", "an existing edge is matched only after its kind and its tupleset relation were compared with the parameters", 2)
	e5path.EdgeIdentity(c.P, r, "C10.6", []string{"graph.WeightedAuthorizationModelGraph.UpsertEdge", "graph.WeightedAuthorizationModelGraph.HasEdge"})
	r.Rule("C10.4", "instance-table", "operator nodes get a unique label derived from a random id made in the same invocation", 1)
	a := &e3order.Analyzer{P: c.P, R: r}
	a.FreshLabels("C10.4", fs, []string{"GetOrAddNode", "AddNode"}, "uniqueLabel", "nodeType", 2)
	r.Rule("R1.6", "instance-table", "translation loops over operands and restrictions run to completion unless they fail", 4)
	e5path.CompleteIteration(c.P, r, "R1.6", []string{"graph.WeightedAuthorizationModelGraphBuilder.Build", "graph.WeightedAuthorizationModelGraphBuilder.parseRewrite",
		"graph.WeightedAuthorizationModelGraphBuilder.parseThis", "graph.WeightedAuthorizationModelGraphBuilder.parseTupleToUserset"})
	r.Rule("C10.7", "path-enumeration", "every union / intersection / exclusion occurrence gets its own operator node and its operands are attached to that node", 1)
	e5path.OperatorNodePerOccurrence(c.P, r, "C10.7", []string{"graph.WeightedAuthorizationModelGraphBuilder.parseRewrite"})
	r.Rule("R1.7", "instance-table", "the accessors of the weighted graph's nodes and edges return the field they are named after", 8)
	e5path.AccessorFidelity(c.P, r, "R1.7", []string{"WeightedAuthorizationModelEdge", "WeightedAuthorizationModelNode"})
	r.Rule("C10.10", "path-enumeration", "AddEdge adds an edge on every path (de-duplication is UpsertEdge's and asked for by its callers)", 1)
	e5path.ConstructorAlwaysAdds(c.P, r, "C10.10", "WeightedAuthorizationModelGraph", "AddEdge", "edges")
	r.Rule("C10.9", "path-enumeration", "the translation of a computed userset creates its edge on every path that does not fail", 1)
	e5path.StepAlwaysCreatesEdge(c.P, r, "C10.9", []string{"graph.WeightedAuthorizationModelGraphBuilder.parseComputed"})
	r.Rule("C10.8", "path-enumeration", "a condition is added to an existing edge only after it was found absent from that edge's list", 1)
	e5path.NoDuplicateOnAppend(c.P, r, "C10.8", []string{"graph.WeightedAuthorizationModelGraph.UpsertEdge"}, "conditions")
	// the graph mirrors THIS model: nothing kept from an earlier Build, in the package or in the builder
	noPackageState(c.P, r, fs)
	r.Rule("R2.1r", "instance-table", "builder methods never store into their receiver", 1)
	e2own.ReceiverState(c.P, r, "R2.1r", "graph", "WeightedAuthorizationModelGraphBuilder", fs)
}

func runC17(r *oblig.Report) {
	r.Explanation = "Decides structural necessary conditions of C17 for the plain model graph: (1) the rewrite translation handles all six variants and creates the documented edge/node kinds, equal to the sibling weighted builder (R1.1, R1.4); " +
		"(2) Reversed forwards every field of the edge type and passes (To, From) of the same line (R1.4 struct coverage); (3) DOT text is schedule- and entropy-free: no order-sensitive loop over gonum's map-backed iterators or Go maps, " +
		"slices materialised from iterators are sorted by a total comparator before use, ULIDs never reach DOT attributes or an ordering comparison, types are visited on a sorted private copy (E3); (4) no entry point writes its arguments or package state (R2.1, R2.2)."
	r.NotCovered = []string{"path duality and cycle classification (properties of gonum's algorithms on run-time graphs)", "that reversing twice restores the DOT text byte for byte (follows from 2+3 only together with gonum's encoder, which is trusted)"}
	r.Assumptions = []string{"gonum multi.DirectedGraph iterators are map-backed; node and line ids are unique per graph; dot.MarshalMulti orders by id"}
	c := NewCtx(r)
	if c == nil {
		return
	}
	entries := c.Entries("graph.NewAuthorizationModelGraph", "graph.AuthorizationModelGraph.Reversed", "graph.AuthorizationModelGraph.PathExists",
		"graph.AuthorizationModelGraph.GetNodeByLabel", "graph.AuthorizationModelGraph.GetDOT", "graph.AuthorizationModelGraph.GetCycles")
	// Attributes() are invoked by the DOT encoder
	attrs := c.Entries("graph.AuthorizationModelNode.Attributes", "graph.AuthorizationModelEdge.Attributes", "graph.AuthorizationModelGraph.Attributes")
	fs := c.Reach(append(append([]*ssa.Function{}, entries...), attrs...))
	c.noteReach("reachable", fs)
	r.Rule("R3.1", "universe", "every loop over a map / gonum iterator / caller-ordered type list is order-insensitive by form or a reviewed exception", 0).HandCount = 6
	r.Rule("R3.4", "universe", "no entropy value reaches a DOT attribute or an ordering comparison", 0)
	r.Rule("R3.5", "instance-table", "parseModel visits type definitions on a sorted private copy", 1)
	a := &e3order.Analyzer{P: c.P, R: r, CallerOrderElem: typeDefElem}
	a.CollectLoops(fs)
	a.Classify("R3.1")
	a.OrderCalls("R3.1", fs)
	a.Entropy("R3.4", fs, true)
	a.SortedCopy("R3.5", c.Entry("graph.parseModel"), typeDefElem)
	r.Analysed["order_source_loops"] = len(a.Loops)
	e3order.SelfTest(r)
	r.Rule("R1.1", "instance-table", "plain builder handles every rewrite / restriction variant", 2)
	r.Rule("R1.4", "instance-table", "edge/node kinds agree with the sibling builder; Reversed forwards every edge field", 14)
	e1variants.Consumers(c.P, r, "R1.1", []e1variants.Consumer{
		{Pkg: "graph", Func: "checkRewrite", Message: "Userset", Required: usersetAll},
		{Pkg: "graph", Func: "parseThis", Message: "RelationReference", Required: []string{"RelationOrWildcard", "Wildcard", "Relation", "Type", "Condition"}},
	})
	e1variants.Siblings(c.P, r, "R1.4", "plain")
	e1variants.ReversedForwards(c.P, r, "R1.4")
	r.Rule("C17.4", "instance-table", "operator nodes get a unique label derived from a random id made in the same invocation", 1)
	a.FreshLabels("C17.4", fs, []string{"getOrAddNode"}, "uniqueLabel", "nodeType", 2)
	r.Rule("R1.6", "instance-table", "translation loops over operands and restrictions run to completion", 4)
	e5path.CompleteIteration(c.P, r, "R1.6", []string{"graph.parseModel", "graph.checkRewrite", "graph.parseThis", "graph.parseTupleToUserset"})
	r.Rule("C10.6", "path-enumeration", "an existing edge is matched only after its kind and its tupleset relation were compared with the parameters", 2)
	e5path.EdgeIdentity(c.P, r, "C10.6", []string{"graph.AuthorizationModelGraphBuilder.upsertEdge", "graph.AuthorizationModelGraphBuilder.hasEdge"})
	r.Rule("C10.7", "path-enumeration", "every union / intersection / exclusion occurrence gets its own operator node and its operands are attached to that node", 1)
	e5path.OperatorNodePerOccurrence(c.P, r, "C10.7", []string{"graph.checkRewrite"})
	r.Rule("R1.7", "instance-table", "the accessors of the plain graph's nodes and edges return the field they are named after", 3)
	e5path.AccessorFidelity(c.P, r, "R1.7", []string{"AuthorizationModelEdge", "AuthorizationModelNode"})
	r.Rule("C10.10", "path-enumeration", "AddEdge adds a line on every path that no nil argument turns away", 1)
	e5path.ConstructorAlwaysAdds(c.P, r, "C10.10", "AuthorizationModelGraphBuilder", "AddEdge", "SetLine")
	r.Rule("C10.9", "path-enumeration", "the translation of a computed userset creates its edge on every path", 1)
	e5path.StepAlwaysCreatesEdge(c.P, r, "C10.9", []string{"graph.parseComputed"})
	r.Rule("C17.5", "instance-table", "PathExists answers with the library reachability query on the looked-up nodes in argument order", 1)
	e5path.DelegatesTo(c.P, r, "C17.5", c.Entry("graph.AuthorizationModelGraph.PathExists"), "gonum.org/v1/gonum/graph/topo", "PathExistsIn", "GetNodeByLabel")
	r.Rule("R2.1", "instance-table", "no plain-graph entry point writes memory reachable from its arguments", len(entries))
	r.Rule("R2.2", "universe", "no write to package-level state", 0)
	for _, e := range entries {
		e2own.ArgPurity(c.P, r, "R2.1", e, c.Reach([]*ssa.Function{e}))
	}
	e2own.Globals(c.P, r, "R2.2", fs)
}
