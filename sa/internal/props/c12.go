package props

import (
	"verif/sa/internal/e2own"
	"verif/sa/internal/e3order"
	"verif/sa/internal/e5path"
	"verif/sa/internal/oblig"
)

func init() {
	Checks["C12"] = Check{Level: "other", Run: runC12}
}

func runC12(r *oblig.Report) {
	r.Explanation = "Decides a necessary condition of C12: no map-ordered iteration, gonum iterator order or entropy source reachable from TransformModuleFilesToModel can influence the merged model or the error list. " +
		"Every loop over an unordered source in the reachable repository code (the DSL listener included) must have a body whose effects all fall in recognised order-insensitive forms " +
		"(keyed store/delete, copy, slot-wise max join, accumulate, collect-then-sort with a total comparator, collect-then-membership, find-by-key, exists-return); anything else is reported. " +
		"Also: no write to package-level state on that path (a cache would make the second invocation differ from the first)."
	r.NotCovered = []string{"that permuting the file list cannot turn success into failure (symmetry of the conflict relation is a value argument)", "equality of merged models beyond order"}
	r.Assumptions = []string{"Go map iteration order is the only unordered source besides the enumerated gonum iterators and entropy functions", "slices are visited in index order"}
	c := NewCtx(r)
	if c == nil {
		return
	}
	fs := c.Reach(c.Entries("transformer.TransformModuleFilesToModel"))
	c.noteReach("reachable", fs)
	r.Rule("R3.1", "universe", "every loop over a map / gonum iterator in reachable repository code is order-insensitive by form", 0).HandCount = 5
	r.Rule("R3.4", "universe", "no entropy source (ULID, time, rand, pid, env) reaches an ordering comparison", 0)
	a := &e3order.Analyzer{P: c.P, R: r}
	a.CollectLoops(fs)
	a.Classify("R3.1")
	a.OrderCalls("R3.1", fs)
	a.Entropy("R3.4", fs, false)
	r.Rule("R2.2", "universe", "no reachable repository function writes package-level state outside initialisers (no cache, no lazily initialised global)", 0)
	e2own.Globals(c.P, r, "R2.2", fs)
	// an undetected clash makes the last file win, so the outcome depends on the order of the files (shared with C07)
	r.Rule("C07.8", "instance-table", "conflict membership lists are rebuilt from the live object per item", 2)
	e5path.FreshMembership(c.P, r, "C07.8")
	r.Rule("C07.9", "path-enumeration", "an extension's relations are adopted wholesale only after the base type itself was found to have none", 1)
	e5path.LiveAdoption(c.P, r, "C07.9")
	// an item that is passed over without an error (a "harmless" duplicate) is merged or not depending on which file
	// came first: success would depend on the order of the files (shared with C07)
	r.Rule("R5.3", "instance-table", "exactly one outcome per item on every path through every merger loop", 5)
	e5path.MergerLoops(c.P, r, "R5.3")
	r.Analysed["order_source_loops"] = len(a.Loops)
	e3order.SelfTest(r)
}
