package props

import (
	"golang.org/x/tools/go/ssa"

	"verif/sa/internal/e2own"
	"verif/sa/internal/oblig"
)

func init() {
	Checks["C13"] = Check{Level: "other", Run: runC13}
}

// public entry points whose arguments carry pointers (strings are immutable by the language)
var pointerEntries = []string{
	"transformer.TransformJSONProtoToDSL", "transformer.TransformJSONStringToDSL", "transformer.TransformModuleFilesToModel",
	"graph.NewAuthorizationModelGraph", "graph.AuthorizationModelGraph.Reversed", "graph.AuthorizationModelGraph.PathExists",
	"graph.AuthorizationModelGraph.GetNodeByLabel", "graph.AuthorizationModelGraph.GetDOT", "graph.AuthorizationModelGraph.GetCycles",
	"graph.AuthorizationModelGraph.GetDrawingDirection",
	"graph.WeightedAuthorizationModelGraphBuilder.Build",
	"utils.GetModuleForObjectTypeRelation", "utils.IsRelationAssignable", "utils.GetTypeLineNumber", "utils.GetConditionLineNumber",
	"utils.GetExtendedTypeLineNumber", "utils.GetRelationLineNumber", "utils.ConstructLineAndColumnData",
}

var stringEntries = []string{
	"transformer.TransformDSLToProto", "transformer.TransformDSLToJSON", "transformer.TransformModularDSLToProto", "transformer.ParseDSL",
	"transformer.LoadJSONStringToProto", "transformer.TransformModFile",
	"validation.ValidateObject", "validation.ValidateObjectID", "validation.ValidateRelation", "validation.ValidateUserSet", "validation.ValidateUserObject",
	"validation.ValidateUserWildcard", "validation.ValidateUser", "validation.ValidateRelationshipCondition", "validation.ValidateType",
}

func runC13(r *oblig.Report) {
	r.Explanation = "Decides the repository-side necessary conditions of C13: (R2.1) for every public entry point that receives pointers, a may-point-to analysis (marks: EXT = may point into argument memory, HOLDS = internal container of such pointers; " +
		"field-based, context = the entry point, callees resolved through the VTA call graph) finds no store, map update, append, copy, delete, in-place sort or other library mutator applied to memory reachable from an argument; " +
		"argument memory handed to a library callee that is in neither the read-only nor the mutator table is undecided (failure); (R2.2) no reachable repository function writes package-level state outside initialisers, " +
		"takes the address of a package-level variable for a callee, or mutates an object loaded from one; (R2.1r) the graph builders never store into their receivers."
	r.NotCovered = []string{"history independence through ANTLR's shared DFA / prediction-context caches (runtime-guarded, trusted)", "data races inside antlr, ulid, protobuf, gonum (their own locking is trusted)",
		"result equality between concurrent and sequential runs (a run-time comparison)"}
	r.Assumptions = []string{"library read-only / mutator tables in /verif/sa/internal/e2own/args.go", "strings are immutable", "generated protobuf getters return parts of their receiver and do not write"}
	c := NewCtx(r)
	if c == nil {
		return
	}
	r.Rule("R2.1", "instance-table", "no entry point writes memory reachable from its arguments", len(pointerEntries))
	r.Rule("R2.2", "universe", "no write to package-level state outside initialisers", 0)
	r.Rule("R2.1r", "instance-table", "builder methods never store into their receiver", 2)
	union := map[*ssa.Function]bool{}
	for _, spec := range pointerEntries {
		e := c.Entry(spec)
		if e == nil {
			continue
		}
		fs := c.Reach([]*ssa.Function{e})
		for _, f := range fs {
			union[f] = true
		}
		e2own.ArgPurity(c.P, r, "R2.1", e, fs)
	}
	fs := c.Reach(c.Entries(stringEntries...))
	for _, f := range fs {
		union[f] = true
	}
	var all []*ssa.Function
	for f := range union {
		all = append(all, f)
	}
	c.noteReach("reachable", all)
	e2own.Globals(c.P, r, "R2.2", all)
	e2own.ReceiverState(c.P, r, "R2.1r", "graph", "WeightedAuthorizationModelGraphBuilder", all)
	e2own.ReceiverState(c.P, r, "R2.1r", "graph", "AuthorizationModelGraph", all)
}
