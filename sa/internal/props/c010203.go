package props

import (
	"verif/sa/internal/e1variants"
	"verif/sa/internal/e2own"
	"verif/sa/internal/e3order"
	"verif/sa/internal/e5path"
	"verif/sa/internal/e8grammar"
	"verif/sa/internal/e9pos"
	"verif/sa/internal/load"
	"verif/sa/internal/oblig"
)

func init() {
	Checks["C01"] = Check{Level: "other", Run: runC01}
	Checks["C02"] = Check{Level: "other", Run: runC02}
	Checks["C03"] = Check{Level: "other", Run: runC03}
}

var printerConsumers = []e1variants.Consumer{
	{Pkg: "transformer", Func: "parseSubRelation", Message: "Userset", Required: usersetAll},
	{Pkg: "transformer", Func: "parseRelation", Message: "Userset", Required: []string{"Difference", "Union", "Intersection"}},
	{Pkg: "transformer", Func: "DirectAssignmentValidator.isFirstPosition", Message: "Userset", Required: []string{"This", "Difference", "Intersection", "Union"}},
	{Pkg: "transformer", Func: "prioritizeDirectAssignment", Message: "Userset", Required: []string{"This"}},
	{Pkg: "transformer", Func: "parseTypeRestriction", Message: "RelationReference", Required: []string{"Type", "Relation", "Wildcard", "Condition"}},
}

func runC01(r *oblig.Report) {
	r.Explanation = "Decides structural necessary conditions of the DSL→model→DSL→model identity: (R1.2) every oneof wrapper the DSL listener builds carries the payload that the repository's own consumers test with GetV()!=nil (in-memory composition is type-consistent); " +
		"(R1.1) the printer handles all six rewrite variants; (C01.3) operator printers are reached only through the sub-relation printer, whose operator branches wrap their text in parentheses, or from the top level — a nested operator is never printed bare; " +
		"(R1.3) parameter-type and operator spellings printed are the lexer's literals and every lexer literal maps to an enum value; (C01.5) the condition expression is stored as ctx.GetText() with only surrounding whitespace trimmed and printed through a plain verb; " +
		"(C02.1b) the printable-position predicate descends exactly into difference base and first child of union/intersection; (C02.6/C02.7) the printer considers every part of a type restriction on every path and never succeeds with empty text; (R3.1) the printer's output order never comes from a map (byte stability of the re-rendering)."
	r.NotCovered = []string{"that the rewrite-stack construction in the listener inverts the printer for every nesting shape (needs running both)", "byte stability of the third rendering", "layouts (C03)"}
	r.Assumptions = []string{"generated protobuf getters return the payload field of the oneof wrapper, nil for a nil payload"}
	c := NewCtx(r)
	if c == nil {
		return
	}
	w := e8grammar.Load(load.RepoRoot())
	fs := c.Reach(c.Entries("transformer.TransformJSONProtoToDSL", "transformer.TransformDSLToProto"))
	c.noteReach("reachable", fs)
	r.Rule("R1.2", "instance-table", "oneof wrapper literals carry the payload their consumers test", 4)
	r.Rule("R1.1", "instance-table", "printer consumers handle every required variant", 5)
	r.Rule("C01.3", "instance-table", "nested operators are always printed inside parentheses", 6)
	r.Rule("R1.3", "instance-table", "literal / enum / operator spelling tables agree", 16)
	r.Rule("C01.5", "instance-table", "condition expression stored and printed verbatim modulo surrounding whitespace", 2)
	r.Rule("C02.1b", "instance-table", "first-position predicate recursion targets", 1)
	e1variants.ProducerConsumer(c.P, r, "R1.2")
	e1variants.Consumers(c.P, r, "R1.1", printerConsumers)
	e5path.NestedInParens(c.P, r, "C01.3", fs)
	e1variants.EnumTables(c.P, r, "R1.3", w.LexerG, false) // DSL-born models only contain types the lexer knows
	e5path.ExpressionVerbatim(c.P, r, "C01.5")
	e5path.FirstPositionRecursion(c.P, r, "C02.1b")
	r.Rule("C01.6", "instance-table", "the element type of a container parameter is kept whenever the tokens are present", 1)
	e5path.ElementTypeKept(c.P, r, "C01.6")
	// the second rendering loses nothing and is byte-stable: restriction parts (shared with C02), printer order (shared with C14)
	r.Rule("C02.6", "instance-table", "every part of a restriction is considered on every path", 3)
	r.Rule("C02.7", "instance-table", "no success with empty text unless the input is empty", 8)
	r.Rule("R3.1", "universe", "every loop over a map reachable from the printer is order-insensitive by form (collect-then-sort with a total, antisymmetric comparator etc.)", 0).HandCount = 3
	e5path.AllPartsPrinted(c.P, r, "C02.6")
	pfs := c.Reach(c.Entries("transformer.TransformJSONProtoToDSL"))
	e5path.NoEmptySuccess(c.P, r, "C02.7", pfs)
	a := &e3order.Analyzer{P: c.P, R: r}
	a.CollectLoops(pfs)
	a.Classify("R3.1")
	a.OrderCalls("R3.1", pfs)
	e3order.SelfTest(r)
	noPackageState(c.P, r, fs)
	// the rendering is parsed again: every line of it reaches the parser (shared with C03/C09)
	r.Rule("R9.1", "instance-table", "the pre-pass hands the parser every line of the text: split at the line breaks, one cleaned line per line, joined again", 3)
	prePassClauses(c.P, r, "R9.1", "join", "one-line-out-per-line-in", "split", "line-loop")
}

func runC02(r *oblig.Report) {
	r.Explanation = "Decides structural necessary conditions of C02 on the DSL printer: (R5.1) the text of a relation is returned only under occurrences()==0 or occurrences()==1 && isFirstPosition(own rewrite); every direct-assignment branch counts, with one validator handed down; " +
		"(C02.1b) the position predicate recurses exactly into difference base / first child of union / first child of intersection; (R5.5) every failure of the printer is one of the two documented constructors (nesting error, condition-name mismatch, missing generic type); " +
		"(C02.4) hoisting returns its argument or a fresh list x[p] ++ x[:p] ++ x[p+1:]; operand loops run to completion; (C02.6) every part of a type restriction is considered on every path; (R1.3) enum/literal tables; (R1.1) IsRelationAssignable handles all operator variants; (C01.5) a condition's expression is printed as stored; the printer does not write its input."
	r.NotCovered = []string{"correctness of isFirstPosition as a predicate on all trees beyond its recursion targets", "re-parse equality of the produced DSL"}
	r.Assumptions = []string{"the grammar admits a direct assignment only as first operand (decided in C09 G2)"}
	c := NewCtx(r)
	if c == nil {
		return
	}
	w := e8grammar.Load(load.RepoRoot())
	entry := c.Entry("transformer.TransformJSONProtoToDSL")
	fs := c.Reach(c.Entries("transformer.TransformJSONProtoToDSL", "transformer.TransformJSONStringToDSL"))
	c.noteReach("reachable", fs)
	r.Rule("R5.1", "instance-table", "no success without the direct-assignment validator", 2)
	r.Rule("C02.1b", "instance-table", "first-position predicate recursion targets", 1)
	r.Rule("R5.5", "instance-table", "printer failures are the documented constructors", 3)
	r.Rule("C02.4", "instance-table", "hoisting only moves the direct assignment, on a fresh list", 1)
	r.Rule("R1.6", "instance-table", "operand and restriction loops run to completion", 3)
	r.Rule("C02.6", "instance-table", "every part of a restriction is considered on every path", 3)
	r.Rule("R1.3", "instance-table", "literal / enum / operator spelling tables agree", 20)
	r.Rule("R1.1", "instance-table", "consumers handle every required variant", 6)
	r.Rule("R2.1", "instance-table", "the printer does not write its input", 1)
	r.Rule("C02.7", "instance-table", "no success with empty text unless the input is empty", 8)
	e5path.ValidatorGuard(c.P, r, "R5.1")
	e5path.FirstPositionRecursion(c.P, r, "C02.1b")
	r.Rule("C02.1c", "path-enumeration", "the printable-position predicate answers true exactly on evidence of a direct assignment in a printable place and false only when there is none and no operand left to look into", 1)
	e5path.FirstPositionEvidence(c.P, r, "C02.1c")
	e5path.ErrorConstructors(c.P, r, "R5.5", fs, []string{"UnsupportedDSLNestingError", "ConditionNameDoesntMatchError", "ConditionParamMissingGenericTypeError"})
	e5path.HoistShape(c.P, r, "C02.4")
	r.Rule("C02.5", "instance-table", "the brackets of a direct assignment are written only around a non-empty restriction list (the grammar does not derive '[]')", 1)
	e5path.NoEmptyRestrictionList(c.P, r, "C02.5", fs)
	e5path.NoEmptySuccess(c.P, r, "C02.7", fs)
	e5path.CompleteIteration(c.P, r, "R1.6", []string{"transformer.parseUnion", "transformer.parseIntersection", "transformer.parseTypeRestrictions"})
	e5path.AllPartsPrinted(c.P, r, "C02.6")
	// "loses nothing": the condition expression is printed as it is stored (shared with C01)
	r.Rule("C01.5", "instance-table", "condition expression stored and printed verbatim modulo surrounding whitespace", 2)
	e5path.ExpressionVerbatim(c.P, r, "C01.5")
	e1variants.EnumTables(c.P, r, "R1.3", w.LexerG, true)
	e1variants.Consumers(c.P, r, "R1.1", append(append([]e1variants.Consumer{}, printerConsumers...),
		e1variants.Consumer{Pkg: "utils", Func: "IsRelationAssignable", Message: "Userset", Required: []string{"This", "Union", "Intersection", "Difference"}}))
	e2own.ArgPurity(c.P, r, "R2.1", entry, c.Reach(c.Entries("transformer.TransformJSONProtoToDSL")))
	// nested operators keep their parentheses (shared with C01): without them the output re-parses to another model
	r.Rule("C01.3", "instance-table", "nested operators are always printed inside parentheses", 6)
	e5path.NestedInParens(c.P, r, "C01.3", fs)
	noPackageState(c.P, r, fs)
	// "parsing the DSL gives back the same model": every line of the produced text reaches the parser (shared with C03/C09)
	r.Rule("R9.1", "instance-table", "the pre-pass hands the parser every line of the text: split at the line breaks, one cleaned line per line, joined again", 3)
	prePassClauses(c.P, r, "R9.1", "join", "one-line-out-per-line-in", "split", "line-loop")
}

func runC03(r *oblig.Report) {
	r.Explanation = "Decides structural necessary conditions of C03: (R9.1) the pre-pass only blanks full-line comments (first non-space byte '#'), cuts an inline comment at the FIRST \" #\", trims trailing spaces/CR, keeps one line per line — it cannot rewrite the interior of a line; " +
		"(R1.5) the listener overrides real interface methods, reads every labelled grammar element and consults every operator alternative; (C03.3) the operand list of the relation being parsed is only ever a fresh list, an append to itself, an append to the popped stack element or the hand-over to a new stack element — never a sub-slice sharing storage; " +
		"(C03.4) the rewrite stack is reset per declaration, pushed once per opening group, popped once per closing group; (R8.8) the lexer automaton that runs accepts the identifier and layout shapes the property enumerates and the parser admits the listed keywords as names."
	r.NotCovered = []string{"that grammar plus callbacks compute the intended tree for every program and layout (needs running the parser)", "agreement of the embedded automaton with the .g4 and the other targets (C19)"}
	r.Assumptions = []string{"the ANTLR tree walker calls Enter/Exit in tree order"}
	c := NewCtx(r)
	if c == nil {
		return
	}
	w := e8grammar.Load(load.RepoRoot())
	fs := c.Reach(c.Entries("transformer.TransformDSLToProto", "transformer.TransformModularDSLToProto"))
	c.noteReach("reachable", fs)
	r.Rule("R9.1", "instance-table", "pre-pass keeps line structure and prefixes; comment rules; each line cleaned on its own", 7)
	r.Rule("R1.5", "instance-table", "listener overrides real methods, reads every label, consults every operator alternative", 30)
	r.Rule("C03.3", "instance-table", "operand lists never share storage with a list still in use", 6)
	r.Rule("C03.4", "instance-table", "rewrite stack discipline", 3)
	r.Rule("R8.8", "instance-table", "layout vocabulary accepted by the embedded automata", 20)
	r.Rule("R8.9", "instance-table", "the embedded parser automaton derives one token sequence per layout the property enumerates", 9)
	pp := e9pos.PrePassShape(c.P, r, "R9.1")
	r.Rule("R9.1t", "instance-table", "every blank of the lexer that is not a line end, and CR, is trimmed from the end of each line (no WHITESPACE token in front of EOF)", 3)
	e9pos.TrimCoversBlanks(r, "R9.1t", w.LexerG, pp)
	r.Rule("C03.7", "instance-table", "model objects a listener callback stores are built from its own parse-tree node, not fetched from a table kept across declarations", 8)
	e5path.BuiltFromOwnContext(c.P, r, "C03.7", fs)
	e1variants.ListenerOverrides(c.P, r, "R1.5")
	e1variants.GrammarCoverage(c.P, r, "R1.5", w.ParserG)
	e5path.RewriteMoves(c.P, r, "C03.3", fs)
	e5path.StackDiscipline(c.P, r, "C03.4", fs)
	r.Rule("C03.5", "path-enumeration", "ParseExpression builds an operator node only around two or more operands; a single operand is handed back as it is (redundant parentheses change nothing)", 1)
	e5path.SingleOperandUnwrapped(c.P, r, "C03.5")
	r.Rule("R5.2c", "universe", "syntax errors are reported by the ANTLR runtime only: repository code neither calls the collecting listener's SyntaxError nor writes its Errors field elsewhere", 0)
	e5path.OnlyRuntimeReportsSyntaxErrors(c.P, r, "R5.2c")
	r.Rule("C03.6", "path-enumeration", "what the opening callback of a parenthesised group saves of the enclosing level is put back, all of it, when the group closes, and the enclosing level's operands are only moved back", 1)
	e5path.GroupFrames(c.P, r, "C03.6")
	w.LayoutVocabulary(r, "R8.8")
	w.LayoutExemplars(r, "R8.9")
	noPackageState(c.P, r, fs)
}
