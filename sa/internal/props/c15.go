package props

import (
	"verif/sa/internal/e6modfile"
	"verif/sa/internal/load"
	"verif/sa/internal/oblig"
)

func init() {
	Checks["C15"] = Check{Level: "other", Run: runC15}
}

func runC15(r *oblig.Report) {
	r.Explanation = "Decides C15 on TransformModFile by dominance and def-use: the value appended for an accepted entry is V = strings.ReplaceAll(url.QueryUnescape(node.Value), \"\\\\\", \"/\") (decode first, separator normalisation outermost, nothing else in the chain); " +
		"the accept site is dominated by decode-error==nil, node.Tag==\"!!str\", !Contains(V,\"../\"), !HasPrefix(V,\"/\") and HasSuffix(V,\".fga\") with operand identity (a test on the raw or merely decoded string does not count); " +
		"fixed lemma: from these, V has no backslash, does not start with '/', ends in .fga, has no '..' segment (a '..' segment is followed by '/' — excluded — or is last, contradicting the suffix), and V = node.Value when it has no '%', '+', '\\\\'. " +
		"Positions of every property and error are 0 or Line-1/Column-1 of the one node whose value is reported; the schema is stored only under Value==\"1.2\"; the manifest text reaches yaml.Unmarshal unmodified; " +
		"every structured path through the contents loop appends exactly one error or accepts the entry; the manifest is returned only when the accumulator is empty."
	r.NotCovered = []string{"which YAML documents yaml.v3 accepts, and that it fills Line/Column one-based at the first character of the value (trusted)"}
	r.Assumptions = []string{"url.QueryUnescape and strings.ReplaceAll(·,\"\\\\\",\"/\") are the identity on strings without '%', '+', '\\\\'", "yaml.v3 node positions are one-based"}
	p, err := load.LoadPatterns(true, "./transformer")
	if err != nil {
		r.Unknown("load", "load:transformer", "-", err.Error())
		return
	}
	e6modfile.Run(p, r)
	// an accepted path list is the caller's: nothing shared between calls (a pool or cache) may back it
	cc := &Ctx{P: p, R: r}
	noPackageState(p, r, cc.Reach(cc.Entries("transformer.TransformModFile")))
}
