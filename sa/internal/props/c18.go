package props

import (
	"golang.org/x/tools/go/ssa"

	"verif/sa/internal/e7regex"
	"verif/sa/internal/load"
	"verif/sa/internal/oblig"
)

func init() {
	Checks["C18"] = Check{Level: "other", Run: runC18}
}

func runC18(r *oblig.Report) {
	r.Explanation = "Decision procedure over ALL strings for the Go validators: the five Rule constants and every format string are read from the type-checked source " +
		"(constant folding of fmt.Sprintf), each validator becomes a boolean formula over anchored patterns applied to its own parameter, each pattern is compiled with regexp/syntax " +
		"and determinised over a partition of 0..0x10FFFF into code-point classes following regexp.MatchString semantics (unanchored search, \\A / \\z), and every clause of the property " +
		"(unique decomposition of objects and usersets into accepted parts, forbidden characters, disjointness and union for users, exact length limits, compilability) is a reachability " +
		"question on a product automaton, answered with a shortest witness when it fails. The rule strings are compared byte-for-byte with validate-rules.ts and Validator.java."
	r.NotCovered = []string{"behaviour of the JS and Java regex engines on the identical rule strings (their \\s class differs from RE2's)",
		"code points that unicode.IsSpace knows but RE2 \\s does not (VT, NEL, NBSP, ...) are accepted; listed in coverage.analysed as information — the property speaks of the classes the rules distinguish"}
	r.Assumptions = []string{"regexp/syntax parses and compiles patterns the way regexp.MatchString does (same package the runtime uses)",
		"invalid UTF-8 bytes are read by the regexp package as U+FFFD, which is a member of the alphabet",
		"automaton construction in /verif/sa/internal/e7regex, validated on every run by fixtures run through the automaton (never through repository code)"}
	p, err := load.LoadPatterns(true, "./validation")
	if err != nil {
		r.Unknown("load", "load:validation", "-", err.Error())
		return
	}
	e7regex.Run(p, r)
	// a verdict is a function of the string: no memo or cache shared between calls and validators
	var vfs []*ssa.Function
	for _, m := range p.SSAPkg["validation"].Members {
		if f, ok := m.(*ssa.Function); ok {
			vfs = append(vfs, f)
			vfs = append(vfs, f.AnonFuncs...)
		}
	}
	noPackageState(p, r, vfs)
	r.Extra["checker_cmd"] = "/verif/bin/verif check C18 --tier " + r.Tier
	r.Extra["trusted_base"] = []string{"go/types constant folding", "regexp/syntax (Parse, Simplify, Compile, Inst.MatchRune)", "/verif/sa/internal/e7regex automaton construction (self-tested each run)"}
}
