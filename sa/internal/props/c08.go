package props

import (
	"strings"

	"golang.org/x/tools/go/ssa"

	"verif/sa/internal/e4panic"
	"verif/sa/internal/e8grammar"
	"verif/sa/internal/e9pos"
	"verif/sa/internal/load"
	"verif/sa/internal/oblig"
)

func init() {
	Checks["C08"] = Check{Level: "other", Run: runC08}
}

var c08Entries = []string{
	"transformer.TransformDSLToProto", "transformer.TransformDSLToJSON", "transformer.TransformModularDSLToProto", "transformer.TransformJSONStringToDSL",
	"transformer.TransformJSONProtoToDSL", "transformer.TransformModFile", "transformer.TransformModuleFilesToModel",
	"graph.NewAuthorizationModelGraph", "graph.WeightedAuthorizationModelGraphBuilder.Build",
}

// reviewed residuals (DESIGN.md section 3, E4): each names one construct and the reason
var panicExceptions = []e4panic.Exception{
	{Func: "transformer.TransformJSONProtoToDSL", Kind: "call-nil-func", Path: "opts[(‹v›+1)]",
		Reason: "a nil TransformOption is a programming error of the caller, not an input; the property quantifies over inputs"},
}

var panicInvariants = []e4panic.Invariant{
	{Func: "transformer.TransformModuleFilesToModel", Value: "‹v›[‹v›].Metadata", Requires: "len(‹v›[‹v›].Relations) == 0 is false",
		Reason: "paired maps: a base type definition that has relations was built by the DSL listener with Metadata and Metadata.Relations populated under the same keys (ExitRelationDeclaration; ExitTypeDef drops Metadata only when there are no relations)"},
	{Func: "transformer.TransformModuleFilesToModel", Value: "‹v›[‹v›].Metadata.Relations", Requires: "len(‹v›[‹v›].Relations) == 0 is false",
		Reason: "paired maps: as above — Relations non-empty implies Metadata.Relations non-empty, hence non-nil"},
	{Func: "transformer.TransformModuleFilesToModel", Value: "relationsMeta",
		Reason: "paired maps: for every type definition built by the DSL listener, Relations and Metadata.Relations are written together under the same key (ExitRelationDeclaration) and the merger itself keeps them paired, so the metadata entry for a name taken from typeDef.Relations exists and is non-nil"},
}

// panicFreedom runs E4 over the functions reachable from the entry points, restricted to the given packages.
func panicFreedom(c *Ctx, r *oblig.Report, rule string, entries []string, pkgs map[string]bool) {
	roots := c.Entries(entries...)
	all := c.Reach(roots)
	var fs []*ssa.Function
	for _, f := range all {
		if pk := load.FuncPkg(f); pk != nil && pkgs[load.ShortPkg(pk)] && !strings.HasPrefix(f.Name(), "Must") {
			fs = append(fs, f)
		}
	}
	c.noteReach("panic_universe", fs)
	a := &e4panic.Analysis{P: c.P, R: r, Funcs: fs, Exceptions: panicExceptions, Invariants: panicInvariants}
	a.Collect()
	// entry points: receiver and direct pointer parameters are non-nil (a nil model is not a structurally valid model);
	// listener callbacks: receiver and ctx are supplied by the runtime
	entry := map[*ssa.Function][]int{}
	for _, f := range roots {
		var idx []int
		for i := range f.Params {
			idx = append(idx, i)
		}
		entry[f] = idx
	}
	for _, f := range c.ListenerMethods() {
		var idx []int
		for i := range f.Params {
			idx = append(idx, i)
		}
		entry[f] = idx
	}
	// listener receivers are internal objects (created by ParseDSL), not caller memory
	a.InternalReceivers(c.ListenerMethods())
	if ts := newTypeState(c, a); ts != nil {
		a.Facts = ts
	}
	a.Summaries(entry)
	a.SortObligations()
	a.Discharge(rule)
	r.Analysed["panic_discharge_rules"] = a.Summary()
	if a.Facts != nil {
		r.Analysed["typestate_facts"] = a.Facts.Used
	}
	r.Analysed["reviewed_invariants_used"] = a.UsedInvariants
}

func runC08(r *oblig.Report) {
	r.Explanation = "C08 (work in progress in this commit): panic freedom (E4) and lexer stack divergence (R8.6)."
	c := NewCtx(r)
	if c == nil {
		return
	}
	w := e8grammar.Load(load.RepoRoot())
	scratch := oblig.New("scratch", "other", r.Tier)
	pp := e9pos.PrePassShape(c.P, scratch, "R9.1")
	cut := ""
	if pp != nil {
		cut = strings.Join(pp.TrimCutSets, "")
	}
	w.R86(r, "R8.6", cut, 3)
	r.Rule("E4", "universe", "every may-panic instruction of the repository's own code reachable from the public entry points is discharged by a positive rule", 0)
	panicFreedom(c, r, "E4", c08Entries, map[string]bool{"transformer": true, "utils": true, "validation": true, "errors": true})
}

func upperFirstName(s string) string {
	if s == "" {
		return s
	}
	return strings.ToUpper(s[:1]) + s[1:]
}

func newTypeState(c *Ctx, a *e4panic.Analysis) *e4panic.TypeState {
	w := e8grammar.Load(load.RepoRoot())
	refs, err := w.RuleRefs()
	if err != nil {
		c.R.Unknown("E4", "anchor:rule-graph", "-", err.Error())
		return nil
	}
	dom, err := w.RuleDominators()
	if err != nil {
		c.R.Unknown("E4", "anchor:rule-dominators", "-", err.Error())
		return nil
	}
	ts := &e4panic.TypeState{A: a, P: c.P, Methods: map[string]*ssa.Function{}, Refs: refs, Dom: dom, GenFuncs: map[string]*ssa.Function{}}
	for _, m := range c.ListenerMethods() {
		ts.Methods[m.Name()] = m
	}
	for rule := range refs {
		if f := c.P.Method("gen", "OpenFGAParser", upperFirstName(rule)); f != nil {
			ts.GenFuncs[rule] = f
		}
	}
	return ts
}
