package props

import (
	"go/ast"
	"os"
	"strings"

	"golang.org/x/tools/go/ssa"

	"verif/sa/internal/e4panic"
	"verif/sa/internal/e5path"
	"verif/sa/internal/e8grammar"
	"verif/sa/internal/e9pos"
	"verif/sa/internal/load"
	"verif/sa/internal/oblig"
)

func init() {
	Checks["C08"] = Check{Level: "other", Run: runC08}
}

var c08Entries = []string{
	"transformer.TransformDSLToProto", "transformer.TransformDSLToJSON", "transformer.TransformModularDSLToProto", "transformer.TransformJSONStringToDSL",
	"transformer.TransformJSONProtoToDSL", "transformer.TransformModFile", "transformer.TransformModuleFilesToModel",
	"graph.NewAuthorizationModelGraph", "graph.WeightedAuthorizationModelGraphBuilder.Build",
}

// reviewed residuals (DESIGN.md section 3, E4): each names one construct and the reason
var panicExceptions = []e4panic.Exception{
	{Func: "transformer.TransformJSONProtoToDSL", Kind: "call-nil-func", Path: "opts[(‹v›+1)]",
		Reason: "a nil TransformOption is a programming error of the caller, not an input; the property quantifies over inputs"},
}

// The three invariants express one reviewed fact — "paired maps": every type definition the DSL listener builds
// (and the merger keeps) has Relations and Metadata.Relations written together under the same keys
// (ExitRelationDeclaration), and ExitTypeDef drops Metadata only when there are no relations. They are keyed by the
// static type and the shape of the access path, not by variable names, so renaming or re-spelling the lookup keeps them.
var panicInvariants = []e4panic.Invariant{
	{Func: "transformer.TransformModuleFilesToModel", Type: "openfga/v1.Metadata", PathSuffix: ".Metadata", RequiresBase: "len(%s.Relations) == 0 is false",
		Reason: "paired maps: a type definition that has relations has Metadata"},
	{Func: "transformer.TransformModuleFilesToModel", Type: "openfga/v1.RelationMetadata", PathSuffix: ".Metadata.Relations", RequiresBase: "len(%s.Relations) == 0 is false",
		Reason: "paired maps: Relations non-empty implies Metadata.Relations non-empty, hence a non-nil map"},
	{Func: "transformer.TransformModuleFilesToModel", Type: "*github.com/openfga/api/proto/openfga/v1.RelationMetadata",
		Reason: "paired maps: the metadata entry looked up (or found by scanning) for a relation name taken from the same type definition's Relations exists and is non-nil"},
}

// panicFreedom runs E4 over the functions reachable from the entry points, restricted to the given packages.
func panicFreedom(c *Ctx, r *oblig.Report, rule string, entries []string, pkgs map[string]bool) *e4panic.Analysis {
	roots := c.Entries(entries...)
	all := c.Reach(roots)
	var fs []*ssa.Function
	for _, f := range all {
		if pk := load.FuncPkg(f); pk != nil && pkgs[load.ShortPkg(pk)] && !strings.HasPrefix(f.Name(), "Must") {
			fs = append(fs, f)
		}
	}
	c.noteReach("panic_universe", fs)
	a := &e4panic.Analysis{P: c.P, R: r, Funcs: fs, Exceptions: panicExceptions, Invariants: panicInvariants}
	a.Collect()
	// entry points: receiver and direct pointer parameters are non-nil (a nil model is not a structurally valid model);
	// listener callbacks: receiver and ctx are supplied by the runtime
	entry := map[*ssa.Function][]int{}
	for _, f := range roots {
		var idx []int
		for i := range f.Params {
			idx = append(idx, i)
		}
		entry[f] = idx
	}
	for _, f := range c.ListenerMethods() {
		if !ast.IsExported(f.Name()) {
			continue // an unexported method is a helper of the callbacks: judged at its call sites, not called by the runtime
		}
		var idx []int
		for i := range f.Params {
			idx = append(idx, i)
		}
		entry[f] = idx
	}
	// listener receivers are internal objects (created by ParseDSL), not caller memory
	a.InternalReceivers(c.ListenerMethods())
	if ts := newTypeState(c, a); ts != nil {
		a.Facts = ts
	}
	a.Summaries(entry)
	a.SortObligations()
	a.Discharge(rule)
	r.Analysed["panic_discharge_rules"] = a.Summary()
	if a.Facts != nil {
		r.Analysed["typestate_facts"] = a.Facts.Used
	}
	r.Analysed["reviewed_invariants_used"] = a.UsedInvariants
	r.Analysed["reviewed_exceptions"] = panicExceptions
	r.Analysed["reviewed_invariants"] = panicInvariants
	return a
}

func runC08(r *oblig.Report) {
	r.Explanation = "Decides necessary conditions of C08. (E4) Panic freedom of the repository's own code, stage 1 = packages transformer, utils, validation, errors: every instruction that can panic (nil dereference, nil-map write, index/slice bounds, unchecked assertion, nil interface or function call, explicit panic) in the functions reachable from the public entry points — the listener callbacks included — is enumerated from SSA and discharged by a positive rule: " +
		"D1 fresh/initialised-in-literal/flow, D2 parameter non-nil at every call site (fixpoint), D3 dominating nil test on the same value or expression (short-circuit phis expanded), D5 enumerated library/runtime contracts, D6 length and index facts (loop indices, IndexFunc results guarded against -1, len lower bounds), " +
		"D7 grammar-driven typestate for listener fields (a field set in Enter(R) is set in callbacks of every rule R dominates in the rule-invocation graph of the embedded automaton, provided the guard accessors are populated in the generated rule function before the sub-rule is parsed; flag and enter/exit correlations), D8 balanced rewrite stack, D9 container-element invariants for internally built containers; reviewed exceptions and invariants are listed in the evidence. " +
		"Stage 2 (graph package) is NOT closed: there only the typed-nil rule is decided (no possibly-nil pointer is converted to an interface). (R8.6) No lexer configuration inside a recursive lexer rule is re-entered by one word with two different call-stack growths, on the inputs the pre-pass can produce — necessary for the quadratic bound. " +
		"(R5.1/R5.2/R5.6) Syntax errors always surface: the collecting error listener is attached to lexer and parser, records every error on every path, any recorded error voids the result, and decoder errors are propagated."
	r.NotCovered = []string{"nil dereferences and bounds inside the graph package beyond the typed-nil rule (structure invariants of the node/edge maps were not closed)", "termination and complexity in general (ANTLR prediction, regexp, yaml)", "panics inside third-party runtimes", "Must* wrappers (panic by contract)", "well-foundedness of recursion (D10 not built)"}
	r.Assumptions = []string{"ANTLR runtime contracts listed in /verif/sa/internal/e4panic (GetParser, GetStart, rule functions return their context, the walker pairs Enter/Exit)", "entry-point pointer arguments themselves are non-nil (a nil model is not a structurally valid model); everything reachable from them may be nil"}
	c := NewCtx(r)
	if c == nil {
		return
	}
	w := e8grammar.Load(load.RepoRoot())
	scratch := oblig.New("scratch", "other", r.Tier)
	pp := e9pos.PrePassShape(c.P, scratch, "R9.1")
	cut := ""
	if pp != nil {
		cut = strings.Join(pp.TrimCutSets, "")
	}
	maxLen := 3
	if r.Tier == "thorough" {
		maxLen = 6 // pumpable words up to six characters
	}
	r.Analysed["lexer_divergence_word_bound"] = maxLen
	w.R86(r, "R8.6", cut, maxLen)
	r.Rule("E4", "universe", "every may-panic instruction of the repository's own code (stage 1 packages) reachable from the public entry points is discharged by a positive rule", 0).HandCount = 476
	pk := map[string]bool{"transformer": true, "utils": true, "validation": true, "errors": true}
	if os.Getenv("VERIF_E4_GRAPH") != "" {
		pk["graph"] = true
	}
	a := panicFreedom(c, r, "E4", c08Entries, pk)
	r.Rule("E4.tn", "universe", "graph package: no possibly-nil pointer is converted to an interface value", 0)
	var gfs []*ssa.Function
	for _, f := range c.Reach(c.Entries("graph.NewAuthorizationModelGraph", "graph.WeightedAuthorizationModelGraphBuilder.Build")) {
		if pkg := load.FuncPkg(f); pkg != nil && load.ShortPkg(pkg) == "graph" {
			gfs = append(gfs, f)
		}
	}
	ga := &e4panic.Analysis{P: c.P, R: r, Funcs: gfs}
	ga.Collect()
	gentry := map[*ssa.Function][]int{}
	for _, f := range c.Entries("graph.NewAuthorizationModelGraph", "graph.WeightedAuthorizationModelGraphBuilder.Build") {
		gentry[f] = []int{0, 1}
	}
	ga.Summaries(gentry)
	ga.TypedNil("E4.tn", gfs)
	_ = a
	r.Rule("R5.1", "instance-table", "any collected error voids the result", 2)
	r.Rule("R5.2", "instance-table", "the returned error listener is attached to lexer and parser and records every error", 4)
	r.Rule("R5.6", "instance-table", "decoder and callee errors are propagated, never dropped", 6)
	e5path.ErrorsVoidResult(c.P, r, "R5.1", c.Entry("transformer.TransformDSLToProto"))
	e5path.ErrorsVoidResult(c.P, r, "R5.1", c.Entry("transformer.TransformModularDSLToProto"))
	e5path.ListenerWiring(c.P, r, "R5.2")
	e5path.SyntaxErrorAlwaysRecords(c.P, r, "R5.2")
	var tfs []*ssa.Function
	for _, f := range c.Reach(c.Entries("transformer.TransformJSONStringToDSL", "transformer.TransformDSLToJSON", "transformer.TransformModFile", "transformer.LoadJSONStringToProto")) {
		if pkg := load.FuncPkg(f); pkg != nil && load.ShortPkg(pkg) == "transformer" {
			tfs = append(tfs, f)
		}
	}
	e5path.Propagation(c.P, r, "R5.6", tfs, nil)
	r.Rule("R8.10", "instance-table", "no recursive tree walker hands the same unchanged node to the recursion twice on one path (the work would double per nesting level)", 3)
	var rfs []*ssa.Function
	for _, f := range c.Reach(c.Entries(c08Entries...)) {
		if pkg := load.FuncPkg(f); pkg != nil && load.IsRepoPkg(pkg) && load.ShortPkg(pkg) != "gen" {
			rfs = append(rfs, f)
		}
	}
	e5path.RecursionFanOut(c.P, r, "R8.10", rfs)
}

func upperFirstName(s string) string {
	if s == "" {
		return s
	}
	return strings.ToUpper(s[:1]) + s[1:]
}

func newTypeState(c *Ctx, a *e4panic.Analysis) *e4panic.TypeState {
	w := e8grammar.Load(load.RepoRoot())
	refs, err := w.RuleRefs()
	if err != nil {
		c.R.Unknown("E4", "anchor:rule-graph", "-", err.Error())
		return nil
	}
	dom, err := w.RuleDominators()
	if err != nil {
		c.R.Unknown("E4", "anchor:rule-dominators", "-", err.Error())
		return nil
	}
	ts := &e4panic.TypeState{A: a, P: c.P, Methods: map[string]*ssa.Function{}, Refs: refs, Dom: dom, GenFuncs: map[string]*ssa.Function{}}
	for _, m := range c.ListenerMethods() {
		ts.Methods[m.Name()] = m
	}
	for rule := range refs {
		if f := c.P.Method("gen", "OpenFGAParser", upperFirstName(rule)); f != nil {
			ts.GenFuncs[rule] = f
		}
	}
	return ts
}
