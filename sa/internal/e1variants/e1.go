// Package e1variants holds the variant-table rules: listener overrides and grammar coverage (R1.5),
// producer/consumer agreement on protobuf oneofs (R1.2), literal/enum tables (R1.3), consumer
// coverage of oneof variants (R1.1) and sibling agreement of the two graph builders (R1.4).
package e1variants

import (
	"fmt"
	"go/ast"
	"go/constant"
	"go/token"
	"go/types"
	"sort"
	"strconv"
	"strings"

	"golang.org/x/tools/go/ssa"

	"verif/sa/internal/e5path"
	"verif/sa/internal/g4"
	"verif/sa/internal/load"
	"verif/sa/internal/oblig"
)

const apiPkg = "github.com/openfga/api/proto/openfga/v1"

func apiTypes(p *load.Prog) *types.Package {
	for _, pk := range p.All {
		if pk.PkgPath == apiPkg {
			return pk.Types
		}
	}
	return nil
}

func namedOf(pkg *types.Package, name string) *types.Named {
	if pkg == nil {
		return nil
	}
	obj := pkg.Scope().Lookup(name)
	if obj == nil {
		return nil
	}
	n, _ := obj.Type().(*types.Named)
	return n
}

// ListenerOverrides (R1.5): every Enter*/Exit* method declared on the DSL listener has the exact
// signature of a method of the generated listener interface; SyntaxError matches antlr.ErrorListener.
func ListenerOverrides(p *load.Prog, r *oblig.Report, rule string) {
	tr, gen := p.Pkgs["transformer"], p.Pkgs["gen"]
	lst := namedOf(tr.Types, "OpenFgaDslListener")
	ifaceN := namedOf(gen.Types, "OpenFGAParserListener")
	if lst == nil || ifaceN == nil {
		r.Unknown(rule, "anchor:listener-types", "-", "OpenFgaDslListener or gen.OpenFGAParserListener not found")
		return
	}
	iface, _ := ifaceN.Underlying().(*types.Interface)
	want := map[string]*types.Func{}
	for i := 0; i < iface.NumMethods(); i++ {
		want[iface.Method(i).Name()] = iface.Method(i)
	}
	for i := 0; i < lst.NumMethods(); i++ {
		m := lst.Method(i)
		if !strings.HasPrefix(m.Name(), "Enter") && !strings.HasPrefix(m.Name(), "Exit") {
			continue
		}
		construct := "override:OpenFgaDslListener." + m.Name()
		w, ok := want[m.Name()]
		switch {
		case !ok:
			r.Bad(rule, construct, p.Pos(m.Pos()), "the generated listener interface has no method "+m.Name()+": this callback compiles but is never invoked (stale or misspelt rule name)")
		case !types.Identical(stripRecv(m.Type()), stripRecv(w.Type())):
			r.Bad(rule, construct, p.Pos(m.Pos()), fmt.Sprintf("signature %s differs from the interface's %s: the embedded no-op is called instead", m.Type(), w.Type()))
		default:
			r.OK(rule, construct, p.Pos(m.Pos()), "method-set", "identical signature in gen.OpenFGAParserListener")
		}
	}
	// the listener type must satisfy the interface at all (it embeds the generated base listener)
	if !types.Implements(types.NewPointer(lst), iface) {
		r.Bad(rule, "implements:OpenFgaDslListener", p.Pos(lst.Obj().Pos()), "*OpenFgaDslListener does not implement gen.OpenFGAParserListener")
	}
	// error listener
	el := namedOf(tr.Types, "OpenFgaDslErrorListener")
	var antlrPkg *types.Package
	for _, pk := range p.All {
		if pk.PkgPath == "github.com/antlr4-go/antlr/v4" {
			antlrPkg = pk.Types
		}
	}
	eiN := namedOf(antlrPkg, "ErrorListener")
	if el == nil || eiN == nil {
		r.Unknown(rule, "anchor:error-listener", "-", "OpenFgaDslErrorListener or antlr.ErrorListener not found")
		return
	}
	ei := eiN.Underlying().(*types.Interface)
	found := false
	for i := 0; i < el.NumMethods(); i++ {
		m := el.Method(i)
		if m.Name() != "SyntaxError" {
			continue
		}
		found = true
		for j := 0; j < ei.NumMethods(); j++ {
			if ei.Method(j).Name() == "SyntaxError" {
				if types.Identical(stripRecv(m.Type()), stripRecv(ei.Method(j).Type())) {
					r.OK(rule, "override:OpenFgaDslErrorListener.SyntaxError", p.Pos(m.Pos()), "method-set", "identical signature in antlr.ErrorListener")
				} else {
					r.Bad(rule, "override:OpenFgaDslErrorListener.SyntaxError", p.Pos(m.Pos()), "signature differs from antlr.ErrorListener.SyntaxError: the embedded default listener would swallow every syntax error")
				}
			}
		}
	}
	if !found {
		r.Bad(rule, "override:OpenFgaDslErrorListener.SyntaxError", p.Pos(el.Obj().Pos()), "the error listener declares no SyntaxError method: the embedded default ignores every error")
	}
}

func stripRecv(t types.Type) types.Type {
	s, ok := t.(*types.Signature)
	if !ok {
		return t
	}
	return types.NewSignatureType(nil, nil, nil, s.Params(), s.Results(), s.Variadic())
}

func upperFirst(s string) string {
	if s == "" {
		return s
	}
	return strings.ToUpper(s[:1]) + s[1:]
}

// listenerCalls collects, per listener method, the names of methods called on generated context types.
func listenerCalls(p *load.Prog) map[string]map[string]bool {
	out := map[string]map[string]bool{}
	tr := p.Pkgs["transformer"]
	for _, f := range tr.Syntax {
		for _, d := range f.Decls {
			fd, ok := d.(*ast.FuncDecl)
			if !ok || fd.Body == nil || !strings.HasPrefix(load.DeclName(fd), "OpenFgaDslListener.") {
				continue
			}
			set := map[string]bool{}
			// the method and the plain helper functions of the package it delegates to (parse-tree accessors may be read there)
			for _, hd := range p.WithHelpers(tr, fd, 2) {
				if hd != fd && hd.Recv != nil && (strings.HasPrefix(hd.Name.Name, "Enter") || strings.HasPrefix(hd.Name.Name, "Exit")) {
					continue // another callback: counted under its own name
				}
				ast.Inspect(hd.Body, func(n ast.Node) bool {
					call, ok := n.(*ast.CallExpr)
					if !ok {
						return true
					}
					sel, ok := call.Fun.(*ast.SelectorExpr)
					if !ok {
						return true
					}
					if s := tr.TypesInfo.Selections[sel]; s != nil {
						if fn, ok := s.Obj().(*types.Func); ok && fn.Pkg() != nil && load.ShortPkg(fn.Pkg()) == "gen" {
							set[fn.Name()] = true
						}
					}
					return true
				})
			}
			out[fd.Name.Name] = set
		}
	}
	return out
}

// GrammarCoverage (R1.5): every label of the parser grammar is read through its generated getter
// in some listener method; every alternative of relationDefPartials contributes an operator token
// whose accessor is consulted by EnterRelationDefPartials.
func GrammarCoverage(p *load.Prog, r *oblig.Report, rule string, pg *g4.Grammar) {
	if pg == nil {
		r.Unknown(rule, "anchor:parser-grammar", "-", "OpenFGAParser.g4 not readable")
		return
	}
	calls := listenerCalls(p)
	all := map[string]bool{}
	for _, s := range calls {
		for k := range s {
			all[k] = true
		}
	}
	for _, rl := range pg.Rules {
		for _, lb := range rl.Labels {
			getter := "Get" + upperFirst(lb.Name)
			construct := "label-read:" + rl.Name + "." + lb.Name
			if all[getter] {
				r.OK(rule, construct, "OpenFGAParser.g4", "getter-called", getter)
			} else {
				r.Bad(rule, construct, "OpenFGAParser.g4", "label "+lb.Name+" of rule "+rl.Name+" is never read by the listener (no call of "+getter+"): that part of the text is not represented in the model")
			}
		}
	}
	part := pg.ByName["relationDefPartials"]
	if part == nil {
		r.Unknown(rule, "anchor:relationDefPartials", "OpenFGAParser.g4", "rule not found")
		return
	}
	alts, ok := part.Body.(*g4.Alt)
	if !ok {
		r.Unknown(rule, "anchor:relationDefPartials-alternatives", "OpenFGAParser.g4", "rule body is not an alternation")
		return
	}
	consulted := calls["EnterRelationDefPartials"]
	for i, alt := range alts.Alts {
		var ops []string
		g4.Walk(alt, func(n g4.Node) {
			if ref, ok := n.(*g4.Ref); ok && ref.Name != "WHITESPACE" && ref.Name[0] >= 'A' && ref.Name[0] <= 'Z' {
				ops = append(ops, ref.Name)
			}
		})
		construct := fmt.Sprintf("operator-alternative:%d:%s", i+1, strings.Join(ops, "+"))
		hit := false
		for _, o := range ops {
			if consulted[o] || consulted["All"+o] {
				hit = true
			}
		}
		if hit {
			r.OK(rule, construct, "OpenFGAParser.g4", "accessor-consulted", "EnterRelationDefPartials")
		} else {
			r.Bad(rule, construct, "OpenFGAParser.g4", "no accessor for the operator token(s) "+strings.Join(ops, ", ")+" is consulted by EnterRelationDefPartials: this operator would be read as another one or dropped")
		}
	}
}

// oneofWrappers lists the wrapper struct types of the API package that implement a oneof marker
// interface: wrapper name → (interface name, payload field).
type wrapper struct {
	Named   *types.Named
	Iface   string
	Field   *types.Var
	Variant string // suffix after the message name, e.g. "This"
	Getter  string
}

func oneofWrappers(api *types.Package) []wrapper {
	var out []wrapper
	scope := api.Scope()
	var ifaces []*types.Named
	for _, n := range scope.Names() {
		if tn, ok := scope.Lookup(n).(*types.TypeName); ok {
			if named, ok := tn.Type().(*types.Named); ok {
				if _, ok := named.Underlying().(*types.Interface); ok && strings.HasPrefix(n, "is") {
					ifaces = append(ifaces, named)
				}
			}
		}
	}
	for _, n := range scope.Names() {
		tn, ok := scope.Lookup(n).(*types.TypeName)
		if !ok {
			continue
		}
		named, ok := tn.Type().(*types.Named)
		if !ok {
			continue
		}
		st, ok := named.Underlying().(*types.Struct)
		if !ok || st.NumFields() != 1 || !strings.Contains(n, "_") {
			continue
		}
		for _, in := range ifaces {
			if types.Implements(types.NewPointer(named), in.Underlying().(*types.Interface)) {
				variant := n[strings.LastIndex(n, "_")+1:]
				out = append(out, wrapper{Named: named, Iface: in.Obj().Name(), Field: st.Field(0), Variant: variant, Getter: "Get" + variant})
			}
		}
	}
	return out
}

// ProducerConsumer (R1.2): a composite literal of a oneof wrapper whose payload is a pointer must
// initialise the payload when some consumer in the repository discriminates that variant by
// GetV() != nil.
func ProducerConsumer(p *load.Prog, r *oblig.Report, rule string) {
	api := apiTypes(p)
	if api == nil {
		r.Unknown(rule, "anchor:api-package", "-", "openfga api package not loaded")
		return
	}
	wr := oneofWrappers(api)
	byType := map[*types.Named]wrapper{}
	for _, w := range wr {
		byType[w.Named] = w
	}
	// consumers: GetV() compared with nil anywhere in repository code
	nilTested := map[string][]string{}
	for _, d := range p.AllFuncDecls(false) {
		info := d.P.TypesInfo
		ast.Inspect(d.Decl.Body, func(n ast.Node) bool {
			be, ok := n.(*ast.BinaryExpr)
			if !ok || (be.Op != token.NEQ && be.Op != token.EQL) {
				return true
			}
			for _, pair := range [][2]ast.Expr{{be.X, be.Y}, {be.Y, be.X}} {
				if tv, ok := info.Types[pair[1]]; !ok || !tv.IsNil() {
					continue
				}
				call, ok := ast.Unparen(pair[0]).(*ast.CallExpr)
				if !ok {
					continue
				}
				sel, ok := call.Fun.(*ast.SelectorExpr)
				if !ok {
					continue
				}
				if s := info.Selections[sel]; s != nil {
					if fn, ok := s.Obj().(*types.Func); ok && fn.Pkg() == api {
						recv := fn.Type().(*types.Signature).Recv().Type().String()
						nilTested[recv+"."+fn.Name()] = append(nilTested[recv+"."+fn.Name()], d.Pkg+"."+d.Name)
					}
				}
			}
			return true
		})
	}
	n := 0
	for _, d := range p.AllFuncDecls(false) {
		info := d.P.TypesInfo
		ast.Inspect(d.Decl.Body, func(nd ast.Node) bool {
			cl, ok := nd.(*ast.CompositeLit)
			if !ok {
				return true
			}
			tv, ok := info.Types[cl]
			if !ok {
				return true
			}
			named, ok := tv.Type.(*types.Named)
			if !ok {
				return true
			}
			w, ok := byType[named]
			if !ok {
				return true
			}
			n++
			construct := fmt.Sprintf("literal:%s.%s:%s", d.Pkg, d.Name, named.Obj().Name())
			pos := p.Pos(cl.Pos())
			if _, isPtr := w.Field.Type().Underlying().(*types.Pointer); !isPtr {
				r.OK(rule, construct, pos, "scalar-payload", "payload "+w.Field.Name()+" is not a pointer")
				return true
			}
			// message type that carries the oneof: the getter lives on the message, e.g. (*Userset).GetThis
			msg := strings.TrimPrefix(strings.SplitN(named.Obj().Name(), "_", 2)[0], "")
			key := "*" + apiPkg + "." + msg + "." + w.Getter
			consumers := nilTested[key]
			init := false
			for _, el := range cl.Elts {
				if kv, ok := el.(*ast.KeyValueExpr); ok {
					if id, ok := kv.Key.(*ast.Ident); ok && id.Name == w.Field.Name() {
						if vt, ok := info.Types[kv.Value]; !ok || !vt.IsNil() {
							init = true
						}
					}
				} else {
					init = true // positional
				}
			}
			switch {
			case init:
				r.OK(rule, construct, pos, "payload-set", fmt.Sprintf("%d consumers test %s() against nil", len(consumers), w.Getter))
			case len(consumers) == 0:
				r.OK(rule, construct, pos, "no-nil-consumer", "no consumer discriminates by "+w.Getter+"() != nil")
			default:
				sort.Strings(consumers)
				r.Bad(rule, construct, pos, fmt.Sprintf("%s is built with a nil %s payload, but %s discriminate this variant by %s() != nil: the in-memory model is misread by the repository's own consumers",
					named.Obj().Name(), w.Field.Name(), strings.Join(uniq(consumers), ", "), w.Getter))
			}
			return true
		})
	}
	if n == 0 {
		r.Unknown(rule, "anchor:oneof-literals", "-", "no oneof wrapper literal found in repository code")
	}
}

func uniq(in []string) []string {
	seen := map[string]bool{}
	var out []string
	for _, s := range in {
		if !seen[s] {
			seen[s] = true
			out = append(out, s)
		}
	}
	return out
}

// stringConsts returns the string constants occurring in a function body.
func stringConsts(fd *ast.FuncDecl, info *types.Info) []string {
	var out []string
	ast.Inspect(fd.Body, func(n ast.Node) bool {
		if bl, ok := n.(*ast.BasicLit); ok && bl.Kind == token.STRING {
			if tv, ok := info.Types[bl]; ok && tv.Value != nil {
				out = append(out, constant.StringVal(tv.Value))
			}
		}
		// a named constant (or a constant expression) used in the body: its value
		if e, ok := n.(ast.Expr); ok {
			if _, isLit := e.(*ast.BasicLit); !isLit {
				if tv, ok := info.Types[e]; ok && tv.Value != nil && tv.Value.Kind() == constant.String {
					out = append(out, constant.StringVal(tv.Value))
				}
			}
		}
		return true
	})
	return out
}

// EnumTables (R1.3): parameter-type spellings of the lexer and the enum of the API agree in both
// directions; the printer's operator spellings are the lexer's literals.
func EnumTables(p *load.Prog, r *oblig.Report, rule string, lg *g4.Grammar, backward bool) {
	api := apiTypes(p)
	if api == nil || lg == nil {
		r.Unknown(rule, "anchor:tables", "-", "api package or lexer grammar missing")
		return
	}
	lits := map[string]string{} // literal → token
	for _, tok := range []string{"CONDITION_PARAM_TYPE", "CONDITION_PARAM_CONTAINER"} {
		rl := lg.ByName[tok]
		if rl == nil {
			r.Unknown(rule, "anchor:"+tok, "OpenFGALexer.g4", "lexer rule not found")
			return
		}
		ls, ok := rl.LiteralAlternatives()
		if !ok {
			r.Unknown(rule, "anchor:"+tok, "OpenFGALexer.g4", "lexer rule is not a list of literals")
			return
		}
		for _, l := range ls {
			lits[l] = tok
		}
	}
	// enum names
	enum := map[string]bool{}
	for _, n := range api.Scope().Names() {
		if c, ok := api.Scope().Lookup(n).(*types.Const); ok {
			if named, ok := c.Type().(*types.Named); ok && named.Obj().Name() == "ConditionParamTypeRef_TypeName" {
				enum[strings.TrimPrefix(n, "ConditionParamTypeRef_")] = true
			}
		}
	}
	if len(enum) == 0 {
		r.Unknown(rule, "anchor:enum", "-", "enum ConditionParamTypeRef_TypeName not found")
		return
	}
	// listener prefix
	fd, pk := p.FuncDecl("transformer", "OpenFgaDslListener.ExitConditionParameter")
	if fd == nil {
		r.Unknown(rule, "anchor:ExitConditionParameter", "-", "function not found")
		return
	}
	prefixes := map[string]bool{}
	for _, hd := range p.WithHelpers(pk, fd, 2) {
		ast.Inspect(hd.Body, func(n ast.Node) bool {
			ix, ok := n.(*ast.IndexExpr)
			if !ok {
				return true
			}
			if be, ok := ix.Index.(*ast.BinaryExpr); ok && be.Op == token.ADD {
				if tv, ok := pk.TypesInfo.Types[be.X]; ok && tv.Value != nil {
					if call, ok := be.Y.(*ast.CallExpr); ok {
						if sel, ok := call.Fun.(*ast.SelectorExpr); ok && sel.Sel.Name == "ToUpper" {
							prefixes[constant.StringVal(tv.Value)] = true
						}
					}
				}
			}
			return true
		})
	}
	if len(prefixes) == 0 {
		r.Unknown(rule, "anchor:enum-prefix", p.Pos(fd.Pos()), "no `<const> + strings.ToUpper(..)` enum lookup found in ExitConditionParameter")
		return
	}
	for pre := range prefixes {
		for l := range lits {
			construct := "literal-to-enum:" + l
			if enum[pre+strings.ToUpper(l)] {
				r.OK(rule, construct, "OpenFGALexer.g4", "enum-key", pre+strings.ToUpper(l))
			} else {
				r.Bad(rule, construct, p.Pos(fd.Pos()), "parameter type '"+l+"' is looked up as "+pre+strings.ToUpper(l)+", which is not an enum name: the listener silently stores TYPE_NAME_UNSPECIFIED")
			}
		}
	}
	// printer side
	pfd, ppk := p.FuncDecl("transformer", "parseConditionParams")
	if pfd == nil {
		r.Unknown(rule, "anchor:parseConditionParams", "-", "function not found")
		return
	}
	strip := ""
	var enumCases []string
	cutsetTrim := ""
	containers := map[string]bool{}
	for _, hd := range p.WithHelpers(ppk, pfd, 2) {
		ast.Inspect(hd.Body, func(n ast.Node) bool {
			switch x := n.(type) {
			case *ast.CallExpr:
				if sel, ok := x.Fun.(*ast.SelectorExpr); ok && sel.Sel.Name == "ReplaceAll" && len(x.Args) == 3 {
					if tv, ok := ppk.TypesInfo.Types[x.Args[1]]; ok && tv.Value != nil {
						strip = constant.StringVal(tv.Value)
					}
				}
				if sel, ok := x.Fun.(*ast.SelectorExpr); ok && sel.Sel.Name == "TrimPrefix" && len(x.Args) == 2 {
					if tv, ok := ppk.TypesInfo.Types[x.Args[1]]; ok && tv.Value != nil && tv.Value.Kind() == constant.String && strings.HasPrefix(constant.StringVal(tv.Value), "TYPE_") {
						strip = constant.StringVal(tv.Value)
					}
				}
				// a cut-set trim with the letters of the prefix strips more than the prefix (TIMESTAMP loses its T)
				if sel, ok := x.Fun.(*ast.SelectorExpr); ok && (sel.Sel.Name == "TrimLeft" || sel.Sel.Name == "Trim" || sel.Sel.Name == "TrimRight") && len(x.Args) == 2 {
					if tv, ok := ppk.TypesInfo.Types[x.Args[1]]; ok && tv.Value != nil && tv.Value.Kind() == constant.String {
						if cs := constant.StringVal(tv.Value); strings.ContainsAny(cs, "ABCDEFGHIJKLMNOPQRSTUVWXYZ") {
							cutsetTrim = p.Pos(x.Pos()) + ": strings." + sel.Sel.Name + "(…, " + strconv.Quote(cs) + ")"
						}
					}
				}
			case *ast.BinaryExpr:
				// the spellings the printer singles out, whichever way the test is written (== for the container branch,
				// != for an early return of the scalar case)
				if x.Op == token.EQL || x.Op == token.NEQ {
					for _, side := range []ast.Expr{x.X, x.Y} {
						if tv, ok := ppk.TypesInfo.Types[side]; ok && tv.Value != nil && tv.Value.Kind() == constant.String && constant.StringVal(tv.Value) != "" {
							containers[constant.StringVal(tv.Value)] = true
						}
					}
				}
			case *ast.CaseClause:
				for _, e := range x.List {
					if tv, ok := ppk.TypesInfo.Types[e]; ok && tv.Value != nil && tv.Value.Kind() == constant.String && constant.StringVal(tv.Value) != "" {
						containers[constant.StringVal(tv.Value)] = true
					}
					// the enum value itself singled out (case ConditionParamTypeRef_TYPE_NAME_LIST): its spelling
					var name string
					switch id := ast.Unparen(e).(type) {
					case *ast.Ident:
						name = id.Name
					case *ast.SelectorExpr:
						name = id.Sel.Name
					}
					if i := strings.Index(name, "TYPE_NAME_"); i >= 0 {
						if tv, ok := ppk.TypesInfo.Types[e]; ok && tv.Value != nil && tv.Value.Kind() == constant.Int {
							enumCases = append(enumCases, strings.ToLower(name[i+len("TYPE_NAME_"):]))
						}
					}
				}
			}
			return true
		})
	}
	if len(containers) == 0 {
		for _, c := range enumCases {
			containers[c] = true
		}
	}
	if strip == "" {
		r.Unknown(rule, "anchor:printer-prefix", p.Pos(pfd.Pos()), "no strings.ReplaceAll(…, <const>, …) found in parseConditionParams")
		return
	}
	if cutsetTrim != "" {
		r.Bad(rule, "enum-prefix-strip", p.Pos(pfd.Pos()), "an enum name is shortened with a cut-set trim ("+cutsetTrim+"): it removes every leading character of the set, not the prefix, so names that begin with one of its letters after the prefix are misspelled (TIMESTAMP → imestamp) and the output does not parse")
	} else {
		r.OK(rule, "enum-prefix-strip", p.Pos(pfd.Pos()), "call-scan", "the enum prefix is removed as a prefix/substring, never as a character set")
	}
	names := make([]string, 0, len(enum))
	for n := range enum {
		names = append(names, n)
	}
	sort.Strings(names)
	for _, n := range names {
		if strings.HasSuffix(n, "UNSPECIFIED") || !backward {
			continue
		}
		sp := strings.ToLower(strings.ReplaceAll(n, strip, ""))
		construct := "enum-to-literal:" + n
		if _, ok := lits[sp]; ok {
			r.OK(rule, construct, p.Pos(pfd.Pos()), "lexer-literal", sp)
		} else {
			r.Bad(rule, construct, p.Pos(pfd.Pos()), "enum value "+n+" is printed as '"+sp+"', which the lexer does not know as a parameter type: the printer emits DSL that the parser rejects instead of returning an error")
		}
	}
	var wantC []string
	for l, tok := range lits {
		if tok == "CONDITION_PARAM_CONTAINER" {
			wantC = append(wantC, l)
		}
	}
	sort.Strings(wantC)
	var gotC []string
	for c := range containers {
		gotC = append(gotC, c)
	}
	sort.Strings(gotC)
	if strings.Join(wantC, ",") == strings.Join(gotC, ",") {
		r.OK(rule, "container-spellings", p.Pos(pfd.Pos()), "equal-sets", strings.Join(gotC, ","))
	} else {
		r.Bad(rule, "container-spellings", p.Pos(pfd.Pos()), fmt.Sprintf("printer treats %v as container types, the lexer declares %v", gotC, wantC))
	}
	// operator spellings
	for _, e := range []struct{ fn, tok string }{{"parseUnion", "OR"}, {"parseIntersection", "AND"}, {"parseDifference", "BUT_NOT"}, {"parseTupleToUserset", "FROM"}, {"parseTypeRestriction", "KEYWORD_WITH"}} {
		fd, pk := p.FuncDecl("transformer", e.fn)
		rl := lg.ByName[e.tok]
		construct := "operator-spelling:" + e.tok
		if fd == nil || rl == nil {
			r.Unknown(rule, construct, "-", "function "+e.fn+" or token "+e.tok+" not found")
			continue
		}
		lit, _ := rl.SingleLiteral()
		ok := false
		for _, s := range stringConsts(fd, pk.TypesInfo) {
			if strings.Contains(s, " "+lit+" ") {
				ok = true
			}
		}
		// the separator handed to strings.Join / a Sprintf operand, possibly inside a helper that receives the
		// operator as a (typed) constant: evaluated with the helper's parameters bound to this function's arguments
		if !ok {
			if sf := p.Func("transformer", e.fn); sf != nil {
				for _, ci := range e5path.CallsWithHelpers(sf, 2) {
					ci := ci
					for _, arg := range ci.Call.Common().Args {
						if txt, isConst := constText(ci.Arg(arg), &ci, 0); isConst && strings.Contains(txt, " "+lit+" ") {
							ok = true
						}
					}
				}
			}
		}
		if ok {
			r.OK(rule, construct, p.Pos(fd.Pos()), "spelling", "' "+lit+" ' in "+e.fn)
		} else {
			r.Bad(rule, construct, p.Pos(fd.Pos()), e.fn+" contains no string constant with ' "+lit+" ' (the lexer's spelling of "+e.tok+" between single spaces)")
		}
	}
}

// ---------- R1.1 consumer coverage ----------

// Consumer is one entry of the instance table.
type Consumer struct {
	Pkg, Func string
	Message   string   // API message carrying the oneof, e.g. "Userset"
	Required  []string // variants that must be mentioned (type-switch case or getter call)
}

// Consumers (R1.1): each listed consumer mentions every required variant of the oneof, either as a
// type-switch case on the wrapper type or through the variant's getter.
func Consumers(p *load.Prog, r *oblig.Report, rule string, table []Consumer) {
	api := apiTypes(p)
	if api == nil {
		r.Unknown(rule, "anchor:api-package", "-", "api package missing")
		return
	}
	for _, c := range table {
		fd, pk := p.FuncDecl(c.Pkg, c.Func)
		construct := fmt.Sprintf("consumer:%s.%s:%s", c.Pkg, c.Func, c.Message)
		if fd == nil {
			r.Unknown(rule, construct, "-", "function not found")
			continue
		}
		mentioned := map[string]bool{}
		// the consumer itself and the helpers of its package to which it hands the very value it received
		bodies := []*ast.FuncDecl{fd}
		msgParams := map[types.Object]bool{}
		if fd.Type.Params != nil {
			for _, f := range fd.Type.Params.List {
				if tv, ok := pk.TypesInfo.Types[f.Type]; ok && strings.HasSuffix(tv.Type.String(), "."+c.Message) {
					for _, n := range f.Names {
						msgParams[pk.TypesInfo.Defs[n]] = true
					}
				}
			}
		}
		{
			for _, hd := range p.WithHelpers(pk, fd, 1)[1:] {
				passes := false
				ast.Inspect(fd.Body, func(n ast.Node) bool {
					call, ok := n.(*ast.CallExpr)
					if !ok {
						return true
					}
					var id *ast.Ident
					switch f := call.Fun.(type) {
					case *ast.Ident:
						id = f
					case *ast.SelectorExpr:
						id = f.Sel
					}
					if id == nil || pk.TypesInfo.Uses[id] != pk.TypesInfo.Defs[hd.Name] {
						return true
					}
					for _, a := range call.Args {
						if aid, ok := ast.Unparen(a).(*ast.Ident); ok && msgParams[pk.TypesInfo.Uses[aid]] {
							passes = true
						}
						// or one element of the list the consumer received / iterates (a value of the message type itself)
						if tv, ok := pk.TypesInfo.Types[a]; ok && strings.HasSuffix(tv.Type.String(), "."+c.Message) && !ast.IsExported(hd.Name.Name) {
							passes = true
						}
					}
					return true
				})
				if passes {
					bodies = append(bodies, hd)
				}
			}
		}
		for _, body := range bodies {
			ast.Inspect(body.Body, func(n ast.Node) bool {
				switch x := n.(type) {
				case *ast.CaseClause:
					for _, e := range x.List {
						if tv, ok := pk.TypesInfo.Types[e]; ok && tv.IsType() {
							t := tv.Type
							if ptr, ok := t.(*types.Pointer); ok {
								t = ptr.Elem()
							}
							if named, ok := t.(*types.Named); ok && named.Obj().Pkg() == api && strings.HasPrefix(named.Obj().Name(), c.Message+"_") {
								mentioned[strings.TrimPrefix(named.Obj().Name(), c.Message+"_")] = true
							}
						}
					}
				case *ast.TypeAssertExpr:
					// _, isThis := u.Userset.(*Userset_This): the variant is singled out by an assertion
					if x.Type != nil {
						if tv, ok := pk.TypesInfo.Types[x.Type]; ok && tv.IsType() {
							t := tv.Type
							if ptr, ok := t.(*types.Pointer); ok {
								t = ptr.Elem()
							}
							if named, ok := t.(*types.Named); ok && named.Obj().Pkg() == api && strings.HasPrefix(named.Obj().Name(), c.Message+"_") {
								mentioned[strings.TrimPrefix(named.Obj().Name(), c.Message+"_")] = true
							}
						}
					}
				case *ast.CallExpr:
					if sel, ok := x.Fun.(*ast.SelectorExpr); ok {
						if s := pk.TypesInfo.Selections[sel]; s != nil {
							if fn, ok := s.Obj().(*types.Func); ok && fn.Pkg() == api && strings.HasPrefix(fn.Name(), "Get") {
								recv := fn.Type().(*types.Signature).Recv().Type().String()
								if strings.HasSuffix(recv, "."+c.Message) {
									mentioned[strings.TrimPrefix(fn.Name(), "Get")] = true
								}
							}
						}
					}
				}
				return true
			})
		}
		var missing []string
		for _, v := range c.Required {
			if !mentioned[v] {
				missing = append(missing, v)
			}
		}
		if len(missing) == 0 {
			r.OK(rule, construct, p.Pos(fd.Pos()), "variants-mentioned", strings.Join(c.Required, ","))
		} else {
			r.Bad(rule, construct, p.Pos(fd.Pos()), "variant(s) "+strings.Join(missing, ", ")+" of "+c.Message+" are not handled: they fall through to the default")
		}
	}
}

// ---------- R1.4 sibling tables ----------

// constNames renders the set of constants that may flow into v (through phis).
func constNames(v ssa.Value, depth int) []string {
	if depth > 6 {
		return []string{"?"}
	}
	switch x := v.(type) {
	case *ssa.Const:
		if x.Value == nil {
			return []string{"nil"}
		}
		return []string{x.Value.ExactString()}
	case *ssa.Phi:
		var out []string
		for _, e := range x.Edges {
			out = append(out, constNames(e, depth+1)...)
		}
		return out
	case *ssa.ChangeType:
		return constNames(x.X, depth+1)
	case *ssa.Convert:
		return constNames(x.X, depth+1)
	case *ssa.Extract:
		if call, ok := x.Tuple.(*ssa.Call); ok {
			return resultConstNames(call, x.Index, depth)
		}
	case *ssa.Call:
		return resultConstNames(x, 0, depth)
	}
	return []string{"?"}
}

// resultConstNames: the constants a helper of the same package can return as its idx-th result.
func resultConstNames(call *ssa.Call, idx int, depth int) []string {
	h := call.Common().StaticCallee()
	if h == nil || h.Pkg == nil || call.Parent() == nil || h.Pkg != call.Parent().Pkg || len(h.Blocks) == 0 {
		return []string{"?"}
	}
	var out []string
	for _, b := range h.Blocks {
		if ret, ok := b.Instrs[len(b.Instrs)-1].(*ssa.Return); ok && idx < len(ret.Results) {
			out = append(out, constNames(ret.Results[idx], depth+1)...)
		}
	}
	if len(out) == 0 {
		return []string{"?"}
	}
	return out
}

func setKey(in []string) string {
	u := uniq(in)
	sort.Strings(u)
	return strings.Join(u, ",")
}

// callArgConsts: for every call in fn to a method named one of callees, the constant set of the
// argument whose parameter is named param.
// stepGroup: fn and the unexported helpers of its package it delegates to (transitively), not counting
// the other translation steps (stop) nor the graph API itself (their names are in apiNames).
var stepStop = map[*ssa.Function]bool{}
var stepAPI = map[string]bool{}

func stepGroup(fn *ssa.Function) []*ssa.Function {
	out := []*ssa.Function{fn}
	seen := map[*ssa.Function]bool{fn: true}
	for i := 0; i < len(out) && i < 20; i++ {
		for _, b := range out[i].Blocks {
			for _, in := range b.Instrs {
				ci, ok := in.(ssa.CallInstruction)
				if !ok {
					continue
				}
				h := ci.Common().StaticCallee()
				if h == nil || seen[h] || h.Pkg != fn.Pkg || len(h.Blocks) == 0 || stepStop[h] || stepAPI[h.Name()] || ast.IsExported(h.Name()) {
					continue
				}
				seen[h] = true
				out = append(out, h)
			}
		}
	}
	return out
}

func callArgConsts(root *ssa.Function, callees []string, param string) []string {
	var out []string
	for _, fn := range stepGroup(root) {
		out = append(out, callArgConstsIn(fn, callees, param)...)
	}
	return out
}

func callArgConstsIn(fn *ssa.Function, callees []string, param string) []string {
	var out []string
	for _, b := range fn.Blocks {
		for _, in := range b.Instrs {
			call, ok := in.(ssa.CallInstruction)
			if !ok {
				continue
			}
			callee := call.Common().StaticCallee()
			if callee == nil {
				continue
			}
			match := false
			for _, c := range callees {
				if callee.Name() == c {
					match = true
				}
			}
			if !match {
				continue
			}
			for i, prm := range callee.Params {
				if prm.Name() == param && i < len(call.Common().Args) {
					out = append(out, constNames(call.Common().Args[i], 0)...)
				}
			}
		}
	}
	return out
}

// calleeKinds: the lower-cased names of the edge functions a step (with its helpers) calls.
func calleeKinds(root *ssa.Function, callees []string) []string {
	var out []string
	for _, fn := range stepGroup(root) {
		for _, b := range fn.Blocks {
			for _, in := range b.Instrs {
				call, ok := in.(ssa.CallInstruction)
				if !ok {
					continue
				}
				callee := call.Common().StaticCallee()
				if callee == nil {
					continue
				}
				for _, c := range callees {
					if callee.Name() == c {
						out = append(out, strings.ToLower(c))
					}
				}
			}
		}
	}
	return out
}

// Role pairs the plain and the weighted implementation of one translation step.
type Role struct{ Name, Plain, Weighted string }

// Siblings (R1.4): the two graph builders pass the same edge-kind and node-kind constants in each
// parallel function, map rewrite variants to the same operator labels, and build exclusion children
// as (base, subtract).
//
// focus names the builder the property is about ("plain" for C17, "weighted" for C10): only that builder's tables are
// judged, against the documented table, so that a change of the OTHER builder does not raise an alarm about a graph
// that still is what its property says. The tables of both are printed.
func Siblings(p *load.Prog, r *oblig.Report, rule string, focus string) {
	roles := []Role{
		{"rewrite", "graph.checkRewrite", "graph.WeightedAuthorizationModelGraphBuilder.parseRewrite"},
		{"this", "graph.parseThis", "graph.WeightedAuthorizationModelGraphBuilder.parseThis"},
		{"computed", "graph.parseComputed", "graph.WeightedAuthorizationModelGraphBuilder.parseComputed"},
		{"ttu", "graph.parseTupleToUserset", "graph.WeightedAuthorizationModelGraphBuilder.parseTupleToUserset"},
	}
	resolve := func(spec string) *ssa.Function {
		parts := strings.Split(spec, ".")
		if len(parts) == 2 {
			return p.Func(parts[0], parts[1])
		}
		return p.Method(parts[0], parts[1], parts[2])
	}
	// documented table (the property's own words): which edge kinds each step may create
	want := map[string]string{"rewrite": "1", "this": "0", "computed": "1,3", "ttu": "2"}
	edgeCallees := []string{"AddEdge", "upsertEdge", "UpsertEdge", "hasEdge", "HasEdge"}
	nodeCallees := []string{"getOrAddNode", "GetOrAddNode", "AddNode"}
	stepStop, stepAPI = map[*ssa.Function]bool{}, map[string]bool{}
	for _, role := range roles {
		for _, f := range []*ssa.Function{resolve(role.Plain), resolve(role.Weighted)} {
			if f != nil {
				stepStop[f] = true
			}
		}
	}
	for _, n := range append(append([]string{}, edgeCallees...), nodeCallees...) {
		stepAPI[n] = true
	}
	for _, role := range roles {
		pf, wf := resolve(role.Plain), resolve(role.Weighted)
		if pf == nil || wf == nil {
			r.Unknown(rule, "anchor:sibling:"+role.Name, "-", "one of "+role.Plain+" / "+role.Weighted+" not found")
			continue
		}
		pe, we := setKey(callArgConsts(pf, edgeCallees, "edgeType")), setKey(callArgConsts(wf, edgeCallees, "edgeType"))
		construct := "edge-kinds:" + role.Name
		own, ownName, ownFn := pe, role.Plain, pf
		if focus == "weighted" {
			own, ownName, ownFn = we, role.Weighted, wf
		}
		switch {
		case focus != "" && own != want[role.Name]:
			r.Bad(rule, construct, p.Pos(ownFn.Pos()), fmt.Sprintf("%s creates edge kinds {%s}; the documented kinds for %s are {%s} (0 direct, 1 rewrite, 2 TTU, 3 computed)", ownName, own, role.Name, want[role.Name]))
		case focus != "":
			r.OK(rule, construct, p.Pos(ownFn.Pos()), "equal-constant-sets", "{"+own+"} (plain {"+pe+"}, weighted {"+we+"})")
		case pe != we:
			r.Bad(rule, construct, p.Pos(wf.Pos()), fmt.Sprintf("plain builder creates edge kinds {%s} in %s, weighted builder {%s} in %s", pe, role.Plain, we, role.Weighted))
		case pe != want[role.Name]:
			r.Bad(rule, construct, p.Pos(wf.Pos()), fmt.Sprintf("both builders create edge kinds {%s} for %s; the documented kinds are {%s} (0 direct, 1 rewrite, 2 TTU, 3 computed)", pe, role.Name, want[role.Name]))
		default:
			r.OK(rule, construct, p.Pos(wf.Pos()), "equal-constant-sets", "{"+pe+"}")
		}
		// which way each step creates its edges: add (one edge per occurrence) or upsert (one edge per pair, conditions
		// collected), guarded by a has-edge test or not — the two builders agree, and with the documented table
		wantAPI := map[string]string{"rewrite": "addedge", "this": "upsertedge", "computed": "addedge", "ttu": "hasedge,upsertedge"}
		pa, wa := setKey(calleeKinds(pf, edgeCallees)), setKey(calleeKinds(wf, edgeCallees))
		construct = "edge-api:" + role.Name
		ownA := pa
		if focus == "weighted" {
			ownA = wa
		}
		switch {
		case focus != "" && ownA != wantAPI[role.Name]:
			r.Bad(rule, construct, p.Pos(ownFn.Pos()), fmt.Sprintf("%s creates the edges of this step through {%s}; documented: {%s} (add = one edge per occurrence, upsert = one edge per pair with its conditions collected, has = guarded by an existence test)", ownName, ownA, wantAPI[role.Name]))
		case focus != "":
			r.OK(rule, construct, p.Pos(ownFn.Pos()), "equal-callee-sets", "{"+ownA+"} (plain {"+pa+"}, weighted {"+wa+"})")
		case pa != wa:
			r.Bad(rule, construct, p.Pos(wf.Pos()), fmt.Sprintf("plain builder creates the edges of this step through {%s}, weighted builder through {%s}: one of them collapses repeated operands or duplicates edges", pa, wa))
		case pa != wantAPI[role.Name]:
			r.Bad(rule, construct, p.Pos(wf.Pos()), fmt.Sprintf("both builders create the edges of %s through {%s}; documented: {%s} (add = one edge per occurrence, upsert = one edge per pair with its conditions collected)", role.Name, pa, wantAPI[role.Name]))
		default:
			r.OK(rule, construct, p.Pos(wf.Pos()), "equal-callee-sets", "{"+pa+"}")
		}
		pn, wn := setKey(callArgConsts(pf, nodeCallees, "nodeType")), setKey(callArgConsts(wf, nodeCallees, "nodeType"))
		construct = "node-kinds:" + role.Name
		wantNodes := map[string]string{"rewrite": "2", "this": "0,1,3", "computed": "1", "ttu": "1"}
		ownN := pn
		if focus == "weighted" {
			ownN = wn
		}
		if focus != "" {
			if ownN != wantNodes[role.Name] {
				r.Bad(rule, construct, p.Pos(ownFn.Pos()), fmt.Sprintf("%s creates node kinds {%s}; documented for %s: {%s} (0 type, 1 type#relation, 2 operator, 3 type:*)", ownName, ownN, role.Name, wantNodes[role.Name]))
			} else {
				r.OK(rule, construct, p.Pos(ownFn.Pos()), "equal-constant-sets", "{"+ownN+"} (plain {"+pn+"}, weighted {"+wn+"})")
			}
		} else if pn != wn {
			r.Bad(rule, construct, p.Pos(wf.Pos()), fmt.Sprintf("plain builder creates node kinds {%s}, weighted builder {%s}", pn, wn))
		} else {
			r.OK(rule, construct, p.Pos(wf.Pos()), "equal-constant-sets", "{"+pn+"}")
		}
	}
	// operator map and exclusion order from the type switches (syntax)
	opWant := map[string]string{"Union": "union", "Intersection": "intersection", "Difference": "exclusion"}
	for _, fnName := range []string{"checkRewrite", "WeightedAuthorizationModelGraphBuilder.parseRewrite"} {
		if (focus == "plain" && fnName != "checkRewrite") || (focus == "weighted" && fnName == "checkRewrite") {
			continue
		}
		fd, pk := p.FuncDecl("graph", fnName)
		if fd == nil {
			r.Unknown(rule, "anchor:operator-map:"+fnName, "-", "function not found")
			continue
		}
		got := map[string]string{}
		order := ""
		var bodies []*ast.FuncDecl
		for _, hd := range p.WithHelpers(pk, fd, 2) {
			if hd == fd || !ast.IsExported(hd.Name.Name) && !stepAPI[hd.Name.Name] {
				isStop := false
				for f := range stepStop {
					if hd != fd && f.Name() == hd.Name.Name {
						isStop = true
					}
				}
				if !isStop {
					bodies = append(bodies, hd)
				}
			}
		}
		for _, hd := range bodies {
			ast.Inspect(hd.Body, func(n ast.Node) bool {
				cc, ok := n.(*ast.CaseClause)
				if !ok || len(cc.List) != 1 {
					return true
				}
				tv, ok := pk.TypesInfo.Types[cc.List[0]]
				if !ok || !tv.IsType() {
					return true
				}
				t := tv.Type
				if ptr, ok := t.(*types.Pointer); ok {
					t = ptr.Elem()
				}
				named, ok := t.(*types.Named)
				if !ok || !strings.HasPrefix(named.Obj().Name(), "Userset_") {
					return true
				}
				variant := strings.TrimPrefix(named.Obj().Name(), "Userset_")
				childNames := func(cl *ast.CompositeLit) string {
					var names []string
					for _, el := range cl.Elts {
						if call, ok := el.(*ast.CallExpr); ok {
							if sel, ok := call.Fun.(*ast.SelectorExpr); ok {
								names = append(names, sel.Sel.Name)
							}
						}
					}
					return strings.Join(names, ",")
				}
				for _, st := range cc.Body {
					// `return <operator constant>, <children>` in a helper that only classifies the rewrite
					if rs, isRet := st.(*ast.ReturnStmt); isRet && len(rs.Results) == 2 {
						if v, ok := pk.TypesInfo.Types[rs.Results[0]]; ok && v.Value != nil && v.Value.Kind() == constant.String {
							got[variant] = constant.StringVal(v.Value)
						}
						if cl, ok := rs.Results[1].(*ast.CompositeLit); ok && variant == "Difference" {
							order = childNames(cl)
						}
						continue
					}
					// a call that hands the operator constant and the children to a helper of the step
					var hcall *ast.CallExpr
					switch x := st.(type) {
					case *ast.ExprStmt:
						hcall, _ = x.X.(*ast.CallExpr)
					case *ast.ReturnStmt:
						if len(x.Results) == 1 {
							hcall, _ = x.Results[0].(*ast.CallExpr)
						}
					}
					if hcall != nil {
						for _, arg := range hcall.Args {
							if v, ok := pk.TypesInfo.Types[arg]; ok && v.Value != nil && v.Value.Kind() == constant.String && constant.StringVal(v.Value) != "" {
								got[variant] = constant.StringVal(v.Value)
							}
							if cl, ok := arg.(*ast.CompositeLit); ok && variant == "Difference" {
								order = childNames(cl)
							}
						}
						continue
					}
					as, ok := st.(*ast.AssignStmt)
					if !ok || len(as.Lhs) != 1 || len(as.Rhs) != 1 {
						continue
					}
					if id, ok := as.Lhs[0].(*ast.Ident); ok && id.Name == "operator" {
						if v, ok := pk.TypesInfo.Types[as.Rhs[0]]; ok && v.Value != nil {
							got[variant] = constant.StringVal(v.Value)
						}
					}
					if cl, ok := as.Rhs[0].(*ast.CompositeLit); ok && variant == "Difference" {
						var names []string
						for _, el := range cl.Elts {
							if call, ok := el.(*ast.CallExpr); ok {
								if sel, ok := call.Fun.(*ast.SelectorExpr); ok {
									names = append(names, sel.Sel.Name)
								}
							}
						}
						order = strings.Join(names, ",")
					}
				}
				return true
			})
		}
		okMap := true
		for v, w := range opWant {
			if got[v] != w {
				okMap = false
			}
		}
		construct := "operator-map:" + fnName
		if okMap {
			r.OK(rule, construct, p.Pos(fd.Pos()), "constants", "Union→union, Intersection→intersection, Difference→exclusion")
		} else {
			r.Bad(rule, construct, p.Pos(fd.Pos()), fmt.Sprintf("rewrite variants are mapped to operator labels %v, documented: %v", got, opWant))
		}
		construct = "exclusion-order:" + fnName
		if order == "GetBase,GetSubtract" {
			r.OK(rule, construct, p.Pos(fd.Pos()), "literal-order", "children = (base, subtract)")
		} else {
			r.Bad(rule, construct, p.Pos(fd.Pos()), "exclusion children are built as ("+order+"), documented order is (base, subtract): the subtract operand must be last")
		}
	}
}

// ReversedForwards (R1.4 struct coverage): in (*AuthorizationModelGraph).Reversed every non-embedded
// field of AuthorizationModelEdge is read and passed to the edge constructor, whose first two
// arguments are To() and From() of the same line, and the direction field is negated.
func ReversedForwards(p *load.Prog, r *oblig.Report, rule string) {
	fn := p.Method("graph", "AuthorizationModelGraph", "Reversed")
	edgeT := namedOf(p.Pkgs["graph"].Types, "AuthorizationModelEdge")
	if fn == nil || edgeT == nil {
		r.Unknown(rule, "anchor:Reversed", "-", "Reversed or AuthorizationModelEdge not found")
		return
	}
	st := edgeT.Underlying().(*types.Struct)
	var addEdge *ssa.Call
	for _, b := range fn.Blocks {
		for _, in := range b.Instrs {
			if call, ok := in.(*ssa.Call); ok {
				if c := call.Common().StaticCallee(); c != nil && c.Name() == "AddEdge" {
					addEdge = call
				}
			}
		}
	}
	if addEdge == nil {
		r.Unknown(rule, "anchor:Reversed-AddEdge", p.Pos(fn.Pos()), "no AddEdge call in Reversed")
		return
	}
	args := addEdge.Common().Args
	// which edge fields flow into the call
	fields := map[string]bool{}
	for _, a := range args {
		v := a
		if u, ok := v.(*ssa.UnOp); ok && u.Op == token.MUL {
			if fa, ok := u.X.(*ssa.FieldAddr); ok {
				t := fa.X.Type()
				if ptr, ok := t.Underlying().(*types.Pointer); ok {
					t = ptr.Elem()
				}
				if types.Identical(t, edgeT) {
					fields[st.Field(fa.Field).Name()] = true
				}
			}
		}
	}
	for i := 0; i < st.NumFields(); i++ {
		f := st.Field(i)
		if f.Embedded() {
			continue
		}
		construct := "reversed-forwards:" + f.Name()
		if fields[f.Name()] {
			r.OK(rule, construct, p.Pos(addEdge.Pos()), "field-forwarded", "")
		} else {
			r.Bad(rule, construct, p.Pos(addEdge.Pos()), "field "+f.Name()+" of the edge is not passed on to the reversed edge: reversing changes more than the direction")
		}
	}
	// endpoints flipped: params[1]=from receives To(), params[2]=to receives From()
	name := func(v ssa.Value) string {
		if c, ok := v.(*ssa.Call); ok && c.Common().IsInvoke() {
			return c.Common().Method.Name()
		}
		return "?"
	}
	if len(args) >= 3 && name(args[1]) == "To" && name(args[2]) == "From" {
		r.OK(rule, "reversed-endpoints", p.Pos(addEdge.Pos()), "To/From", "new edge runs from To() to From()")
	} else if len(args) >= 3 {
		r.Bad(rule, "reversed-endpoints", p.Pos(addEdge.Pos()), "the reversed edge is created from "+name(args[1])+"() to "+name(args[2])+"(), expected To() → From()")
	}
	// drawing direction negated
	neg := false
	for _, b := range fn.Blocks {
		for _, in := range b.Instrs {
			if u, ok := in.(*ssa.UnOp); ok && u.Op == token.NOT {
				if ld, ok := u.X.(*ssa.UnOp); ok && ld.Op == token.MUL {
					if fa, ok := ld.X.(*ssa.FieldAddr); ok && fieldName(fa) == "drawingDirection" {
						neg = true
					}
				}
			}
		}
	}
	if neg {
		r.OK(rule, "reversed-direction", p.Pos(fn.Pos()), "negation", "drawingDirection is negated")
	} else {
		r.Bad(rule, "reversed-direction", p.Pos(fn.Pos()), "Reversed does not negate drawingDirection")
	}
	reversedIndex(p, r, rule, fn)
}

// reversedIndex: the label index of the reversed graph is the receiver's index — the same map, a
// maps.Clone of it, or a fresh map filled with m[k] = v for every (k, v) of a range over it.
func reversedIndex(p *load.Prog, r *oblig.Report, rule string, fn *ssa.Function) {
	const construct = "reversed-label-index"
	isRecvIDs := func(v ssa.Value) bool {
		ld, ok := v.(*ssa.UnOp)
		if !ok || ld.Op != token.MUL {
			return false
		}
		fa, ok := ld.X.(*ssa.FieldAddr)
		return ok && fieldName(fa) == "ids" && len(fn.Params) > 0 && fa.X == fn.Params[0]
	}
	found := false
	for _, b := range fn.Blocks {
		for _, in := range b.Instrs {
			st, ok := in.(*ssa.Store)
			if !ok {
				continue
			}
			fa, ok := st.Addr.(*ssa.FieldAddr)
			if !ok || fieldName(fa) != "ids" {
				continue
			}
			if _, lit := fa.X.(*ssa.Alloc); !lit {
				continue
			}
			if named := namedOfType(fa.X.Type()); named != "AuthorizationModelGraph" {
				continue
			}
			found = true
			v := st.Val
			if ct, ok := v.(*ssa.ChangeType); ok {
				v = ct.X
			}
			switch x := v.(type) {
			case *ssa.UnOp:
				if isRecvIDs(x) {
					r.OK(rule, construct, p.Pos(st.Pos()), "shared", "the reversed graph uses the receiver's index (ids are immutable strings → int64)")
					continue
				}
			case *ssa.Call:
				if c := x.Common().StaticCallee(); c != nil && c.Name() == "Clone" && len(x.Common().Args) == 1 && isRecvIDs(x.Common().Args[0]) {
					r.OK(rule, construct, p.Pos(st.Pos()), "maps.Clone", "")
					continue
				}
			case *ssa.MakeMap:
				why := ""
				updates := 0
				if x.Referrers() != nil {
					for _, ref := range *x.Referrers() {
						mu, ok := ref.(*ssa.MapUpdate)
						if !ok {
							continue
						}
						updates++
						k, ok1 := mu.Key.(*ssa.Extract)
						val, ok2 := mu.Value.(*ssa.Extract)
						if !ok1 || !ok2 || k.Tuple != val.Tuple || k.Index != 1 || val.Index != 2 {
							why = "an entry is written that is not the (key, value) pair of the iteration over the receiver's index"
							continue
						}
						nx, ok := k.Tuple.(*ssa.Next)
						if !ok {
							why = "an entry does not come from a range"
							continue
						}
						rg, ok := nx.Iter.(*ssa.Range)
						if !ok || !isRecvIDs(rg.X) {
							why = "the copied map is not the receiver's index"
							continue
						}
						// unconditional in the loop body: the update's block is the body entered straight from the loop test
						if len(mu.Block().Preds) != 1 || mu.Block().Preds[0] != nx.Block() {
							why = "an entry of the receiver's index is copied only conditionally"
						}
					}
				}
				if updates == 0 && x.Referrers() != nil {
					for _, ref := range *x.Referrers() {
						if cp, ok := ref.(*ssa.Call); ok {
							c := cp.Common().StaticCallee()
							if c != nil && c.Origin() != nil {
								c = c.Origin()
							}
							if c != nil && c.Pkg != nil && c.Pkg.Pkg.Path() == "maps" && c.Name() == "Copy" &&
								len(cp.Common().Args) == 2 && cp.Common().Args[0] == ssa.Value(x) && isRecvIDs(cp.Common().Args[1]) {
								updates++
							}
						}
					}
				}
				if updates == 0 {
					why = "the new index is never filled"
				}
				if why == "" {
					r.OK(rule, construct, p.Pos(st.Pos()), "key-for-key copy", "fresh map filled with every (label, id) of the receiver's index")
					continue
				}
				r.Bad(rule, construct, p.Pos(st.Pos()), "the label index of the reversed graph is not a faithful copy of the receiver's: "+why+" — label lookup and path queries on the reversed graph resolve differently")
				continue
			}
			r.Bad(rule, construct, p.Pos(st.Pos()), "the label index of the reversed graph does not come from the receiver's index (it is "+v.String()+"): label lookup on the reversed graph can find other nodes than on the original")
		}
	}
	if !found {
		r.Unknown(rule, construct, p.Pos(fn.Pos()), "no AuthorizationModelGraph literal with an ids field found in Reversed")
	}
}

func namedOfType(t types.Type) string {
	if ptr, ok := t.Underlying().(*types.Pointer); ok {
		t = ptr.Elem()
	}
	if n, ok := t.(*types.Named); ok {
		return n.Obj().Name()
	}
	return ""
}

func fieldName(fa *ssa.FieldAddr) string {
	t := fa.X.Type()
	if ptr, ok := t.Underlying().(*types.Pointer); ok {
		t = ptr.Elem()
	}
	if st, ok := t.Underlying().(*types.Struct); ok && fa.Field < st.NumFields() {
		return st.Field(fa.Field).Name()
	}
	return ""
}

// constText evaluates a string-valued SSA value that is a constant after binding helper parameters:
// constants, conversions of (typed) string constants, concatenations.
func constText(v ssa.Value, ci *e5path.CallInst, depth int) (string, bool) {
	if depth > 6 {
		return "", false
	}
	switch x := v.(type) {
	case *ssa.Const:
		if x.Value != nil && x.Value.Kind() == constant.String {
			return constant.StringVal(x.Value), true
		}
	case *ssa.Convert:
		return constText(x.X, ci, depth+1)
	case *ssa.ChangeType:
		return constText(x.X, ci, depth+1)
	case *ssa.Parameter:
		if a := ci.Arg(x); a != ssa.Value(x) {
			return constText(a, ci, depth+1)
		}
	case *ssa.BinOp:
		if x.Op == token.ADD {
			l, ok1 := constText(x.X, ci, depth+1)
			r, ok2 := constText(x.Y, ci, depth+1)
			if ok1 && ok2 {
				return l + r, true
			}
		}
	}
	return "", false
}
