package e4panic

import (
	"go/constant"
	"go/token"
	"go/types"
	"strings"

	"golang.org/x/tools/go/ssa"

	"verif/sa/internal/e5path"
)

func sameValue(a, b ssa.Value) bool {
	if a == b {
		return true
	}
	// unique names (‹…›) identify one SSA value, so equal paths still mean equal roots
	return e5path.AccessPath(a) == e5path.AccessPath(b)
}

func constInt(v ssa.Value) (int64, bool) {
	c, ok := v.(*ssa.Const)
	if !ok || c.Value == nil || c.Value.Kind() != constant.Int {
		return 0, false
	}
	return c.Int64(), true
}

// lenOf: v is len(x) → x
func lenOf(v ssa.Value) ssa.Value {
	call, ok := v.(*ssa.Call)
	if !ok {
		return nil
	}
	if b, isB := call.Common().Value.(*ssa.Builtin); isB && b.Name() == "len" && len(call.Common().Args) == 1 {
		return call.Common().Args[0]
	}
	return nil
}

// lengthLowerBound derives a lower bound for len(x) at `at` from dominating conditions and contracts.
func (a *Analysis) lengthLowerBound(x ssa.Value, at ssa.Instruction) (int64, string) {
	lb := int64(0)
	why := ""
	if a.Facts != nil {
		if p := e5path.AccessPath(x); strings.HasPrefix(p, "l.") {
			if ok, w := a.Facts.StackNonEmpty(at, p); ok {
				lb, why = 1, w
			}
		}
	}
	// contracts
	if call, ok := x.(*ssa.Call); ok {
		if name := calleeFullName(call.Common()); name == "strings.Split" {
			lb, why = 1, "D5 strings.Split returns at least one element"
		}
	}
	if sl, ok := x.(*ssa.Slice); ok {
		if al, isAlloc := sl.X.(*ssa.Alloc); isAlloc {
			_ = al
		}
	}
	type fact struct {
		op     token.Token
		c      int64
		branch bool
	}
	var facts []fact
	for _, ce := range e5path.DominatingConds(at.Block()) {
		bo, ok := ce.Cond.(*ssa.BinOp)
		if !ok {
			continue
		}
		// x == "" / x != "" for strings
		if cs, isS := bo.Y.(*ssa.Const); isS && cs.Value != nil && cs.Value.Kind() == constant.String && constant.StringVal(cs.Value) == "" && sameValue(bo.X, x) {
			if (bo.Op == token.EQL && !ce.Branch) || (bo.Op == token.NEQ && ce.Branch) {
				facts = append(facts, fact{token.GTR, 0, true})
			}
			continue
		}
		var c int64
		var isC bool
		op := bo.Op
		if lx := lenOf(bo.X); lx != nil && sameValue(lx, x) {
			c, isC = constInt(bo.Y)
		} else if ly := lenOf(bo.Y); ly != nil && sameValue(ly, x) {
			c, isC = constInt(bo.X)
			// flip the comparison
			switch op {
			case token.LSS:
				op = token.GTR
			case token.GTR:
				op = token.LSS
			case token.LEQ:
				op = token.GEQ
			case token.GEQ:
				op = token.LEQ
			}
		} else {
			continue
		}
		if !isC {
			continue
		}
		// the length of a value does not change between test and use unless it is reassigned; SSA values are immutable,
		// recomputed paths are checked for intervening stores
		if lx := lenOf(bo.X); lx != nil && lx != x {
			if a.pathStoredBetween(e5path.AccessPath(x), ce.If, at) {
				continue
			}
		}
		facts = append(facts, fact{op, c, ce.Branch})
	}
	for changed := true; changed; {
		changed = false
		for _, f := range facts {
			nlb := lb
			switch {
			case f.op == token.EQL && f.branch:
				nlb = max(nlb, f.c)
			case f.op == token.NEQ && !f.branch:
				nlb = max(nlb, f.c)
			case f.op == token.EQL && !f.branch && f.c == lb:
				nlb = lb + 1
			case f.op == token.NEQ && f.branch && f.c == lb:
				nlb = lb + 1
			case f.op == token.GTR && f.branch:
				nlb = max(nlb, f.c+1)
			case f.op == token.GEQ && f.branch:
				nlb = max(nlb, f.c)
			case f.op == token.LSS && !f.branch:
				nlb = max(nlb, f.c)
			case f.op == token.LEQ && !f.branch:
				nlb = max(nlb, f.c+1)
			}
			if nlb != lb {
				lb = nlb
				why = "D6 length facts from dominating conditions"
				changed = true
			}
		}
	}
	// a parameter is at least as long as its shortest argument (every static call site in the analysed set)
	if prm, isP := x.(*ssa.Parameter); isP && lb == 0 && a.lenDepth < 3 {
		sites := a.callers[prm.Parent()]
		idx := -1
		for i, q := range prm.Parent().Params {
			if q == prm {
				idx = i
			}
		}
		if len(sites) > 0 && idx >= 0 && !a.entry[prm.Parent()] {
			best := int64(1 << 30)
			a.lenDepth++
			for _, site := range sites {
				args := site.Common().Args
				if idx >= len(args) {
					best = 0
					break
				}
				in, _ := site.(ssa.Instruction)
				l, _ := a.lengthLowerBound(args[idx], in)
				if l < best {
					best = l
				}
			}
			a.lenDepth--
			if best > 0 && best < 1<<30 {
				return best, "D6 every caller passes a list of at least that length"
			}
		}
	}
	return lb, why
}

// inductionOf: idx is the index variable of a loop that runs while idx < len(x).
func (a *Analysis) loopIndexOf(idx ssa.Value, x ssa.Value, at ssa.Instruction) bool {
	if !nonNegativeInduction(idx) {
		return false
	}
	// rotated loop (for i := range n): the body is entered only through tests `first < len(x)` and `next < len(x)`,
	// the index being the join of first and next
	if phi, ok := idx.(*ssa.Phi); ok && len(phi.Edges) == len(phi.Block().Preds) && len(phi.Edges) > 0 {
		all := true
		for i, e := range phi.Edges {
			pred := phi.Block().Preds[i]
			ifi, isIf := pred.Instrs[len(pred.Instrs)-1].(*ssa.If)
			if !isIf || pred.Succs[0] != phi.Block() || pred.Succs[0] == pred.Succs[1] {
				all = false
				break
			}
			bo, isB := ifi.Cond.(*ssa.BinOp)
			if !isB || bo.Op != token.LSS {
				all = false
				break
			}
			same := bo.X == e
			if c1, ok1 := constInt(bo.X); ok1 {
				if c2, ok2 := constInt(e); ok2 && c1 == c2 {
					same = true
				}
			}
			lx := lenOf(bo.Y)
			if !same || lx == nil || !sameValue(lx, x) {
				all = false
				break
			}
		}
		if all {
			return true
		}
	}
	for _, ce := range e5path.DominatingConds(at.Block()) {
		bo, ok := ce.Cond.(*ssa.BinOp)
		if !ok || bo.Op != token.LSS || !ce.Branch || bo.X != idx {
			continue
		}
		if lx := lenOf(bo.Y); lx != nil && sameValue(lx, x) {
			return true
		}
	}
	return false
}

// nonNegativeInduction: phi(0, self+k) or phi(-1, self)+1 shapes.
func nonNegativeInduction(v ssa.Value) bool {
	switch x := v.(type) {
	case *ssa.Phi:
		okInit := false
		for _, e := range x.Edges {
			if c, ok := constInt(e); ok {
				if c < 0 {
					return false
				}
				okInit = true
				continue
			}
			bo, ok := e.(*ssa.BinOp)
			if !ok || bo.Op != token.ADD || bo.X != ssa.Value(x) {
				return false
			}
			if c, ok := constInt(bo.Y); !ok || c <= 0 {
				return false
			}
		}
		return okInit
	case *ssa.BinOp:
		if x.Op != token.ADD {
			return false
		}
		c, ok := constInt(x.Y)
		if !ok || c != 1 {
			return false
		}
		phi, ok := x.X.(*ssa.Phi)
		if !ok {
			return false
		}
		for _, e := range phi.Edges {
			if ci, ok := constInt(e); ok {
				if ci < -1 {
					return false
				}
				continue
			}
			if e != ssa.Value(x) {
				return false
			}
		}
		return true
	}
	return false
}

// validOrMinus1: v is -1 or a valid index of x (by construction).
func (a *Analysis) validOrMinus1(v ssa.Value, x ssa.Value, depth int) bool {
	if depth > 6 {
		return false
	}
	if c, ok := constInt(v); ok {
		return c == -1
	}
	switch y := v.(type) {
	case *ssa.Phi:
		for _, e := range y.Edges {
			if !a.validOrMinus1(e, x, depth+1) {
				return false
			}
		}
		return true
	case *ssa.BinOp:
		// range index: used under idx < len(x)
		if nonNegativeInduction(y) {
			// find the loop condition anywhere in the function
			if refs := y.Referrers(); refs != nil {
				for _, ref := range *refs {
					if bo, ok := ref.(*ssa.BinOp); ok && bo.Op == token.LSS && bo.X == ssa.Value(y) {
						if lx := lenOf(bo.Y); lx != nil && sameValue(lx, x) {
							return true
						}
					}
				}
			}
		}
	case *ssa.Call:
		name := calleeFullName(y.Common())
		switch name {
		case "slices.IndexFunc", "slices.Index":
			if len(y.Common().Args) >= 1 && sameValue(y.Common().Args[0], x) {
				return true
			}
		}
		if c := y.Common().StaticCallee(); c != nil && a.inSet[c] {
			// a repository finder: returns validOrMinus1 with respect to one of its parameters
			if pi := a.indexResultParam(c); pi >= 0 && pi < len(y.Common().Args) && sameValue(y.Common().Args[pi], x) {
				return true
			}
		}
		// the finder is a function-valued parameter: every caller passes a repository finder for the same position
		if fp, isP := y.Common().Value.(*ssa.Parameter); isP && !y.Common().IsInvoke() {
			f := fp.Parent()
			fi := -1
			for i, q := range f.Params {
				if q == fp {
					fi = i
				}
			}
			sites := a.callers[f]
			if fi >= 0 && len(sites) > 0 && !a.entry[f] {
				okAll := true
				for _, site := range sites {
					if fi >= len(site.Common().Args) {
						okAll = false
						break
					}
					fa := site.Common().Args[fi]
					for {
						ct, isCT := fa.(*ssa.ChangeType)
						if !isCT {
							break
						}
						fa = ct.X
					}
					fn, isFn := fa.(*ssa.Function)
					if !isFn {
						okAll = false
						break
					}
					pi := a.indexResultParam(fn)
					if pi < 0 || pi >= len(y.Common().Args) || !sameValue(y.Common().Args[pi], x) {
						okAll = false
						break
					}
				}
				if okAll {
					return true
				}
			}
		}
	case *ssa.Parameter:
		// every caller passes (x', v') with v' validOrMinus1 for x'
		f := y.Parent()
		xi, vi := -1, -1
		for i, prm := range f.Params {
			if prm == y {
				vi = i
			}
			if ssa.Value(prm) == x {
				xi = i
			}
		}
		if xi < 0 || vi < 0 || len(a.callers[f]) == 0 {
			return false
		}
		for _, site := range a.callers[f] {
			args := site.Common().Args
			if xi >= len(args) || vi >= len(args) || !a.validOrMinus1(args[vi], args[xi], depth+1) {
				return false
			}
		}
		return true
	}
	return false
}

// indexResultParam: f returns (on every path) slices.IndexFunc(param_i, …) → i, else -1.
func (a *Analysis) indexResultParam(f *ssa.Function) int {
	if a.idxResMemo == nil {
		a.idxResMemo = map[*ssa.Function]int{}
	}
	if v, ok := a.idxResMemo[f]; ok {
		return v
	}
	a.idxResMemo[f] = -1 // in progress: a recursive finder is not assumed to be one
	if f.Signature.Results().Len() != 1 {
		return -1
	}
	for pi, prm := range f.Params {
		if _, isSlice := prm.Type().Underlying().(*types.Slice); !isSlice {
			continue
		}
		rets, okAll := 0, true
		for _, b := range f.Blocks {
			ret, ok := b.Instrs[len(b.Instrs)-1].(*ssa.Return)
			if !ok {
				continue
			}
			rets++
			// -1, an index produced by ranging the parameter, slices.Index/IndexFunc on it, or another finder applied to it
			if !a.validOrMinus1(ret.Results[0], prm, 1) {
				okAll = false
			}
		}
		if rets > 0 && okAll {
			a.idxResMemo[f] = pi
			return pi
		}
	}
	return -1
}

// validIndex: v is a valid index of x at `at`.
func (a *Analysis) validIndex(v ssa.Value, x ssa.Value, at ssa.Instruction) (bool, string) {
	if a.loopIndexOf(v, x, at) {
		return true, "D5 loop index below len"
	}
	// x = make([]T, len(y)) indexed by the loop index of a loop over y
	if mk, ok := x.(*ssa.MakeSlice); ok {
		if y := lenOf(mk.Len); y != nil && a.loopIndexOf(v, y, at) {
			return true, "D5 loop index below len of the list the slice was sized after"
		}
	}
	if c, ok := constInt(v); ok && c >= 0 {
		lb, why := a.lengthLowerBound(x, at)
		if a.Debug {
			println("validIndex const", c, "lb", lb, why, e5path.AccessPath(x))
			for _, ce := range e5path.DominatingConds(at.Block()) {
				println("   cond", ce.Cond.String(), ce.Branch)
			}
		}
		if c < lb {
			return true, why
		}
		return false, ""
	}
	// len(x) - c with len(x) >= c
	if bo, ok := v.(*ssa.BinOp); ok && bo.Op == token.SUB {
		if lx := lenOf(bo.X); lx != nil && sameValue(lx, x) {
			if c, isC := constInt(bo.Y); isC && c >= 1 {
				if lb, why := a.lengthLowerBound(x, at); c <= lb {
					return true, why
				}
			}
		}
	}
	if a.validOrMinus1(v, x, 0) {
		// needs a guard excluding -1
		for _, ce := range e5path.DominatingConds(at.Block()) {
			bo, ok := ce.Cond.(*ssa.BinOp)
			if !ok || bo.X != v {
				continue
			}
			c, isC := constInt(bo.Y)
			if !isC {
				continue
			}
			switch {
			case bo.Op == token.GTR && ce.Branch && c >= -1,
				bo.Op == token.GEQ && ce.Branch && c >= 0,
				bo.Op == token.NEQ && ce.Branch && c == -1,
				bo.Op == token.EQL && !ce.Branch && c == -1,
				bo.Op == token.LSS && !ce.Branch && c >= 0,
				bo.Op == token.LEQ && !ce.Branch && c >= -1:
				return true, "D6 index is -1 or valid by construction and -1 is excluded by a dominating test"
			}
		}
	}
	return false, ""
}

// inBounds discharges index and slice obligations.
func (a *Analysis) inBounds(o *Obligation) (bool, string) {
	switch in := o.Instr.(type) {
	case *ssa.IndexAddr:
		return a.validIndex(in.Index, in.X, in)
	case *ssa.Index:
		return a.validIndex(in.Index, in.X, in)
	case *ssa.Slice:
		x := in.X
		check := func(b ssa.Value, isHigh bool) (bool, string) {
			if b == nil {
				return true, ""
			}
			if c, ok := constInt(b); ok {
				if c == 0 {
					return true, "zero bound"
				}
				lb, why := a.lengthLowerBound(x, in)
				if c <= lb {
					return true, why
				}
				return false, ""
			}
			// len(x) - c
			if bo, ok := b.(*ssa.BinOp); ok && bo.Op == token.SUB {
				if lx := lenOf(bo.X); lx != nil && sameValue(lx, x) {
					if c, ok := constInt(bo.Y); ok && c >= 0 {
						lb, why := a.lengthLowerBound(x, in)
						if c <= lb {
							return true, why
						}
						return false, ""
					}
				}
			}
			// len(x)
			if lx := lenOf(b); lx != nil && sameValue(lx, x) {
				return true, "len bound"
			}
			// valid index i, or i+1
			if ok, why := a.validIndex(b, x, in); ok {
				return true, why
			}
			if bo, ok := b.(*ssa.BinOp); ok && bo.Op == token.ADD {
				if c, isC := constInt(bo.Y); isC && c == 1 {
					if ok, why := a.validIndex(bo.X, x, in); ok {
						return true, why
					}
				}
			}
			return false, ""
		}
		okL, whyL := check(in.Low, false)
		okH, whyH := check(in.High, true)
		if okL && okH && in.Max == nil {
			// low <= high: both constants, or one side nil
			if in.Low != nil && in.High != nil {
				lc, l1 := constInt(in.Low)
				hc, h1 := constInt(in.High)
				ordered := l1 && h1 && lc <= hc
				// x[p : p+c]
				if bo, ok := in.High.(*ssa.BinOp); ok && bo.Op == token.ADD && bo.X == in.Low {
					if c, isC := constInt(bo.Y); isC && c >= 0 {
						ordered = true
					}
				}
				if !ordered {
					return false, ""
				}
			}
			why := whyL
			if why == "" {
				why = whyH
			}
			if why == "" {
				why = "D6 trivial bounds"
			}
			return true, why
		}
	}
	return false, ""
}
