// Package e4panic enumerates every instruction of the repository's own code that can panic at run
// time (nil dereference, nil-map write, index/slice bounds, unchecked type assertion, nil interface
// call, explicit panic) in the functions reachable from the public entry points, and discharges each
// by a positive rule. What no rule discharges is reported.
package e4panic

import (
	"fmt"
	"go/constant"
	"go/token"
	"go/types"
	"os"
	"sort"
	"strings"

	"golang.org/x/tools/go/ssa"

	"verif/sa/internal/e5path"
	"verif/sa/internal/load"
	"verif/sa/internal/oblig"
)

// Obligation is one may-panic site.
type Obligation struct {
	Fn    *ssa.Function
	Instr ssa.Instruction
	Kind  string    // nil-deref, nil-map, index, slice, assert, invoke, panic, call-nil-func, div
	Val   ssa.Value // the value that must be non-nil / the indexed value
	Idx   ssa.Value // index (index/slice kinds)
	By    string
	Why   string
}

// Analysis holds the state of one run.
type Analysis struct {
	P              *load.Prog
	R              *oblig.Report
	Funcs          []*ssa.Function
	invHelpers     map[string]map[*ssa.Function]bool
	globalMemo     map[*ssa.Global]bool
	inSet          map[*ssa.Function]bool
	Obls           []*Obligation
	neverNil       map[*ssa.Function]bool // functions whose (first pointer-like) result is never nil
	neverNilN      map[*ssa.Function]map[int]bool
	paramOK        map[*ssa.Parameter]bool
	entry          map[*ssa.Function]bool
	callers        map[*ssa.Function][]ssa.CallInstruction
	Facts          *TypeState // grammar-driven facts about listener fields (may be nil)
	classMemo      map[string]bool
	phiBusy        map[*ssa.Phi]bool
	fepSeen        map[ssa.Value]bool
	busy           map[ssa.Value]int
	Debug          bool
	internalParam  map[*ssa.Parameter]bool
	Exceptions     []Exception
	Invariants     []Invariant
	idxResMemo     map[*ssa.Function]int
	lenDepth       int
	cfDepth        int
	UsedInvariants map[string]bool
}

// Invariant is a reviewed fact about a named value (an SSA variable by its source name, inside one
// function) that no rule derives; each carries its reason and is printed in the evidence.
type Invariant struct {
	Func, Value, Reason string
	Requires            string // optional: a dominating condition whose rendering contains this text
	// Typed form (Value empty): the value has a static type whose name ends in Type and, when PathSuffix
	// is set, an access path X+PathSuffix; RequiresBase is a condition template over X ("%s").
	Type, PathSuffix, RequiresBase string
}

// invariantIn: a typed invariant is a fact about a data structure as the named function handles it; it holds as
// well in the unexported helpers of the same package that only that function (transitively) calls — code that was
// cut out of it.
func (a *Analysis) invariantIn(inv Invariant, f *ssa.Function) bool {
	if inv.Func == load.FuncName(f) {
		return true
	}
	if inv.Value != "" || f == nil || f.Pkg == nil || f.Parent() != nil || token.IsExported(f.Name()) {
		return false
	}
	if a.invHelpers == nil {
		a.invHelpers = map[string]map[*ssa.Function]bool{}
	}
	set, ok := a.invHelpers[inv.Func]
	if !ok {
		set = map[*ssa.Function]bool{}
		a.invHelpers[inv.Func] = set
		var root *ssa.Function
		for g := range a.inSet {
			if load.FuncName(g) == inv.Func {
				root = g
			}
		}
		if root != nil {
			// unexported functions of the package reached from root by static calls …
			reach := map[*ssa.Function]bool{root: true}
			work := []*ssa.Function{root}
			for len(work) > 0 {
				g := work[len(work)-1]
				work = work[:len(work)-1]
				for _, b := range g.Blocks {
					for _, in := range b.Instrs {
						if ci, isCall := in.(ssa.CallInstruction); isCall {
							if c := ci.Common().StaticCallee(); c != nil && c.Pkg == root.Pkg && !reach[c] && len(c.Blocks) > 0 && !token.IsExported(c.Name()) && c.Parent() == nil {
								reach[c] = true
								work = append(work, c)
							}
						}
					}
				}
			}
			// … and called from nowhere else
			for h := range reach {
				if h == root {
					continue
				}
				only := true
				for _, site := range a.callers[h] {
					if !reach[site.Parent()] {
						only = false
					}
				}
				if only && len(a.callers[h]) > 0 {
					set[h] = true
				}
			}
		}
	}
	return set[f]
}

// Exception is a reviewed residual obligation.
type Exception struct {
	Func, Kind, Path, Reason string
}

func pointerish(t types.Type) bool {
	switch t.Underlying().(type) {
	case *types.Pointer, *types.Map, *types.Slice, *types.Interface, *types.Signature, *types.Chan:
		return true
	}
	return false
}

// Collect enumerates the obligations.
func (a *Analysis) Collect() {
	a.inSet = map[*ssa.Function]bool{}
	for _, f := range a.Funcs {
		a.inSet[f] = true
	}
	a.callers = map[*ssa.Function][]ssa.CallInstruction{}
	for _, f := range a.Funcs {
		for _, b := range f.Blocks {
			for _, in := range b.Instrs {
				add := func(kind string, v, idx ssa.Value) {
					a.Obls = append(a.Obls, &Obligation{Fn: f, Instr: in, Kind: kind, Val: v, Idx: idx})
				}
				switch x := in.(type) {
				case *ssa.FieldAddr:
					add("nil-deref", x.X, nil)
				case *ssa.Field:
					// value struct: no dereference
				case *ssa.UnOp:
					if x.Op == token.MUL && !isAddress(x.X) {
						add("nil-deref", x.X, nil)
					}
				case *ssa.Store:
					if !isAddress(x.Addr) {
						add("nil-deref", x.Addr, nil)
					}
				case *ssa.MapUpdate:
					add("nil-map", x.Map, nil)
				case *ssa.IndexAddr:
					if _, isPtr := x.X.Type().Underlying().(*types.Pointer); isPtr {
						// pointer to array (composite literal backing store): fresh
						if _, fresh := x.X.(*ssa.Alloc); !fresh {
							add("nil-deref", x.X, nil)
						}
						if al, ok := x.X.(*ssa.Alloc); ok {
							_ = al // constant index into a literal's array is generated by the compiler
							continue
						}
					}
					add("index", x.X, x.Index)
				case *ssa.Index:
					if _, isStr := x.X.Type().Underlying().(*types.Basic); isStr {
						add("index", x.X, x.Index)
					} else if _, isArr := x.X.Type().Underlying().(*types.Array); !isArr {
						add("index", x.X, x.Index)
					}
				case *ssa.Slice:
					if _, fresh := x.X.(*ssa.Alloc); fresh {
						continue // x[:] of a literal's array
					}
					if x.Low != nil || x.High != nil || x.Max != nil {
						add("slice", x.X, nil)
					}
				case *ssa.TypeAssert:
					if !x.CommaOk {
						add("assert", x.X, nil)
					}
				case *ssa.Panic:
					// the compiler's own consistency check in the body of a range-over-func loop is not the repository's panic
					if mi, isMI := x.X.(*ssa.MakeInterface); isMI {
						if c, isC := mi.X.(*ssa.Const); isC && c.Value != nil && c.Value.Kind() == constant.String && strings.HasPrefix(constant.StringVal(c.Value), "iterator call did not preserve panic") {
							continue
						}
					}
					add("panic", x.X, nil)
				case *ssa.BinOp:
					if (x.Op == token.QUO || x.Op == token.REM) && isInteger(x.X.Type()) {
						add("div", x.Y, nil)
					}
				case ssa.CallInstruction:
					cc := x.Common()
					if cc.IsInvoke() {
						add("invoke", cc.Value, nil)
					} else if cc.StaticCallee() == nil {
						if _, isB := cc.Value.(*ssa.Builtin); !isB {
							add("call-nil-func", cc.Value, nil)
						}
					}
					for _, callee := range a.calleesOf(x) {
						if a.inSet[callee] {
							a.callers[callee] = append(a.callers[callee], x)
						}
					}
					if c := cc.StaticCallee(); c != nil && strings.HasPrefix(c.Name(), "Must") && load.IsRepoPkg(load.FuncPkg(c)) {
						add("panic", nil, nil)
					}
				}
			}
		}
	}
}

func (a *Analysis) calleesOf(site ssa.CallInstruction) []*ssa.Function {
	if f := site.Common().StaticCallee(); f != nil {
		return []*ssa.Function{f}
	}
	var out []*ssa.Function
	if n := a.P.CallGraph().Nodes[site.Parent()]; n != nil {
		for _, e := range n.Out {
			if e.Site == site && e.Callee.Func != nil {
				out = append(out, e.Callee.Func)
			}
		}
	}
	return out
}

func isInteger(t types.Type) bool {
	b, ok := t.Underlying().(*types.Basic)
	return ok && b.Info()&types.IsInteger != 0
}

// isAddress: values that are valid addresses by construction (their own obligation is elsewhere).
func isAddress(v ssa.Value) bool {
	switch v.(type) {
	case *ssa.Alloc, *ssa.Global, *ssa.FieldAddr, *ssa.IndexAddr, *ssa.FreeVar:
		return true
	}
	return false
}

// ---------- non-nil reasoning ----------

// libNeverNil: library functions / methods whose pointer-like result is never nil (reason each).
var libNeverNil = map[string]string{
	"github.com/hashicorp/go-multierror.Append":               "returns the accumulator, allocating it when nil",
	"github.com/antlr4-go/antlr/v4.NewInputStream":            "constructor",
	"github.com/antlr4-go/antlr/v4.NewCommonTokenStream":      "constructor",
	"github.com/openfga/language/pkg/go/gen.NewOpenFGALexer":  "generated constructor",
	"github.com/openfga/language/pkg/go/gen.NewOpenFGAParser": "generated constructor",
	"gonum.org/v1/gonum/graph/multi.NewDirectedGraph":         "constructor",
	"strings.Split": "returns a slice of at least one element for a non-empty separator",
	"(*github.com/openfga/language/pkg/go/gen.OpenFGAParser).Main": "a rule function returns the context it created",
	"fmt.Errorf": "always returns an error value",
	"errors.New": "always returns an error value",
}

// method names of the ANTLR runtime contract (invoked on contexts the runtime itself created)
var antlrNeverNil = map[string]string{
	"GetParser": "a rule context is created by its parser and keeps it",
	"GetStart":  "set by EnterRule before any listener callback can see the context",
}

func calleeFullName(cc *ssa.CallCommon) string {
	if cc.IsInvoke() {
		return cc.Method.FullName()
	}
	if c := cc.StaticCallee(); c != nil {
		o := c
		if c.Origin() != nil {
			o = c.Origin()
		}
		if fn, ok := o.Object().(*types.Func); ok {
			if fn.Type().(*types.Signature).Recv() != nil {
				return fn.FullName()
			}
			if fn.Pkg() != nil {
				return fn.Pkg().Path() + "." + fn.Name()
			}
		}
		return c.String()
	}
	return ""
}

// storesTo lists the stores in f whose address has the given access path.
func storesTo(f *ssa.Function, path string) []*ssa.Store {
	var out []*ssa.Store
	for _, b := range f.Blocks {
		for _, in := range b.Instrs {
			if st, ok := in.(*ssa.Store); ok && e5path.AccessPath(st.Addr) == path {
				out = append(out, st)
			}
		}
	}
	return out
}

func instrIndex(in ssa.Instruction) int {
	for i, x := range in.Block().Instrs {
		if x == in {
			return i
		}
	}
	return -1
}

// reaches: can control flow from the start of block `from` reach block `to`?
func reaches(from, to *ssa.BasicBlock) bool {
	seen := map[*ssa.BasicBlock]bool{}
	stack := []*ssa.BasicBlock{from}
	for len(stack) > 0 {
		b := stack[len(stack)-1]
		stack = stack[:len(stack)-1]
		if b == to {
			return true
		}
		if seen[b] {
			continue
		}
		seen[b] = true
		stack = append(stack, b.Succs...)
	}
	return false
}

// storeBetween: may a store to path execute after `after` (an instruction, or the start of block
// startBlock when after is nil) and before `use`?
func storeBetween(f *ssa.Function, path string, startBlock *ssa.BasicBlock, after ssa.Instruction, use ssa.Instruction) bool {
	for _, st := range storesTo(f, path) {
		sb := st.Block()
		ub := use.Block()
		// store must be reachable from the start point and the use reachable from the store
		if after != nil && sb == after.Block() && instrIndex(st) <= instrIndex(after) && !loopsBack(sb) {
			continue
		}
		if sb == ub && instrIndex(st) >= instrIndex(use) && !loopsBack(sb) {
			continue
		}
		from := startBlock
		if after != nil {
			from = after.Block()
		}
		if reaches(from, sb) && reaches(sb, ub) {
			return true
		}
	}
	return false
}

func loopsBack(b *ssa.BasicBlock) bool {
	for _, s := range b.Succs {
		if reaches(s, b) {
			return true
		}
	}
	return false
}

// nonNil decides whether v is provably non-nil at instruction `at`. depth bounds recursion.
func (a *Analysis) nonNil(v ssa.Value, at ssa.Instruction, depth int) (bool, string) {
	if a.busy == nil {
		a.busy = map[ssa.Value]int{}
	}
	if _, isPhi := v.(*ssa.Phi); !isPhi && a.busy[v] > 0 {
		// re-entered while deciding the same value. For an element loaded from a container the cycle runs
		// through the container-class insertions (the element is inserted into a class it was loaded from):
		// coinductively fine — an element can only be nil if some insertion outside the cycle inserts nil.
		if isElementLoad(v) {
			return true, "D9 cyclic insertion"
		}
		return false, ""
	}
	a.busy[v]++
	ok, why := a.nonNil0(v, at, depth)
	a.busy[v]--
	if a.Debug {
		fmt.Fprintf(os.Stderr, "%snonNil(%T %s = %s) -> %v %s\n", strings.Repeat("  ", depth), v, v.Name(), e5path.AccessPath(v), ok, why)
	}
	return ok, why
}

func (a *Analysis) nonNil0(v ssa.Value, at ssa.Instruction, depth int) (bool, string) {
	if depth > 8 {
		return false, ""
	}
	if at != nil && len(a.Invariants) > 0 {
		name := e5path.AccessPath(v)
		if phi, ok := v.(*ssa.Phi); ok && phi.Comment != "" {
			name = phi.Comment
		}
		for _, inv := range a.Invariants {
			if inv.Value == "" && a.invariantIn(inv, at.Parent()) && strings.HasSuffix(v.Type().String(), inv.Type) {
				sp := stablePath(name)
				if inv.PathSuffix != "" && !strings.HasSuffix(sp, inv.PathSuffix) {
					continue
				}
				req := inv.Requires
				if inv.RequiresBase != "" {
					req = fmt.Sprintf(inv.RequiresBase, strings.TrimSuffix(sp, inv.PathSuffix))
				}
				if a.requirementHolds(req, at) {
					if a.UsedInvariants == nil {
						a.UsedInvariants = map[string]bool{}
					}
					a.UsedInvariants[inv.Func+":"+inv.Type+inv.PathSuffix] = true
					return true, "reviewed invariant: " + inv.Reason
				}
				continue
			}
			if inv.Value != "" && inv.Func == load.FuncName(at.Parent()) && inv.Value == stablePath(name) && a.requirementHolds(inv.Requires, at) {
				if a.UsedInvariants == nil {
					a.UsedInvariants = map[string]bool{}
				}
				a.UsedInvariants[inv.Func+":"+inv.Value] = true
				return true, "reviewed invariant: " + inv.Reason
			}
		}
	}
	switch x := v.(type) {
	case *ssa.Alloc, *ssa.MakeMap, *ssa.MakeSlice, *ssa.MakeClosure, *ssa.Function, *ssa.Global, *ssa.MakeChan:
		return true, "D1 fresh"
	case *ssa.FieldAddr, *ssa.IndexAddr:
		return true, "D1 address"
	case *ssa.MakeInterface:
		return true, "D1 interface value"
	case *ssa.Slice:
		if _, ok := x.X.(*ssa.Alloc); ok {
			return true, "D1 composite literal"
		}
		if _, isStr := x.X.Type().Underlying().(*types.Basic); !isStr {
			// re-slicing a non-nil slice yields a non-nil slice
			if ok, why := a.nonNil(x.X, at, depth+1); ok {
				return true, why
			}
		}
	case *ssa.Const:
		if !x.IsNil() {
			return true, "D1 constant"
		}
		return false, ""
	case *ssa.Parameter:
		if a.paramOK[x] {
			return true, "D2 parameter non-nil at every call site"
		}
	case *ssa.FreeVar:
		return true, "D1 captured variable address"
	case *ssa.ChangeType:
		return a.nonNil(x.X, at, depth+1)
	case *ssa.ChangeInterface:
		return a.nonNil(x.X, at, depth+1)
	case *ssa.Phi:
		if a.phiBusy == nil {
			a.phiBusy = map[*ssa.Phi]bool{}
		}
		if a.phiBusy[x] {
			return true, "D1 phi cycle" // coinductive: a value in a phi cycle is nil only if an entering edge is
		}
		a.phiBusy[x] = true
		allOK := true
		for i, e := range x.Edges {
			// the edge value is judged where it flows in: at the end of the predecessor block
			if ok, _ := a.nonNil(e, at, depth); !ok && !a.nonNilOnEdge(e, x, i) {
				allOK = false
				break
			}
		}
		delete(a.phiBusy, x)
		if allOK {
			return true, "D1 all phi inputs"
		}
	case *ssa.Call:
		if b, isB := x.Common().Value.(*ssa.Builtin); isB && b.Name() == "append" && len(x.Common().Args) == 2 {
			// append of at least one element never returns nil
			n := 0
			a.appendedElems(x.Common().Args[1], func(ssa.Value) { n++ }, func(ssa.Value) {})
			if n > 0 {
				return true, "D1 append of an element"
			}
			if ok, why := a.nonNil(x.Common().Args[0], at, depth+1); ok {
				return true, why
			}
		}
		name := calleeFullName(x.Common())
		if _, ok := libNeverNil[name]; ok {
			return true, "D5 contract: " + name
		}
		if x.Common().IsInvoke() {
			if _, ok := antlrNeverNil[x.Common().Method.Name()]; ok && strings.Contains(x.Common().Value.Type().String(), "antlr") || ok && strings.Contains(x.Common().Value.Type().String(), "/gen.") {
				return true, "D5 runtime contract: " + x.Common().Method.Name()
			}
			// the same contract through a narrower interface declared in the repository: every implementation the call can
			// reach is a method of the parser runtime or of the generated parser
			if _, ok := antlrNeverNil[x.Common().Method.Name()]; ok {
				cs := a.calleesOf(x)
				all := len(cs) > 0
				for _, c := range cs {
					if !strings.Contains(c.String(), "antlr") && !strings.Contains(c.String(), "/gen.") {
						all = false
					}
				}
				if all {
					return true, "D5 runtime contract: " + x.Common().Method.Name()
				}
			}
		}
		if c := x.Common().StaticCallee(); c != nil {
			if _, ok := antlrNeverNil[c.Name()]; ok && (strings.Contains(c.String(), "antlr") || strings.Contains(c.String(), "/gen.")) {
				return true, "D5 runtime contract: " + c.Name()
			}
			if a.neverNil[c] {
				return true, "D1 callee never returns nil: " + load.FuncName(c)
			}
		}
	case *ssa.Extract:
		if call, ok := x.Tuple.(*ssa.Call); ok {
			if c := call.Common().StaticCallee(); c != nil && a.neverNilResult(c, x.Index) {
				return true, "D1 callee never returns nil: " + load.FuncName(c)
			}
			// correlated results: non-nil whenever the callee's error result is nil, used under err == nil
			if c := call.Common().StaticCallee(); c != nil && at != nil && a.inSet[c] && depth < 6 {
				if ei := errorResultIndex(c); ei >= 0 && ei != x.Index && a.nilErrorDominates(call, ei, at) && a.nonNilOnSuccess(c, x.Index, ei, depth) {
					return true, "D1 non-nil whenever " + load.FuncName(c) + " returns a nil error, and the use is under err == nil"
				}
				// (value, ok): non-nil whenever the callee's boolean result is true, used under ok
				if bi := boolResultIndex(c); bi >= 0 && bi != x.Index && a.trueResultDominates(call, bi, at) && a.nonNilWhenTrue(c, x.Index, bi, depth) {
					return true, "D1 non-nil whenever " + load.FuncName(c) + " returns true beside it, and the use is under that flag"
				}
			}
		}
	}
	// D3: dominating nil test on the same value or the same access path
	if at != nil {
		if ok, why := a.guarded(v, at); ok {
			return true, why
		}
		// D1 (flow): a load of path P after a dominating store of a non-nil value to P
		if u, ok := v.(*ssa.UnOp); ok && u.Op == token.MUL {
			path := e5path.AccessPath(u.X)
			if !strings.HasPrefix(path, "‹") || strings.Contains(path, ".") {
				if ok, why := a.lastStoreNonNil(path, u, depth); ok {
					return true, why
				}
				if ok, why := a.flowNonNil(path, u, depth); ok {
					return true, why
				}
			}
			// a field of a fresh literal: initialised in the literal
			if fa, ok := u.X.(*ssa.FieldAddr); ok {
				if al, ok := fa.X.(*ssa.Alloc); ok {
					if ok, why := a.literalField(al, fa.Field, u, depth); ok {
						return true, why
					}
				}
				// the object was loaded from a path that was last assigned a fresh literal in this function
				if ld, ok := fa.X.(*ssa.UnOp); ok && ld.Op == token.MUL {
					if al := a.lastStoredAlloc(e5path.AccessPath(ld.X), ld); al != nil {
						if ok, why := a.literalField(al, fa.Field, u, depth); ok {
							return true, why
						}
					}
				}
			}
		}
		if ok, why := a.extraRules(v, at, depth); ok {
			return true, why
		}
		// typestate facts about listener fields
		if a.Facts != nil {
			if ok, why := a.Facts.NonNil(v, at); ok {
				return true, why
			}
			// a value read from a listener field is what the field held when it was read, whatever is stored there later
			// (declared := l.current; l.current = nil; declared.use())
			if ld, isLoad := v.(*ssa.UnOp); isLoad && ld.Op == token.MUL && ld.Parent() == at.Parent() && ssa.Instruction(ld) != at {
				if ok, why := a.Facts.NonNil(v, ld); ok {
					return true, why
				}
			}
		}
		// an expression rooted at a helper's parameter: judged at every call of the helper
		if ok, why := a.callerFacts(v, at, depth); ok {
			return true, why
		}
		// the value of a captured variable: every value the enclosing function stores into the captured cell
		if u, ok := v.(*ssa.UnOp); ok && u.Op == token.MUL {
			if fv, ok := u.X.(*ssa.FreeVar); ok {
				if ok, why := a.capturedNonNil(fv, depth); ok {
					return true, why
				}
			}
		}
	}
	return false, ""
}

// nonNilOnEdge: the i-th input of a phi is known to be non-nil on the edge it flows in through: the edge is the
// non-nil branch of a nil test of that value, or such a test dominates the predecessor block.
func (a *Analysis) nonNilOnEdge(e ssa.Value, phi *ssa.Phi, i int) bool {
	blk := phi.Block()
	if i >= len(blk.Preds) {
		return false
	}
	pred := blk.Preds[i]
	if len(pred.Instrs) == 0 {
		return false
	}
	last := pred.Instrs[len(pred.Instrs)-1]
	if iff, ok := last.(*ssa.If); ok && len(pred.Succs) == 2 && pred.Succs[0] != pred.Succs[1] {
		if bo, ok := iff.Cond.(*ssa.BinOp); ok && (bo.Op == token.NEQ || bo.Op == token.EQL) {
			var tested ssa.Value
			if c, ok := bo.Y.(*ssa.Const); ok && c.IsNil() {
				tested = bo.X
			} else if c, ok := bo.X.(*ssa.Const); ok && c.IsNil() {
				tested = bo.Y
			}
			if tested == e {
				onTrue := pred.Succs[0] == blk
				if (bo.Op == token.NEQ) == onTrue {
					return true
				}
			}
		}
	}
	ok, _ := a.guarded(e, last)
	return ok
}

// capturedNonNil: the closure's free variable is the address of a cell of the enclosing function; every store
// into that cell stores a non-nil value (typically the parameter itself, spilled once at entry).
func (a *Analysis) capturedNonNil(fv *ssa.FreeVar, depth int) (bool, string) {
	if depth > 5 {
		return false, ""
	}
	cl := fv.Parent()
	outer := cl.Parent()
	if outer == nil {
		return false, ""
	}
	idx := -1
	for i, x := range cl.FreeVars {
		if x == fv {
			idx = i
		}
	}
	found := false
	for _, b := range outer.Blocks {
		for _, in := range b.Instrs {
			mc, ok := in.(*ssa.MakeClosure)
			if !ok || mc.Fn != ssa.Value(cl) || idx < 0 || idx >= len(mc.Bindings) {
				continue
			}
			cell, ok := mc.Bindings[idx].(*ssa.Alloc)
			if !ok || cell.Referrers() == nil {
				return false, ""
			}
			for _, ref := range *cell.Referrers() {
				st, ok := ref.(*ssa.Store)
				if !ok || st.Addr != ssa.Value(cell) {
					continue
				}
				found = true
				if nn, _ := a.nonNil(st.Val, st, depth+1); !nn {
					return false, ""
				}
			}
		}
	}
	if found {
		return true, "D1 every value stored into the captured variable is non-nil"
	}
	return false, ""
}

// callerFacts: v is read through a path rooted at a parameter of a helper (a function that is not an entry
// point and whose callers are all known): the same path rooted at the argument is non-nil at every call site,
// and the helper does not store to the path before the use. This is what keeps a fact when a block of a long
// function is extracted into a helper.
func (a *Analysis) callerFacts(v ssa.Value, at ssa.Instruction, depth int) (bool, string) {
	if depth > 5 || a.cfDepth > 2 {
		return false, ""
	}
	f := at.Parent()
	if f == nil || a.entry[f] || len(a.callers[f]) == 0 {
		return false, ""
	}
	path := e5path.AccessPath(v)
	pi, rest := -1, ""
	for i, prm := range f.Params {
		n := prm.Name()
		if strings.HasPrefix(path, n+".") || strings.HasPrefix(path, n+"[") {
			pi, rest = i, path[len(n):]
		}
	}
	if pi < 0 {
		return false, ""
	}
	// not overwritten inside the helper before the use
	parts := strings.Split(path, ".")
	for i := 2; i <= len(parts); i++ {
		prefix := strings.Join(parts[:i], ".")
		if strings.HasSuffix(prefix, ")") {
			continue
		}
		if storeBetween(f, prefix, f.Blocks[0], nil, at) {
			return false, ""
		}
	}
	_, isLoad := v.(*ssa.UnOp)
	a.cfDepth++
	defer func() { a.cfDepth-- }()
	why := ""
	for _, site := range a.callers[f] {
		args := site.Common().Args
		cs, isInstr := site.(ssa.Instruction)
		if pi >= len(args) || !isInstr {
			return false, ""
		}
		ok, w := a.pathNonNilAt(e5path.AccessPath(args[pi])+rest, v.Type(), isLoad, cs, depth+1)
		if !ok {
			return false, ""
		}
		why = w
	}
	return true, why + " — at every call of " + f.Name()
}

// pathNonNilAt decides non-nilness of an expression given by its access path at an instruction: a value with
// that path that is live there, a reviewed typed invariant, a dominating nil test on the same expression,
// the forward flow of stores, the grammar typestate, or (for a path rooted at a parameter) the callers again.
func (a *Analysis) pathNonNilAt(path string, typ types.Type, isLoad bool, at ssa.Instruction, depth int) (bool, string) {
	if depth > 6 {
		return false, ""
	}
	f := at.Parent()
	// (a) a value with the same path computed before `at` with nothing stored in between
	for _, b := range f.Blocks {
		for _, in := range b.Instrs {
			val, ok := in.(ssa.Value)
			if !ok || val.Type().String() != typ.String() || e5path.AccessPath(val) != path {
				continue
			}
			dom := b.Dominates(at.Block()) && (b != at.Block() || instrIndex(in) < instrIndex(at))
			if !dom || a.pathStoredBetween(path, in, at) {
				continue
			}
			if ok, why := a.nonNil(val, at, depth+1); ok {
				return true, why
			}
		}
	}
	// (b) reviewed typed invariants
	sp := stablePath(path)
	for _, inv := range a.Invariants {
		if inv.Value != "" || !a.invariantIn(inv, f) || !strings.HasSuffix(typ.String(), inv.Type) {
			continue
		}
		if inv.PathSuffix != "" && !strings.HasSuffix(sp, inv.PathSuffix) {
			continue
		}
		req := inv.Requires
		if inv.RequiresBase != "" {
			req = fmt.Sprintf(inv.RequiresBase, strings.TrimSuffix(sp, inv.PathSuffix))
		}
		if a.requirementHolds(req, at) {
			if a.UsedInvariants == nil {
				a.UsedInvariants = map[string]bool{}
			}
			a.UsedInvariants[inv.Func+":"+inv.Type+inv.PathSuffix] = true
			return true, "reviewed invariant: " + inv.Reason
		}
	}
	// (c) dominating nil test on the same expression
	for _, ce := range e5path.DominatingConds(at.Block()) {
		bo, ok := ce.Cond.(*ssa.BinOp)
		if !ok || (bo.Op != token.NEQ && bo.Op != token.EQL) {
			continue
		}
		var tested ssa.Value
		if c, ok := bo.Y.(*ssa.Const); ok && c.IsNil() {
			tested = bo.X
		} else if c, ok := bo.X.(*ssa.Const); ok && c.IsNil() {
			tested = bo.Y
		}
		if tested == nil || (bo.Op == token.NEQ) != ce.Branch || e5path.AccessPath(tested) != path {
			continue
		}
		if !a.pathStoredBetween(path, ce.If, at) {
			return true, "D3 dominating nil test on the same expression (" + path + ")"
		}
	}
	// (d) forward flow of stores to the path
	if !strings.HasPrefix(path, "‹") || strings.Contains(path, ".") {
		if ok, why := a.flowNonNil(path, at, depth); ok {
			return true, why
		}
	}
	// (e) grammar typestate
	if a.Facts != nil {
		if ok, why := a.Facts.NonNilPath(path, isLoad, at); ok {
			return true, why
		}
	}
	// (f) rooted at a parameter of this function: its callers
	if !a.entry[f] && len(a.callers[f]) > 0 && a.cfDepth <= 2 {
		for i, prm := range f.Params {
			n := prm.Name()
			if !(strings.HasPrefix(path, n+".") || strings.HasPrefix(path, n+"[")) {
				continue
			}
			rest := path[len(n):]
			okAll, why := true, ""
			a.cfDepth++
			for _, site := range a.callers[f] {
				cs, isInstr := site.(ssa.Instruction)
				if i >= len(site.Common().Args) || !isInstr {
					okAll = false
					break
				}
				ok, w := a.pathNonNilAt(e5path.AccessPath(site.Common().Args[i])+rest, typ, isLoad, cs, depth+1)
				if !ok {
					okAll = false
					break
				}
				why = w
			}
			a.cfDepth--
			if okAll {
				return true, why
			}
		}
	}
	return false, ""
}

// literalField: the field of a fresh object was stored a non-nil value and not overwritten since.
func (a *Analysis) literalField(al *ssa.Alloc, field int, use ssa.Instruction, depth int) (bool, string) {
	refs := al.Referrers()
	if refs == nil {
		return false, ""
	}
	var last *ssa.Store
	for _, ref := range *refs {
		fa, ok := ref.(*ssa.FieldAddr)
		if !ok || fa.Field != field || fa.Referrers() == nil {
			continue
		}
		for _, r2 := range *fa.Referrers() {
			if st, ok := r2.(*ssa.Store); ok && st.Block().Dominates(use.Block()) {
				if last == nil || last.Block().Dominates(st.Block()) {
					last = st
				}
			}
		}
	}
	if last == nil {
		return false, ""
	}
	if ok, _ := a.nonNil(last.Val, last, depth+1); ok {
		return true, "D1 field initialised in the literal"
	}
	return false, ""
}

// lastStoreNonNil: every path to `use` passes a store of a non-nil value to `path` with no later
// store of something else.
func (a *Analysis) lastStoreNonNil(path string, use ssa.Instruction, depth int) (bool, string) {
	f := use.Parent()
	var best *ssa.Store
	for _, st := range storesTo(f, path) {
		dom := st.Block().Dominates(use.Block()) && (st.Block() != use.Block() || instrIndex(st) < instrIndex(use))
		if !dom {
			continue
		}
		if ok, _ := a.nonNil(st.Val, st, depth+1); !ok {
			continue
		}
		if storeBetween(f, path, nil, st, use) {
			continue
		}
		best = st
	}
	if best != nil {
		return true, "D1 stored non-nil earlier in this function (" + path + ")"
	}
	return false, ""
}

// guarded: v is dominated by a test that establishes v != nil.
func (a *Analysis) guarded(v ssa.Value, at ssa.Instruction) (bool, string) {
	path := e5path.AccessPath(v)
	usePath := !strings.HasPrefix(path, "‹") || strings.Contains(path, ".") || strings.Contains(path, "[")
	for _, ce := range e5path.DominatingConds(at.Block()) {
		bo, ok := ce.Cond.(*ssa.BinOp)
		if !ok || (bo.Op != token.NEQ && bo.Op != token.EQL) {
			continue
		}
		var tested ssa.Value
		if c, ok := bo.Y.(*ssa.Const); ok && c.IsNil() {
			tested = bo.X
		} else if c, ok := bo.X.(*ssa.Const); ok && c.IsNil() {
			tested = bo.Y
		}
		if tested == nil {
			continue
		}
		nonNilOnBranch := (bo.Op == token.NEQ) == ce.Branch
		if !nonNilOnBranch {
			continue
		}
		if tested == v {
			return true, "D3 dominating nil test"
		}
		if usePath && e5path.AccessPath(tested) == path {
			// same expression recomputed: valid if nothing stored to a prefix path in between
			if !a.pathStoredBetween(path, ce.If, at) {
				return true, "D3 dominating nil test on the same expression (" + path + ")"
			}
		}
	}
	// a dominating test that the same map / slice expression is non-empty: len(x) > 0 implies x != nil
	if usePath {
		for _, ce := range e5path.DominatingConds(at.Block()) {
			bo, ok := ce.Cond.(*ssa.BinOp)
			if !ok {
				continue
			}
			lx := lenOf(bo.X)
			c, isC := constInt(bo.Y)
			if lx == nil || !isC || e5path.AccessPath(lx) != path {
				continue
			}
			nonEmpty := false
			switch {
			case bo.Op == token.EQL && c == 0 && !ce.Branch,
				bo.Op == token.NEQ && c == 0 && ce.Branch,
				bo.Op == token.GTR && c >= 0 && ce.Branch,
				bo.Op == token.GEQ && c >= 1 && ce.Branch,
				bo.Op == token.LEQ && c >= 0 && !ce.Branch,
				bo.Op == token.LSS && c >= 1 && !ce.Branch:
				nonEmpty = true
			}
			if nonEmpty && !a.pathStoredBetween(path, ce.If, at) {
				return true, "D3 dominating test that " + path + " is non-empty (hence non-nil)"
			}
		}
	}
	// a value read THROUGH the expression was found to be non-zero: x.GetA().GetB() != "" (generated getters are nil-safe
	// and return the zero value for a nil receiver) or x.A.B != "" (the read itself went through x.A) implies x.A != nil
	if usePath {
		for _, ce := range e5path.DominatingConds(at.Block()) {
			bo, ok := ce.Cond.(*ssa.BinOp)
			if !ok || (bo.Op != token.NEQ && bo.Op != token.EQL) {
				continue
			}
			var tested ssa.Value
			isZero := func(x ssa.Value) bool {
				c, ok := x.(*ssa.Const)
				if !ok {
					return false
				}
				if c.Value == nil {
					return true
				}
				switch c.Value.Kind() {
				case constant.String:
					return constant.StringVal(c.Value) == ""
				case constant.Int:
					return constant.Sign(c.Value) == 0
				}
				return false
			}
			if isZero(bo.Y) {
				tested = bo.X
			} else if isZero(bo.X) {
				tested = bo.Y
			}
			if tested == nil || (bo.Op == token.NEQ) != ce.Branch {
				continue
			}
			if tp := e5path.AccessPath(tested); strings.HasPrefix(tp, path+".") && !a.pathStoredBetween(path, ce.If, at) {
				return true, "D3 a value read through " + path + " (" + tp + ") was found non-zero: nil-safe getters give the zero value for a nil receiver"
			}
		}
	}
	// comma-ok forms: v is Extract #0 of a lookup/assert whose #1 is tested true
	if ex, ok := v.(*ssa.Extract); ok && ex.Index == 0 {
		for _, ce := range e5path.DominatingConds(at.Block()) {
			if e2, ok := ce.Cond.(*ssa.Extract); ok && e2.Tuple == ex.Tuple && e2.Index == 1 && ce.Branch {
				if _, isAssert := ex.Tuple.(*ssa.TypeAssert); isAssert {
					return true, "D3 comma-ok assertion succeeded"
				}
			}
		}
	}
	return false, ""
}

// pathStoredBetween: a store to the path or to one of its prefixes between the test and the use.
func (a *Analysis) pathStoredBetween(path string, test ssa.Instruction, use ssa.Instruction) bool {
	f := use.Parent()
	parts := strings.Split(path, ".")
	for i := 2; i <= len(parts); i++ {
		prefix := strings.Join(parts[:i], ".")
		if strings.HasSuffix(prefix, ")") {
			continue // accessor call results are not storable
		}
		if storeBetween(f, prefix, nil, test, use) {
			return true
		}
	}
	return false
}

// neverNilResult: result #i of f is never nil (computed summary).
func (a *Analysis) neverNilResult(f *ssa.Function, i int) bool {
	if i == 0 && a.neverNil[f] {
		return true
	}
	return a.neverNilN[f][i]
}

func errorResultIndex(f *ssa.Function) int {
	res := f.Signature.Results()
	for i := res.Len() - 1; i >= 0; i-- {
		if n, ok := res.At(i).Type().(*types.Named); ok && n.Obj().Pkg() == nil && n.Obj().Name() == "error" {
			return i
		}
	}
	return -1
}

// nilErrorDominates: `at` is reached only on the nil branch of a test of the call's error result.
func (a *Analysis) nilErrorDominates(call *ssa.Call, ei int, at ssa.Instruction) bool {
	for _, ce := range e5path.DominatingConds(at.Block()) {
		bo, ok := ce.Cond.(*ssa.BinOp)
		if !ok || (bo.Op != token.EQL && bo.Op != token.NEQ) {
			continue
		}
		x, other := bo.X, bo.Y
		if c, isC := x.(*ssa.Const); isC && c.IsNil() {
			x, other = other, x
		}
		if c, isC := other.(*ssa.Const); !isC || !c.IsNil() {
			continue
		}
		ex, ok := x.(*ssa.Extract)
		if !ok || ex.Tuple != ssa.Value(call) || ex.Index != ei {
			continue
		}
		if (bo.Op == token.EQL) == ce.Branch {
			return true
		}
	}
	return false
}

// boolResultIndex: the index of the only boolean result of f (-1 when there is none or several).
func boolResultIndex(f *ssa.Function) int {
	idx := -1
	res := f.Signature.Results()
	for i := 0; i < res.Len(); i++ {
		if b, ok := res.At(i).Type().Underlying().(*types.Basic); ok && b.Kind() == types.Bool {
			if idx >= 0 {
				return -1
			}
			idx = i
		}
	}
	return idx
}

// trueResultDominates: the use is reached only when the bi-th result of the call is true.
func (a *Analysis) trueResultDominates(call *ssa.Call, bi int, at ssa.Instruction) bool {
	for _, ce := range e5path.DominatingConds(at.Block()) {
		cond, branch := ce.Cond, ce.Branch
		for {
			u, ok := cond.(*ssa.UnOp)
			if !ok || u.Op != token.NOT {
				break
			}
			cond, branch = u.X, !branch
		}
		ex, ok := cond.(*ssa.Extract)
		if ok && ex.Tuple == ssa.Value(call) && ex.Index == bi && branch {
			return true
		}
	}
	return false
}

// nonNilWhenTrue: on every return of f whose boolean result bi is not the constant false, result ri is non-nil.
func (a *Analysis) nonNilWhenTrue(f *ssa.Function, ri, bi int, depth int) bool {
	rets := 0
	for _, b := range f.Blocks {
		ret, ok := b.Instrs[len(b.Instrs)-1].(*ssa.Return)
		if !ok || ri >= len(ret.Results) || bi >= len(ret.Results) {
			continue
		}
		rets++
		if c, isC := ret.Results[bi].(*ssa.Const); isC && c.Value != nil && c.Value.Kind() == constant.Bool && !constant.BoolVal(c.Value) {
			continue
		}
		if nn, _ := a.nonNil(ret.Results[ri], ret, depth+1); !nn {
			return false
		}
	}
	return rets > 0
}

// nonNilOnSuccess: on every return of f whose error result may be nil, result ri is non-nil.
func (a *Analysis) nonNilOnSuccess(f *ssa.Function, ri, ei int, depth int) bool {
	rets := 0
	for _, b := range f.Blocks {
		ret, ok := b.Instrs[len(b.Instrs)-1].(*ssa.Return)
		if !ok || ri >= len(ret.Results) || ei >= len(ret.Results) {
			continue
		}
		rets++
		if c, isC := ret.Results[ei].(*ssa.Const); !isC || c.IsNil() {
			// a nil (or not provably non-nil) error: the result must be non-nil
			if !isC {
				if nn, _ := a.nonNil(ret.Results[ei], ret, depth+1); nn {
					continue // an error path
				}
			}
			if nn, _ := a.nonNil(ret.Results[ri], ret, depth+1); !nn {
				return false
			}
		}
	}
	return rets > 0
}

// Summaries computes never-nil results and parameter non-nilness to a fixpoint.
func (a *Analysis) Summaries(entryNonNilParams map[*ssa.Function][]int) {
	a.entry = map[*ssa.Function]bool{}
	for f := range entryNonNilParams {
		a.entry[f] = true
	}
	a.neverNil = map[*ssa.Function]bool{}
	a.neverNilN = map[*ssa.Function]map[int]bool{}
	a.paramOK = map[*ssa.Parameter]bool{}
	// optimistic start for parameters of non-entry functions; entry points by table
	for _, f := range a.Funcs {
		if idxs, isEntry := entryNonNilParams[f]; isEntry {
			for _, i := range idxs {
				if i < len(f.Params) {
					a.paramOK[f.Params[i]] = true
				}
			}
			continue
		}
		for _, prm := range f.Params {
			a.paramOK[prm] = true
		}
		for _, fv := range f.FreeVars {
			_ = fv
		}
	}
	for iter := 0; iter < 30; iter++ {
		changed := false
		a.classMemo = nil
		// never-nil results for every result position (pessimistic growth)
		for _, f := range a.Funcs {
			for ri := 0; ri < f.Signature.Results().Len(); ri++ {
				if a.neverNilN[f][ri] || !pointerish(f.Signature.Results().At(ri).Type()) {
					continue
				}
				all, n := true, 0
				for _, b := range f.Blocks {
					for _, in := range b.Instrs {
						if ret, ok := in.(*ssa.Return); ok && ri < len(ret.Results) {
							n++
							if ok, _ := a.nonNil(ret.Results[ri], ret, 0); !ok {
								all = false
							}
						}
					}
				}
				if all && n > 0 {
					if a.neverNilN[f] == nil {
						a.neverNilN[f] = map[int]bool{}
					}
					a.neverNilN[f][ri] = true
					changed = true
				}
			}
		}
		for _, f := range a.Funcs {
			if a.neverNil[f] || f.Signature.Results().Len() == 0 || !pointerish(f.Signature.Results().At(0).Type()) {
				continue
			}
			all := true
			n := 0
			for _, b := range f.Blocks {
				for _, in := range b.Instrs {
					if ret, ok := in.(*ssa.Return); ok {
						n++
						if ok, _ := a.nonNil(ret.Results[0], ret, 0); !ok {
							all = false
						}
					}
				}
			}
			if all && n > 0 {
				a.neverNil[f] = true
				changed = true
			}
		}
		// parameters: falsify
		for _, f := range a.Funcs {
			if _, isEntry := entryNonNilParams[f]; isEntry {
				continue
			}
			sites := a.callers[f]
			for pi, prm := range f.Params {
				if !a.paramOK[prm] || !pointerish(prm.Type()) {
					continue
				}
				if len(sites) == 0 {
					// reached through an interface or as a function value
					if pi == 0 && f.Signature.Recv() != nil && a.receiverAlwaysWrappedNonNil(f) {
						continue
					}
					a.paramOK[prm] = false
					changed = true
					continue
				}
				for _, site := range sites {
					cc := site.Common()
					args := cc.Args
					if cc.IsInvoke() {
						args = append([]ssa.Value{cc.Value}, args...)
					}
					if pi >= len(args) {
						continue
					}
					if ok, _ := a.nonNil(args[pi], site, 0); !ok {
						a.paramOK[prm] = false
						changed = true
						break
					}
				}
			}
		}
		if !changed {
			break
		}
	}
}

// Discharge applies the rules to every obligation and emits records.
func (a *Analysis) Discharge(rule string) {
	counts := map[string]int{}
	a.classMemo = nil
	for _, o := range a.Obls {
		counts[o.Kind]++
		var ok bool
		var why string
		if dbg := os.Getenv("VERIF_E4_DEBUG"); dbg != "" && o.Val != nil {
			a.Debug = strings.Contains(fmt.Sprintf("%s:%s:%s", o.Kind, load.FuncName(o.Fn), stablePath(e5path.AccessPath(o.Val))), dbg)
			if a.Debug {
				fmt.Fprintf(os.Stderr, "=== %s %s at %s\n", o.Kind, o.Instr, a.P.Pos(o.Instr.Pos()))
			}
		}
		switch o.Kind {
		case "nil-deref", "nil-map", "invoke", "call-nil-func":
			ok, why = a.nonNil(o.Val, o.Instr, 0)
		case "index", "slice":
			ok, why = a.inBounds(o)
		case "assert":
			ok, why = false, ""
		case "panic":
			ok, why = false, ""
		case "div":
			if c, isC := o.Val.(*ssa.Const); isC && c.Value != nil && constant.Sign(c.Value) != 0 {
				ok, why = true, "constant divisor"
			}
		}
		path := "-"
		if o.Val != nil {
			path = e5path.AccessPath(o.Val)
		}
		stable := stablePath(path)
		construct := fmt.Sprintf("%s:%s:%s", o.Kind, load.FuncName(o.Fn), stable)
		if !ok {
			for _, ex := range a.Exceptions {
				if ex.Func == load.FuncName(o.Fn) && ex.Kind == o.Kind && ex.Path == stable {
					ok, why = true, "reviewed exception: "+ex.Reason
				}
			}
		}
		if ok {
			o.By = why
			a.R.OK(rule, construct, a.P.Pos(o.Instr.Pos()), ruleName(why), why)
		} else {
			a.R.Bad(rule, construct, a.P.Pos(o.Instr.Pos()), describeFailure(o, path))
		}
	}
	a.R.Analysed["may_panic_instructions_by_kind"] = counts
}

func ruleName(why string) string {
	if i := strings.Index(why, " "); i > 0 {
		return why[:i]
	}
	return why
}

// stablePath removes run-specific names from a path so that constructs are reproducible keys.
func stablePath(p string) string {
	var sb strings.Builder
	for i := 0; i < len(p); i++ {
		if strings.HasPrefix(p[i:], "‹") {
			j := strings.Index(p[i:], "›")
			if j > 0 {
				sb.WriteString("‹v›")
				i += j + len("›") - 1
				continue
			}
		}
		sb.WriteByte(p[i])
	}
	return sb.String()
}

func describeFailure(o *Obligation, path string) string {
	switch o.Kind {
	case "nil-deref":
		return "possible nil dereference of " + path + ": no allocation, guard, contract or parser-state fact shows it is non-nil here"
	case "nil-map":
		return "possible write to a nil map " + path + ": the map is not shown to be initialised on every path that reaches this write"
	case "invoke":
		return "method call on the interface value " + path + ", which may be nil here"
	case "index":
		return "index expression on " + path + " is not shown to be in bounds"
	case "slice":
		return "slice expression on " + path + " is not shown to be in bounds"
	case "assert":
		return "type assertion without comma-ok on " + path
	case "panic":
		return "explicit panic (or call of a Must* function) on a path from a public entry point"
	case "call-nil-func":
		return "call of the function value " + path + ", which may be nil"
	case "div":
		return "integer division by a value that may be zero"
	}
	return o.Kind
}

// Summary lists discharge rule counts for the evidence.
func (a *Analysis) Summary() map[string]int {
	out := map[string]int{}
	for _, o := range a.Obls {
		if o.By != "" {
			out[ruleName(o.By)]++
		} else {
			out["undischarged"]++
		}
	}
	return out
}

// SortObligations orders obligations for reproducible output.
func (a *Analysis) SortObligations() {
	sort.SliceStable(a.Obls, func(i, j int) bool {
		fi, fj := load.FuncName(a.Obls[i].Fn), load.FuncName(a.Obls[j].Fn)
		if fi != fj {
			return fi < fj
		}
		return a.Obls[i].Instr.Pos() < a.Obls[j].Instr.Pos()
	})
}

// receiverAlwaysWrappedNonNil: the method is only reachable through interface dispatch; every
// conversion of its receiver type to an interface in the analysed code wraps a non-nil pointer.
func (a *Analysis) receiverAlwaysWrappedNonNil(f *ssa.Function) bool {
	rt := f.Signature.Recv().Type()
	n := 0
	for _, g := range a.Funcs {
		for _, b := range g.Blocks {
			for _, in := range b.Instrs {
				mi, ok := in.(*ssa.MakeInterface)
				if !ok || !types.Identical(mi.X.Type(), rt) {
					continue
				}
				n++
				if ok, _ := a.nonNil(mi.X, mi, 0); !ok {
					return false
				}
			}
		}
	}
	// n == 0: no value of this type is ever put into an interface by the analysed code, so the dynamic
	// dispatch edge that made the method look reachable cannot be taken from it
	return true
}

// libFieldNeverNil: fields of library / generated types that their constructors always set.
var libFieldNeverNil = map[string]string{
	"OpenFGALexer.BaseLexer":   "set by the generated constructor NewOpenFGALexer",
	"OpenFGAParser.BaseParser": "set by the generated constructor NewOpenFGAParser",
}

// libElemNeverNil: container fields of library types whose elements are never nil.
var libElemNeverNil = map[string]string{
	"Node.Content": "yaml.v3 fills Content with the child nodes it allocated",
	"Error.Errors": "multierror.Append never stores nil errors it was not given; the repository only appends non-nil errors",
}

func fieldKey(fa *ssa.FieldAddr) string {
	t := fa.X.Type()
	if p, ok := t.Underlying().(*types.Pointer); ok {
		t = p.Elem()
	}
	n, ok := t.(*types.Named)
	if !ok {
		return ""
	}
	st, ok := n.Underlying().(*types.Struct)
	if !ok || fa.Field >= st.NumFields() {
		return ""
	}
	return n.Obj().Name() + "." + st.Field(fa.Field).Name()
}

// extraRules: contracts on loads.
func (a *Analysis) extraRules(v ssa.Value, at ssa.Instruction, depth int) (bool, string) {
	u, ok := v.(*ssa.UnOp)
	if !ok || u.Op != token.MUL {
		// element obtained by ranging a map: Extract #2 of Next over a container
		if ex, isEx := v.(*ssa.Extract); isEx {
			if nx, isNx := ex.Tuple.(*ssa.Next); isNx && ex.Index == 2 {
				if rg, isRg := nx.Iter.(*ssa.Range); isRg {
					return a.containerElemNonNil(rg.X, at, depth)
				}
			}
		}
		// v, ok := m[k] used under ok: an element of m
		if ex, isEx := v.(*ssa.Extract); isEx && ex.Index == 0 {
			if lk, isLk := ex.Tuple.(*ssa.Lookup); isLk && lk.CommaOk {
				for _, ce := range e5path.DominatingConds(at.Block()) {
					if e2, ok := ce.Cond.(*ssa.Extract); ok && e2.Tuple == ex.Tuple && e2.Index == 1 && ce.Branch {
						if _, isMap := lk.X.Type().Underlying().(*types.Map); isMap {
							return a.containerElemNonNil(lk.X, at, depth)
						}
					}
				}
			}
		}
		if lk, isLk := v.(*ssa.Lookup); isLk && !lk.CommaOk {
			// m[k] where k was obtained by ranging the same map and elements are never nil
			if a.keyFromRangeOf(lk.Index, lk.X) {
				return a.containerElemNonNil(lk.X, at, depth)
			}
			if a.keyFromKeyListOf(lk.Index, lk.X) {
				return a.containerElemNonNil(lk.X, at, depth)
			}
			// m[k] after m[k] = nonNil in this function
			if ok, why := a.lastMapUpdateNonNil(lk, at, depth); ok {
				return true, why
			}
		}
		return false, ""
	}
	switch x := u.X.(type) {
	case *ssa.FieldAddr:
		if why, ok := libFieldNeverNil[fieldKey(x)]; ok {
			return true, "D5 contract: " + why
		}
	case *ssa.IndexAddr:
		return a.containerElemNonNil(x.X, at, depth)
	case *ssa.Alloc:
		// errors.As(err, &target) returned true
		for _, ce := range e5path.DominatingConds(at.Block()) {
			call, isCall := ce.Cond.(*ssa.Call)
			if !isCall || !ce.Branch || calleeFullName(call.Common()) != "errors.As" {
				continue
			}
			arg := call.Common().Args[1]
			if mi, isMI := arg.(*ssa.MakeInterface); isMI {
				arg = mi.X
			}
			if arg == ssa.Value(x) {
				return true, "D5 errors.As returned true: the target was set to a matching non-nil error"
			}
		}
	}
	return false, ""
}

// keyFromRangeOf: k is the key variable of a range over the same map value m.
func (a *Analysis) keyFromRangeOf(k ssa.Value, m ssa.Value) bool {
	ex, ok := k.(*ssa.Extract)
	if !ok || ex.Index != 1 {
		return false
	}
	nx, ok := ex.Tuple.(*ssa.Next)
	if !ok {
		return false
	}
	rg, ok := nx.Iter.(*ssa.Range)
	return ok && sameValue(rg.X, m)
}

// lastMapUpdateNonNil: the looked-up slot was assigned a non-nil value earlier in this function
// (same map path, same key path) and not reassigned since.
func (a *Analysis) lastMapUpdateNonNil(lk *ssa.Lookup, at ssa.Instruction, depth int) (bool, string) {
	f := lk.Parent()
	mp, kp := e5path.AccessPath(lk.X), e5path.AccessPath(lk.Index)
	var best *ssa.MapUpdate
	for _, b := range f.Blocks {
		for _, in := range b.Instrs {
			mu, ok := in.(*ssa.MapUpdate)
			if !ok || e5path.AccessPath(mu.Map) != mp || e5path.AccessPath(mu.Key) != kp {
				continue
			}
			if b.Dominates(lk.Block()) && (b != lk.Block() || instrIndex(mu) < instrIndex(lk)) {
				best = mu
			}
		}
	}
	if best == nil {
		return false, ""
	}
	if ok, _ := a.nonNil(best.Value, best, depth+1); ok {
		return true, "D1 map slot assigned non-nil earlier in this function"
	}
	return false, ""
}

// containerElemNonNil (D9): the elements of container c are never nil — a library contract, or
// every insertion into the container's class in the analysed code inserts a non-nil value and the
// container is not handed in by the caller.
func (a *Analysis) containerElemNonNil(c ssa.Value, at ssa.Instruction, depth int) (bool, string) {
	if depth > 6 {
		return false, ""
	}
	// library contracts by field
	if u, ok := c.(*ssa.UnOp); ok && u.Op == token.MUL {
		if fa, ok := u.X.(*ssa.FieldAddr); ok {
			if why, ok := libElemNeverNil[fieldKey(fa)]; ok {
				return true, "D5 contract: " + why
			}
		}
	}
	// a container handed to a helper: what every caller passes
	if prm, isP := c.(*ssa.Parameter); isP && !a.entry[prm.Parent()] && len(a.callers[prm.Parent()]) > 0 {
		idx := -1
		for i, q := range prm.Parent().Params {
			if q == prm {
				idx = i
			}
		}
		okAll, why := idx >= 0, ""
		for _, site := range a.callers[prm.Parent()] {
			cs, isInstr := site.(ssa.Instruction)
			if !okAll || idx >= len(site.Common().Args) || !isInstr {
				okAll = false
				break
			}
			ok, w := a.containerElemNonNil(site.Common().Args[idx], cs, depth+1)
			if !ok {
				okAll = false
			}
			why = w
		}
		if okAll {
			return true, why
		}
		return false, ""
	}
	if u, ok := c.(*ssa.UnOp); ok && u.Op == token.MUL {
		if g, ok := u.X.(*ssa.Global); ok {
			if a.globalTableNonNil(g, depth) {
				return true, "D9 package-level table " + g.Name() + ": filled by its initialiser with non-nil values and never written afterwards"
			}
			return false, ""
		}
	}
	if a.fromEntryParam(c, 0) {
		return false, ""
	}
	class := containerClass(c)
	if class == "" {
		return false, ""
	}
	if a.Debug {
		fmt.Fprintf(os.Stderr, "   containerElemNonNil(%s) class=%q depth=%d\n", e5path.AccessPath(c), class, depth)
	}
	if ok := a.classInsertionsNonNil(class, depth); ok {
		return true, "D9 every insertion into " + class + " in the repository inserts a non-nil value; the container is built internally"
	}
	return false, ""
}

// globalTableNonNil: an unexported package-level map or slice whose only store is the one in the package
// initialiser, of a composite literal whose elements are all non-nil, and which is otherwise only read
// (looked up, ranged, measured) — never updated, re-assigned, passed along or address-taken.
func (a *Analysis) globalTableNonNil(g *ssa.Global, depth int) bool {
	if a.globalMemo == nil {
		a.globalMemo = map[*ssa.Global]bool{}
	}
	if v, ok := a.globalMemo[g]; ok {
		return v
	}
	a.globalMemo[g] = false
	if g.Object() == nil || g.Object().Exported() || g.Pkg == nil {
		return false
	}
	init := g.Pkg.Func("init")
	if init == nil {
		return false
	}
	funcs := append([]*ssa.Function{init}, a.Funcs...)
	for _, m := range g.Pkg.Members {
		if f, ok := m.(*ssa.Function); ok && !a.inSet[f] && f != init {
			funcs = append(funcs, f)
		}
	}
	var initVal ssa.Value
	readOnly := func(v ssa.Value) bool {
		if v.Referrers() == nil {
			return true
		}
		for _, ref := range *v.Referrers() {
			switch r := ref.(type) {
			case *ssa.Lookup:
				if r.X != v {
					return false
				}
			case *ssa.Range, *ssa.DebugRef:
			case *ssa.IndexAddr:
				if r.Referrers() != nil {
					for _, rr := range *r.Referrers() {
						if ld, ok := rr.(*ssa.UnOp); !ok || ld.Op != token.MUL {
							return false
						}
					}
				}
			case *ssa.Call:
				if b, ok := r.Common().Value.(*ssa.Builtin); !ok || b.Name() != "len" {
					return false
				}
			default:
				return false
			}
		}
		return true
	}
	seenFn := map[*ssa.Function]bool{}
	var all []*ssa.Function
	var addFn func(f *ssa.Function)
	addFn = func(f *ssa.Function) {
		if f == nil || seenFn[f] {
			return
		}
		seenFn[f] = true
		all = append(all, f)
		for _, an := range f.AnonFuncs {
			addFn(an)
		}
	}
	for _, f := range funcs {
		addFn(f)
	}
	for _, f := range all {
		for _, b := range f.Blocks {
			for _, in := range b.Instrs {
				for _, op := range in.Operands(nil) {
					if *op != ssa.Value(g) {
						continue
					}
					switch x := in.(type) {
					case *ssa.Store:
						if x.Addr != ssa.Value(g) || f != init || initVal != nil {
							return false
						}
						initVal = x.Val
					case *ssa.UnOp:
						if x.Op != token.MUL || !readOnly(x) {
							return false
						}
					case *ssa.DebugRef:
					default:
						return false
					}
				}
			}
		}
	}
	if initVal == nil {
		return false
	}
	n, okAll := 0, true
	switch iv := initVal.(type) {
	case *ssa.MakeMap:
		if iv.Referrers() == nil {
			return false
		}
		for _, ref := range *iv.Referrers() {
			switch r := ref.(type) {
			case *ssa.MapUpdate:
				n++
				if ok, _ := a.nonNil(r.Value, r, depth+1); !ok {
					okAll = false
				}
			case *ssa.Store, *ssa.DebugRef:
			default:
				return false
			}
		}
	case *ssa.Slice:
		al, ok := iv.X.(*ssa.Alloc)
		if !ok || al.Referrers() == nil {
			return false
		}
		for _, ref := range *al.Referrers() {
			switch r := ref.(type) {
			case *ssa.IndexAddr:
				if r.Referrers() == nil {
					continue
				}
				for _, rr := range *r.Referrers() {
					st, ok := rr.(*ssa.Store)
					if !ok || st.Addr != ssa.Value(r) {
						return false
					}
					n++
					if ok, _ := a.nonNil(st.Val, st, depth+1); !ok {
						okAll = false
					}
				}
			case *ssa.Slice, *ssa.DebugRef:
			default:
				return false
			}
		}
	default:
		return false
	}
	a.globalMemo[g] = okAll && n > 0
	return okAll && n > 0
}

// fromEntryParam: the value derives from a parameter of an entry point (caller-provided memory).
func (a *Analysis) fromEntryParam(v ssa.Value, depth int) bool {
	if depth == 0 {
		a.fepSeen = map[ssa.Value]bool{}
	}
	if a.fepSeen[v] {
		return false // already being examined on this path (phi cycle)
	}
	a.fepSeen[v] = true
	if depth > 40 {
		return true
	}
	switch x := v.(type) {
	case *ssa.Parameter:
		f := x.Parent()
		if len(a.callers[f]) == 0 {
			return a.entry[f] && !a.internalParam[x]
		}
		for _, site := range a.callers[f] {
			cc := site.Common()
			args := cc.Args
			if cc.IsInvoke() {
				args = append([]ssa.Value{cc.Value}, args...)
			}
			for i, prm := range f.Params {
				if prm == x && i < len(args) && a.fromEntryParam(args[i], depth+1) {
					return true
				}
			}
		}
		return false
	case *ssa.UnOp:
		return a.fromEntryParam(x.X, depth+1)
	case *ssa.FieldAddr:
		return a.fromEntryParam(x.X, depth+1)
	case *ssa.IndexAddr:
		return a.fromEntryParam(x.X, depth+1)
	case *ssa.Field:
		return a.fromEntryParam(x.X, depth+1)
	case *ssa.Index:
		return a.fromEntryParam(x.X, depth+1)
	case *ssa.Lookup:
		return a.fromEntryParam(x.X, depth+1)
	case *ssa.Slice:
		return a.fromEntryParam(x.X, depth+1)
	case *ssa.Extract:
		return a.fromEntryParam(x.Tuple, depth+1)
	case *ssa.Next:
		return a.fromEntryParam(x.Iter, depth+1)
	case *ssa.Range:
		return a.fromEntryParam(x.X, depth+1)
	case *ssa.Phi:
		for _, e := range x.Edges {
			if a.fromEntryParam(e, depth+1) {
				return true
			}
		}
		return false
	case *ssa.ChangeType:
		return a.fromEntryParam(x.X, depth+1)
	case *ssa.MakeInterface:
		return a.fromEntryParam(x.X, depth+1)
	case *ssa.TypeAssert:
		return a.fromEntryParam(x.X, depth+1)
	case *ssa.Call:
		// getters on caller memory return caller memory
		cc := x.Common()
		if c := cc.StaticCallee(); c != nil && !a.inSet[c] {
			for _, arg := range cc.Args {
				if pointerish(arg.Type()) && a.fromEntryParam(arg, depth+1) {
					return true
				}
			}
		}
		return false
	}
	return false
}

// containerClass names the class of a container value: a struct field, or a local variable.
func containerClass(c ssa.Value) string { return containerClassRec(c, map[ssa.Value]bool{}) }

func containerClassRec(c ssa.Value, seen map[ssa.Value]bool) string {
	if seen[c] {
		return "~cycle"
	}
	seen[c] = true
	switch x := c.(type) {
	case *ssa.UnOp:
		if x.Op == token.MUL {
			if fa, ok := x.X.(*ssa.FieldAddr); ok {
				return "field " + fieldKey(fa)
			}
			if al, ok := x.X.(*ssa.Alloc); ok && al.Comment != "" {
				return "local " + al.Parent().Name() + "." + al.Comment
			}
		}
	case *ssa.Call:
		// generated getter: the field it returns
		if cal := x.Common().StaticCallee(); cal != nil && strings.HasPrefix(cal.Name(), "Get") && len(x.Common().Args) == 1 {
			t := x.Common().Args[0].Type()
			if p, ok := t.Underlying().(*types.Pointer); ok {
				t = p.Elem()
			}
			if n, ok := t.(*types.Named); ok {
				return "field " + n.Obj().Name() + "." + strings.TrimPrefix(cal.Name(), "Get")
			}
		}
		if b, ok := x.Common().Value.(*ssa.Builtin); ok && b.Name() == "append" {
			return containerClassRec(x.Common().Args[0], seen)
		}
	case *ssa.Phi:
		cls := ""
		for _, e := range x.Edges {
			if _, isSlice := e.(*ssa.Slice); isSlice {
				continue // the empty literal it started from
			}
			if c, isConst := e.(*ssa.Const); isConst && c.IsNil() {
				continue
			}
			ec := containerClassRec(e, seen)
			if ec == "~cycle" {
				continue
			}
			if ec == "" {
				return ""
			}
			if cls != "" && cls != ec {
				return ""
			}
			cls = ec
		}
		if cls == "" {
			return "ssa " + x.Parent().Name() + "." + x.Comment
		}
		return cls
	case *ssa.Slice:
		return containerClassRec(x.X, seen)
	case *ssa.MakeMap, *ssa.MakeSlice:
		// a local container: identified by its ordinal among the make instructions of its function
		n := 0
		for _, b := range x.(ssa.Instruction).Parent().Blocks {
			for _, in := range b.Instrs {
				switch in.(type) {
				case *ssa.MakeMap, *ssa.MakeSlice:
					n++
					if in == x.(ssa.Instruction) {
						return fmt.Sprintf("make %s#%d", x.(ssa.Instruction).Parent().Name(), n)
					}
				}
			}
		}
	}
	return ""
}

// classInsertionsNonNil: every insertion into the class (anywhere in the analysed functions) is non-nil.
func (a *Analysis) classInsertionsNonNil(class string, depth int) bool {
	if v, ok := a.classMemo[class]; ok {
		return v
	}
	if a.classMemo == nil {
		a.classMemo = map[string]bool{}
	}
	a.classMemo[class] = true // optimistic for recursion
	n := 0
	okAll := true
	check := func(val ssa.Value, at ssa.Instruction) {
		n++
		if ok, _ := a.nonNil(val, at, depth+1); !ok {
			okAll = false
			if a.Debug {
				fmt.Fprintf(os.Stderr, "   class %s: insertion of possibly nil %s at %s\n", class, e5path.AccessPath(val), a.P.Pos(at.Pos()))
			}
		}
	}
	for _, f := range a.Funcs {
		for _, b := range f.Blocks {
			for _, in := range b.Instrs {
				switch x := in.(type) {
				case *ssa.MapUpdate:
					if containerClass(x.Map) == class {
						check(x.Value, x)
					}
				case *ssa.Call:
					if bi, ok := x.Common().Value.(*ssa.Builtin); ok && bi.Name() == "append" && containerClass(x.Common().Args[0]) == class {
						// appended elements: the variadic slice literal
						if len(x.Common().Args) == 2 {
							a.appendedElems(x.Common().Args[1], func(v ssa.Value) { check(v, x) }, func(src ssa.Value) {
								// append(x, other...) : elements of another container
								n++
								if ok, _ := a.containerElemNonNil(src, x, depth+1); !ok {
									okAll = false
								}
							})
						}
					}
				case *ssa.Store:
					if ia, ok := x.Addr.(*ssa.IndexAddr); ok && containerClass(ia.X) == class {
						check(x.Val, x)
						continue
					}
					// whole-container assignment into a field of the class: the source container's elements must be non-nil too
					if fa, ok := x.Addr.(*ssa.FieldAddr); ok && "field "+fieldKey(fa) == class {
						if c, isConst := x.Val.(*ssa.Const); isConst && c.IsNil() {
							continue
						}
						if _, isMake := x.Val.(*ssa.MakeMap); isMake {
							continue
						}
						if sl, isSl := x.Val.(*ssa.Slice); isSl {
							if _, isAlloc := sl.X.(*ssa.Alloc); isAlloc {
								// composite literal: its element stores are checked through the Alloc's IndexAddr stores
								continue
							}
						}
						n++
						src := containerClass(x.Val)
						if src == class {
							continue
						}
						if ok, _ := a.containerElemNonNil(x.Val, x, depth+1); !ok {
							okAll = false
							if a.Debug {
								fmt.Fprintf(os.Stderr, "   class %s: assigned from container %s (%s) with possibly nil elements at %s\n", class, e5path.AccessPath(x.Val), containerClass(x.Val), a.P.Pos(x.Pos()))
							}
						}
					}
				}
			}
		}
	}
	a.classMemo[class] = okAll && n > 0
	if a.Debug {
		fmt.Fprintf(os.Stderr, "   class %s: %d insertions, all non-nil: %v\n", class, n, okAll)
	}
	return okAll && n > 0
}

// appendedElems enumerates the values appended by append(x, elems...).
func (a *Analysis) appendedElems(variadic ssa.Value, elem func(ssa.Value), spread func(ssa.Value)) {
	sl, ok := variadic.(*ssa.Slice)
	if ok {
		if al, isAlloc := sl.X.(*ssa.Alloc); isAlloc && al.Referrers() != nil {
			for _, ref := range *al.Referrers() {
				if ia, ok := ref.(*ssa.IndexAddr); ok && ia.Referrers() != nil {
					for _, r2 := range *ia.Referrers() {
						if st, ok := r2.(*ssa.Store); ok {
							elem(st.Val)
						}
					}
				}
			}
			return
		}
	}
	spread(variadic)
}

// keyFromKeyListOf: k is an element of a slice every element of which was obtained as a key by
// ranging the same map (collect-the-keys-then-visit-in-order idiom).
func (a *Analysis) keyFromKeyListOf(k ssa.Value, m ssa.Value) bool {
	u, ok := k.(*ssa.UnOp)
	if !ok || u.Op != token.MUL {
		return false
	}
	ia, ok := u.X.(*ssa.IndexAddr)
	if !ok {
		return false
	}
	if a.keyListCall(ia.X, m, 0) {
		return true
	}
	class := containerClass(ia.X)
	if class == "" {
		return false
	}
	n, okAll := 0, true
	for _, f := range a.Funcs {
		if f != k.Parent() {
			continue
		}
		for _, b := range f.Blocks {
			for _, in := range b.Instrs {
				call, ok := in.(*ssa.Call)
				if !ok {
					continue
				}
				bi, ok := call.Common().Value.(*ssa.Builtin)
				if !ok || bi.Name() != "append" || containerClass(call.Common().Args[0]) != class || len(call.Common().Args) != 2 {
					continue
				}
				a.appendedElems(call.Common().Args[1], func(v ssa.Value) {
					n++
					if !a.keyFromRangeOf(v, m) {
						okAll = false
					}
				}, func(ssa.Value) { okAll = false })
			}
		}
	}
	return n > 0 && okAll
}

// keyListCall: list is the result of a call that returns the keys of map m: slices.Sorted / slices.Collect
// of maps.Keys(m), or a repository helper that returns the key list of its (only) map parameter — decided
// on the helper's body with the same rules — called with m.
func (a *Analysis) keyListCall(list ssa.Value, m ssa.Value, depth int) bool {
	if depth > 3 {
		return false
	}
	c, ok := list.(*ssa.Call)
	if !ok {
		return false
	}
	cal := c.Common().StaticCallee()
	if cal == nil {
		return false
	}
	origin := cal
	if cal.Origin() != nil {
		origin = cal.Origin()
	}
	pkg := ""
	if origin.Pkg != nil {
		pkg = origin.Pkg.Pkg.Path()
	}
	args := c.Common().Args
	if pkg == "slices" && (origin.Name() == "Sorted" || origin.Name() == "Collect") && len(args) == 1 {
		if kc, ok := args[0].(*ssa.Call); ok {
			if kf := kc.Common().StaticCallee(); kf != nil {
				ko := kf
				if kf.Origin() != nil {
					ko = kf.Origin()
				}
				if ko.Pkg != nil && ko.Pkg.Pkg.Path() == "maps" && ko.Name() == "Keys" && len(kc.Common().Args) == 1 {
					return sameValue(kc.Common().Args[0], m)
				}
			}
		}
		return false
	}
	if !load.InRepo(cal) || len(cal.Blocks) == 0 {
		return false
	}
	// which argument is m?
	pi := -1
	for i, arg := range args {
		if sameValue(arg, m) {
			pi = i
		}
	}
	if pi < 0 || pi >= len(cal.Params) {
		return false
	}
	param := cal.Params[pi]
	rets := 0
	for _, b := range cal.Blocks {
		ret, ok := b.Instrs[len(b.Instrs)-1].(*ssa.Return)
		if !ok {
			continue
		}
		rets++
		if len(ret.Results) != 1 {
			return false
		}
		rv := ret.Results[0]
		if a.keyListCall(rv, param, depth+1) {
			continue
		}
		// a locally collected list: every element appended is a key of a range over the parameter
		class := containerClass(rv)
		if class == "" {
			return false
		}
		n, okAll := 0, true
		for _, bb := range cal.Blocks {
			for _, in := range bb.Instrs {
				call, ok := in.(*ssa.Call)
				if !ok {
					continue
				}
				bi, ok := call.Common().Value.(*ssa.Builtin)
				if !ok || bi.Name() != "append" || containerClass(call.Common().Args[0]) != class || len(call.Common().Args) != 2 {
					continue
				}
				a.appendedElems(call.Common().Args[1], func(v ssa.Value) {
					n++
					if !a.keyFromRangeOf(v, param) {
						okAll = false
					}
				}, func(ssa.Value) { okAll = false })
			}
		}
		if n == 0 || !okAll {
			return false
		}
	}
	return rets > 0
}

// flowNonNil: forward must-analysis for one storable path P inside one function: P is non-nil at a
// program point if on every path to it the last event was a store of a non-nil value to P or the
// non-nil edge of a nil test on P, with no later store to P or to one of its prefixes.
func (a *Analysis) flowNonNil(path string, use ssa.Instruction, depth int) (bool, string) {
	if depth > 4 {
		return false, ""
	}
	f := use.Parent()
	prefixes := map[string]bool{}
	parts := strings.Split(path, ".")
	for i := 1; i < len(parts); i++ {
		prefixes[strings.Join(parts[:i], ".")] = true
	}
	// transfer through one block starting from state `in`, up to (not including) instruction `until`
	transfer := func(b *ssa.BasicBlock, in bool, until ssa.Instruction) bool {
		st := in
		for _, x := range b.Instrs {
			if x == until {
				break
			}
			s, ok := x.(*ssa.Store)
			if !ok {
				continue
			}
			p := e5path.AccessPath(s.Addr)
			if p == path {
				st, _ = a.nonNil(s.Val, s, depth+1)
			} else if prefixes[p] {
				st = false
			}
		}
		return st
	}
	edgeFact := func(from, to *ssa.BasicBlock) (bool, bool) {
		ifi, ok := from.Instrs[len(from.Instrs)-1].(*ssa.If)
		if !ok {
			return false, false
		}
		bo, ok := ifi.Cond.(*ssa.BinOp)
		if !ok {
			return false, false
		}
		if from.Succs[0] == from.Succs[1] {
			return false, false
		}
		branch := from.Succs[0] == to
		// len(P) compared with a constant: the edge on which P is non-empty establishes P != nil (the other edge says nothing)
		if lx := lenOf(bo.X); lx != nil && e5path.AccessPath(lx) == path {
			if c, isC := constInt(bo.Y); isC {
				nonEmptyOnTrue := (bo.Op == token.NEQ && c == 0) || (bo.Op == token.GTR && c >= 0) || (bo.Op == token.GEQ && c >= 1)
				nonEmptyOnFalse := (bo.Op == token.EQL && c == 0) || (bo.Op == token.LEQ && c >= 0) || (bo.Op == token.LSS && c >= 1)
				if (nonEmptyOnTrue && branch) || (nonEmptyOnFalse && !branch) {
					return true, true
				}
			}
			return false, false
		}
		if bo.Op != token.NEQ && bo.Op != token.EQL {
			return false, false
		}
		var tested ssa.Value
		if c, ok := bo.Y.(*ssa.Const); ok && c.IsNil() {
			tested = bo.X
		} else if c, ok := bo.X.(*ssa.Const); ok && c.IsNil() {
			tested = bo.Y
		}
		if tested == nil || e5path.AccessPath(tested) != path {
			return false, false
		}
		return (bo.Op == token.NEQ) == branch, true
	}
	in := map[*ssa.BasicBlock]bool{}
	for _, b := range f.Blocks {
		in[b] = true // optimistic start, entry block corrected below
	}
	in[f.Blocks[0]] = false
	for changed := true; changed; {
		changed = false
		for _, b := range f.Blocks {
			if b == f.Blocks[0] {
				continue
			}
			v := true
			for _, p := range b.Preds {
				out := transfer(p, in[p], nil)
				if fact, has := edgeFact(p, b); has {
					if fact {
						out = true
					}
					// the nil edge of the test: the path IS nil there
					if !fact {
						out = false
					}
				}
				if !out {
					v = false
				}
			}
			if len(b.Preds) == 0 {
				v = false
			}
			if v != in[b] {
				in[b] = v
				changed = true
			}
		}
	}
	if transfer(use.Block(), in[use.Block()], use) {
		return true, "D1/D3 flow: on every path " + stablePath(path) + " was tested or assigned non-nil and not overwritten since"
	}
	return false, ""
}

func (a *Analysis) requirementHolds(req string, at ssa.Instruction) bool {
	if req == "" {
		return true
	}
	for _, ce := range e5path.DominatingConds(at.Block()) {
		txt := ""
		if bo, ok := ce.Cond.(*ssa.BinOp); ok {
			txt = fmt.Sprintf("%s %s %s is %v", stablePath(e5path.AccessPath(bo.X)), bo.Op, stablePath(e5path.AccessPath(bo.Y)), ce.Branch)
		} else {
			txt = fmt.Sprintf("%s is %v", stablePath(e5path.AccessPath(ce.Cond)), ce.Branch)
		}
		if a.Debug {
			fmt.Fprintf(os.Stderr, "   dominating: %s\n", txt)
		}
		if strings.Contains(txt, req) {
			return true
		}
	}
	return false
}

// InternalReceivers marks the receivers of the given methods as internal objects.
func (a *Analysis) InternalReceivers(ms []*ssa.Function) {
	if a.internalParam == nil {
		a.internalParam = map[*ssa.Parameter]bool{}
	}
	for _, m := range ms {
		if len(m.Params) > 0 {
			a.internalParam[m.Params[0]] = true
		}
	}
}

// lastStoredAlloc: the load reads a path whose last (dominating, not overwritten) store in this
// function stored a fresh object; returns that object.
func (a *Analysis) lastStoredAlloc(path string, use ssa.Instruction) *ssa.Alloc {
	f := use.Parent()
	var best *ssa.Store
	for _, st := range storesTo(f, path) {
		if st.Block().Dominates(use.Block()) && (st.Block() != use.Block() || instrIndex(st) < instrIndex(use)) {
			if !storeBetween(f, path, nil, st, use) {
				best = st
			}
		}
	}
	if best == nil {
		return nil
	}
	al, _ := best.Val.(*ssa.Alloc)
	return al
}

func isElementLoad(v ssa.Value) bool {
	switch x := v.(type) {
	case *ssa.UnOp:
		if x.Op == token.MUL {
			_, ok := x.X.(*ssa.IndexAddr)
			return ok
		}
	case *ssa.Lookup:
		return true
	case *ssa.Extract:
		_, ok := x.Tuple.(*ssa.Next)
		return ok
	}
	return false
}

// TypedNil (stage 2, graph package): a pointer that may be nil must not be converted to an interface
// value: the callee's `x == nil` guard is then false for a nil pointer and the first method call on
// it dereferences nil. One record per conversion site.
func (a *Analysis) TypedNil(rule string, funcs []*ssa.Function) {
	n := 0
	for _, f := range funcs {
		for _, b := range f.Blocks {
			for _, in := range b.Instrs {
				mi, ok := in.(*ssa.MakeInterface)
				if !ok {
					continue
				}
				if _, isPtr := mi.X.Type().Underlying().(*types.Pointer); !isPtr {
					continue
				}
				n++
				construct := fmt.Sprintf("typed-nil:%s:%s", load.FuncName(f), stablePath(e5path.AccessPath(mi.X)))
				if ok, why := a.nonNil(mi.X, mi, 0); ok {
					a.R.OK(rule, construct, a.P.Pos(mi.Pos()), ruleName(why), why)
				} else {
					a.R.Bad(rule, construct, a.P.Pos(mi.Pos()), "the pointer "+e5path.AccessPath(mi.X)+" may be nil when it is converted to "+mi.Type().String()+": a nil check on the interface value does not catch it and the first method call dereferences nil")
				}
			}
		}
	}
	if n == 0 {
		a.R.OK(rule, "typed-nil:none", "-", "scan", "no pointer-to-interface conversion in the analysed functions")
	}
}
