package e4panic

import (
	"fmt"
	"go/token"
	"go/types"
	"strings"

	"golang.org/x/tools/go/ssa"

	"verif/sa/internal/e5path"
	"verif/sa/internal/load"
)

// TypeState derives facts about the DSL listener's parser-state fields from the grammar (D7/D8):
// the listener callbacks are invoked by the tree walker in an order the grammar fixes, so a field
// assigned in Enter(R) is set in every callback of a rule that R dominates in the rule-invocation
// graph — provided the guards of the assignment are populated before the sub-rule is parsed.
type TypeState struct {
	loadedAt map[string]ssa.Instruction // per prefix of the path being judged: the load in the value's own chain
	A        *Analysis
	P        *load.Prog
	Methods  map[string]*ssa.Function // listener methods by name
	Rules    []string
	Refs     map[string][]string      // rule → referenced rules
	Dom      map[string][]string      // rule → its dominators (rules on every path from main)
	GenFuncs map[string]*ssa.Function // rule → generated rule function
	memo     map[string]bool
	Used     map[string]string // fact → rule that established it (for the evidence)
}

func lowerFirst(s string) string {
	if s == "" {
		return s
	}
	return strings.ToLower(s[:1]) + s[1:]
}

// callbackOf: (*OpenFgaDslListener).ExitTypeDef → ("Exit", "typeDef")
func callbackOf(f *ssa.Function) (string, string) {
	if f == nil || f.Signature.Recv() == nil || !strings.Contains(f.Signature.Recv().Type().String(), "OpenFgaDslListener") {
		return "", ""
	}
	n := f.Name()
	switch {
	case strings.HasPrefix(n, "Enter"):
		return "Enter", lowerFirst(strings.TrimPrefix(n, "Enter"))
	case strings.HasPrefix(n, "Exit"):
		return "Exit", lowerFirst(strings.TrimPrefix(n, "Exit"))
	}
	return "", ""
}

// isHelper: a method of the listener that is not a callback.
func isHelper(f *ssa.Function) bool {
	if f == nil || f.Signature.Recv() == nil || !strings.Contains(f.Signature.Recv().Type().String(), "OpenFgaDslListener") {
		return false
	}
	k, _ := callbackOf(f)
	return k == "" && len(f.Blocks) > 0
}

type effStore struct {
	st *ssa.Store
	at ssa.Instruction // position in the queried function: the store itself or the call that leads to it
}

// helperCalls: the calls in m of listener helpers on the same receiver (transitively, attributed to the call in m).
func helperCalls(m *ssa.Function) map[ssa.CallInstruction][]*ssa.Function {
	out := map[ssa.CallInstruction][]*ssa.Function{}
	if len(m.Params) == 0 {
		return out
	}
	for _, b := range m.Blocks {
		for _, in := range b.Instrs {
			ci, ok := in.(ssa.CallInstruction)
			if !ok {
				continue
			}
			h := ci.Common().StaticCallee()
			if !isHelper(h) || len(ci.Common().Args) == 0 || ci.Common().Args[0] != ssa.Value(m.Params[0]) {
				continue
			}
			seen := map[*ssa.Function]bool{h: true}
			work := []*ssa.Function{h}
			for len(work) > 0 {
				cur := work[0]
				work = work[1:]
				out[ci] = append(out[ci], cur)
				for _, hb := range cur.Blocks {
					for _, hin := range hb.Instrs {
						if c2, ok := hin.(ssa.CallInstruction); ok {
							if h2 := c2.Common().StaticCallee(); isHelper(h2) && !seen[h2] && len(c2.Common().Args) > 0 && c2.Common().Args[0] == ssa.Value(cur.Params[0]) {
								seen[h2] = true
								work = append(work, h2)
							}
						}
					}
				}
			}
		}
	}
	return out
}

// helperPath renders a receiver-relative path with the helper's own receiver name.
func helperPath(h *ssa.Function, path string) string {
	if len(h.Params) > 0 && strings.HasPrefix(path, "l.") && h.Params[0].Name() != "l" {
		return h.Params[0].Name() + path[1:]
	}
	return path
}

// effStores: the stores to path that running m can perform: its own and those of the helpers it calls.
func effStores(m *ssa.Function, path string) []effStore {
	var out []effStore
	for _, st := range storesTo(m, path) {
		out = append(out, effStore{st, st})
	}
	for ci, hs := range helperCalls(m) {
		for _, h := range hs {
			for _, st := range storesTo(h, helperPath(h, path)) {
				out = append(out, effStore{st, ci.(ssa.Instruction)})
			}
		}
	}
	return out
}

// mayStores: like storesTo, including the stores of helpers (positions are not comparable with m's blocks).
func mayStores(m *ssa.Function, path string) []*ssa.Store {
	var out []*ssa.Store
	for _, e := range effStores(m, path) {
		out = append(out, e.st)
	}
	return out
}

func (t *TypeState) reach(from string) map[string]bool {
	seen := map[string]bool{}
	stack := []string{from}
	for len(stack) > 0 {
		r := stack[len(stack)-1]
		stack = stack[:len(stack)-1]
		for _, c := range t.Refs[r] {
			if !seen[c] {
				seen[c] = true
				stack = append(stack, c)
			}
		}
	}
	return seen
}

func (t *TypeState) dominates(r, u string) bool {
	for _, d := range t.Dom[u] {
		if d == r {
			return true
		}
	}
	return false
}

func (t *TypeState) note(fact, by string) {
	if t.Used == nil {
		t.Used = map[string]string{}
	}
	t.Used[fact] = by
}

// NonNil is consulted by the discharge engine for values it could not decide itself.
func (t *TypeState) NonNil(v ssa.Value, at ssa.Instruction) (bool, string) {
	if t == nil {
		return false, ""
	}
	kind, _ := callbackOf(at.Parent())
	if kind == "" {
		return t.nonNilInHelper(v, at)
	}
	_, isLoad := v.(*ssa.UnOp)
	// where each prefix of the path was loaded: a prefix that is overwritten AFTER it was read (the callback keeps the
	// object in a local and clears the field) does not change the object the local still denotes
	t.loadedAt = map[string]ssa.Instruction{}
	for cur := v; cur != nil; {
		ld, ok := cur.(*ssa.UnOp)
		if !ok || ld.Op != token.MUL {
			break
		}
		fa, ok := ld.X.(*ssa.FieldAddr)
		if !ok {
			break
		}
		if ld.Parent() == at.Parent() {
			t.loadedAt[e5path.AccessPath(ld)] = ld
		}
		cur = fa.X
	}
	defer func() { t.loadedAt = nil }()
	return t.NonNilPath(e5path.AccessPath(v), isLoad, at)
}

// NonNilPath: the same facts for an expression given by its access path (used when a helper's parameter is
// judged at its call sites, where no SSA value for the expression need exist).
func (t *TypeState) NonNilPath(path string, isLoad bool, at ssa.Instruction) (bool, string) {
	if t == nil {
		return false, ""
	}
	kind, rule := callbackOf(at.Parent())
	if kind == "" {
		return false, ""
	}
	// accessor on ctx
	if strings.HasPrefix(path, "ctx.") && strings.HasSuffix(path, "()") && strings.Count(path, "()") == 1 {
		acc := strings.TrimSuffix(strings.TrimPrefix(path, "ctx."), "()")
		if ok, why := t.labelAlwaysSet(rule, acc); ok {
			return true, why
		}
		if kind == "Exit" {
			if ok, why := t.enterExitCorrelation(at, rule, acc); ok {
				return true, why
			}
		}
		return false, ""
	}
	if !strings.HasPrefix(path, "l.") {
		return false, ""
	}
	if !isLoad {
		return false, ""
	}
	// intra-callback flow first needs the state at entry
	if ok, why := t.fieldAtEntry(kind, rule, path); ok {
		// not overwritten inside this callback before the use
		if t.killedBefore(at, path) {
			return false, ""
		}
		return true, why
	}
	if ok, why := t.flagCorrelation(at, path); ok {
		return true, why
	}
	return false, ""
}

// nonNilInHelper: a load of a listener field inside a helper method: the field is non-nil at every call
// of the helper from a callback (by the callback's own facts, not overwritten before the call) and the
// helper does not overwrite it before the use.
func (t *TypeState) nonNilInHelper(v ssa.Value, at ssa.Instruction) (bool, string) {
	h := at.Parent()
	if !isHelper(h) {
		return false, ""
	}
	if _, isLoad := v.(*ssa.UnOp); !isLoad {
		return false, ""
	}
	path := e5path.AccessPath(v)
	recv := h.Params[0].Name()
	if !strings.HasPrefix(path, recv+".") {
		return false, ""
	}
	lpath := "l" + path[len(recv):]
	if t.killedBefore(at, path) {
		return false, ""
	}
	sites, why := 0, ""
	for _, m := range t.Methods {
		kind, rule := callbackOf(m)
		if kind == "" {
			continue
		}
		for ci, hs := range helperCalls(m) {
			called := false
			for _, x := range hs {
				if x == h {
					called = true
				}
			}
			if !called {
				continue
			}
			sites++
			cs := ci.(ssa.Instruction)
			ok, w := t.fieldAtEntry(kind, rule, lpath)
			if ok && t.killedBefore(cs, lpath) {
				ok = false
			}
			if !ok {
				if ok2, w2 := t.flagCorrelation(cs, lpath); ok2 {
					ok, w = true, w2
				}
			}
			if !ok {
				return false, ""
			}
			why = w
		}
	}
	if sites == 0 {
		return false, ""
	}
	return true, why + " — at every call of " + h.Name()
}

// killedBefore: a store to the path or one of its prefixes may execute before `at` in its function.
func (t *TypeState) killedBefore(at ssa.Instruction, path string) bool {
	f := at.Parent()
	parts := strings.Split(path, ".")
	for i := 2; i <= len(parts); i++ {
		prefix := strings.Join(parts[:i], ".")
		at := at
		if ld, ok := t.loadedAt[prefix]; ok && prefix != path {
			at = ld // the prefix was read here; later stores to it are irrelevant for the value read
		}
		for _, e := range effStores(f, prefix) {
			st := e.st
			if ok, _ := t.A.nonNil(st.Val, st, 1); ok && prefix == path {
				continue
			}
			sb, ub := e.at.Block(), at.Block()
			if sb == ub && instrIndex(e.at) >= instrIndex(at) && !loopsBack(sb) {
				continue
			}
			if reaches(sb, ub) {
				return true
			}
		}
	}
	return false
}

// fieldAtEntry (T1): at the entry of callback kind(rule) the listener field path is non-nil.
func (t *TypeState) fieldAtEntry(kind, rule, path string) (bool, string) {
	key := kind + ":" + rule + ":" + path
	if v, ok := t.memo[key]; ok {
		return v, "D7 parser-state typestate (" + t.Used[key] + ")"
	}
	if t.memo == nil {
		t.memo = map[string]bool{}
	}
	t.memo[key] = false
	for name, s := range t.Methods {
		sk, r := callbackOf(s)
		if sk != "Enter" {
			continue
		}
		// the setter's rule encloses the use
		encloses := (r == rule && kind == "Exit") || (r != rule && t.dominates(r, rule))
		if !encloses {
			continue
		}
		if t.reach(r)[r] {
			continue // a recursive setter rule: inner instances would interleave
		}
		guards, ok := t.setsOnEveryPath(s, path)
		if !ok {
			continue
		}
		// (iv) every guard accessor is populated before the sub-rule that leads to the use is parsed
		okGuards := true
		for _, g := range guards {
			if r == rule {
				continue // Exit(R) of the same context: the guard was evaluated on this very context
			}
			if !t.populatedBeforeChild(r, g, rule) {
				okGuards = false
			}
		}
		if !okGuards {
			continue
		}
		// (iii) no callback that can fire between Enter(r) and the use stores a possibly-nil value to the path or a prefix
		if k := t.killerBetween(r, kind, rule, path, s); k != "" {
			continue
		}
		t.memo[key] = true
		why := fmt.Sprintf("set by %s on every path (guards %v), %s dominates %s in the rule graph, no resetting callback in between", name, guards, r, rule)
		t.note(key, why)
		return true, "D7 parser-state typestate (" + why + ")"
	}
	return false, ""
}

// setsOnEveryPath: setter function s leaves `path` non-nil at every return, except returns guarded
// by `ctx.a() == nil` (returned as guard accessors).
func (t *TypeState) setsOnEveryPath(s *ssa.Function, path string) ([]string, bool) {
	parts := strings.Split(path, ".")
	var guards []string
	nret := 0
	// find the longest prefix stored in s
	for _, b := range s.Blocks {
		ret, ok := b.Instrs[len(b.Instrs)-1].(*ssa.Return)
		if !ok {
			continue
		}
		nret++
		// early return guarded by ctx.a() == nil?
		guarded := false
		for _, ce := range e5path.DominatingConds(b) {
			bo, ok := ce.Cond.(*ssa.BinOp)
			if !ok || (bo.Op != token.EQL && bo.Op != token.NEQ) {
				continue
			}
			c, isC := bo.Y.(*ssa.Const)
			if !isC || !c.IsNil() {
				continue
			}
			p := e5path.AccessPath(bo.X)
			if strings.HasPrefix(p, "ctx.") && strings.HasSuffix(p, "()") && (bo.Op == token.EQL) == ce.Branch {
				guarded = true
				acc := strings.TrimSuffix(strings.TrimPrefix(p, "ctx."), "()")
				found := false
				for _, g := range guards {
					if g == acc {
						found = true
					}
				}
				if !found {
					guards = append(guards, acc)
				}
			}
		}
		if guarded {
			// is this return before any store to the base? then it is an early exit
			if !t.stateAt(s, ret, parts) {
				continue
			}
		}
		if !t.stateAt(s, ret, parts) {
			return nil, false
		}
	}
	return guards, nret > 0
}

// stateAt: at instruction `at` of s, the full path is non-nil: the base (l.x) holds a value stored in
// s that is non-nil, and each further field was initialised non-nil in the stored literal.
func (t *TypeState) stateAt(s *ssa.Function, at ssa.Instruction, parts []string) bool {
	// try every split: prefix stored in s with a fresh object, suffix initialised inside it
	for cut := len(parts); cut >= 2; cut-- {
		prefix := strings.Join(parts[:cut], ".")
		var last *ssa.Store
		for _, st := range storesTo(s, prefix) {
			if st.Block().Dominates(at.Block()) && (st.Block() != at.Block() || instrIndex(st) < instrIndex(at)) {
				if last == nil || last.Block().Dominates(st.Block()) {
					last = st
				}
			}
		}
		if last == nil {
			continue
		}
		if storeBetween(s, prefix, nil, last, at) {
			return false
		}
		if cut == len(parts) {
			ok, _ := t.A.nonNil(last.Val, last, 1)
			return ok
		}
		// suffix inside the stored literal
		obj, ok := last.Val.(*ssa.Alloc)
		if !ok {
			return false
		}
		return t.freshChain(obj, parts[cut:], at)
	}
	return false
}

func (t *TypeState) freshChain(obj *ssa.Alloc, fields []string, at ssa.Instruction) bool {
	if len(fields) == 0 {
		return true
	}
	st, ok := obj.Type().Underlying().(*types.Pointer).Elem().Underlying().(*types.Struct)
	if !ok {
		return false
	}
	idx := -1
	for i := 0; i < st.NumFields(); i++ {
		if st.Field(i).Name() == fields[0] {
			idx = i
		}
	}
	if idx < 0 || obj.Referrers() == nil {
		return false
	}
	var val ssa.Value
	for _, ref := range *obj.Referrers() {
		fa, ok := ref.(*ssa.FieldAddr)
		if !ok || fa.Field != idx || fa.Referrers() == nil {
			continue
		}
		for _, r2 := range *fa.Referrers() {
			if s2, ok := r2.(*ssa.Store); ok && s2.Block().Dominates(at.Block()) {
				val = s2.Val
			}
		}
	}
	if val == nil {
		return false
	}
	if len(fields) == 1 {
		ok, _ := t.A.nonNil(val, at, 1)
		return ok
	}
	next, ok := val.(*ssa.Alloc)
	if !ok {
		return false
	}
	return t.freshChain(next, fields[1:], at)
}

// populatedBeforeChild (D7 iv): in the generated function of rule r, what makes accessor `acc`
// non-nil (the store to its label field, or the call of its rule function) dominates every call of a
// child rule from which `target` is reachable.
func (t *TypeState) populatedBeforeChild(r, acc, target string) bool {
	gf := t.GenFuncs[r]
	if gf == nil {
		return false
	}
	var pop []ssa.Instruction
	label := lowerFirst(strings.TrimPrefix(acc, "Get"))
	for _, b := range gf.Blocks {
		for _, in := range b.Instrs {
			switch x := in.(type) {
			case *ssa.Store:
				if fa, ok := x.Addr.(*ssa.FieldAddr); ok && strings.HasPrefix(acc, "Get") && fieldNameOfAddr(fa) == label {
					pop = append(pop, x)
				}
			case *ssa.Call:
				if c := x.Common().StaticCallee(); c != nil && c.Name() == acc && !strings.HasPrefix(acc, "Get") {
					pop = append(pop, x)
				}
			}
		}
	}
	if len(pop) == 0 {
		return false
	}
	n := 0
	for _, b := range gf.Blocks {
		for _, in := range b.Instrs {
			call, ok := in.(*ssa.Call)
			if !ok {
				continue
			}
			c := call.Common().StaticCallee()
			if c == nil {
				continue
			}
			child := lowerFirst(c.Name())
			if _, isRule := t.Refs[child]; !isRule || c.Signature.Recv() == nil {
				continue
			}
			if child != target && !t.reach(child)[target] {
				continue
			}
			n++
			dominated := false
			for _, p := range pop {
				if p.Block().Dominates(b) && (p.Block() != b || instrIndex(p) < instrIndex(call)) {
					dominated = true
				}
			}
			if !dominated {
				return false
			}
		}
	}
	return n > 0
}

func fieldNameOfAddr(fa *ssa.FieldAddr) string {
	tp := fa.X.Type()
	if p, ok := tp.Underlying().(*types.Pointer); ok {
		tp = p.Elem()
	}
	if st, ok := tp.Underlying().(*types.Struct); ok && fa.Field < st.NumFields() {
		return st.Field(fa.Field).Name()
	}
	return ""
}

// killerBetween: a callback that may fire after Enter(r) and before kind(rule) stores a possibly-nil
// value into the path or one of its prefixes. Returns its name, or "".
func (t *TypeState) killerBetween(r, kind, rule, path string, setter *ssa.Function) string {
	inside := t.reach(r)
	parts := strings.Split(path, ".")
	for name, m := range t.Methods {
		if m == setter {
			continue
		}
		mk, mr := callbackOf(m)
		if mk == "" {
			continue
		}
		if mr == r {
			if mk == "Exit" {
				continue // Exit(r) fires after the whole subtree (its own body is checked by the intra-callback flow)
			}
		} else if !inside[mr] {
			continue
		}
		if mk == kind && mr == rule {
			continue // the using callback itself: intra-callback flow
		}
		for i := 2; i <= len(parts); i++ {
			prefix := strings.Join(parts[:i], ".")
			for _, st := range mayStores(m, prefix) {
				if prefix == path {
					if ok, _ := t.A.nonNil(st.Val, st, 1); ok {
						continue
					}
				}
				// a store into a prefix with a fresh object whose chain is initialised is not a killer
				if obj, ok := st.Val.(*ssa.Alloc); ok && prefix != path && t.freshChain(obj, parts[i:], m.Blocks[len(m.Blocks)-1].Instrs[0]) {
					continue
				}
				return name
			}
		}
	}
	return ""
}

// labelAlwaysSet (T4): accessor GetX of rule U is populated on every path through U's generated
// function with the result of a rule function.
func (t *TypeState) labelAlwaysSet(rule, acc string) (bool, string) {
	if !strings.HasPrefix(acc, "Get") {
		return false, ""
	}
	gf := t.GenFuncs[rule]
	if gf == nil {
		return false, ""
	}
	label := lowerFirst(strings.TrimPrefix(acc, "Get"))
	var pops []*ssa.Store
	for _, b := range gf.Blocks {
		for _, in := range b.Instrs {
			if st, ok := in.(*ssa.Store); ok {
				if fa, ok := st.Addr.(*ssa.FieldAddr); ok && fieldNameOfAddr(fa) == label {
					pops = append(pops, st)
				}
			}
		}
	}
	if len(pops) == 0 {
		return false, ""
	}
	for _, st := range pops {
		call, ok := st.Val.(*ssa.Call)
		if !ok {
			return false, ""
		}
		c := call.Common().StaticCallee()
		if c == nil {
			return false, ""
		}
		if _, isRule := t.Refs[lowerFirst(c.Name())]; !isRule {
			return false, "" // a token label: Match may return nil on error
		}
	}
	for _, b := range gf.Blocks {
		if _, isRet := b.Instrs[len(b.Instrs)-1].(*ssa.Return); !isRet {
			continue
		}
		dominated := false
		for _, st := range pops {
			if st.Block().Dominates(b) {
				dominated = true
			}
		}
		if !dominated {
			return false, ""
		}
	}
	return true, "D7 label " + label + " is assigned the result of a rule function on every path through the generated rule function " + rule
}

// enterExitCorrelation (T5): in Exit(R), accessor a is non-nil because the listener field F that
// the callback tested non-nil is only ever set in Enter(R) under ctx.a() != nil, and every path of
// Exit(R) past that test resets F to nil — so a non-nil F at Exit(ctx) was set by Enter(ctx) of the
// same context, whose a() was non-nil.
func (t *TypeState) enterExitCorrelation(at ssa.Instruction, rule, acc string) (bool, string) {
	f := at.Parent()
	if t.reach(rule)[rule] {
		return false, ""
	}
	// the dominating test F != nil
	for _, ce := range e5path.DominatingConds(at.Block()) {
		bo, ok := ce.Cond.(*ssa.BinOp)
		if !ok || (bo.Op != token.EQL && bo.Op != token.NEQ) {
			continue
		}
		c, isC := bo.Y.(*ssa.Const)
		if !isC || !c.IsNil() || (bo.Op == token.NEQ) != ce.Branch {
			continue
		}
		field := e5path.AccessPath(bo.X)
		if !strings.HasPrefix(field, "l.") || strings.Count(field, ".") != 1 {
			continue
		}
		// (2) non-nil stores to F only in Enter(rule), each dominated by ctx.acc() != nil
		okStores, n := true, 0
		for name, m := range t.Methods {
			for _, st := range mayStores(m, field) {
				if cst, isConst := st.Val.(*ssa.Const); isConst && cst.IsNil() {
					continue
				}
				n++
				mk, mr := callbackOf(m)
				if mk != "Enter" || mr != rule {
					okStores = false
					_ = name
					continue
				}
				guarded := false
				for _, ce2 := range e5path.DominatingConds(st.Block()) {
					b2, ok := ce2.Cond.(*ssa.BinOp)
					if !ok {
						continue
					}
					c2, isC2 := b2.Y.(*ssa.Const)
					if isC2 && c2.IsNil() && e5path.AccessPath(b2.X) == "ctx."+acc+"()" && (b2.Op == token.NEQ) == ce2.Branch {
						guarded = true
					}
				}
				if !guarded {
					okStores = false
				}
			}
		}
		if !okStores || n == 0 {
			continue
		}
		// (3) every return of Exit(rule) reachable from the test's non-nil branch is preceded by a store of nil to F
		okReset := true
		taken := ce.If.Block().Succs[0]
		if !ce.Branch {
			taken = ce.If.Block().Succs[1]
		}
		for _, b := range f.Blocks {
			if _, isRet := b.Instrs[len(b.Instrs)-1].(*ssa.Return); !isRet || !reaches(taken, b) {
				continue
			}
			// only returns that lie past the complete guard (dominated by the block of the use's guard chain)
			if !blockDominatedByAllGuards(at, b) {
				continue
			}
			reset := false
			for _, st := range storesTo(f, field) {
				if cst, isConst := st.Val.(*ssa.Const); isConst && cst.IsNil() && st.Block().Dominates(b) {
					reset = true
				}
			}
			// defer func() { l.F = nil }(): the reset runs at every return the defer statement dominates
			for _, db := range f.Blocks {
				for _, in := range db.Instrs {
					d, isDefer := in.(*ssa.Defer)
					if !isDefer || !db.Dominates(b) {
						continue
					}
					mc, isMC := d.Call.Value.(*ssa.MakeClosure)
					if !isMC {
						continue
					}
					cf, isFn := mc.Fn.(*ssa.Function)
					if !isFn {
						continue
					}
					for _, st := range storesTo(cf, field) {
						if cst, isConst := st.Val.(*ssa.Const); isConst && cst.IsNil() && len(cf.Blocks) == 1 {
							reset = true
						}
					}
				}
			}
			if !reset {
				okReset = false
			}
		}
		if okReset {
			return true, fmt.Sprintf("D7 enter/exit correlation: %s is set only by Enter(%s) under ctx.%s() != nil and reset on every path of Exit(%s) past its guard, so it was set for this same context", field, rule, acc, rule)
		}
	}
	return false, ""
}

// blockDominatedByAllGuards: block b lies past the early-return guard that also dominates the use:
// the first block after the guard chain (the immediate dominator frontier of the use) dominates b.
func blockDominatedByAllGuards(at ssa.Instruction, b *ssa.BasicBlock) bool {
	// walk up from the use to the block right after the function's leading guard: the highest
	// dominator of the use that is not the entry block and has a single predecessor chain of Ifs
	anchor := at.Block()
	for anchor.Idom() != nil {
		id := anchor.Idom()
		if _, isIf := id.Instrs[len(id.Instrs)-1].(*ssa.If); !isIf {
			break
		}
		// stop at the first If whose other branch returns immediately (an early-return guard): keep climbing
		retBranch := false
		for _, s := range id.Succs {
			if s != anchor {
				if _, isRet := s.Instrs[len(s.Instrs)-1].(*ssa.Return); isRet && len(s.Instrs) <= 2 {
					retBranch = true
				}
			}
		}
		if !retBranch {
			anchor = id
			continue
		}
		break
	}
	return anchor.Dominates(b)
}

// flagCorrelation (T3): the use is dominated by a boolean listener flag being true; every store of a
// non-false value into that flag happens in a callback that also stores a non-nil value into the
// path on every path to its return; nothing stores a possibly-nil value into the path.
func (t *TypeState) flagCorrelation(at ssa.Instruction, path string) (bool, string) {
	for _, ce := range e5path.DominatingConds(at.Block()) {
		flag := e5path.AccessPath(ce.Cond)
		if !ce.Branch || !strings.HasPrefix(flag, "l.") || strings.Count(flag, ".") != 1 {
			continue
		}
		if b, isB := ce.Cond.Type().Underlying().(*types.Basic); !isB || b.Kind() != types.Bool {
			continue
		}
		ok, n := true, 0
		for _, m := range t.Methods {
			for _, st := range mayStores(m, flag) {
				if c, isC := st.Val.(*ssa.Const); isC && c.Value != nil && c.Value.String() == "false" {
					continue
				}
				n++
				if _, sets := t.setsOnEveryPath(m, path); !sets {
					ok = false
				}
			}
			// no possibly-nil store to the path anywhere
			for _, st := range mayStores(m, path) {
				if nn, _ := t.A.nonNil(st.Val, st, 1); !nn {
					ok = false
				}
			}
		}
		if ok && n > 0 {
			return true, fmt.Sprintf("D7 flag correlation: %s is true only after a callback that also initialises %s on every path, and nothing resets it", flag, path)
		}
	}
	return false, ""
}

// StackNonEmpty (D8/T6): in Exit(R) the stack field has at least one element: Enter(R) pushes exactly
// once on every path (its guard `stack != nil` being discharged by T1), Exit(R) pops exactly once,
// the only other writer resets the stack in the Enter of a rule that is not reachable from R, and
// the walker pairs Enter(R)/Exit(R) like parentheses.
func (t *TypeState) StackNonEmpty(at ssa.Instruction, path string) (bool, string) {
	if isHelper(at.Parent()) {
		// the use is inside a helper (e.g. popStack): the claim must hold at every call from a callback
		h := at.Parent()
		recv := h.Params[0].Name()
		if !strings.HasPrefix(path, recv+".") {
			return false, ""
		}
		lpath := "l" + path[len(recv):]
		sites, why := 0, ""
		for _, m := range t.Methods {
			if k, _ := callbackOf(m); k == "" {
				continue
			}
			for ci, hs := range helperCalls(m) {
				for _, x := range hs {
					if x != h {
						continue
					}
					sites++
					ok, w := t.stackNonEmptyAt(m, ci.(ssa.Instruction), at, lpath)
					if !ok {
						return false, ""
					}
					why = w
				}
			}
		}
		if sites == 0 {
			return false, ""
		}
		return true, why
	}
	return t.stackNonEmptyAt(at.Parent(), at, at, path)
}

// stackNonEmptyAt: cb is the Exit callback, site the instruction in cb where the use happens (the use itself or
// the call of the helper that contains it), use the indexing instruction.
func (t *TypeState) stackNonEmptyAt(cb *ssa.Function, site ssa.Instruction, use ssa.Instruction, path string) (bool, string) {
	kind, rule := callbackOf(cb)
	if kind != "Exit" {
		if t.A.Debug {
			println("stackNonEmptyAt fails at step 1")
		}
		return false, ""
	}
	enter := t.Methods["Enter"+strings.ToUpper(rule[:1])+rule[1:]]
	if enter == nil {
		if t.A.Debug {
			println("stackNonEmptyAt fails at step 2")
		}
		return false, ""
	}
	isSelfAppend := func(st *ssa.Store) bool {
		call, ok := st.Val.(*ssa.Call)
		if !ok {
			return false
		}
		b, isB := call.Common().Value.(*ssa.Builtin)
		return isB && b.Name() == "append" && e5path.AccessPath(call.Common().Args[0]) == e5path.AccessPath(st.Addr)
	}
	// Enter(R): exactly one store to the stack, an append of one element to itself, guarded at most by `stack != nil`
	pushes := 0
	for _, e := range effStores(enter, path) {
		if !isSelfAppend(e.st) {
			if t.A.Debug {
				println("stackNonEmptyAt fails at step 3")
			}
			return false, ""
		}
		pushes++
		conds := e5path.DominatingConds(e.at.Block())
		if e.at != ssa.Instruction(e.st) {
			conds = append(conds, e5path.DominatingConds(e.st.Block())...)
		}
		for _, ce := range conds {
			bo, ok := ce.Cond.(*ssa.BinOp)
			if ok && strings.HasSuffix(e5path.AccessPath(bo.X), path[1:]) {
				// the guard must always hold: the stack is non-nil at Enter(R)
				if nn, _ := t.fieldAtEntry("Enter", rule, path); !nn {
					if t.A.Debug {
						println("stackNonEmptyAt fails at step 4")
					}
					return false, ""
				}
				continue
			}
			if t.A.Debug {
				println("stackNonEmptyAt fails at step 5")
			}
			return false, "" // pushed only under some other condition
		}
	}
	if pushes != 1 {
		if t.A.Debug {
			println("stackNonEmptyAt fails at step 6")
		}
		return false, ""
	}
	// Exit(R): exactly one store, a re-slice [:len-1]; no pop before the use
	pops := 0
	for _, e := range effStores(cb, path) {
		sl, ok := e.st.Val.(*ssa.Slice)
		if !ok || e5path.AccessPath(sl.X) != e5path.AccessPath(e.st.Addr) || sl.Low != nil {
			if t.A.Debug {
				println("stackNonEmptyAt fails at step 7")
			}
			return false, ""
		}
		pops++
		// the use must not come after the pop: compare inside the function both live in, else at the level of cb
		if e.st.Parent() == use.Parent() {
			if e.st.Block().Dominates(use.Block()) && (e.st.Block() != use.Block() || instrIndex(e.st) < instrIndex(use)) {
				if t.A.Debug {
					println("stackNonEmptyAt fails at step 8")
				}
				return false, ""
			}
		} else if e.at.Block().Dominates(site.Block()) && (e.at.Block() != site.Block() || instrIndex(e.at) < instrIndex(site)) {
			if t.A.Debug {
				println("stackNonEmptyAt fails at step 9")
			}
			return false, ""
		}
	}
	if pops != 1 {
		if t.A.Debug {
			println("stackNonEmptyAt fails at step 10")
		}
		return false, ""
	}
	at := site
	_ = at
	// other writers: only resets to a fresh list in Enter of a rule from which R is reachable but not vice versa
	for name, m := range t.Methods {
		if m == enter || m == cb {
			continue
		}
		if k, _ := callbackOf(m); k == "" {
			continue // helpers are accounted for in the callbacks that call them
		}
		for _, st := range mayStores(m, path) {
			mk, mr := callbackOf(m)
			fresh := false
			if sl, ok := st.Val.(*ssa.Slice); ok {
				if _, isAlloc := sl.X.(*ssa.Alloc); isAlloc {
					fresh = true
				}
			}
			if !fresh || mk != "Enter" || t.reach(rule)[mr] || !t.dominates(mr, rule) {
				_ = name
				return false, ""
			}
		}
	}
	return true, "D8 balanced stack: Enter(" + rule + ") pushes once, Exit(" + rule + ") pops once, reset only between declarations"
}
