package e2own

import (
	"fmt"
	"go/token"
	"go/types"
	"strings"

	"golang.org/x/tools/go/ssa"

	"verif/sa/internal/e5path"
	"verif/sa/internal/load"
	"verif/sa/internal/oblig"
)

// fieldOfAddr returns the struct field a FieldAddr selects.
func fieldOfAddr(v ssa.Value) (*types.Var, ssa.Value) {
	if fa, ok := v.(*ssa.FieldAddr); ok {
		return fieldVar(fa.X, fa.Field), fa.X
	}
	return nil, nil
}

type sliceOrigin struct {
	kind  string // fresh, own, share, unknown
	field *types.Var
	pos   token.Pos
	desc  string
}

// callEnv binds the parameters of a helper to the arguments of the call being classified, so that
// "append to the same field" is recognised when the field's list is passed into the helper and the
// helper's result is stored back (context-sensitive for the one call).
var callEnv = map[*ssa.Parameter]ssa.Value{}

// targetBase is the object whose field the store under classification writes.
var targetBase ssa.Value

func sameOwner(base ssa.Value) bool {
	if targetBase == nil || base == nil {
		return false
	}
	return base == targetBase || e5path.AccessPath(base) == e5path.AccessPath(targetBase)
}

func resolveEnv(v ssa.Value) ssa.Value {
	for i := 0; i < 4; i++ {
		p, ok := v.(*ssa.Parameter)
		if !ok {
			return v
		}
		b, ok := callEnv[p]
		if !ok {
			return v
		}
		v = b
	}
	return v
}

// originsOf classifies where a slice value stored into a tracked field comes from.
func originsOf(v ssa.Value, target *types.Var, tracked map[string]bool, inSet map[*ssa.Function]bool, callers map[*ssa.Function][]ssa.CallInstruction, depth int, seen map[ssa.Value]bool) []sliceOrigin {
	if depth > 8 || seen[v] {
		return nil
	}
	seen[v] = true
	switch x := v.(type) {
	case *ssa.Const:
		return []sliceOrigin{{kind: "fresh", desc: "nil/constant"}}
	case *ssa.MakeSlice, *ssa.Alloc:
		return []sliceOrigin{{kind: "fresh", desc: "make/new"}}
	case *ssa.Slice:
		if _, ok := x.X.(*ssa.Alloc); ok {
			return []sliceOrigin{{kind: "fresh", desc: "composite literal"}}
		}
		return originsOf(x.X, target, tracked, inSet, callers, depth+1, seen)
	case *ssa.Phi:
		var out []sliceOrigin
		for _, e := range x.Edges {
			out = append(out, originsOf(e, target, tracked, inSet, callers, depth+1, seen)...)
		}
		return out
	case *ssa.ChangeType:
		return originsOf(x.X, target, tracked, inSet, callers, depth+1, seen)
	case *ssa.UnOp:
		if x.Op == token.MUL {
			if f, base := fieldOfAddr(x.X); f != nil && f == target && sameOwner(base) {
				return []sliceOrigin{{kind: "own", desc: "the list the same field of the same object already holds"}}
			}
			if f, _ := fieldOfAddr(x.X); f != nil && tracked[f.Name()] {
				return []sliceOrigin{{kind: "share", field: f, pos: x.Pos(), desc: "load of field " + f.Name()}}
			}
		}
	case *ssa.Call:
		cc := x.Common()
		if b, ok := cc.Value.(*ssa.Builtin); ok && b.Name() == "append" {
			first := resolveEnv(cc.Args[0])
			if ld, ok := first.(*ssa.UnOp); ok && ld.Op == token.MUL {
				if f, base := fieldOfAddr(ld.X); f != nil && f == target && sameOwner(base) {
					return []sliceOrigin{{kind: "own", desc: "append to the same field"}}
				}
			}
			return originsOf(first, target, tracked, inSet, callers, depth+1, seen)
		}
		if callee := cc.StaticCallee(); callee != nil {
			o := callee
			if callee.Origin() != nil {
				o = callee.Origin()
			}
			if fn, ok := o.Object().(*types.Func); ok && fn.Pkg() != nil {
				full := fn.Pkg().Path() + "." + fn.Name()
				switch full {
				case "slices.Clone", "slices.Collect", "slices.Sorted", "strings.Split", "strings.Fields":
					return []sliceOrigin{{kind: "fresh", desc: full}}
				}
			}
			// a repository helper: what it returns, with its parameters bound to this call's arguments
			if load.InRepo(callee) && len(callee.Blocks) > 0 && depth < 6 {
				saved := map[*ssa.Parameter]ssa.Value{}
				for i, prm := range callee.Params {
					if i < len(cc.Args) {
						if old, ok := callEnv[prm]; ok {
							saved[prm] = old
						}
						callEnv[prm] = resolveEnv(cc.Args[i])
					}
				}
				var out []sliceOrigin
				for _, b := range callee.Blocks {
					if ret, ok := b.Instrs[len(b.Instrs)-1].(*ssa.Return); ok && len(ret.Results) > 0 {
						out = append(out, originsOf(ret.Results[0], target, tracked, inSet, callers, depth+1, map[ssa.Value]bool{})...)
					}
				}
				for _, prm := range callee.Params {
					if old, ok := saved[prm]; ok {
						callEnv[prm] = old
					} else {
						delete(callEnv, prm)
					}
				}
				if len(out) > 0 {
					return out
				}
			}
		}
	case *ssa.Parameter:
		if b, ok := callEnv[x]; ok {
			return originsOf(b, target, tracked, inSet, callers, depth+1, seen)
		}
		var out []sliceOrigin
		f := x.Parent()
		idx := -1
		for i, prm := range f.Params {
			if prm == x {
				idx = i
			}
		}
		sites := callers[f]
		if len(sites) == 0 {
			return []sliceOrigin{{kind: "fresh", desc: "parameter of an entry point without callers in the analysed set"}}
		}
		for _, site := range sites {
			args := site.Common().Args
			if idx < len(args) {
				out = append(out, originsOf(args[idx], target, tracked, inSet, callers, depth+1, seen)...)
			}
		}
		return out
	}
	return []sliceOrigin{{kind: "unknown", desc: fmt.Sprintf("%T", v)}}
}

// SharedSlices (R2.3): within the functions reachable from one entry point, a slice stored into one
// of the tracked fields must not be a slice loaded from a tracked field of another object when some
// reachable instruction appends to a tracked field: append writes into spare capacity that the
// other owner still reads.
func SharedSlices(p *load.Prog, r *oblig.Report, rule string, entry *ssa.Function, funcs []*ssa.Function, trackedFields []string, structSuffixes []string) {
	tracked := map[string]bool{}
	for _, f := range trackedFields {
		tracked[f] = true
	}
	inSet := map[*ssa.Function]bool{}
	for _, f := range funcs {
		inSet[f] = true
	}
	isTrackedStruct := func(base ssa.Value) bool {
		t := base.Type()
		if ptr, ok := t.Underlying().(*types.Pointer); ok {
			t = ptr.Elem()
		}
		for _, s := range structSuffixes {
			if strings.HasSuffix(t.String(), s) {
				return true
			}
		}
		return false
	}
	callers := map[*ssa.Function][]ssa.CallInstruction{}
	appends := 0
	type storeSite struct {
		st    *ssa.Store
		field *types.Var
	}
	var stores []storeSite
	for _, f := range funcs {
		for _, b := range f.Blocks {
			for _, in := range b.Instrs {
				switch v := in.(type) {
				case ssa.CallInstruction:
					if callee := v.Common().StaticCallee(); callee != nil && inSet[callee] {
						callers[callee] = append(callers[callee], v)
					}
				case *ssa.Store:
					if fv, base := fieldOfAddr(v.Addr); fv != nil && tracked[fv.Name()] && isTrackedStruct(base) {
						stores = append(stores, storeSite{v, fv})
						if call, ok := v.Val.(*ssa.Call); ok {
							if b, ok := call.Common().Value.(*ssa.Builtin); ok && b.Name() == "append" {
								appends++
							}
							// the list a helper returns after appending to it (merge helpers): an append to the field all the same
							if callee := call.Common().StaticCallee(); callee != nil && load.InRepo(callee) {
								for _, hb := range callee.Blocks {
									for _, hin := range hb.Instrs {
										if hc, ok := hin.(*ssa.Call); ok {
											if hbi, ok := hc.Common().Value.(*ssa.Builtin); ok && hbi.Name() == "append" && types.Identical(hc.Type(), call.Type()) {
												appends++
											}
										}
									}
								}
							}
						}
					}
				}
			}
		}
	}
	entryName := load.FuncName(entry)
	if len(stores) == 0 {
		r.OK(rule, "shared-slices:"+entryName, "-", "no-store", "no store into "+strings.Join(trackedFields, "/")+" reachable")
		return
	}
	for _, s := range stores {
		_, targetBase = fieldOfAddr(s.st.Addr)
		for _, o := range originsOf(s.st.Val, s.field, tracked, inSet, callers, 0, map[ssa.Value]bool{}) {
			fn := load.FuncName(s.st.Parent())
			construct := fmt.Sprintf("slice-store:%s:%s:%s<-%s", entryName, fn, s.field.Name(), o.desc)
			switch o.kind {
			case "fresh", "own":
				r.OK(rule, construct, p.Pos(s.st.Pos()), o.kind, o.desc)
			case "share":
				if appends > 0 {
					r.Bad(rule, construct, p.Pos(s.st.Pos()), fmt.Sprintf("field %s receives a slice that another node/edge still holds (%s) and %d reachable instruction(s) append to such fields: an append can overwrite the other owner's next element",
						s.field.Name(), o.desc, appends))
				} else {
					r.OK(rule, construct, p.Pos(s.st.Pos()), "shared-but-never-appended", "no append to a tracked field is reachable from "+entryName)
				}
			default:
				r.Unknown(rule, construct, p.Pos(s.st.Pos()), "cannot tell where the slice stored into "+s.field.Name()+" comes from ("+o.desc+")")
			}
		}
	}
}

// GuardedAppends (C11 clause 3): every append to the named field is dominated by a negative
// slices.Contains test of the same field for the same element.
func GuardedAppends(p *load.Prog, r *oblig.Report, rule string, funcs []*ssa.Function, field string, structSuffixes []string) {
	n := 0
	for _, f := range funcs {
		for _, b := range f.Blocks {
			for _, in := range b.Instrs {
				st, ok := in.(*ssa.Store)
				if !ok {
					continue
				}
				fv, base := fieldOfAddr(st.Addr)
				if fv == nil || fv.Name() != field {
					continue
				}
				okStruct := false
				t := base.Type()
				if ptr, ok := t.Underlying().(*types.Pointer); ok {
					t = ptr.Elem()
				}
				for _, s := range structSuffixes {
					if strings.HasSuffix(t.String(), s) {
						okStruct = true
					}
				}
				call, isCall := st.Val.(*ssa.Call)
				if !okStruct || !isCall {
					continue
				}
				construct := fmt.Sprintf("guarded-append:%s:%s", load.FuncName(f), field)
				bi, isB := call.Common().Value.(*ssa.Builtin)
				if isB && bi.Name() == "append" {
					n++
					if guardedAppend(call) {
						r.OK(rule, construct, p.Pos(st.Pos()), "dominated-by-!Contains", "append happens only when the element is absent")
					} else {
						r.Bad(rule, construct, p.Pos(st.Pos()), "append to "+field+" is not dominated by !slices.Contains("+field+", elem) on the same list: duplicates can enter the list")
					}
					continue
				}
				// the list is extended by a repository helper whose result is stored back: its appends are judged in its body
				if h := call.Common().StaticCallee(); h != nil && load.InRepo(h) && len(h.Blocks) > 0 {
					aps := appendsReachingReturn(h)
					if len(aps) == 0 {
						continue
					}
					n++
					bad := false
					for _, ap := range aps {
						if !guardedAppend(ap) {
							bad = true
						}
					}
					if bad {
						r.Bad(rule, construct, p.Pos(st.Pos()), "the list stored into "+field+" is extended in "+load.FuncName(h)+" by an append that is not dominated by !slices.Contains(list, elem) on the same list: duplicates can enter the list")
					} else {
						r.OK(rule, construct, p.Pos(st.Pos()), "dominated-by-!Contains (in "+h.Name()+")", "every append in the helper happens only when the element is absent")
					}
				}
			}
		}
	}
	if n == 0 {
		r.Unknown(rule, "guarded-append:"+field, "-", "no append to field "+field+" found: anchor no longer resolves")
	}
}

func appendedElem(call *ssa.Call) ssa.Value {
	if len(call.Common().Args) < 2 {
		return nil
	}
	sl, ok := call.Common().Args[1].(*ssa.Slice)
	if !ok {
		return nil
	}
	al, ok := sl.X.(*ssa.Alloc)
	if !ok || al.Referrers() == nil {
		return nil
	}
	for _, ref := range *al.Referrers() {
		if ia, ok := ref.(*ssa.IndexAddr); ok && ia.Referrers() != nil {
			for _, r2 := range *ia.Referrers() {
				if st, ok := r2.(*ssa.Store); ok {
					return st.Val
				}
			}
		}
	}
	return nil
}

// appendsReachingReturn: the append calls whose result can be the first result of h (through phis and
// further appends).
func appendsReachingReturn(h *ssa.Function) []*ssa.Call {
	var out []*ssa.Call
	seen := map[ssa.Value]bool{}
	var walk func(v ssa.Value)
	walk = func(v ssa.Value) {
		if seen[v] {
			return
		}
		seen[v] = true
		switch x := v.(type) {
		case *ssa.Phi:
			for _, e := range x.Edges {
				walk(e)
			}
		case *ssa.Call:
			if bi, ok := x.Common().Value.(*ssa.Builtin); ok && bi.Name() == "append" {
				out = append(out, x)
				walk(x.Common().Args[0])
			}
		}
	}
	for _, b := range h.Blocks {
		if ret, ok := b.Instrs[len(b.Instrs)-1].(*ssa.Return); ok && len(ret.Results) > 0 {
			walk(ret.Results[0])
		}
	}
	return out
}

func sameList(a, b ssa.Value) bool {
	if a == b {
		return true
	}
	la, ok1 := a.(*ssa.UnOp)
	lb, ok2 := b.(*ssa.UnOp)
	if ok1 && ok2 && la.Op == token.MUL && lb.Op == token.MUL {
		fa, ba := fieldOfAddr(la.X)
		fb, bb := fieldOfAddr(lb.X)
		return fa != nil && fa == fb && ba == bb
	}
	return false
}

// guardedAppend: append(list, elem) is dominated by the false branch of slices.Contains(list, elem)
// on the same list (the same SSA value, or loads of the same field of the same object).
func guardedAppend(ap *ssa.Call) bool {
	list := ap.Common().Args[0]
	elem := appendedElem(ap)
	for cur := ap.Block(); cur != nil; cur = cur.Idom() {
		idom := cur.Idom()
		if idom == nil {
			return false
		}
		ifi, ok := idom.Instrs[len(idom.Instrs)-1].(*ssa.If)
		if !ok || len(cur.Preds) != 1 {
			continue
		}
		branch := idom.Succs[0] == cur // true branch
		cond := ifi.Cond
		neg := false
		if u, ok := cond.(*ssa.UnOp); ok && u.Op == token.NOT {
			cond = u.X
			neg = true
		}
		call, ok := cond.(*ssa.Call)
		if !ok {
			continue
		}
		callee := call.Common().StaticCallee()
		if callee == nil {
			continue
		}
		o := callee
		if callee.Origin() != nil {
			o = callee.Origin()
		}
		fn, _ := o.Object().(*types.Func)
		if fn == nil || fn.Pkg() == nil || fn.Pkg().Path() != "slices" || fn.Name() != "Contains" || len(call.Common().Args) != 2 {
			continue
		}
		if !sameList(call.Common().Args[0], list) {
			continue
		}
		if elem != nil && call.Common().Args[1] != elem {
			continue
		}
		if containsTrueOnBranch := branch != neg; !containsTrueOnBranch {
			return true
		}
	}
	return false
}
