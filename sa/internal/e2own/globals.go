// Package e2own holds the ownership rules: package-level state is read-only (R2.2), memory reachable
// from the arguments of an entry point is read-only (R2.1), shared slices are not appended to (R2.3).
package e2own

import (
	"fmt"
	"go/token"
	"go/types"
	"sort"

	"golang.org/x/tools/go/ssa"

	"verif/sa/internal/load"
	"verif/sa/internal/oblig"
)

// derivedFromGlobal follows address arithmetic and loads back to a package-level variable.
func derivedFromGlobal(v ssa.Value, depth int) *ssa.Global {
	if depth > 8 {
		return nil
	}
	switch x := v.(type) {
	case *ssa.Global:
		return x
	case *ssa.FieldAddr:
		return derivedFromGlobal(x.X, depth+1)
	case *ssa.IndexAddr:
		return derivedFromGlobal(x.X, depth+1)
	case *ssa.Field:
		return derivedFromGlobal(x.X, depth+1)
	case *ssa.Index:
		return derivedFromGlobal(x.X, depth+1)
	case *ssa.Slice:
		return derivedFromGlobal(x.X, depth+1)
	case *ssa.UnOp:
		if x.Op == token.MUL {
			return derivedFromGlobal(x.X, depth+1)
		}
	case *ssa.Lookup:
		return derivedFromGlobal(x.X, depth+1)
	case *ssa.ChangeType:
		return derivedFromGlobal(x.X, depth+1)
	case *ssa.MakeInterface:
		return derivedFromGlobal(x.X, depth+1)
	case *ssa.Phi:
		for _, e := range x.Edges {
			if g := derivedFromGlobal(e, depth+1); g != nil {
				return g
			}
		}
	}
	return nil
}

func isPointerLike(t types.Type) bool {
	switch t.Underlying().(type) {
	case *types.Pointer, *types.Map, *types.Slice, *types.Chan, *types.Interface, *types.Signature:
		return true
	}
	return false
}

// Globals (R2.2): no reachable repository function outside initialisers writes package-level state
// of a repository package, takes its address for a callee that may write it, or mutates an object
// loaded from it.
func Globals(p *load.Prog, r *oblig.Report, rule string, funcs []*ssa.Function) {
	// universe: package-level variables of the non-generated repository packages
	var globals []string
	for short, sp := range p.SSAPkg {
		if short == "gen" {
			continue
		}
		for _, m := range sp.Members {
			if g, ok := m.(*ssa.Global); ok && g.Name() != "init$guard" {
				globals = append(globals, short+"."+g.Name())
			}
		}
	}
	sort.Strings(globals)
	r.Analysed["package_level_variables"] = globals
	n := 0
	for _, f := range funcs {
		if f.Name() == "init" || f.Synthetic != "" {
			continue
		}
		for _, b := range f.Blocks {
			for _, in := range b.Instrs {
				report := func(g *ssa.Global, what string) {
					if g == nil || !load.IsRepoPkg(g.Pkg.Pkg) || load.ShortPkg(g.Pkg.Pkg) == "gen" {
						return
					}
					n++
					r.Bad(rule, fmt.Sprintf("global-write:%s:%s.%s", load.FuncName(f), load.ShortPkg(g.Pkg.Pkg), g.Name()), p.Pos(in.Pos()),
						what+" package-level variable "+g.Name()+": results may depend on earlier calls and concurrent calls race")
				}
				switch v := in.(type) {
				case *ssa.Store:
					report(derivedFromGlobal(v.Addr, 0), "store to (memory reachable from)")
				case *ssa.MapUpdate:
					report(derivedFromGlobal(v.Map, 0), "map update on")
				case ssa.CallInstruction:
					cc := v.Common()
					args := cc.Args
					if cc.IsInvoke() {
						args = append([]ssa.Value{cc.Value}, args...)
					}
					for _, arg := range args {
						g := derivedFromGlobal(arg, 0)
						if g == nil {
							continue
						}
						// passing the address of the variable (or of a part of it) lets the callee write it;
						// passing a loaded pointer-like value lets the callee write what it points to
						_, isAddr := arg.(*ssa.Global)
						if _, fa := arg.(*ssa.FieldAddr); fa {
							isAddr = true
						}
						if _, ia := arg.(*ssa.IndexAddr); ia {
							isAddr = true
						}
						if !isAddr {
							// a loaded value: error sentinels and other read-only uses
							if readOnlyCallee(cc) || !isPointerLike(arg.Type()) || isErrorValue(arg.Type()) {
								continue
							}
						}
						if b, ok := cc.Value.(*ssa.Builtin); ok && !cc.IsInvoke() {
							switch b.Name() {
							case "len", "cap":
								continue
							}
						}
						report(g, "call of "+calleeName(cc)+" with (the address of / an object loaded from)")
					}
				}
			}
		}
	}
	if n == 0 {
		r.OK(rule, "global-writes", "-", "scan", fmt.Sprintf("%d package-level variables, %d functions scanned, no write outside initialisers", len(globals), len(funcs)))
	}
}

func isErrorValue(t types.Type) bool {
	return types.Identical(t, types.Universe.Lookup("error").Type())
}

func calleeName(cc *ssa.CallCommon) string {
	if cc.IsInvoke() {
		return cc.Method.FullName()
	}
	if f := cc.StaticCallee(); f != nil {
		return load.FuncName(f)
	}
	return cc.Value.Name()
}

func readOnlyCallee(cc *ssa.CallCommon) bool {
	var fn *types.Func
	if cc.IsInvoke() {
		fn = cc.Method
	} else if f := cc.StaticCallee(); f != nil {
		fn, _ = f.Object().(*types.Func)
	}
	if fn == nil || fn.Pkg() == nil {
		return false
	}
	switch fn.Pkg().Path() {
	case "fmt", "errors", "strings", "slices", "maps", "cmp", "unicode", "unicode/utf8", "strconv":
		// slices/maps: only the functions that do not write their operand
		if fn.Pkg().Path() == "slices" || fn.Pkg().Path() == "maps" {
			switch fn.Name() {
			case "Contains", "ContainsFunc", "Index", "IndexFunc", "Equal", "EqualFunc", "Clone", "Keys", "Values", "Sorted", "Collect", "All", "BinarySearch", "BinarySearchFunc", "Max", "Min", "IsSorted", "IsSortedFunc":
				return true
			}
			return false
		}
		return true
	case "regexp":
		// a compiled expression is immutable and safe for concurrent use; only Longest changes it
		return fn.Name() != "Longest"
	}
	return false
}
