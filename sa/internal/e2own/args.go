package e2own

import (
	"fmt"
	"go/token"
	"go/types"
	"os"
	"sort"
	"strings"

	"golang.org/x/tools/go/callgraph"
	"golang.org/x/tools/go/ssa"

	"verif/sa/internal/load"
	"verif/sa/internal/oblig"
)

// ArgPurity (R2.1) is an inclusion-style may-analysis with two marks on SSA values:
//
//	EXT   – the value may point into memory reachable from an argument of the entry point
//	HOLDS – the value is an internal container (slice, map, struct) whose elements may be EXT
//
// Writes through EXT values are violations; writes into HOLDS containers are not.
// It is run once per entry point (the entry point is the context).
type argAnalysis struct {
	p       *load.Prog
	r       *oblig.Report
	rule    string
	entry   *ssa.Function
	funcs   map[*ssa.Function]bool
	ext     map[ssa.Value]bool
	holds   map[ssa.Value]bool
	fExt    map[*types.Var]bool // struct fields that may store an EXT value
	fHolds  map[*types.Var]bool
	retExt  map[*ssa.Function]bool
	retHold map[*ssa.Function]bool
	changed bool
	cg      *callgraph.Graph
	extLib  map[string]bool // library callees that received EXT (for the evidence)
}

func pointerLike(t types.Type) bool {
	switch u := t.Underlying().(type) {
	case *types.Pointer, *types.Map, *types.Slice, *types.Chan, *types.Interface, *types.Signature:
		return true
	case *types.Struct:
		for i := 0; i < u.NumFields(); i++ {
			if pointerLike(u.Field(i).Type()) {
				return true
			}
		}
	case *types.Array:
		return pointerLike(u.Elem())
	case *types.Tuple:
		for i := 0; i < u.Len(); i++ {
			if pointerLike(u.At(i).Type()) {
				return true
			}
		}
	}
	return false
}

func (a *argAnalysis) markExt(v ssa.Value) {
	if v == nil || a.ext[v] {
		return
	}
	if _, isConst := v.(*ssa.Const); isConst {
		return
	}
	if !pointerLike(v.Type()) {
		return
	}
	a.ext[v] = true
	a.changed = true
	if dbg := os.Getenv("VERIF_E2_DEBUG"); dbg != "" && strings.Contains(v.Type().String(), dbg) {
		fn := "?"
		if in, ok := v.(ssa.Instruction); ok && in.Parent() != nil {
			fn = in.Parent().Name()
		} else if p, ok := v.(*ssa.Parameter); ok {
			fn = p.Parent().Name() + " (param)"
		}
		fmt.Fprintf(os.Stderr, "E2 ext: %s %s : %s in %s\n", v.Name(), v.String(), v.Type(), fn)
	}
}

func (a *argAnalysis) markHolds(v ssa.Value) {
	if v == nil || a.holds[v] {
		return
	}
	if _, isConst := v.(*ssa.Const); isConst {
		return
	}
	if !pointerLike(v.Type()) {
		return // a value without pointers cannot hold the caller's pointers (e.g. the string of a (string, []T) result)
	}
	a.holds[v] = true
	a.changed = true
}

func fieldVar(x ssa.Value, idx int) *types.Var {
	t := x.Type()
	if p, ok := t.Underlying().(*types.Pointer); ok {
		t = p.Elem()
	}
	if st, ok := t.Underlying().(*types.Struct); ok && idx < st.NumFields() {
		return st.Field(idx)
	}
	return nil
}

// storeInto records that value val (EXT or HOLDS) is stored at addr, which is internal memory.
func (a *argAnalysis) storeInto(addr ssa.Value, val ssa.Value) {
	e, h := a.ext[val], a.holds[val]
	if !e && !h {
		return
	}
	switch x := addr.(type) {
	case *ssa.FieldAddr:
		if f := fieldVar(x.X, x.Field); f != nil {
			if e && !a.fExt[f] {
				a.fExt[f] = true
				a.changed = true
			}
			if h && !a.fHolds[f] {
				a.fHolds[f] = true
				a.changed = true
			}
		}
		// the enclosing object now holds EXT
		a.markHolds(x.X)
	case *ssa.IndexAddr:
		a.markHolds(x.X)
		if sl, ok := x.X.(*ssa.Slice); ok {
			a.markHolds(sl.X)
		}
	case *ssa.Alloc:
		// an address-taken local: loads from it see the stored value
		if e {
			a.markHoldsCell(x, true)
		} else {
			a.markHoldsCell(x, false)
		}
	case *ssa.Global:
		// reported by R2.2
	default:
		a.markHolds(addr)
	}
}

// cells: allocs whose content is EXT / HOLDS
func (a *argAnalysis) markHoldsCell(al *ssa.Alloc, isExt bool) {
	// represent by marking the alloc itself: ext[alloc] means "*alloc is EXT"
	if isExt {
		if !a.holds[al] {
			a.holds[al] = true
			a.changed = true
		}
		// loads handled in transfer: load from alloc with holds → value EXT? we need to distinguish;
		// use a side map via fExt keyed by nil is not possible, so keep a dedicated set
		if !cellExt[al] {
			cellExt[al] = true
			a.changed = true
		}
	} else {
		if !cellHolds[al] {
			cellHolds[al] = true
			a.changed = true
		}
	}
}

var cellExt = map[*ssa.Alloc]bool{}
var cellHolds = map[*ssa.Alloc]bool{}

func (a *argAnalysis) callees(site ssa.CallInstruction) []*ssa.Function {
	if f := site.Common().StaticCallee(); f != nil {
		return []*ssa.Function{f}
	}
	var out []*ssa.Function
	if n := a.cg.Nodes[site.Parent()]; n != nil {
		for _, e := range n.Out {
			if e.Site == site && e.Callee.Func != nil {
				out = append(out, e.Callee.Func)
			}
		}
	}
	return out
}

// library knowledge
func libFresh(full string) bool {
	switch full {
	case "slices.Clone", "maps.Clone", "google.golang.org/protobuf/proto.Clone", "strings.Split", "strings.Fields", "bytes.Clone", "slices.Collect", "maps.Keys", "maps.Values",
		"slices.Sorted", "slices.SortedFunc", "slices.SortedStableFunc", "slices.Concat", "slices.Repeat", "maps.Collect", "gonum.org/v1/gonum/graph.NodesOf", "gonum.org/v1/gonum/graph.LinesOf", "gonum.org/v1/gonum/graph.EdgesOf":
		return true
	}
	return false
}

func libMutatesFirst(full string) bool {
	if strings.HasPrefix(full, "sort.") && !strings.HasPrefix(full, "sort.Search") && !strings.Contains(full, "IsSorted") {
		return true
	}
	switch full {
	case "slices.Sort", "slices.SortFunc", "slices.SortStableFunc", "slices.Reverse", "slices.Compact", "slices.CompactFunc", "slices.Insert", "slices.Delete", "slices.DeleteFunc",
		"slices.Replace", "slices.Grow", "slices.Clip", "maps.Copy", "maps.DeleteFunc", "maps.Insert",
		"google.golang.org/protobuf/proto.Merge", "google.golang.org/protobuf/proto.Reset",
		"google.golang.org/protobuf/encoding/protojson.Unmarshal", "encoding/json.Unmarshal", "gopkg.in/yaml.v3.Unmarshal",
		"(google.golang.org/protobuf/encoding/protojson.UnmarshalOptions).Unmarshal":
		return true
	}
	return false
}

func libReadOnly(fn *types.Func, full string) bool {
	pkg := ""
	if fn.Pkg() != nil {
		pkg = fn.Pkg().Path()
	}
	switch pkg {
	case "fmt", "strings", "errors", "cmp", "strconv", "unicode", "unicode/utf8", "math", "regexp", "net/url", "bytes":
		return true
	case "slices":
		switch fn.Name() {
		case "Contains", "ContainsFunc", "Index", "IndexFunc", "Equal", "EqualFunc", "Clone", "Max", "Min", "BinarySearch", "BinarySearchFunc", "IsSorted", "IsSortedFunc", "Values", "All",
			"Sorted", "SortedFunc", "SortedStableFunc", "Collect", "Concat", "MaxFunc", "MinFunc", "Compare", "CompareFunc", "Backward", "Chunk", "Repeat":
			return true
		}
	case "maps":
		switch fn.Name() {
		case "Keys", "Values", "Clone", "Equal", "EqualFunc", "All", "Collect":
			return true
		}
	case "google.golang.org/protobuf/proto":
		switch fn.Name() {
		case "Equal", "Clone", "Size", "Marshal":
			return true
		}
	case "google.golang.org/protobuf/encoding/protojson":
		return strings.HasPrefix(fn.Name(), "Marshal") || fn.Name() == "Format"
	case "encoding/json":
		return strings.HasPrefix(fn.Name(), "Marshal")
	case "gonum.org/v1/gonum/graph/topo", "gonum.org/v1/gonum/graph/encoding/dot":
		return true
	case "gonum.org/v1/gonum/graph":
		return true // helpers and interface methods of nodes/edges/iterators read; builders retain but do not modify their operands
	case "gonum.org/v1/gonum/graph/multi", "gonum.org/v1/gonum/graph/iterator":
		return true
	case "github.com/hashicorp/go-multierror":
		return true // Append copies the error values it is given into the accumulator
	}
	if strings.HasPrefix(pkg, "github.com/openfga/api/proto") {
		return strings.HasPrefix(fn.Name(), "Get") || fn.Name() == "String" || fn.Name() == "ProtoReflect"
	}
	if strings.HasPrefix(pkg, "github.com/antlr4-go/antlr") {
		return true // the runtime receives strings and listener objects created by the call itself
	}
	return false
}

func funcOf(cc *ssa.CallCommon) (*types.Func, string) {
	var fn *types.Func
	if cc.IsInvoke() {
		fn = cc.Method
	} else if f, ok := cc.Value.(*ssa.Function); ok {
		o := f
		if f.Origin() != nil {
			o = f.Origin()
		}
		fn, _ = o.Object().(*types.Func)
	}
	if fn == nil {
		return nil, ""
	}
	full := fn.FullName()
	if fn.Pkg() != nil && fn.Type().(*types.Signature).Recv() == nil {
		full = fn.Pkg().Path() + "." + fn.Name()
	}
	return fn, full
}

func (a *argAnalysis) transfer() {
	for f := range a.funcs {
		for _, b := range f.Blocks {
			for _, in := range b.Instrs {
				switch v := in.(type) {
				case *ssa.FieldAddr:
					if a.ext[v.X] {
						a.markExt(v)
					}
				case *ssa.IndexAddr:
					if a.ext[v.X] {
						a.markExt(v)
					}
					if a.holds[v.X] {
						a.markHolds(v) // address of an element of a HOLDS container; loads through it yield EXT
					}
				case *ssa.Field:
					if a.ext[v.X] {
						a.markExt(v)
					}
					if fv := fieldVar(v.X, v.Field); fv != nil {
						if a.fExt[fv] {
							a.markExt(v)
						}
						if a.fHolds[fv] {
							a.markHolds(v)
						}
					}
				case *ssa.Index:
					if a.ext[v.X] || a.holds[v.X] {
						a.markExt(v)
					}
				case *ssa.Slice:
					if a.ext[v.X] {
						a.markExt(v)
					}
					if a.holds[v.X] {
						a.markHolds(v)
					}
				case *ssa.UnOp:
					if v.Op != token.MUL {
						continue
					}
					// load
					if a.ext[v.X] {
						a.markExt(v) // anything loaded from argument memory points into argument memory (if pointer-like)
					}
					switch x := v.X.(type) {
					case *ssa.FieldAddr:
						if fv := fieldVar(x.X, x.Field); fv != nil {
							if a.fExt[fv] {
								a.markExt(v)
							}
							if a.fHolds[fv] {
								a.markHolds(v)
							}
						}
					case *ssa.IndexAddr:
						if a.holds[x.X] || a.holds[x] {
							a.markExt(v)
						}
					case *ssa.Alloc:
						if cellExt[x] {
							a.markExt(v)
						}
						if cellHolds[x] {
							a.markHolds(v)
						}
					}
				case *ssa.Lookup:
					if a.ext[v.X] || a.holds[v.X] {
						a.markExt(v)
					}
				case *ssa.Range:
					if a.ext[v.X] {
						a.markExt(v)
						a.ext[v] = true
					}
					if a.holds[v.X] {
						a.markHolds(v)
					}
				case *ssa.Next:
					if a.ext[v.Iter] || a.holds[v.Iter] {
						if !a.ext[v] {
							a.ext[v] = true
							a.changed = true
						}
					}
				case *ssa.Extract:
					if a.ext[v.Tuple] {
						a.markExt(v)
					}
					if a.holds[v.Tuple] {
						a.markHolds(v)
					}
				case *ssa.Phi:
					for _, e := range v.Edges {
						if a.ext[e] {
							a.markExt(v)
						}
						if a.holds[e] {
							a.markHolds(v)
						}
					}
				case *ssa.ChangeType:
					a.copyMarks(v.X, v)
				case *ssa.ChangeInterface:
					a.copyMarks(v.X, v)
				case *ssa.Convert:
					a.copyMarks(v.X, v)
				case *ssa.MakeInterface:
					a.copyMarks(v.X, v)
				case *ssa.TypeAssert:
					a.copyMarks(v.X, v)
				case *ssa.MakeClosure:
					if cf, ok := v.Fn.(*ssa.Function); ok {
						for i, bnd := range v.Bindings {
							if i < len(cf.FreeVars) {
								// bindings are addresses of captured variables or values
								if a.ext[bnd] {
									a.markExt(cf.FreeVars[i])
								}
								if a.holds[bnd] {
									a.markHolds(cf.FreeVars[i])
								}
								if al, ok := bnd.(*ssa.Alloc); ok {
									if cellExt[al] || cellHolds[al] {
										a.markHolds(cf.FreeVars[i])
										freeCell[cf.FreeVars[i]] = al
									}
								}
							}
						}
					}
				case *ssa.Store:
					if !a.ext[v.Addr] {
						a.storeInto(v.Addr, v.Val)
					}
				case *ssa.MapUpdate:
					if !a.ext[v.Map] && (a.ext[v.Value] || a.holds[v.Value] || a.ext[v.Key]) {
						a.markHolds(v.Map)
						// the map may itself live in a field
						if ld, ok := v.Map.(*ssa.UnOp); ok && ld.Op == token.MUL {
							if fa, ok := ld.X.(*ssa.FieldAddr); ok {
								if fv := fieldVar(fa.X, fa.Field); fv != nil && !a.fHolds[fv] {
									a.fHolds[fv] = true
									a.changed = true
								}
							}
						}
					}
				case *ssa.Return:
					for _, res := range v.Results {
						if a.ext[res] && !a.retExt[f] {
							a.retExt[f] = true
							a.changed = true
						}
						if a.holds[res] && !a.retHold[f] {
							a.retHold[f] = true
							a.changed = true
						}
					}
				case ssa.CallInstruction:
					a.call(v)
				}
			}
		}
	}
}

var freeCell = map[*ssa.FreeVar]*ssa.Alloc{}

func (a *argAnalysis) copyMarks(from, to ssa.Value) {
	if a.ext[from] {
		a.markExt(to)
	}
	if a.holds[from] {
		a.markHolds(to)
	}
}

func (a *argAnalysis) call(site ssa.CallInstruction) {
	cc := site.Common()
	val, _ := site.(ssa.Value)
	if b, ok := cc.Value.(*ssa.Builtin); ok && !cc.IsInvoke() {
		switch b.Name() {
		case "append":
			if val != nil {
				if a.ext[cc.Args[0]] {
					a.markExt(val)
				}
				if a.holds[cc.Args[0]] {
					a.markHolds(val)
				}
				for _, arg := range cc.Args[1:] {
					if a.ext[arg] || a.holds[arg] {
						a.markHolds(val)
					}
				}
			}
		case "copy":
			if !a.ext[cc.Args[0]] && (a.ext[cc.Args[1]] || a.holds[cc.Args[1]]) {
				a.markHolds(cc.Args[0])
			}
		}
		return
	}
	args := cc.Args
	cs := a.callees(site)
	followed := false
	for _, callee := range cs {
		if !a.funcs[callee] {
			continue
		}
		followed = true
		params := callee.Params
		offset := 0
		if cc.IsInvoke() {
			// receiver is cc.Value
			if len(params) > 0 {
				a.copyMarks(cc.Value, params[0])
			}
			offset = 1
		}
		for i, arg := range args {
			if i+offset < len(params) {
				a.copyMarks(arg, params[i+offset])
			}
		}
		if val != nil {
			if a.retExt[callee] {
				a.markExt(val)
			}
			if a.retHold[callee] {
				a.markHolds(val)
			}
		}
	}
	if followed {
		return
	}
	// library or unresolved callee
	fn, full := funcOf(cc)
	anyExt := false
	all := args
	if cc.IsInvoke() {
		all = append([]ssa.Value{cc.Value}, args...)
	}
	for _, arg := range all {
		if a.ext[arg] || a.holds[arg] {
			anyExt = true
		}
	}
	if !anyExt || val == nil {
		return
	}
	if fn != nil && libFresh(full) {
		// a fresh container whose elements are still the caller's pointers
		a.markHolds(val)
		return
	}
	// result may point into the argument memory (getters, iterators, conversions)
	if pointerLike(val.Type()) {
		a.markExt(val)
	}
}

// violations scans for writes through EXT.
func (a *argAnalysis) violations() int {
	n := 0
	entryName := load.FuncName(a.entry)
	bad := func(in ssa.Instruction, kind, what string) {
		n++
		a.r.Bad(a.rule, fmt.Sprintf("arg-write:%s:%s:%s", entryName, load.FuncName(in.Parent()), kind), a.p.Pos(in.Pos()),
			what+" — memory reachable from an argument of "+entryName+" is modified")
	}
	fs := make([]*ssa.Function, 0, len(a.funcs))
	for f := range a.funcs {
		fs = append(fs, f)
	}
	sort.Slice(fs, func(i, j int) bool { return load.FuncName(fs[i]) < load.FuncName(fs[j]) })
	for _, f := range fs {
		for _, b := range f.Blocks {
			for _, in := range b.Instrs {
				switch v := in.(type) {
				case *ssa.Store:
					if a.ext[v.Addr] {
						bad(in, "store", "store through "+describe(v.Addr))
					}
				case *ssa.MapUpdate:
					if a.ext[v.Map] {
						bad(in, "map-update", "map update on "+describe(v.Map))
					}
				case ssa.CallInstruction:
					cc := v.Common()
					if bi, ok := cc.Value.(*ssa.Builtin); ok && !cc.IsInvoke() {
						switch bi.Name() {
						case "append":
							if a.ext[cc.Args[0]] {
								bad(in, "append", "append to a slice of the argument (writes its spare capacity)")
							}
						case "copy", "delete", "clear":
							if a.ext[cc.Args[0]] {
								bad(in, bi.Name(), bi.Name()+" on "+describe(cc.Args[0]))
							}
						}
						continue
					}
					// followed callees are judged inside
					followed := false
					for _, callee := range a.callees(v) {
						if a.funcs[callee] {
							followed = true
						}
					}
					if followed {
						continue
					}
					fn, full := funcOf(cc)
					all := cc.Args
					if cc.IsInvoke() {
						all = append([]ssa.Value{cc.Value}, cc.Args...)
					}
					for i, arg := range all {
						if !a.ext[arg] {
							continue
						}
						name := full
						if fn == nil {
							name = "dynamic callee"
						}
						a.extLib[name] = true
						switch {
						case fn != nil && libMutatesFirst(full) && i == 0:
							bad(in, "mutator:"+fn.Name(), "call of "+full+" on "+describe(arg))
						case fn != nil && libReadOnly(fn, full):
						case fn != nil && libMutatesFirst(full):
						default:
							n++
							a.r.Unknown(a.rule, fmt.Sprintf("arg-escape:%s:%s:%s", entryName, load.FuncName(f), name), a.p.Pos(in.Pos()),
								"argument memory is passed to "+name+", which is in neither the read-only nor the mutator table")
						}
					}
				}
			}
		}
	}
	return n
}

func describe(v ssa.Value) string {
	switch x := v.(type) {
	case *ssa.FieldAddr:
		if f := fieldVar(x.X, x.Field); f != nil {
			return "field " + f.Name()
		}
	case *ssa.IndexAddr:
		return "an element of " + describe(x.X)
	case *ssa.Parameter:
		return "parameter " + x.Name()
	case *ssa.UnOp:
		return "*" + describe(x.X)
	case *ssa.Call:
		if fn, full := funcOf(x.Common()); fn != nil {
			return "result of " + full
		}
	case *ssa.Slice:
		return "a slice of " + describe(x.X)
	}
	return v.Name() + " (" + v.Type().String() + ")"
}

// ArgPurity runs R2.1 for one entry point over the functions reachable from it.
// extraRoots: additional values to treat as EXT (none today). Returns the number of problems.
func ArgPurity(p *load.Prog, r *oblig.Report, rule string, entry *ssa.Function, funcs []*ssa.Function) {
	if entry == nil {
		return
	}
	a := &argAnalysis{p: p, r: r, rule: rule, entry: entry, funcs: map[*ssa.Function]bool{}, ext: map[ssa.Value]bool{}, holds: map[ssa.Value]bool{},
		fExt: map[*types.Var]bool{}, fHolds: map[*types.Var]bool{}, retExt: map[*ssa.Function]bool{}, retHold: map[*ssa.Function]bool{}, cg: p.CallGraph(), extLib: map[string]bool{}}
	for _, f := range funcs {
		a.funcs[f] = true
	}
	a.funcs[entry] = true
	cellExt = map[*ssa.Alloc]bool{}
	cellHolds = map[*ssa.Alloc]bool{}
	freeCell = map[*ssa.FreeVar]*ssa.Alloc{}
	for _, prm := range entry.Params {
		a.markExt(prm)
	}
	for iter := 0; iter < 100; iter++ {
		a.changed = false
		a.transfer()
		if !a.changed {
			break
		}
	}
	n := a.violations()
	libs := make([]string, 0, len(a.extLib))
	for k := range a.extLib {
		libs = append(libs, k)
	}
	sort.Strings(libs)
	key := "library_callees_receiving_argument_memory"
	prev, _ := r.Analysed[key].(map[string][]string)
	if prev == nil {
		prev = map[string][]string{}
	}
	prev[load.FuncName(entry)] = libs
	r.Analysed[key] = prev
	if n == 0 {
		r.OK(rule, "arg-purity:"+load.FuncName(entry), p.Pos(entry.Pos()), "may-point-to", fmt.Sprintf("%d functions, %d values may point into argument memory, %d internal containers hold such pointers; no write through them", len(a.funcs), len(a.ext), len(a.holds)))
	}
}

// ReceiverState: methods of the named builder type never store into their receiver (the builder is
// stateless, so a second Build cannot depend on the first).
func ReceiverState(p *load.Prog, r *oblig.Report, rule, pkg, typeName string, funcs []*ssa.Function) {
	n, methods := 0, 0
	for _, f := range funcs {
		if f.Signature.Recv() == nil || len(f.Params) == 0 {
			continue
		}
		rt := f.Signature.Recv().Type()
		if ptr, ok := rt.(*types.Pointer); ok {
			rt = ptr.Elem()
		}
		named, ok := rt.(*types.Named)
		if !ok || named.Obj().Name() != typeName || load.ShortPkg(named.Obj().Pkg()) != pkg {
			continue
		}
		methods++
		recv := f.Params[0]
		derived := map[ssa.Value]bool{recv: true}
		cells := map[ssa.Value]bool{} // local cells that hold the receiver (a parameter captured by a closure is spilled)
		scope := []*ssa.Function{f}
		var addAnon func(g *ssa.Function)
		addAnon = func(g *ssa.Function) {
			for _, an := range g.AnonFuncs {
				scope = append(scope, an)
				addAnon(an)
			}
		}
		addAnon(f)
		for changed := true; changed; {
			changed = false
			for _, g := range scope {
				for _, b := range g.Blocks {
					for _, in := range b.Instrs {
						if st, isSt := in.(*ssa.Store); isSt && derived[st.Val] && !cells[st.Addr] {
							if _, isAlloc := st.Addr.(*ssa.Alloc); isAlloc {
								cells[st.Addr] = true
								changed = true
							}
						}
						if mc, isMC := in.(*ssa.MakeClosure); isMC {
							if cf, isFn := mc.Fn.(*ssa.Function); isFn {
								for i, bnd := range mc.Bindings {
									if cells[bnd] && i < len(cf.FreeVars) && !cells[cf.FreeVars[i]] {
										cells[cf.FreeVars[i]] = true
										changed = true
									}
								}
							}
						}
						v, ok := in.(ssa.Value)
						if !ok || derived[v] {
							continue
						}
						if ld, isLd := v.(*ssa.UnOp); isLd && ld.Op == token.MUL && cells[ld.X] {
							derived[v] = true
							changed = true
							continue
						}
						switch x := v.(type) {
						case *ssa.FieldAddr:
							if derived[x.X] {
								derived[v] = true
								changed = true
							}
						case *ssa.IndexAddr:
							if derived[x.X] {
								derived[v] = true
								changed = true
							}
						case *ssa.UnOp:
							if x.Op == token.MUL && derived[x.X] && pointerLike(x.Type()) {
								derived[v] = true
								changed = true
							}
						case *ssa.Lookup:
							if derived[x.X] && pointerLike(x.Type()) {
								derived[v] = true
								changed = true
							}
						}
					}
				}
			}
		}
		for _, g := range scope {
			for _, b := range g.Blocks {
				for _, in := range b.Instrs {
					switch v := in.(type) {
					case *ssa.Store:
						if derived[v.Addr] {
							n++
							r.Bad(rule, "receiver-state:"+load.FuncName(f), p.Pos(in.Pos()), "store into the "+typeName+" receiver: a later call on the same builder sees state left by this one")
						}
					case *ssa.MapUpdate:
						if derived[v.Map] {
							n++
							r.Bad(rule, "receiver-state:"+load.FuncName(f), p.Pos(in.Pos()), "map update inside the "+typeName+" receiver: a later call on the same builder sees state left by this one")
						}
					case ssa.CallInstruction:
						// a counter or a concurrent map kept in the receiver is state all the same, however atomically it is updated
						cc := v.Common()
						callee := cc.StaticCallee()
						if callee == nil || callee.Pkg == nil || len(cc.Args) == 0 || !derived[cc.Args[0]] {
							continue
						}
						pkgPath, name := callee.Pkg.Pkg.Path(), callee.Name()
						writes := false
						switch pkgPath {
						case "sync/atomic":
							writes = name != "Load" && !strings.HasPrefix(name, "Load")
						case "sync":
							switch name {
							case "Store", "Delete", "LoadOrStore", "LoadAndDelete", "Swap", "CompareAndSwap", "CompareAndDelete", "Clear", "Do":
								writes = true
							}
						}
						if writes {
							n++
							r.Bad(rule, "receiver-state:"+load.FuncName(f), p.Pos(in.Pos()), "call of "+pkgPath+"."+name+" on a field of the "+typeName+" receiver: a later or concurrent call on the same builder sees state left by this one")
						}
					}
				}
			}
		}
	}
	if methods == 0 {
		r.Unknown(rule, "receiver-state:"+pkg+"."+typeName, "-", "no method of "+typeName+" is reachable: anchor no longer resolves")
	} else if n == 0 {
		r.OK(rule, "receiver-state:"+pkg+"."+typeName, "-", "scan", fmt.Sprintf("%d methods, none stores into its receiver", methods))
	}
}
