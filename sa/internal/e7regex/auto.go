// Package e7regex decides the clauses of C18 over all strings: the validation rule constants and
// format strings are extracted from the Go source, each pattern is compiled with regexp/syntax
// (the parser the regexp package itself uses) and turned into a DFA over code-point classes that
// follows the semantics of regexp.MatchString; every clause is a reachability question on a
// product automaton and is answered with a shortest witness string when it fails.
package e7regex

import (
	"fmt"
	"regexp/syntax"
	"sort"
	"strings"
)

// Alphabet is a partition of 0..0x10FFFF into classes, each represented by its lowest code point.
type Alphabet struct {
	Lo []rune // sorted class starts; class i = [Lo[i], Lo[i+1]-1]
}

// ClassOf returns the class index of r.
func (a *Alphabet) ClassOf(r rune) int {
	i := sort.Search(len(a.Lo), func(i int) bool { return a.Lo[i] > r })
	return i - 1
}

// Rep returns the representative of class i.
func (a *Alphabet) Rep(i int) rune { return a.Lo[i] }

// Size is the number of classes.
func (a *Alphabet) Size() int { return len(a.Lo) }

// compile parses and compiles a pattern exactly like regexp.Compile does (Perl flags, Simplify).
func compile(p string) (*syntax.Prog, error) {
	re, err := syntax.Parse(p, syntax.Perl)
	if err != nil {
		return nil, err
	}
	return syntax.Compile(re.Simplify())
}

// boundaries collects the code points at which some instruction of prog changes its answer.
func boundaries(prog *syntax.Prog, cut map[rune]bool) error {
	for i := range prog.Inst {
		in := &prog.Inst[i]
		switch in.Op {
		case syntax.InstRune, syntax.InstRune1:
			if syntax.Flags(in.Arg)&syntax.FoldCase != 0 {
				return fmt.Errorf("case-folding instruction: outside the supported subset")
			}
			if len(in.Rune) == 1 {
				cut[in.Rune[0]] = true
				cut[in.Rune[0]+1] = true
			} else {
				for j := 0; j+1 < len(in.Rune); j += 2 {
					cut[in.Rune[j]] = true
					cut[in.Rune[j+1]+1] = true
				}
			}
		case syntax.InstRuneAnyNotNL:
			cut['\n'] = true
			cut['\n'+1] = true
		case syntax.InstEmptyWidth:
			if syntax.EmptyOp(in.Arg)&^(syntax.EmptyBeginText|syntax.EmptyEndText) != 0 {
				return fmt.Errorf("empty-width assertion other than \\A / \\z (^ / $ without (?m)): outside the supported subset")
			}
		}
	}
	return nil
}

// NewAlphabet builds the partition from the programs and extra singletons.
func NewAlphabet(progs []*syntax.Prog, singles []rune, asciiSingletons bool) (*Alphabet, error) {
	cut := map[rune]bool{0: true}
	for _, p := range progs {
		if err := boundaries(p, cut); err != nil {
			return nil, err
		}
	}
	for _, r := range singles {
		cut[r] = true
		cut[r+1] = true
	}
	if asciiSingletons {
		for r := rune(0); r <= 0x80; r++ {
			cut[r] = true
		}
	}
	a := &Alphabet{}
	for r := range cut {
		if r >= 0 && r <= 0x10FFFF {
			a.Lo = append(a.Lo, r)
		}
	}
	sort.Slice(a.Lo, func(i, j int) bool { return a.Lo[i] < a.Lo[j] })
	return a, nil
}

// PatDFA is the automaton of regexp.MatchString(pattern, ·) over the class alphabet.
// State 0 is the start state. Accept[s] tells whether the input read so far matches.
type PatDFA struct {
	Pattern string
	Next    [][]int
	Accept  []bool
}

type threadSet struct {
	start   bool // no input consumed yet
	matched bool
	pcs     []int // sorted, unique; may include pcs sitting on a pending \z assertion
}

func (t threadSet) key() string {
	var sb strings.Builder
	if t.start {
		sb.WriteByte('S')
	}
	if t.matched {
		sb.WriteByte('M')
	}
	for _, p := range t.pcs {
		fmt.Fprintf(&sb, "%d,", p)
	}
	return sb.String()
}

// closure follows non-consuming instructions. atStart tells whether no input has been consumed;
// atEnd tells whether the input ends here (then \z holds). A thread waiting at \z is kept in the
// set when !atEnd. Returns the pcs of consuming / pending instructions and whether Match is reached.
func closure(prog *syntax.Prog, seeds []int, atStart, atEnd bool) (pcs []int, matched bool) {
	seen := map[int]bool{}
	var out []int
	var visit func(pc int)
	visit = func(pc int) {
		if seen[pc] {
			return
		}
		seen[pc] = true
		in := &prog.Inst[pc]
		switch in.Op {
		case syntax.InstAlt, syntax.InstAltMatch:
			visit(int(in.Out))
			visit(int(in.Arg))
		case syntax.InstCapture, syntax.InstNop:
			visit(int(in.Out))
		case syntax.InstEmptyWidth:
			op := syntax.EmptyOp(in.Arg)
			ok := true
			pending := false
			if op&syntax.EmptyBeginText != 0 && !atStart {
				ok = false
			}
			if op&syntax.EmptyEndText != 0 && !atEnd {
				// cannot be decided before we know whether more input follows
				pending = true
			}
			if !ok {
				return
			}
			if pending {
				out = append(out, pc)
				return
			}
			visit(int(in.Out))
		case syntax.InstMatch:
			matched = true
		case syntax.InstFail:
		default:
			out = append(out, pc)
		}
	}
	for _, s := range seeds {
		visit(s)
	}
	sort.Ints(out)
	return out, matched
}

// BuildPatDFA constructs the DFA for an (unanchored-search) MatchString of the pattern.
func BuildPatDFA(pattern string, prog *syntax.Prog, a *Alphabet) *PatDFA {
	d := &PatDFA{Pattern: pattern}
	idx := map[string]int{}
	var sets []threadSet
	add := func(t threadSet) int {
		k := t.key()
		if i, ok := idx[k]; ok {
			return i
		}
		i := len(sets)
		idx[k] = i
		sets = append(sets, t)
		d.Next = append(d.Next, make([]int, a.Size()))
		d.Accept = append(d.Accept, false)
		return i
	}
	pcs, m := closure(prog, []int{prog.Start}, true, false)
	add(threadSet{start: true, matched: m, pcs: pcs})
	for i := 0; i < len(sets); i++ {
		cur := sets[i]
		// acceptance if the input ends here: a sticky match, or the pending threads reach Match with \z true.
		acc := cur.matched
		if !acc {
			_, mm := closure(prog, pendingOuts(prog, cur.pcs), cur.start, true)
			acc = mm
		}
		d.Accept[i] = acc
		for c := 0; c < a.Size(); c++ {
			r := a.Rep(c)
			var nextSeeds []int
			for _, pc := range cur.pcs {
				in := &prog.Inst[pc]
				switch in.Op {
				case syntax.InstRune, syntax.InstRune1, syntax.InstRuneAny, syntax.InstRuneAnyNotNL:
					if in.MatchRune(r) {
						nextSeeds = append(nextSeeds, int(in.Out))
					}
				}
				// threads pending at \z die when more input arrives
			}
			// unanchored search: a new attempt may start at the next position
			nextSeeds = append(nextSeeds, prog.Start)
			npcs, nm := closure(prog, nextSeeds, false, false)
			d.Next[i][c] = add(threadSet{matched: cur.matched || nm, pcs: npcs})
		}
	}
	return d
}

// pendingOuts returns, for the threads waiting at an end-of-text assertion, the instruction itself
// (closure with atEnd=true then passes through it); consuming instructions are dropped because no
// more input follows.
func pendingOuts(prog *syntax.Prog, pcs []int) []int {
	var out []int
	for _, pc := range pcs {
		if prog.Inst[pc].Op == syntax.InstEmptyWidth {
			out = append(out, pc)
		}
	}
	return out
}

// Formula is a boolean combination of pattern matches.
type Formula struct {
	Op   string // "pat", "and", "or", "call"
	Pat  int    // index into the machine's pattern list (Op == "pat")
	Name string // callee (Op == "call"), resolved before use
	L, R *Formula
}

// Machine evaluates a formula over several pattern DFAs run in lockstep.
type Machine struct {
	Pats []*PatDFA
	F    *Formula
}

// MState is a tuple of DFA states.
type MState []int

// Start returns the initial tuple.
func (m *Machine) Start() MState { return make(MState, len(m.Pats)) }

// Step advances all DFAs on class c.
func (m *Machine) Step(s MState, c int) MState {
	n := make(MState, len(s))
	for i, d := range m.Pats {
		n[i] = d.Next[s[i]][c]
	}
	return n
}

// Accept evaluates the formula if the input ends here.
func (m *Machine) Accept(s MState) bool { return m.eval(m.F, s) }

func (m *Machine) eval(f *Formula, s MState) bool {
	switch f.Op {
	case "pat":
		return m.Pats[f.Pat].Accept[s[f.Pat]]
	case "and":
		return m.eval(f.L, s) && m.eval(f.R, s)
	case "or":
		return m.eval(f.L, s) || m.eval(f.R, s)
	case "not":
		return !m.eval(f.L, s)
	case "true":
		return true
	case "false":
		return false
	}
	panic("unresolved formula node " + f.Op)
}

// Key encodes a tuple.
func (s MState) Key() string {
	var sb strings.Builder
	for _, v := range s {
		fmt.Fprintf(&sb, "%d.", v)
	}
	return sb.String()
}

// Explore runs a breadth-first search over a product whose state is S. visit is called once per
// reachable state with the class word that reaches it; returning false stops the search.
func Explore[S any](start S, key func(S) string, nclasses int, step func(S, int) (S, bool), visit func(S, []int) bool) (states int) {
	type node struct {
		s    S
		prev int
		via  int
	}
	q := []node{{s: start, prev: -1}}
	seen := map[string]bool{key(start): true}
	word := func(i int) []int {
		var w []int
		for j := i; q[j].prev >= 0; j = q[j].prev {
			w = append(w, q[j].via)
		}
		for l, r := 0, len(w)-1; l < r; l, r = l+1, r-1 {
			w[l], w[r] = w[r], w[l]
		}
		return w
	}
	for i := 0; i < len(q); i++ {
		if !visit(q[i].s, word(i)) {
			return len(seen)
		}
		for c := 0; c < nclasses; c++ {
			n, ok := step(q[i].s, c)
			if !ok {
				continue
			}
			k := key(n)
			if seen[k] {
				continue
			}
			seen[k] = true
			q = append(q, node{s: n, prev: i, via: c})
		}
	}
	return len(seen)
}

// WordString renders a class word as a Go-quoted string of representatives.
func (a *Alphabet) WordString(w []int) string {
	var sb strings.Builder
	for _, c := range w {
		sb.WriteRune(a.Rep(c))
	}
	return fmt.Sprintf("%q", sb.String())
}
