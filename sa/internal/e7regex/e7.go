package e7regex

import (
	"fmt"
	"go/ast"
	"go/constant"
	"go/token"
	"go/types"
	"os"
	"path/filepath"
	"regexp/syntax"
	"sort"
	"strings"

	"golang.org/x/tools/go/types/typeutil"

	"verif/sa/internal/load"
	"verif/sa/internal/oblig"
)

// validator names (entry points named by the property) and the rule constants.
var validatorNames = []string{"ValidateObject", "ValidateObjectID", "ValidateRelation", "ValidateUserSet", "ValidateUserObject",
	"ValidateUserWildcard", "ValidateUser", "ValidateRelationshipCondition", "ValidateType"}

var ruleConsts = map[string]string{"RuleType": "type", "RuleRelation": "relation", "RuleCondition": "condition", "RuleID": "id", "RuleObject": "object"}

// RE2 \s, the whitespace class the rule strings themselves use.
var re2Space = []rune{'\t', '\n', '\f', '\r', ' '}

// other code points unicode.IsSpace knows; kept as singleton classes and reported as information.
var otherSpace = []rune{'\v', 0x85, 0xA0, 0x1680, 0x2000, 0x200A, 0x2028, 0x2029, 0x202F, 0x205F, 0x3000}

type extracted struct {
	consts   map[string]string
	formulas map[string]*Formula // per validator, pattern indices into patterns
	patterns []string
	pos      map[string]token.Pos
}

type extractor struct {
	prog   *load.Prog
	info   *types.Info
	pats   map[string]int
	out    *extracted
	errors []string
}

func (x *extractor) pat(p string) int {
	if i, ok := x.pats[p]; ok {
		return i
	}
	i := len(x.out.patterns)
	x.pats[p] = i
	x.out.patterns = append(x.out.patterns, p)
	return i
}

// foldString constant-folds an expression to a string: constants and fmt.Sprintf with a constant
// format using only %s / %v verbs and constant string operands.
func (x *extractor) foldString(e ast.Expr) (string, bool) {
	if tv, ok := x.info.Types[e]; ok && tv.Value != nil && tv.Value.Kind() == constant.String {
		return constant.StringVal(tv.Value), true
	}
	call, ok := ast.Unparen(e).(*ast.CallExpr)
	if !ok {
		return "", false
	}
	fn, _ := typeutil.Callee(x.info, call).(*types.Func)
	if fn == nil || fn.Pkg() == nil || fn.Pkg().Path() != "fmt" || fn.Name() != "Sprintf" || len(call.Args) == 0 {
		return "", false
	}
	format, ok := x.foldString(call.Args[0])
	if !ok {
		return "", false
	}
	var sb strings.Builder
	arg := 1
	for i := 0; i < len(format); i++ {
		c := format[i]
		if c != '%' {
			sb.WriteByte(c)
			continue
		}
		i++
		if i >= len(format) {
			return "", false
		}
		switch format[i] {
		case '%':
			sb.WriteByte('%')
		case 's', 'v':
			if arg >= len(call.Args) {
				return "", false
			}
			s, ok := x.foldString(call.Args[arg])
			if !ok {
				return "", false
			}
			sb.WriteString(s)
			arg++
		default:
			return "", false
		}
	}
	if arg != len(call.Args) {
		return "", false
	}
	return sb.String(), true
}

func (x *extractor) formula(e ast.Expr, vars map[types.Object]int, param types.Object) (*Formula, error) {
	switch v := ast.Unparen(e).(type) {
	case *ast.Ident:
		if i, ok := vars[x.info.Uses[v]]; ok {
			return &Formula{Op: "pat", Pat: i}, nil
		}
		return nil, fmt.Errorf("identifier %s is not a match result", v.Name)
	case *ast.BinaryExpr:
		if v.Op != token.LAND && v.Op != token.LOR {
			return nil, fmt.Errorf("operator %s", v.Op)
		}
		l, err := x.formula(v.X, vars, param)
		if err != nil {
			return nil, err
		}
		r, err := x.formula(v.Y, vars, param)
		if err != nil {
			return nil, err
		}
		op := "and"
		if v.Op == token.LOR {
			op = "or"
		}
		return &Formula{Op: op, L: l, R: r}, nil
	case *ast.CallExpr:
		fn, _ := typeutil.Callee(x.info, v).(*types.Func)
		if fn == nil || fn.Pkg() == nil || load.ShortPkg(fn.Pkg()) != "validation" || len(v.Args) != 1 {
			return nil, fmt.Errorf("call of something that is not a validator")
		}
		id, ok := ast.Unparen(v.Args[0]).(*ast.Ident)
		if !ok || x.info.Uses[id] != param {
			return nil, fmt.Errorf("validator %s is applied to something other than the parameter", fn.Name())
		}
		return &Formula{Op: "call", Name: fn.Name()}, nil
	}
	return nil, fmt.Errorf("unsupported expression %T in return value", e)
}

func extractGo(p *load.Prog) (*extracted, []string) {
	pk := p.Pkgs["validation"]
	out := &extracted{consts: map[string]string{}, formulas: map[string]*Formula{}, pos: map[string]token.Pos{}}
	x := &extractor{prog: p, info: pk.TypesInfo, pats: map[string]int{}, out: out}
	var problems []string
	for name := range ruleConsts {
		obj, _ := pk.Types.Scope().Lookup(name).(*types.Const)
		if obj == nil || obj.Val().Kind() != constant.String {
			problems = append(problems, "constant "+name+" not found or not a string constant")
			continue
		}
		out.consts[name] = constant.StringVal(obj.Val())
		out.pos[name] = obj.Pos()
	}
	// the validators themselves are read from the SSA form (helpers inlined, strings folded, control flow as formula)
	problems = append(problems, extractSSA(p, out, x)...)
	return out, problems
}

// resolve inlines validator calls.
func resolve(f *Formula, all map[string]*Formula, depth int) (*Formula, error) {
	if depth > 8 {
		return nil, fmt.Errorf("validator calls nest too deeply or recurse")
	}
	switch f.Op {
	case "pat", "true", "false":
		return f, nil
	case "not":
		l, err := resolve(f.L, all, depth)
		if err != nil {
			return nil, err
		}
		return &Formula{Op: "not", L: l}, nil
	case "call":
		c, ok := all[f.Name]
		if !ok {
			return nil, fmt.Errorf("callee %s has no extracted formula", f.Name)
		}
		return resolve(c, all, depth+1)
	default:
		l, err := resolve(f.L, all, depth)
		if err != nil {
			return nil, err
		}
		r, err := resolve(f.R, all, depth)
		if err != nil {
			return nil, err
		}
		return &Formula{Op: f.Op, L: l, R: r}, nil
	}
}

// unescape handles the string-literal escapes shared by JS and Java that occur in the rule tables.
func unescape(s string) (string, error) {
	var sb strings.Builder
	for i := 0; i < len(s); i++ {
		c := s[i]
		if c != '\\' {
			sb.WriteByte(c)
			continue
		}
		i++
		if i >= len(s) {
			return "", fmt.Errorf("dangling backslash")
		}
		switch s[i] {
		case '\\', '"', '\'':
			sb.WriteByte(s[i])
		case 'n':
			sb.WriteByte('\n')
		case 't':
			sb.WriteByte('\t')
		case 'r':
			sb.WriteByte('\r')
		case 'u':
			if i+4 >= len(s) {
				return "", fmt.Errorf("bad \\u escape")
			}
			var v rune
			if _, err := fmt.Sscanf(s[i+1:i+5], "%04x", &v); err != nil {
				return "", err
			}
			sb.WriteRune(v)
			i += 4
		default:
			return "", fmt.Errorf("escape \\%c is outside the supported subset", s[i])
		}
	}
	return sb.String(), nil
}

// stringAfter finds `key` followed by optional spaces, sep, spaces and a double-quoted literal.
func stringAfter(src, key, sep string) (string, error) {
	for from := 0; ; {
		i := strings.Index(src[from:], key)
		if i < 0 {
			return "", fmt.Errorf("%q not found", key)
		}
		i += from
		from = i + len(key)
		// the key must be a whole identifier
		if i > 0 && isIdent(src[i-1]) {
			continue
		}
		j := from
		if j < len(src) && isIdent(src[j]) {
			continue
		}
		for j < len(src) && (src[j] == ' ' || src[j] == '\t') {
			j++
		}
		if !strings.HasPrefix(src[j:], sep) {
			continue
		}
		j += len(sep)
		for j < len(src) && (src[j] == ' ' || src[j] == '\t' || src[j] == '\n') {
			j++
		}
		if j >= len(src) || src[j] != '"' {
			continue
		}
		k := j + 1
		for k < len(src) && src[k] != '"' {
			if src[k] == '\\' {
				k++
			}
			k++
		}
		if k >= len(src) {
			return "", fmt.Errorf("unterminated literal after %q", key)
		}
		return unescape(src[j+1 : k])
	}
}

// blockAfter returns the text between the first '{' after marker and its matching '}', skipping
// string literals.
func blockAfter(src, marker string) string {
	i := strings.Index(src, marker)
	if i < 0 {
		return ""
	}
	j := strings.IndexByte(src[i:], '{')
	if j < 0 {
		return ""
	}
	start := i + j + 1
	depth := 1
	for k := start; k < len(src); k++ {
		switch src[k] {
		case '"':
			k++
			for k < len(src) && src[k] != '"' {
				if src[k] == '\\' {
					k++
				}
				k++
			}
		case '{':
			depth++
		case '}':
			depth--
			if depth == 0 {
				return src[start:k]
			}
		}
	}
	return ""
}

func isIdent(c byte) bool {
	return c == '_' || (c >= '0' && c <= '9') || (c >= 'a' && c <= 'z') || (c >= 'A' && c <= 'Z')
}

// Run decides all E7 obligations.
func Run(p *load.Prog, r *oblig.Report) {
	r.Rule("E7.X", "instance-table", "extraction: every validator is a boolean formula over constant-folded anchored patterns applied to its own parameter", 9)
	r.Rule("E7.O6", "instance-table", "every pattern compiles (so the discarded MatchString error is always nil)", 6)
	r.Rule("E7.O1", "instance-table", "every accepted object has exactly one ':' and splits there into an accepted type and an accepted object id", 2)
	r.Rule("E7.O2", "instance-table", "no accepted type, relation or id contains whitespace (RE2 \\s); types and relations never contain ':', '#', '@', '*'", 3)
	r.Rule("E7.O3", "instance-table", "every accepted userset is type ':' id '#' relation with exactly one ':' and one '#', each part accepted by its validator", 1)
	r.Rule("E7.O4", "instance-table", "userset, object and typed wildcard are pairwise disjoint and ValidateUser is exactly their union", 4)
	r.Rule("E7.O5", "instance-table", "length limits: type 1..254, relation and condition 1..50, object within 2..256 with 256 attained; ValidateObject and ValidateUserObject accept the same strings", 6)
	r.Rule("E7.W", "instance-table", "the whitespace the rule strings exclude is Unicode whitespace, not only the five ASCII characters of RE2's \\s", 1)
	r.Rule("E7.ID", "instance-table", "the five rule strings of the Go package are byte-identical to those in validate-rules.ts and Validator.java", 10)

	ex, problems := extractGo(p)
	for _, pr := range problems {
		r.Unknown("E7.X", "extract:"+pr, "pkg/go/validation", pr)
	}
	machinesOK := len(problems) == 0

	// compile all patterns
	progs := make([]*syntax.Prog, len(ex.patterns))
	for i, pat := range ex.patterns {
		pg, err := compile(pat)
		if err != nil {
			r.Bad("E7.O6", "pattern:"+pat, "pkg/go/validation", "pattern does not compile, so the validator silently returns false for every input: "+err.Error())
			machinesOK = false
			continue
		}
		progs[i] = pg
		r.OK("E7.O6", "pattern:"+pat, "pkg/go/validation", "regexp/syntax", fmt.Sprintf("%d instructions", len(pg.Inst)))
	}
	// cross-language identity does not need the automata
	crossLanguage(p, ex, r)
	if !machinesOK {
		return
	}
	singles := append(append([]rune{':', '#', '@', '*', 0xFFFD}, re2Space...), otherSpace...)
	alpha, err := NewAlphabet(progs, singles, r.Tier == "thorough")
	if err != nil {
		r.Unknown("E7.X", "alphabet", "pkg/go/validation", err.Error())
		return
	}
	dfas := make([]*PatDFA, len(progs))
	totalStates := 0
	for i := range progs {
		dfas[i] = BuildPatDFA(ex.patterns[i], progs[i], alpha)
		totalStates += len(dfas[i].Next)
	}
	r.Analysed["patterns"] = ex.patterns
	r.Analysed["alphabet_classes"] = alpha.Size()
	r.Analysed["pattern_dfa_states"] = totalStates
	mach := map[string]*Machine{}
	resolved := map[string]*Formula{}
	for _, name := range validatorNames {
		f, err := resolve(ex.formulas[name], ex.formulas, 0)
		if err != nil {
			r.Unknown("E7.X", "formula:"+name, p.Pos(ex.pos[name]), err.Error())
			return
		}
		resolved[name] = f
		mach[name] = family(dfas, f)[0]
		r.OK("E7.X", "formula:"+name, p.Pos(ex.pos[name]), "folded", formulaString(f, ex.patterns))
	}
	selfTest(alpha, r)

	pos := func(n string) string { return p.Pos(ex.pos[n]) }
	explored := 0

	// O1 / O3: unique decomposition
	explored += checkSplit(r, alpha, "E7.O1", "split:ValidateObject", pos("ValidateObject"), mach["ValidateObject"], []rune{':'}, []*Machine{mach["ValidateType"], mach["ValidateObjectID"]}, []string{"type", "object id"})
	explored += checkSplit(r, alpha, "E7.O1", "split:ValidateUserObject", pos("ValidateUserObject"), mach["ValidateUserObject"], []rune{':'}, []*Machine{mach["ValidateType"], mach["ValidateObjectID"]}, []string{"type", "object id"})
	explored += checkSplit(r, alpha, "E7.O3", "split:ValidateUserSet", pos("ValidateUserSet"), mach["ValidateUserSet"], []rune{':', '#'}, []*Machine{mach["ValidateType"], mach["ValidateObjectID"], mach["ValidateRelation"]}, []string{"type", "object id", "relation"})
	explored += checkSplit(r, alpha, "E7.O4", "split:ValidateUserWildcard", pos("ValidateUserWildcard"), mach["ValidateUserWildcard"], []rune{':'}, []*Machine{mach["ValidateType"], starOnly(alpha)}, []string{"type", "'*'"})

	// O2: forbidden characters
	explored += checkNoChars(r, alpha, "E7.O2", "chars:ValidateType", pos("ValidateType"), mach["ValidateType"], append([]rune{':', '#', '@', '*'}, re2Space...))
	explored += checkNoChars(r, alpha, "E7.O2", "chars:ValidateRelation", pos("ValidateRelation"), mach["ValidateRelation"], append([]rune{':', '#', '@', '*'}, re2Space...))
	explored += checkNoChars(r, alpha, "E7.O2", "chars:ValidateObjectID", pos("ValidateObjectID"), mach["ValidateObjectID"], re2Space)

	// O4: disjointness and union
	three := []string{"ValidateUserSet", "ValidateObject", "ValidateUserWildcard"}
	for i := 0; i < 3; i++ {
		for j := i + 1; j < 3; j++ {
			fam := family(dfas, resolved[three[i]], resolved[three[j]])
			a, b := fam[0], fam[1]
			n := Explore(a.Start(), MState.Key, alpha.Size(), func(s MState, c int) (MState, bool) { return a.Step(s, c), true }, func(s MState, w []int) bool {
				if a.Accept(s) && b.Accept(s) {
					r.Bad("E7.O4", "disjoint:"+three[i]+"/"+three[j], pos(three[i]), "string "+alpha.WordString(w)+" is accepted by both")
					return false
				}
				return true
			})
			explored += n
			if !hasRecord(r, "E7.O4", "disjoint:"+three[i]+"/"+three[j]) {
				r.OK("E7.O4", "disjoint:"+three[i]+"/"+three[j], pos(three[i]), "product-emptiness", fmt.Sprintf("%d product states", n))
			}
		}
	}
	{
		fam := family(dfas, resolved["ValidateUser"], resolved[three[0]], resolved[three[1]], resolved[three[2]])
		u := fam[0]
		n := Explore(u.Start(), MState.Key, alpha.Size(), func(s MState, c int) (MState, bool) { return u.Step(s, c), true }, func(s MState, w []int) bool {
			want := fam[1].Accept(s) || fam[2].Accept(s) || fam[3].Accept(s)
			if u.Accept(s) != want {
				r.Bad("E7.O4", "union:ValidateUser", pos("ValidateUser"), fmt.Sprintf("string %s: ValidateUser=%v but userset∨object∨wildcard=%v", alpha.WordString(w), u.Accept(s), want))
				return false
			}
			return true
		})
		explored += n
		if !hasRecord(r, "E7.O4", "union:ValidateUser") {
			r.OK("E7.O4", "union:ValidateUser", pos("ValidateUser"), "product-equivalence", fmt.Sprintf("%d product states", n))
		}
	}
	// O5: lengths
	type lim struct {
		name     string
		lo, hi   int
		exact    bool
		describe string
	}
	for _, l := range []lim{
		{"ValidateType", 1, 254, true, "type 1..254"},
		{"ValidateRelation", 1, 50, true, "relation 1..50"},
		{"ValidateRelationshipCondition", 1, 50, true, "condition 1..50"},
		{"ValidateObject", 2, 256, false, "object within 2..256, 256 attained"},
		{"ValidateUserObject", 2, 256, false, "object within 2..256, 256 attained"},
	} {
		lens, unbounded, steps := lengthSpectrum(mach[l.name], alpha)
		explored += steps
		key := "length:" + l.name
		switch {
		case unbounded:
			r.Bad("E7.O5", key, pos(l.name), "accepted lengths are unbounded; documented limit: "+l.describe)
		case len(lens) == 0:
			r.Bad("E7.O5", key, pos(l.name), "accepts no string at all")
		case l.exact && (lens[0] != l.lo || lens[len(lens)-1] != l.hi || len(lens) != l.hi-l.lo+1):
			r.Bad("E7.O5", key, pos(l.name), fmt.Sprintf("accepted lengths are %s, documented limit: %s", spans(lens), l.describe))
		case !l.exact && (lens[0] < l.lo || lens[len(lens)-1] != l.hi):
			r.Bad("E7.O5", key, pos(l.name), fmt.Sprintf("accepted lengths are %s, documented limit: %s", spans(lens), l.describe))
		default:
			r.OK("E7.O5", key, pos(l.name), "length-spectrum", "accepted lengths "+spans(lens))
		}
	}
	{
		fam := family(dfas, resolved["ValidateObject"], resolved["ValidateUserObject"])
		a, b := fam[0], fam[1]
		n := Explore(a.Start(), MState.Key, alpha.Size(), func(s MState, c int) (MState, bool) { return a.Step(s, c), true }, func(s MState, w []int) bool {
			if a.Accept(s) != b.Accept(s) {
				r.Bad("E7.O5", "equal:ValidateObject/ValidateUserObject", pos("ValidateUserObject"), "string "+alpha.WordString(w)+" is accepted by only one of them")
				return false
			}
			return true
		})
		explored += n
		if !hasRecord(r, "E7.O5", "equal:ValidateObject/ValidateUserObject") {
			r.OK("E7.O5", "equal:ValidateObject/ValidateUserObject", pos("ValidateUserObject"), "product-equivalence", fmt.Sprintf("%d product states", n))
		}
	}
	r.Analysed["product_states_explored"] = explored
	// information: which Unicode spaces are accepted inside a type
	var accepted []string
	t := mach["ValidateType"]
	for _, sp := range otherSpace {
		s := t.Step(t.Step(t.Start(), alpha.ClassOf('a')), alpha.ClassOf(sp))
		if t.Accept(s) {
			accepted = append(accepted, fmt.Sprintf("U+%04X", sp))
		}
	}
	r.Analysed["unicode_spaces_outside_RE2_s_accepted_in_type"] = accepted
}

func hasRecord(r *oblig.Report, rule, construct string) bool {
	for _, rec := range r.Records {
		if rec.Rule == rule && rec.Construct == construct {
			return true
		}
	}
	return false
}

func spans(l []int) string {
	if len(l) == 0 {
		return "{}"
	}
	var parts []string
	start, prev := l[0], l[0]
	for _, v := range l[1:] {
		if v == prev+1 {
			prev = v
			continue
		}
		parts = append(parts, span(start, prev))
		start, prev = v, v
	}
	parts = append(parts, span(start, prev))
	return strings.Join(parts, ",")
}

func span(a, b int) string {
	if a == b {
		return fmt.Sprint(a)
	}
	return fmt.Sprintf("%d..%d", a, b)
}

func formulaString(f *Formula, pats []string) string {
	switch f.Op {
	case "pat":
		return fmt.Sprintf("match(%q)", pats[f.Pat])
	case "and":
		return "(" + formulaString(f.L, pats) + " && " + formulaString(f.R, pats) + ")"
	case "or":
		return "(" + formulaString(f.L, pats) + " || " + formulaString(f.R, pats) + ")"
	case "not":
		return "!" + formulaString(f.L, pats)
	case "true", "false":
		return f.Op
	}
	return f.Name + "(·)"
}

// family builds machines for several formulas over ONE shared pattern list that contains only the
// patterns these formulas use, so that a state tuple of one member can be evaluated by the others.
func family(dfas []*PatDFA, fs ...*Formula) []*Machine {
	remap := map[int]int{}
	var pats []*PatDFA
	var conv func(f *Formula) *Formula
	conv = func(f *Formula) *Formula {
		if f.Op == "pat" {
			i, ok := remap[f.Pat]
			if !ok {
				i = len(pats)
				remap[f.Pat] = i
				pats = append(pats, dfas[f.Pat])
			}
			return &Formula{Op: "pat", Pat: i}
		}
		switch f.Op {
		case "true", "false":
			return f
		case "not":
			return &Formula{Op: "not", L: conv(f.L)}
		}
		return &Formula{Op: f.Op, L: conv(f.L), R: conv(f.R)}
	}
	nf := make([]*Formula, len(fs))
	for i, f := range fs {
		nf[i] = conv(f)
	}
	out := make([]*Machine, len(fs))
	for i := range fs {
		out[i] = &Machine{Pats: pats, F: nf[i]}
	}
	for _, m := range out {
		m.Pats = pats
	}
	return out
}

// starOnly is the machine accepting exactly "*".
func starOnly(a *Alphabet) *Machine {
	d := &PatDFA{Pattern: "<literal *>"}
	// states: 0 start, 1 after '*', 2 dead
	for s := 0; s < 3; s++ {
		row := make([]int, a.Size())
		for c := range row {
			row[c] = 2
		}
		d.Next = append(d.Next, row)
		d.Accept = append(d.Accept, s == 1)
	}
	d.Next[0][a.ClassOf('*')] = 1
	return &Machine{Pats: []*PatDFA{d}, F: &Formula{Op: "pat", Pat: 0}}
}

type splitState struct {
	main  MState
	phase int
	seg   MState
	ok    int // bitmask of finished segments that were accepted
	extra bool
}

func checkSplit(r *oblig.Report, a *Alphabet, rule, key, pos string, main *Machine, seps []rune, segs []*Machine, names []string) int {
	sepClass := map[int]rune{}
	for _, s := range seps {
		sepClass[a.ClassOf(s)] = s
	}
	start := splitState{main: main.Start(), seg: segs[0].Start()}
	found := false
	n := Explore(start, func(s splitState) string {
		return fmt.Sprintf("%s|%d|%s|%d|%v", s.main.Key(), s.phase, s.seg.Key(), s.ok, s.extra)
	}, a.Size(), func(s splitState, c int) (splitState, bool) {
		ns := splitState{main: main.Step(s.main, c), phase: s.phase, seg: s.seg, ok: s.ok, extra: s.extra}
		if sep, isSep := sepClass[c]; isSep {
			if s.phase < len(seps) && sep == seps[s.phase] {
				if segs[s.phase].Accept(s.seg) {
					ns.ok |= 1 << s.phase
				}
				ns.phase++
				ns.seg = segs[ns.phase].Start()
			} else {
				ns.extra = true
			}
			return ns, true
		}
		ns.seg = segs[s.phase].Step(s.seg, c)
		return ns, true
	}, func(s splitState, w []int) bool {
		if !main.Accept(s.main) {
			return true
		}
		why := ""
		switch {
		case s.extra:
			why = "a separator occurs more than once or out of order"
		case s.phase != len(seps):
			why = fmt.Sprintf("separator %q is missing", seps[s.phase])
		default:
			for i := 0; i < len(seps); i++ {
				if s.ok&(1<<i) == 0 {
					why = "the " + names[i] + " part is not accepted by its own validator"
					break
				}
			}
			if why == "" && !segs[len(seps)].Accept(s.seg) {
				why = "the " + names[len(seps)] + " part is not accepted by its own validator"
			}
		}
		if why != "" {
			found = true
			r.Bad(rule, key, pos, "accepted string "+a.WordString(w)+": "+why)
			return false
		}
		return true
	})
	if !found {
		r.OK(rule, key, pos, "product-inclusion", fmt.Sprintf("%d product states", n))
	}
	return n
}

type charState struct {
	m    MState
	seen bool
}

func checkNoChars(r *oblig.Report, a *Alphabet, rule, key, pos string, m *Machine, forbidden []rune) int {
	fc := map[int]bool{}
	for _, f := range forbidden {
		fc[a.ClassOf(f)] = true
	}
	found := false
	n := Explore(charState{m: m.Start()}, func(s charState) string { return fmt.Sprintf("%s|%v", s.m.Key(), s.seen) }, a.Size(),
		func(s charState, c int) (charState, bool) {
			return charState{m: m.Step(s.m, c), seen: s.seen || fc[c]}, true
		}, func(s charState, w []int) bool {
			if s.seen && m.Accept(s.m) {
				found = true
				r.Bad(rule, key, pos, "accepted string "+a.WordString(w)+" contains a character the property excludes")
				return false
			}
			return true
		})
	if !found {
		r.OK(rule, key, pos, "product-emptiness", fmt.Sprintf("%d product states, %d forbidden classes", n, len(fc)))
	}
	return n
}

// lengthSpectrum computes the set of accepted lengths via the unary projection.
func lengthSpectrum(m *Machine, a *Alphabet) (lens []int, unbounded bool, steps int) {
	cur := map[string]MState{m.Start().Key(): m.Start()}
	seenAt := map[string]int{}
	for n := 0; n <= 4096; n++ {
		keys := make([]string, 0, len(cur))
		acc := false
		for k, s := range cur {
			keys = append(keys, k)
			if m.Accept(s) {
				acc = true
			}
		}
		sort.Strings(keys)
		setKey := strings.Join(keys, ";")
		if first, ok := seenAt[setKey]; ok {
			// the sequence of state sets is periodic from `first`; any accepted length in the period repeats forever
			for _, l := range lens {
				if l >= first {
					return lens, true, steps
				}
			}
			return lens, false, steps
		}
		seenAt[setKey] = n
		if acc {
			lens = append(lens, n)
		}
		next := map[string]MState{}
		for _, s := range cur {
			for c := 0; c < a.Size(); c++ {
				ns := m.Step(s, c)
				next[ns.Key()] = ns
				steps++
			}
		}
		cur = next
	}
	return lens, true, steps
}

// selfTest runs known accept/reject strings through freshly built automata (never through the
// repository code) so that a bug in the construction shows up as CHECKER-BROKEN.
func selfTest(a *Alphabet, r *oblig.Report) {
	cases := []struct {
		pat  string
		in   string
		want bool
	}{
		{`^[^:#@\*\s]{1,3}$`, "abc", true}, {`^[^:#@\*\s]{1,3}$`, "abcd", false}, {`^[^:#@\*\s]{1,3}$`, "", false},
		{`^[^:#@\*\s]{1,3}$`, "a b", false}, {`^[^:#@\*\s]{1,3}$`, "a:b", false},
		{`b`, "abc", true}, {`^b`, "abc", false}, {`b$`, "ab", true}, {`b$`, "abc", false}, {`^$`, "", true}, {`^$`, "a", false},
		{`^a:\*$`, "a:*", true}, {`^a:\*$`, "a:**", false}, {`x|^y$`, "zy", false}, {`x|^y$`, "y", true}, {`x|^y$`, "yx", true},
	}
	for _, c := range cases {
		pg, err := compile(c.pat)
		if err != nil {
			r.BrokenChecker("self-test pattern does not compile: " + c.pat)
			continue
		}
		var cut []rune
		for _, ch := range c.in {
			cut = append(cut, ch)
		}
		al, err := NewAlphabet([]*syntax.Prog{pg}, cut, false)
		if err != nil {
			r.BrokenChecker("self-test alphabet: " + err.Error())
			continue
		}
		d := BuildPatDFA(c.pat, pg, al)
		s := 0
		for _, ch := range c.in {
			s = d.Next[s][al.ClassOf(ch)]
		}
		if d.Accept[s] != c.want {
			r.BrokenChecker(fmt.Sprintf("automaton self-test: pattern %q on %q gives %v, expected %v", c.pat, c.in, d.Accept[s], c.want))
		}
	}
}

func crossLanguage(p *load.Prog, ex *extracted, r *oblig.Report) {
	ts := filepath.Join(p.Root, "pkg/js/validator/validate-rules.ts")
	java := filepath.Join(p.Root, "pkg/java/src/main/java/dev/openfga/language/validation/Validator.java")
	tsSrc, err1 := os.ReadFile(ts)
	javaSrc, err2 := os.ReadFile(java)
	if err1 != nil {
		r.Unknown("E7.ID", "anchor:validate-rules.ts", "pkg/js/validator/validate-rules.ts", err1.Error())
	}
	if err2 != nil {
		r.Unknown("E7.ID", "anchor:Validator.java", "pkg/java/.../Validator.java", err2.Error())
	}
	names := make([]string, 0, len(ruleConsts))
	for n := range ruleConsts {
		names = append(names, n)
	}
	sort.Strings(names)
	// restrict the TS scan to the Rules object literal and the Java scan to the Rules class
	tsRules, javaRules := "", ""
	if err1 == nil {
		tsRules = blockAfter(string(tsSrc), "export const Rules =")
		if tsRules == "" {
			r.Unknown("E7.ID", "anchor:ts-Rules", "pkg/js/validator/validate-rules.ts", "object literal `export const Rules = {…}` not found")
		}
	}
	if err2 == nil {
		javaRules = blockAfter(string(javaSrc), "class Rules")
		if javaRules == "" {
			r.Unknown("E7.ID", "anchor:java-Rules", "pkg/java/.../Validator.java", "class Rules not found")
		}
	}
	for _, n := range names {
		goVal, ok := ex.consts[n]
		if !ok {
			continue
		}
		short := ruleConsts[n]
		if tsRules != "" {
			v, err := stringAfter(tsRules, short, ":")
			switch {
			case err != nil:
				r.Unknown("E7.ID", "ts:"+short, "pkg/js/validator/validate-rules.ts", err.Error())
			case v != goVal:
				r.Bad("E7.ID", "ts:"+short, "pkg/js/validator/validate-rules.ts", fmt.Sprintf("Go %s = %q but TS Rules.%s = %q", n, goVal, short, v))
			default:
				r.OK("E7.ID", "ts:"+short, "pkg/js/validator/validate-rules.ts", "byte-identical", v)
			}
		}
		if javaRules != "" {
			v, err := stringAfter(javaRules, strings.ToUpper(short), "=")
			switch {
			case err != nil:
				r.Unknown("E7.ID", "java:"+short, "pkg/java/.../Validator.java", err.Error())
			case v != goVal:
				r.Bad("E7.ID", "java:"+short, "pkg/java/.../Validator.java", fmt.Sprintf("Go %s = %q but Java Rules.%s = %q", n, goVal, strings.ToUpper(short), v))
			default:
				r.OK("E7.ID", "java:"+short, "pkg/java/.../Validator.java", "byte-identical", v)
			}
		}
	}
	// E7.W: which characters "whitespace" is. The rule strings exclude it with \s inside a negated class; the class
	// \s of Go's regexp (RE2) is [\t\n\f\r ] only. The vertical tab, NEL, the no-break space, the Unicode space
	// separators, LS / PS and the BOM — whitespace for the \s of the JS and Java engines that read the same strings,
	// and for unicode.IsSpace — are therefore accepted inside types, relations and ids by the Go validators.
	var users []string
	for _, n := range names {
		if v, ok := ex.consts[n]; ok && strings.Contains(v, `\s`) {
			users = append(users, n)
		}
	}
	sort.Strings(users)
	if len(users) > 0 {
		r.Bad("E7.W", "engine-whitespace", "pkg/go/validation/validation-rules.go", "the rule strings "+strings.Join(users, ", ")+" exclude whitespace with \\s; under RE2 that is [\\t\\n\\f\\r ] only, so \"\\v\", U+0085, U+00A0, U+2028, U+3000 … are accepted inside a type, relation or id (ValidateType(\"\\v\") is true) while the JS and Java packages, reading the same strings, reject them")
	} else {
		r.OK("E7.W", "engine-whitespace", "pkg/go/validation/validation-rules.go", "no-\\s", "no rule string relies on the engine's \\s")
	}
}
