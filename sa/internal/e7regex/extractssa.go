package e7regex

import (
	"fmt"
	"go/constant"
	"go/token"
	"go/types"
	"strings"

	"golang.org/x/tools/go/ssa"

	"verif/sa/internal/load"
)

// extractSSA reads every validator as a boolean formula over anchored patterns from the SSA form of the package,
// whatever the code is cut into: helpers of the package are inlined (their parameters bound to the arguments of the
// call), strings are folded through constants, concatenation, fmt.Sprintf with a constant format (variadic operands
// included) and package-level variables that only their initialiser writes, compiled expressions kept in
// package-level variables are traced to the regexp.MustCompile / regexp.Compile call of the initialiser, and the
// boolean result is assembled from the control flow (short-circuit operators, early returns) as a formula over
// the match results. Anything that is not one of these — a hand-written scanner, a length test, a loop — is not
// folded and the validator stays undecided.
type ssaExtractor struct {
	x    *extractor
	pkg  *ssa.Package
	root *ssa.Function
	init map[*ssa.Global]ssa.Value // the one value the package initialiser stores into a global
	nini map[*ssa.Global]int
	wr   map[*ssa.Global]bool // written outside the initialiser
}

type senv struct {
	fn     *ssa.Function
	args   []ssa.Value
	parent *senv
	depth  int
}

func extractSSA(p *load.Prog, out *extracted, x *extractor) []string {
	sp := p.SSAPkg["validation"]
	if sp == nil {
		return []string{"no SSA form of package validation"}
	}
	se := &ssaExtractor{x: x, pkg: sp, init: map[*ssa.Global]ssa.Value{}, nini: map[*ssa.Global]int{}, wr: map[*ssa.Global]bool{}}
	for _, m := range sp.Members {
		f, ok := m.(*ssa.Function)
		if !ok {
			continue
		}
		fns := append([]*ssa.Function{f}, f.AnonFuncs...)
		for _, g := range fns {
			for _, b := range g.Blocks {
				for _, in := range b.Instrs {
					st, ok := in.(*ssa.Store)
					if !ok {
						continue
					}
					gl, ok := st.Addr.(*ssa.Global)
					if !ok {
						continue
					}
					if f.Name() == "init" && g == f {
						se.init[gl] = st.Val
						se.nini[gl]++
					} else {
						se.wr[gl] = true
					}
				}
			}
		}
	}
	var problems []string
	for _, name := range validatorNames {
		fn := sp.Func(name)
		if fn == nil || len(fn.Blocks) == 0 {
			problems = append(problems, "validator "+name+" not found")
			continue
		}
		out.pos[name] = fn.Pos()
		if len(fn.Params) != 1 {
			problems = append(problems, name+": expected exactly one parameter")
			continue
		}
		se.root = fn
		f, err := se.call(fn, &senv{fn: fn})
		if err == nil {
			f = simplify(f)
			if f.Op == "true" || f.Op == "false" {
				err = fmt.Errorf("the result does not depend on any match")
			}
		}
		if err != nil {
			problems = append(problems, name+": "+err.Error())
			continue
		}
		out.formulas[name] = f
	}
	return problems
}

// call: the boolean a function returns, as a formula: the disjunction over its returns of (condition under which
// the return is reached ∧ value returned).
func (se *ssaExtractor) call(fn *ssa.Function, e *senv) (*Formula, error) {
	if e.depth > 6 {
		return nil, fmt.Errorf("helpers nest too deeply or recurse")
	}
	reach, err := se.reach(fn, e)
	if err != nil {
		return nil, err
	}
	var res *Formula
	for _, b := range fn.Blocks {
		ret, ok := b.Instrs[len(b.Instrs)-1].(*ssa.Return)
		if !ok {
			if _, isPanic := b.Instrs[len(b.Instrs)-1].(*ssa.Panic); isPanic {
				return nil, fmt.Errorf("%s can panic", fn.Name())
			}
			continue
		}
		if len(ret.Results) != 1 {
			return nil, fmt.Errorf("%s does not return one boolean", fn.Name())
		}
		v, err := se.boolf(ret.Results[0], e, reach)
		if err != nil {
			return nil, err
		}
		term := &Formula{Op: "and", L: reach[b], R: v}
		if res == nil {
			res = term
		} else {
			res = &Formula{Op: "or", L: res, R: term}
		}
	}
	if res == nil {
		return nil, fmt.Errorf("%s has no return", fn.Name())
	}
	return res, nil
}

// reach: for every block of a loop-free function the condition under which it is entered.
func (se *ssaExtractor) reach(fn *ssa.Function, e *senv) (map[*ssa.BasicBlock]*Formula, error) {
	reach := map[*ssa.BasicBlock]*Formula{}
	// reverse post-order; a back edge means a loop
	order, seen, onStack := []*ssa.BasicBlock{}, map[*ssa.BasicBlock]bool{}, map[*ssa.BasicBlock]bool{}
	var loop bool
	var dfs func(b *ssa.BasicBlock)
	dfs = func(b *ssa.BasicBlock) {
		seen[b], onStack[b] = true, true
		for _, s := range b.Succs {
			if onStack[s] {
				loop = true
			}
			if !seen[s] {
				dfs(s)
			}
		}
		onStack[b] = false
		order = append(order, b)
	}
	dfs(fn.Blocks[0])
	if loop {
		return nil, fmt.Errorf("%s contains a loop: not a boolean combination of pattern matches", fn.Name())
	}
	reach[fn.Blocks[0]] = &Formula{Op: "true"}
	for i := len(order) - 1; i >= 0; i-- {
		b := order[i]
		if reach[b] == nil {
			reach[b] = &Formula{Op: "false"}
		}
		switch t := b.Instrs[len(b.Instrs)-1].(type) {
		case *ssa.Jump:
			se.addReach(reach, b.Succs[0], reach[b])
		case *ssa.If:
			c, err := se.boolf(t.Cond, e, reach)
			if err != nil {
				return nil, err
			}
			se.addReach(reach, b.Succs[0], &Formula{Op: "and", L: reach[b], R: c})
			se.addReach(reach, b.Succs[1], &Formula{Op: "and", L: reach[b], R: &Formula{Op: "not", L: c}})
		}
	}
	return reach, nil
}

func (se *ssaExtractor) addReach(reach map[*ssa.BasicBlock]*Formula, b *ssa.BasicBlock, f *Formula) {
	if reach[b] == nil {
		reach[b] = f
	} else {
		reach[b] = &Formula{Op: "or", L: reach[b], R: f}
	}
}

// edgeCond: the condition under which control passes from pred to b.
func (se *ssaExtractor) edgeCond(pred, b *ssa.BasicBlock, e *senv, reach map[*ssa.BasicBlock]*Formula) (*Formula, error) {
	if t, ok := pred.Instrs[len(pred.Instrs)-1].(*ssa.If); ok && pred.Succs[0] != pred.Succs[1] {
		c, err := se.boolf(t.Cond, e, reach)
		if err != nil {
			return nil, err
		}
		if pred.Succs[1] == b {
			c = &Formula{Op: "not", L: c}
		}
		return &Formula{Op: "and", L: reach[pred], R: c}, nil
	}
	return reach[pred], nil
}

func (se *ssaExtractor) boolf(v ssa.Value, e *senv, reach map[*ssa.BasicBlock]*Formula) (*Formula, error) {
	switch x := v.(type) {
	case *ssa.Const:
		if x.Value != nil && x.Value.Kind() == constant.Bool {
			if constant.BoolVal(x.Value) {
				return &Formula{Op: "true"}, nil
			}
			return &Formula{Op: "false"}, nil
		}
	case *ssa.Parameter:
		if a, pe, ok := se.arg(x, e); ok {
			return se.boolf(a, pe, nil)
		}
	case *ssa.UnOp:
		if x.Op == token.NOT {
			f, err := se.boolf(x.X, e, reach)
			if err != nil {
				return nil, err
			}
			return &Formula{Op: "not", L: f}, nil
		}
	case *ssa.BinOp:
		if b, ok := x.X.Type().Underlying().(*types.Basic); ok && b.Info()&types.IsBoolean != 0 && (x.Op == token.EQL || x.Op == token.NEQ) {
			l, err := se.boolf(x.X, e, reach)
			if err != nil {
				return nil, err
			}
			r, err := se.boolf(x.Y, e, reach)
			if err != nil {
				return nil, err
			}
			eq := &Formula{Op: "or", L: &Formula{Op: "and", L: l, R: r}, R: &Formula{Op: "and", L: &Formula{Op: "not", L: l}, R: &Formula{Op: "not", L: r}}}
			if x.Op == token.NEQ {
				return &Formula{Op: "not", L: eq}, nil
			}
			return eq, nil
		}
		return nil, fmt.Errorf("a comparison (%s) that is not a pattern match decides the result", x.Op)
	case *ssa.Phi:
		if reach == nil {
			return nil, fmt.Errorf("unsupported join")
		}
		var res *Formula
		for i, pred := range x.Block().Preds {
			ec, err := se.edgeCond(pred, x.Block(), e, reach)
			if err != nil {
				return nil, err
			}
			ev, err := se.boolf(x.Edges[i], e, reach)
			if err != nil {
				return nil, err
			}
			// the value is only asked for on paths that pass through the join: conditions relative to reaching it
			term := &Formula{Op: "and", L: ec, R: ev}
			if res == nil {
				res = term
			} else {
				res = &Formula{Op: "or", L: res, R: term}
			}
		}
		if res == nil {
			return nil, fmt.Errorf("empty join")
		}
		// relative to reaching the block: (∨ edge∧value) holds exactly when the block is reached with a true value;
		// callers conjoin with the reach condition of the use, which implies reaching this block
		return res, nil
	case *ssa.Extract:
		if call, ok := x.Tuple.(*ssa.Call); ok && x.Index == 0 {
			return se.matchCall(call, e)
		}
	case *ssa.Call:
		return se.matchCall(x, e)
	}
	return nil, fmt.Errorf("the result depends on something that is not a pattern match (%T)", v)
}

// matchCall: regexp.MatchString(p, s), (*regexp.Regexp).MatchString(s), or a helper of the package returning bool.
func (se *ssaExtractor) matchCall(call *ssa.Call, e *senv) (*Formula, error) {
	cc := call.Common()
	cal := cc.StaticCallee()
	if cal == nil {
		return nil, fmt.Errorf("call through a function value or an interface")
	}
	full := cal.String()
	switch {
	case full == "regexp.MatchString" && len(cc.Args) == 2:
		pat, ok := se.str(cc.Args[0], e, 0)
		if !ok {
			return nil, fmt.Errorf("pattern is not a constant-foldable string")
		}
		if !se.isSubject(cc.Args[1], e) {
			return nil, fmt.Errorf("MatchString subject is not the validator's parameter")
		}
		return &Formula{Op: "pat", Pat: se.x.pat(pat)}, nil
	case full == "(*regexp.Regexp).MatchString" && len(cc.Args) == 2:
		pat, ok := se.compiled(cc.Args[0], e)
		if !ok {
			return nil, fmt.Errorf("the compiled expression is not traced to a constant pattern")
		}
		if !se.isSubject(cc.Args[1], e) {
			return nil, fmt.Errorf("MatchString subject is not the validator's parameter")
		}
		return &Formula{Op: "pat", Pat: se.x.pat(pat)}, nil
	case cal.Pkg == se.pkg && len(cal.Blocks) > 0:
		for n := e; n != nil; n = n.parent {
			if n.fn == cal {
				return nil, fmt.Errorf("recursion through %s", cal.Name())
			}
		}
		// a public validator applied to something else than the subject decides about another string
		return se.call(cal, &senv{fn: cal, args: cc.Args, parent: e, depth: e.depth + 1})
	}
	return nil, fmt.Errorf("call of %s, which is neither a pattern match nor a helper of the package", full)
}

func (se *ssaExtractor) arg(p *ssa.Parameter, e *senv) (ssa.Value, *senv, bool) {
	if e == nil || e.parent == nil {
		return nil, nil, false
	}
	for i, q := range e.fn.Params {
		if q == p && i < len(e.args) {
			return e.args[i], e.parent, true
		}
	}
	return nil, nil, false
}

// isSubject: the value is the one parameter of the validator being read (handed down through helpers unchanged).
func (se *ssaExtractor) isSubject(v ssa.Value, e *senv) bool {
	for i := 0; i < 16; i++ {
		switch x := v.(type) {
		case *ssa.Parameter:
			if e.parent == nil {
				return e.fn == se.root && x == se.root.Params[0]
			}
			a, pe, ok := se.arg(x, e)
			if !ok {
				return false
			}
			v, e = a, pe
			continue
		case *ssa.ChangeType:
			v = x.X
			continue
		case *ssa.Convert:
			if b, ok := x.X.Type().Underlying().(*types.Basic); ok && b.Info()&types.IsString != 0 {
				v = x.X
				continue
			}
		}
		return false
	}
	return false
}

// compiled: the pattern of a *regexp.Regexp value: a package-level variable that only the initialiser writes, there
// with the result of regexp.MustCompile / regexp.Compile of a foldable string.
func (se *ssaExtractor) compiled(v ssa.Value, e *senv) (string, bool) {
	switch x := v.(type) {
	case *ssa.Parameter:
		if a, pe, ok := se.arg(x, e); ok {
			return se.compiled(a, pe)
		}
	case *ssa.UnOp:
		if gl, ok := x.X.(*ssa.Global); ok && x.Op == token.MUL && !se.wr[gl] && se.nini[gl] == 1 {
			return se.compiled(se.init[gl], &senv{fn: se.pkg.Func("init")})
		}
	case *ssa.Extract:
		if call, ok := x.Tuple.(*ssa.Call); ok && x.Index == 0 {
			return se.compiled(call, e)
		}
	case *ssa.Call:
		if cal := x.Common().StaticCallee(); cal != nil && (cal.String() == "regexp.MustCompile" || cal.String() == "regexp.Compile") && len(x.Common().Args) == 1 {
			return se.str(x.Common().Args[0], e, 0)
		}
	}
	return "", false
}

// str folds a string-valued SSA value.
func (se *ssaExtractor) str(v ssa.Value, e *senv, depth int) (string, bool) {
	if depth > 24 {
		return "", false
	}
	switch x := v.(type) {
	case *ssa.Const:
		if x.Value != nil && x.Value.Kind() == constant.String {
			return constant.StringVal(x.Value), true
		}
	case *ssa.Parameter:
		if a, pe, ok := se.arg(x, e); ok {
			return se.str(a, pe, depth+1)
		}
	case *ssa.ChangeType:
		return se.str(x.X, e, depth+1)
	case *ssa.Convert:
		if b, ok := x.X.Type().Underlying().(*types.Basic); ok && b.Info()&types.IsString != 0 {
			return se.str(x.X, e, depth+1)
		}
	case *ssa.MakeInterface:
		return se.str(x.X, e, depth+1)
	case *ssa.BinOp:
		if x.Op == token.ADD {
			l, ok1 := se.str(x.X, e, depth+1)
			r, ok2 := se.str(x.Y, e, depth+1)
			return l + r, ok1 && ok2
		}
	case *ssa.UnOp:
		if gl, ok := x.X.(*ssa.Global); ok && x.Op == token.MUL && !se.wr[gl] && se.nini[gl] == 1 {
			return se.str(se.init[gl], &senv{fn: se.pkg.Func("init")}, depth+1)
		}
	case *ssa.Call:
		cal := x.Common().StaticCallee()
		if cal == nil {
			return "", false
		}
		if cal.String() == "fmt.Sprintf" && len(x.Common().Args) == 2 {
			format, ok := se.str(x.Common().Args[0], e, depth+1)
			if !ok {
				return "", false
			}
			ops, ok := se.elems(x.Common().Args[1], e, depth+1)
			if !ok {
				return "", false
			}
			return sprintf(format, ops)
		}
		// a helper of the package that returns a string built from its arguments
		if cal.Pkg == se.pkg && len(cal.Blocks) == 1 {
			if ret, ok := cal.Blocks[0].Instrs[len(cal.Blocks[0].Instrs)-1].(*ssa.Return); ok && len(ret.Results) == 1 && e.depth < 6 {
				return se.str(ret.Results[0], &senv{fn: cal, args: x.Common().Args, parent: e, depth: e.depth + 1}, depth+1)
			}
		}
	}
	return "", false
}

// elems: the strings of a variadic operand list: a slice of a fresh array whose elements are stored once each, or
// a variadic parameter handed on.
func (se *ssaExtractor) elems(v ssa.Value, e *senv, depth int) ([]string, bool) {
	switch x := v.(type) {
	case *ssa.Const:
		if x.IsNil() {
			return nil, true
		}
	case *ssa.Parameter:
		if a, pe, ok := se.arg(x, e); ok {
			return se.elems(a, pe, depth+1)
		}
	case *ssa.Slice:
		al, ok := x.X.(*ssa.Alloc)
		if !ok || x.Low != nil || x.High != nil || al.Referrers() == nil {
			return nil, false
		}
		arr, ok := deref(al.Type()).Underlying().(*types.Array)
		if !ok {
			return nil, false
		}
		out := make([]string, arr.Len())
		set := make([]int, arr.Len())
		for _, ref := range *al.Referrers() {
			ia, ok := ref.(*ssa.IndexAddr)
			if !ok {
				if ref == ssa.Instruction(x) {
					continue
				}
				return nil, false
			}
			c, ok := ia.Index.(*ssa.Const)
			if !ok || ia.Referrers() == nil {
				return nil, false
			}
			i := int(c.Int64())
			for _, r2 := range *ia.Referrers() {
				st, ok := r2.(*ssa.Store)
				if !ok || i < 0 || i >= len(out) {
					return nil, false
				}
				s, ok := se.str(st.Val, e, depth+1)
				if !ok {
					return nil, false
				}
				out[i] = s
				set[i]++
			}
		}
		for _, n := range set {
			if n != 1 {
				return nil, false
			}
		}
		return out, true
	}
	return nil, false
}

func deref(t types.Type) types.Type {
	if p, ok := t.Underlying().(*types.Pointer); ok {
		return p.Elem()
	}
	return t
}

func sprintf(format string, ops []string) (string, bool) {
	var sb strings.Builder
	arg := 0
	for i := 0; i < len(format); i++ {
		c := format[i]
		if c != '%' {
			sb.WriteByte(c)
			continue
		}
		i++
		if i >= len(format) {
			return "", false
		}
		switch format[i] {
		case '%':
			sb.WriteByte('%')
		case 's', 'v':
			if arg >= len(ops) {
				return "", false
			}
			sb.WriteString(ops[arg])
			arg++
		default:
			return "", false
		}
	}
	return sb.String(), arg == len(ops)
}

// simplify removes the constants and pushes negations down to the matches.
func simplify(f *Formula) *Formula {
	switch f.Op {
	case "and", "or":
		l, r := simplify(f.L), simplify(f.R)
		unit, zero := "true", "false"
		if f.Op == "or" {
			unit, zero = "false", "true"
		}
		switch {
		case l.Op == zero || r.Op == zero:
			return &Formula{Op: zero}
		case l.Op == unit:
			return r
		case r.Op == unit:
			return l
		}
		return &Formula{Op: f.Op, L: l, R: r}
	case "not":
		l := simplify(f.L)
		switch l.Op {
		case "true":
			return &Formula{Op: "false"}
		case "false":
			return &Formula{Op: "true"}
		case "not":
			return l.L
		}
		return &Formula{Op: "not", L: l}
	}
	return f
}
