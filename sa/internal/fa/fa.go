// Package fa is a small automata kit: NFAs over integer symbol intervals plus atomic "reference"
// symbols, common alphabet refinement, lazy determinisation and language equivalence with a
// shortest distinguishing word.
package fa

import (
	"fmt"
	"sort"
	"strings"
)

// Interval is an inclusive range of integer symbols.
type Interval struct{ Lo, Hi int }

// Tr is a consuming transition. Either Ref >= 0 (an atomic reference symbol) or Set is a
// normalised list of intervals.
type Tr struct {
	To  int
	Set []Interval
	Ref int
}

// NFA with epsilon moves.
type NFA struct {
	Start  int
	Accept []bool
	Eps    [][]int
	Tr     [][]Tr
}

// New returns an empty NFA.
func New() *NFA { return &NFA{} }

// AddState adds a state and returns its number.
func (n *NFA) AddState() int {
	n.Accept = append(n.Accept, false)
	n.Eps = append(n.Eps, nil)
	n.Tr = append(n.Tr, nil)
	return len(n.Accept) - 1
}

// AddEps adds an epsilon move.
func (n *NFA) AddEps(a, b int) { n.Eps[a] = append(n.Eps[a], b) }

// AddSet adds a transition on a symbol set.
func (n *NFA) AddSet(a, b int, set []Interval) {
	n.Tr[a] = append(n.Tr[a], Tr{To: b, Set: Normalize(set), Ref: -1})
}

// AddRef adds a transition on an atomic reference symbol.
func (n *NFA) AddRef(a, b int, ref int) { n.Tr[a] = append(n.Tr[a], Tr{To: b, Ref: ref}) }

// Normalize sorts and merges intervals.
func Normalize(in []Interval) []Interval {
	if len(in) == 0 {
		return nil
	}
	s := make([]Interval, 0, len(in))
	for _, iv := range in {
		if iv.Lo <= iv.Hi {
			s = append(s, iv)
		}
	}
	sort.Slice(s, func(i, j int) bool { return s[i].Lo < s[j].Lo })
	out := s[:0:0]
	for _, iv := range s {
		if len(out) > 0 && iv.Lo <= out[len(out)-1].Hi+1 {
			if iv.Hi > out[len(out)-1].Hi {
				out[len(out)-1].Hi = iv.Hi
			}
			continue
		}
		out = append(out, iv)
	}
	return out
}

// Complement returns universe \ set.
func Complement(set []Interval, universe Interval) []Interval {
	set = Normalize(set)
	var out []Interval
	lo := universe.Lo
	for _, iv := range set {
		if iv.Hi < universe.Lo {
			continue
		}
		if iv.Lo > universe.Hi {
			break
		}
		if iv.Lo > lo {
			out = append(out, Interval{lo, iv.Lo - 1})
		}
		if iv.Hi+1 > lo {
			lo = iv.Hi + 1
		}
	}
	if lo <= universe.Hi {
		out = append(out, Interval{lo, universe.Hi})
	}
	return out
}

// Intersect returns a ∩ b for normalised interval lists.
func Intersect(a, b []Interval) []Interval {
	var out []Interval
	i, j := 0, 0
	for i < len(a) && j < len(b) {
		lo := max(a[i].Lo, b[j].Lo)
		hi := min(a[i].Hi, b[j].Hi)
		if lo <= hi {
			out = append(out, Interval{lo, hi})
		}
		if a[i].Hi < b[j].Hi {
			i++
		} else {
			j++
		}
	}
	return out
}

// Contains reports whether sym is in the set.
func Contains(set []Interval, sym int) bool {
	for _, iv := range set {
		if sym >= iv.Lo && sym <= iv.Hi {
			return true
		}
	}
	return false
}

// Classes computes the coarsest partition of the symbols mentioned by the automata such that
// every transition set is a union of classes. Symbols mentioned nowhere are not in any class
// (no automaton can consume them).
func Classes(ns ...*NFA) []Interval {
	cut := map[int]bool{}
	var all []Interval
	for _, n := range ns {
		for _, trs := range n.Tr {
			for _, t := range trs {
				for _, iv := range t.Set {
					cut[iv.Lo] = true
					cut[iv.Hi+1] = true
					all = append(all, iv)
				}
			}
		}
	}
	all = Normalize(all)
	pts := make([]int, 0, len(cut))
	for p := range cut {
		pts = append(pts, p)
	}
	sort.Ints(pts)
	var out []Interval
	for i := 0; i+1 < len(pts); i++ {
		c := Interval{pts[i], pts[i+1] - 1}
		if Contains(all, c.Lo) {
			out = append(out, c)
		}
	}
	return out
}

// closure computes the epsilon closure of a set (sorted, unique).
func (n *NFA) closure(set []int) []int {
	seen := map[int]bool{}
	stack := append([]int(nil), set...)
	for _, s := range set {
		seen[s] = true
	}
	for len(stack) > 0 {
		s := stack[len(stack)-1]
		stack = stack[:len(stack)-1]
		for _, t := range n.Eps[s] {
			if !seen[t] {
				seen[t] = true
				stack = append(stack, t)
			}
		}
	}
	out := make([]int, 0, len(seen))
	for s := range seen {
		out = append(out, s)
	}
	sort.Ints(out)
	return out
}

// Sym is a symbol of the refined alphabet: class index (Ref < 0) or a reference.
type Sym struct {
	Class int
	Ref   int
}

func (n *NFA) step(set []int, sym Sym, classes []Interval) []int {
	var next []int
	for _, s := range set {
		for _, t := range n.Tr[s] {
			if sym.Ref >= 0 {
				if t.Ref == sym.Ref {
					next = append(next, t.To)
				}
				continue
			}
			if t.Ref < 0 && Contains(t.Set, classes[sym.Class].Lo) {
				next = append(next, t.To)
			}
		}
	}
	if len(next) == 0 {
		return nil
	}
	return n.closure(next)
}

func (n *NFA) accepts(set []int) bool {
	for _, s := range set {
		if n.Accept[s] {
			return true
		}
	}
	return false
}

func key(set []int) string {
	var sb strings.Builder
	for _, s := range set {
		fmt.Fprintf(&sb, "%d,", s)
	}
	return sb.String()
}

func refsOf(ns ...*NFA) []int {
	m := map[int]bool{}
	for _, n := range ns {
		for _, trs := range n.Tr {
			for _, t := range trs {
				if t.Ref >= 0 {
					m[t.Ref] = true
				}
			}
		}
	}
	out := make([]int, 0, len(m))
	for r := range m {
		out = append(out, r)
	}
	sort.Ints(out)
	return out
}

// Equivalent decides L(a) == L(b). When they differ it returns a shortest distinguishing word
// (as symbols of the refined alphabet) and which side accepts it.
func Equivalent(a, b *NFA) (equal bool, word []Sym, classes []Interval, acceptedByA bool, pairs int) {
	classes = Classes(a, b)
	var syms []Sym
	for i := range classes {
		syms = append(syms, Sym{Class: i, Ref: -1})
	}
	for _, r := range refsOf(a, b) {
		syms = append(syms, Sym{Class: -1, Ref: r})
	}
	type node struct {
		sa, sb []int
		prev   int
		via    Sym
	}
	sa := a.closure([]int{a.Start})
	sb := b.closure([]int{b.Start})
	q := []node{{sa: sa, sb: sb, prev: -1}}
	seen := map[string]bool{key(sa) + "|" + key(sb): true}
	for i := 0; i < len(q); i++ {
		cur := q[i]
		if a.accepts(cur.sa) != b.accepts(cur.sb) {
			var w []Sym
			for j := i; q[j].prev >= 0; j = q[j].prev {
				w = append([]Sym{q[j].via}, w...)
			}
			return false, w, classes, a.accepts(cur.sa), len(seen)
		}
		for _, sy := range syms {
			na := a.step(cur.sa, sy, classes)
			nb := b.step(cur.sb, sy, classes)
			if na == nil && nb == nil {
				continue
			}
			k := key(na) + "|" + key(nb)
			if seen[k] {
				continue
			}
			seen[k] = true
			q = append(q, node{sa: na, sb: nb, prev: i, via: sy})
		}
	}
	return true, nil, classes, false, len(seen)
}

// DFA is a complete-by-omission deterministic automaton over Syms of a fixed alphabet.
type DFA struct {
	Classes []Interval
	Refs    []int
	Syms    []Sym
	Accept  []bool
	Next    []map[int]int // state -> symbol index -> state
	Sets    [][]int       // NFA state sets (for diagnostics)
}

// Determinize builds the reachable subset automaton of n over the given classes.
func Determinize(n *NFA, classes []Interval) *DFA {
	d := &DFA{Classes: classes, Refs: refsOf(n)}
	for i := range classes {
		d.Syms = append(d.Syms, Sym{Class: i, Ref: -1})
	}
	for _, r := range d.Refs {
		d.Syms = append(d.Syms, Sym{Class: -1, Ref: r})
	}
	start := n.closure([]int{n.Start})
	idx := map[string]int{key(start): 0}
	d.Sets = append(d.Sets, start)
	d.Accept = append(d.Accept, n.accepts(start))
	d.Next = append(d.Next, map[int]int{})
	for i := 0; i < len(d.Sets); i++ {
		for si, sy := range d.Syms {
			nx := n.step(d.Sets[i], sy, classes)
			if nx == nil {
				continue
			}
			k := key(nx)
			j, ok := idx[k]
			if !ok {
				j = len(d.Sets)
				idx[k] = j
				d.Sets = append(d.Sets, nx)
				d.Accept = append(d.Accept, n.accepts(nx))
				d.Next = append(d.Next, map[int]int{})
			}
			d.Next[i][si] = j
		}
	}
	return d
}
