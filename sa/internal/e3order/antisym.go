package e3order

import (
	"fmt"
	"go/ast"
	"go/token"
	"go/types"
	"sort"
	"strings"

	"golang.org/x/tools/go/types/typeutil"

	"verif/sa/internal/load"
)

// Antisymmetry of a three-way comparator cmp(a, b), decided symbolically.
//
// The comparator body (and one level of repository helpers it returns through) is unfolded into
// its structured paths; a path is a conjunction of literals over atomic conditions plus a symbolic
// result (an integer constant, Compare(x, y), or x - y). Exchanging a and b maps atoms to atoms and
// results to results. The comparator is antisymmetric when for every two paths p, q such that
// p(a, b) and q(b, a) can hold together (their literals do not contradict each other
// propositionally) the results are opposite: res(p) = -swap(res(q)). A sort with a comparator that
// is not antisymmetric leaves the order of some elements to the order they arrived in — for a list
// collected from a map that is the map's iteration order.
//
// Atoms are compared as normalised text (locals assigned once are replaced by their definitions,
// the two parameters by §a and §b), so two conditions that are logically related but textually
// different are treated as independent: that can only add pairs to check, never remove one.

type alit struct {
	atom string
	pos  bool
}

type ares struct {
	kind string // const | cmp | sub
	c    int64
	x, y string
}

type apath struct {
	lits []alit
	res  ares
}

type asym struct {
	a     *Analyzer
	info  *types.Info
	pa    types.Object
	pb    types.Object
	env   map[types.Object]string
	bind  map[types.Object]string // helper parameters bound to caller expressions
	// struct-valued parameters and locals whose value is a key record built by a literal (directly or in a
	// constructor helper): field name → the expression stored there, in caller terms
	fields map[types.Object]map[string]string
	depth  int
	err   string
}

func (s *asym) fail(format string, args ...any) {
	if s.err == "" {
		s.err = fmt.Sprintf(format, args...)
	}
}

// norm renders an expression with parameters and single-assignment locals substituted.
func (s *asym) norm(e ast.Expr) string {
	switch x := ast.Unparen(e).(type) {
	case *ast.Ident:
		o := objOf(s.info, x)
		switch {
		case o != nil && o == s.pa:
			return "§a"
		case o != nil && o == s.pb:
			return "§b"
		}
		if v, ok := s.bind[o]; ok {
			return v
		}
		if v, ok := s.env[o]; ok {
			return v
		}
		return x.Name
	case *ast.BasicLit:
		return x.Value
	case *ast.SelectorExpr:
		if fm, ok := s.structFields(x.X); ok {
			if v, ok := fm[x.Sel.Name]; ok {
				return v
			}
		}
		return s.norm(x.X) + "." + x.Sel.Name
	case *ast.CallExpr:
		var as []string
		for _, a := range x.Args {
			as = append(as, s.norm(a))
		}
		return s.norm(x.Fun) + "(" + strings.Join(as, ",") + ")"
	case *ast.IndexExpr:
		return s.norm(x.X) + "[" + s.norm(x.Index) + "]"
	case *ast.BinaryExpr:
		return "(" + s.norm(x.X) + x.Op.String() + s.norm(x.Y) + ")"
	case *ast.UnaryExpr:
		return x.Op.String() + s.norm(x.X)
	case *ast.StarExpr:
		return "*" + s.norm(x.X)
	}
	s.fail("unsupported expression %s", types.ExprString(e))
	return "?"
}

// structFields: the fields of a struct value that is a key record — a composite literal, a call of a repository
// function whose body is (simple assignments and) one return of such a literal, or a name bound to one.
func (s *asym) structFields(e ast.Expr) (map[string]string, bool) {
	switch x := ast.Unparen(e).(type) {
	case *ast.Ident:
		fm, ok := s.fields[objOf(s.info, x)]
		return fm, ok
	case *ast.UnaryExpr:
		if x.Op == token.AND {
			return s.structFields(x.X)
		}
	case *ast.CompositeLit:
		fm := map[string]string{}
		for _, el := range x.Elts {
			kv, ok := el.(*ast.KeyValueExpr)
			if !ok {
				return nil, false
			}
			k, ok := kv.Key.(*ast.Ident)
			if !ok {
				return nil, false
			}
			fm[k.Name] = s.norm(kv.Value)
		}
		return fm, len(fm) > 0
	case *ast.CallExpr:
		if s.depth > 4 {
			return nil, false
		}
		// a local closure that builds the key: name := func(…) K { …; return K{…} }
		if id, ok := ast.Unparen(x.Fun).(*ast.Ident); ok {
			if v, isVar := objOf(s.info, id).(*types.Var); isVar {
				if fl := s.closureOf(v); fl != nil {
					return s.fieldsOfBody(s.info, fl.Type, fl.Body, x, true)
				}
			}
		}
		fn, _ := typeutil.Callee(s.info, x).(*types.Func)
		if fn == nil || fn.Pkg() == nil || !load.IsRepoPkg(fn.Pkg()) {
			return nil, false
		}
		pk := s.a.P.Pkgs[load.ShortPkg(fn.Pkg())]
		if pk == nil {
			return nil, false
		}
		var decl *ast.FuncDecl
		for _, f := range pk.Syntax {
			for _, d := range f.Decls {
				if fd, ok := d.(*ast.FuncDecl); ok && pk.TypesInfo.Defs[fd.Name] == fn {
					decl = fd
				}
			}
		}
		if decl == nil || decl.Body == nil || decl.Recv != nil || len(decl.Body.List) == 0 {
			return nil, false
		}
		sub := &asym{a: s.a, info: pk.TypesInfo, env: map[types.Object]string{}, bind: map[types.Object]string{}, fields: map[types.Object]map[string]string{}, depth: s.depth + 1}
		i := 0
		for _, f := range decl.Type.Params.List {
			for _, n := range f.Names {
				if i < len(x.Args) {
					sub.bind[pk.TypesInfo.Defs[n]] = s.norm(x.Args[i])
					if fm, ok := s.structFields(x.Args[i]); ok {
						sub.fields[pk.TypesInfo.Defs[n]] = fm
					}
				}
				i++
			}
		}
		if i != len(x.Args) {
			return nil, false
		}
		for _, st := range decl.Body.List[:len(decl.Body.List)-1] {
			as, ok := st.(*ast.AssignStmt)
			if !ok || as.Tok != token.DEFINE {
				return nil, false
			}
			sub.assign(as)
		}
		ret, ok := decl.Body.List[len(decl.Body.List)-1].(*ast.ReturnStmt)
		if !ok || len(ret.Results) != 1 || sub.err != "" {
			return nil, false
		}
		fm, ok := sub.structFields(ret.Results[0])
		if sub.err != "" {
			return nil, false
		}
		return fm, ok
	}
	return nil, false
}

// closureOf: the function literal a local variable is defined with (name := func…), nil when it is assigned elsewhere too.
func (s *asym) closureOf(v *types.Var) *ast.FuncLit {
	var lit *ast.FuncLit
	n := 0
	for _, pk := range s.a.P.Pkgs {
		if pk.TypesInfo != s.info {
			continue
		}
		for _, f := range pk.Syntax {
			ast.Inspect(f, func(nd ast.Node) bool {
				as, ok := nd.(*ast.AssignStmt)
				if !ok {
					return true
				}
				for i, l := range as.Lhs {
					id, ok := l.(*ast.Ident)
					if !ok || i >= len(as.Rhs) {
						continue
					}
					if s.info.Defs[id] == types.Object(v) || s.info.Uses[id] == types.Object(v) {
						n++
						lit, _ = as.Rhs[i].(*ast.FuncLit)
					}
				}
				return true
			})
		}
	}
	if n != 1 {
		return nil
	}
	return lit
}

// fieldsOfBody: the key record a constructor body returns, its parameters bound to the arguments of the call;
// inEnv: the body is a closure of the function being analysed, so its free variables mean what they mean here.
func (s *asym) fieldsOfBody(info *types.Info, ft *ast.FuncType, body *ast.BlockStmt, call *ast.CallExpr, inEnv bool) (map[string]string, bool) {
	if body == nil || len(body.List) == 0 || s.depth > 4 {
		return nil, false
	}
	sub := &asym{a: s.a, info: info, pa: s.pa, pb: s.pb, env: map[types.Object]string{}, bind: map[types.Object]string{}, fields: map[types.Object]map[string]string{}, depth: s.depth + 1}
	if inEnv {
		for k, v := range s.env {
			sub.env[k] = v
		}
		for k, v := range s.bind {
			sub.bind[k] = v
		}
		for k, v := range s.fields {
			sub.fields[k] = v
		}
	}
	i := 0
	for _, f := range ft.Params.List {
		for _, n := range f.Names {
			if i < len(call.Args) {
				sub.bind[info.Defs[n]] = s.norm(call.Args[i])
				if fm, ok := s.structFields(call.Args[i]); ok {
					sub.fields[info.Defs[n]] = fm
				}
			}
			i++
		}
	}
	if i != len(call.Args) {
		return nil, false
	}
	for _, st := range body.List[:len(body.List)-1] {
		as, ok := st.(*ast.AssignStmt)
		if !ok || as.Tok != token.DEFINE {
			return nil, false
		}
		sub.assign(as)
	}
	ret, ok := body.List[len(body.List)-1].(*ast.ReturnStmt)
	if !ok || len(ret.Results) != 1 || sub.err != "" {
		return nil, false
	}
	fm, ok := sub.structFields(ret.Results[0])
	if sub.err != "" {
		return nil, false
	}
	return fm, ok
}

func swapAB(t string) string {
	t = strings.ReplaceAll(t, "§a", "§\x00")
	t = strings.ReplaceAll(t, "§b", "§a")
	return strings.ReplaceAll(t, "§\x00", "§b")
}

func eqAtom(x, y string) string {
	if y < x {
		x, y = y, x
	}
	return "eq(" + x + "," + y + ")"
}

func swapAtom(at string) string {
	if strings.HasPrefix(at, "eq(") {
		// re-canonicalise the operand order
		inner := at[3 : len(at)-1]
		// operands are balanced expressions separated by the top-level comma
		depth, cut := 0, -1
		for i, c := range inner {
			switch c {
			case '(', '[':
				depth++
			case ')', ']':
				depth--
			case ',':
				if depth == 0 && cut < 0 {
					cut = i
				}
			}
		}
		if cut > 0 {
			return eqAtom(swapAB(inner[:cut]), swapAB(inner[cut+1:]))
		}
	}
	return swapAB(at)
}

// dnf returns the alternatives (conjunctions of literals) under which e has the given truth value.
func (s *asym) dnf(e ast.Expr, want bool) [][]alit {
	switch x := ast.Unparen(e).(type) {
	case *ast.UnaryExpr:
		if x.Op == token.NOT {
			return s.dnf(x.X, !want)
		}
	case *ast.BinaryExpr:
		switch x.Op {
		case token.LAND, token.LOR:
			and := (x.Op == token.LAND) == want
			l, r := s.dnf(x.X, want), s.dnf(x.Y, want)
			if and {
				return cross(l, r)
			}
			return append(append([][]alit{}, l...), r...)
		case token.EQL, token.NEQ:
			a, b := s.norm(x.X), s.norm(x.Y)
			if a == b {
				if (x.Op == token.EQL) == want {
					return [][]alit{{}}
				}
				return nil
			}
			return [][]alit{{{eqAtom(a, b), (x.Op == token.EQL) == want}}}
		case token.LSS, token.GTR, token.LEQ, token.GEQ:
			a, b := s.norm(x.X), s.norm(x.Y)
			switch x.Op {
			case token.GTR: // a > b  ≡  lt(b, a)
				return [][]alit{{{"lt(" + b + "," + a + ")", want}}}
			case token.LEQ: // a <= b ≡ ¬lt(b, a)
				return [][]alit{{{"lt(" + b + "," + a + ")", !want}}}
			case token.GEQ: // a >= b ≡ ¬lt(a, b)
				return [][]alit{{{"lt(" + a + "," + b + ")", !want}}}
			}
			return [][]alit{{{"lt(" + a + "," + b + ")", want}}}
		}
	}
	if tv, ok := s.info.Types[e]; ok && tv.Value != nil {
		if (tv.Value.String() == "true") == want {
			return [][]alit{{}}
		}
		return nil
	}
	return [][]alit{{{s.norm(e), want}}}
}

func consistent(l []alit) bool {
	m := map[string]bool{}
	for _, x := range l {
		if v, ok := m[x.atom]; ok && v != x.pos {
			return false
		}
		m[x.atom] = x.pos
	}
	return true
}

func cross(a, b [][]alit) [][]alit {
	var out [][]alit
	for _, x := range a {
		for _, y := range b {
			c := append(append([]alit{}, x...), y...)
			if consistent(c) {
				out = append(out, c)
			}
		}
	}
	return out
}

// results of a return expression: each alternative adds literals (helper paths) and a symbolic result.
func (s *asym) results(e ast.Expr) []apath {
	e = ast.Unparen(e)
	if tv, ok := s.info.Types[e]; ok && tv.Value != nil {
		var c int64
		if _, err := fmt.Sscanf(tv.Value.ExactString(), "%d", &c); err == nil {
			return []apath{{res: ares{kind: "const", c: c}}}
		}
	}
	switch x := e.(type) {
	case *ast.UnaryExpr:
		if x.Op == token.SUB {
			in := s.results(x.X)
			for i := range in {
				in[i].res = negRes(in[i].res)
			}
			return in
		}
	case *ast.BinaryExpr:
		if x.Op == token.SUB {
			return []apath{{res: ares{kind: "sub", x: s.norm(x.X), y: s.norm(x.Y)}}}
		}
	case *ast.CallExpr:
		fn, _ := typeutil.Callee(s.info, x).(*types.Func)
		if fn == nil || fn.Pkg() == nil {
			s.fail("dynamic call %s in comparator", types.ExprString(e))
			return nil
		}
		full := fn.Pkg().Path() + "." + fn.Name()
		if (full == "cmp.Compare" || full == "strings.Compare") && len(x.Args) == 2 {
			return []apath{{res: ares{kind: "cmp", x: s.norm(x.Args[0]), y: s.norm(x.Args[1])}}}
		}
		// cmp.Or(c1, …, cn) over comparisons: the first one that is not 0 — a lexicographic chain
		if full == "cmp.Or" && len(x.Args) >= 1 {
			var out []apath
			var eqs []alit
			for i, arg := range x.Args {
				sub := s.results(arg)
				if len(sub) != 1 || sub[0].res.kind != "cmp" || len(sub[0].lits) != 0 {
					s.fail("cmp.Or over something other than plain comparisons: %s", types.ExprString(arg))
					return nil
				}
				r := sub[0].res
				lits := append([]alit{}, eqs...)
				if i < len(x.Args)-1 {
					lits = append(lits, alit{eqAtom(r.x, r.y), false})
				}
				out = append(out, apath{lits: lits, res: r})
				eqs = append(eqs, alit{eqAtom(r.x, r.y), true})
			}
			return out
		}
		if load.IsRepoPkg(fn.Pkg()) && s.depth < 2 {
			return s.inline(fn, x)
		}
		s.fail("unsupported comparator result %s", types.ExprString(e))
		return nil
	}
	s.fail("unsupported comparator result %s", types.ExprString(e))
	return nil
}

func negRes(r ares) ares {
	switch r.kind {
	case "const":
		r.c = -r.c
	default:
		r.x, r.y = r.y, r.x
	}
	return r
}

func swapRes(r ares) ares {
	if r.kind != "const" {
		r.x, r.y = swapAB(r.x), swapAB(r.y)
	}
	return r
}

func (r ares) String() string {
	switch r.kind {
	case "const":
		return fmt.Sprint(r.c)
	case "cmp":
		return "Compare(" + r.x + ", " + r.y + ")"
	}
	return r.x + " - " + r.y
}

// inline unfolds a repository helper called as the result expression.
func (s *asym) inline(fn *types.Func, call *ast.CallExpr) []apath {
	pk := s.a.P.Pkgs[load.ShortPkg(fn.Pkg())]
	if pk == nil {
		s.fail("package of helper %s not loaded", fn.Name())
		return nil
	}
	var decl *ast.FuncDecl
	for _, f := range pk.Syntax {
		for _, d := range f.Decls {
			if fd, ok := d.(*ast.FuncDecl); ok && pk.TypesInfo.Defs[fd.Name] == fn {
				decl = fd
			}
		}
	}
	if decl == nil || decl.Body == nil {
		s.fail("comparator helper %s has no analysable body", fn.Name())
		return nil
	}
	sub := &asym{a: s.a, info: pk.TypesInfo, env: map[types.Object]string{}, bind: map[types.Object]string{}, fields: map[types.Object]map[string]string{}, depth: s.depth + 1}
	if decl.Recv != nil {
		// a compare method of a key type: the receiver is the expression the method is selected on
		sel, ok := ast.Unparen(call.Fun).(*ast.SelectorExpr)
		if !ok || len(decl.Recv.List) != 1 || len(decl.Recv.List[0].Names) != 1 {
			s.fail("comparator method %s has no analysable receiver", fn.Name())
			return nil
		}
		ro := pk.TypesInfo.Defs[decl.Recv.List[0].Names[0]]
		sub.bind[ro] = s.norm(sel.X)
		if fm, ok := s.structFields(sel.X); ok {
			sub.fields[ro] = fm
		}
	}
	i := 0
	for _, f := range decl.Type.Params.List {
		for _, n := range f.Names {
			if i < len(call.Args) {
				sub.bind[pk.TypesInfo.Defs[n]] = s.norm(call.Args[i])
				if fm, ok := s.structFields(call.Args[i]); ok {
					sub.fields[pk.TypesInfo.Defs[n]] = fm
				}
			}
			i++
		}
	}
	if i != len(call.Args) {
		s.fail("variadic comparator helper %s", fn.Name())
		return nil
	}
	paths := sub.block(decl.Body.List, [][]alit{{}}, nil)
	if sub.err != "" {
		s.fail("%s: %s", fn.Name(), sub.err)
	}
	return paths
}

// block walks statements under the alternatives cur; returned paths are appended to out. The
// alternatives that fall through are returned through *fall when fall is non-nil.
func (s *asym) block(stmts []ast.Stmt, cur [][]alit, fall *[][]alit) []apath {
	var out []apath
	for _, st := range stmts {
		if len(cur) == 0 {
			break
		}
		switch x := st.(type) {
		case *ast.AssignStmt:
			s.assign(x)
		case *ast.DeclStmt, *ast.EmptyStmt:
		case *ast.ReturnStmt:
			if len(x.Results) != 1 {
				s.fail("comparator returns %d values", len(x.Results))
				return out
			}
			for _, r := range s.results(x.Results[0]) {
				for _, alt := range cross(cur, [][]alit{r.lits}) {
					out = append(out, apath{lits: alt, res: r.res})
				}
			}
			cur = nil
		case *ast.IfStmt:
			if x.Init != nil {
				if as, ok := x.Init.(*ast.AssignStmt); ok {
					s.assign(as)
				} else {
					s.fail("unsupported if-initialiser")
				}
			}
			var next [][]alit
			out = append(out, s.block(x.Body.List, cross(cur, s.dnf(x.Cond, true)), &next)...)
			elseAlts := cross(cur, s.dnf(x.Cond, false))
			switch e := x.Else.(type) {
			case nil:
				next = append(next, elseAlts...)
			case *ast.BlockStmt:
				out = append(out, s.block(e.List, elseAlts, &next)...)
			case *ast.IfStmt:
				out = append(out, s.block([]ast.Stmt{e}, elseAlts, &next)...)
			}
			cur = next
		case *ast.SwitchStmt:
			if x.Tag != nil || x.Init != nil {
				s.fail("switch with a tag in comparator")
				return out
			}
			remaining := cur
			var next [][]alit
			var deflt *ast.CaseClause
			for _, c := range x.Body.List {
				cc := c.(*ast.CaseClause)
				if cc.List == nil {
					deflt = cc
					continue
				}
				var yes [][]alit
				no := [][]alit{{}}
				for _, ce := range cc.List {
					yes = append(yes, s.dnf(ce, true)...)
					no = cross(no, s.dnf(ce, false))
				}
				out = append(out, s.block(cc.Body, cross(remaining, yes), &next)...)
				remaining = cross(remaining, no)
				for _, b := range cc.Body {
					if br, ok := b.(*ast.BranchStmt); ok && br.Tok == token.FALLTHROUGH {
						s.fail("fallthrough in comparator")
					}
				}
			}
			if deflt != nil {
				out = append(out, s.block(deflt.Body, remaining, &next)...)
			} else {
				next = append(next, remaining...)
			}
			cur = next
		case *ast.BlockStmt:
			var next [][]alit
			out = append(out, s.block(x.List, cur, &next)...)
			cur = next
		default:
			s.fail("unsupported statement %T in comparator", st)
			return out
		}
	}
	if fall != nil {
		*fall = append(*fall, cur...)
	} else if len(cur) > 0 {
		s.fail("a path through the comparator does not end in a return")
	}
	return out
}

func (s *asym) assign(as *ast.AssignStmt) {
	if as.Tok != token.DEFINE {
		s.fail("re-assignment inside a comparator")
		return
	}
	switch {
	case len(as.Lhs) == len(as.Rhs):
		for i, l := range as.Lhs {
			if id, ok := l.(*ast.Ident); ok && id.Name != "_" {
				s.env[s.info.Defs[id]] = s.norm(as.Rhs[i])
				if fm, ok := s.structFields(as.Rhs[i]); ok {
					s.fields[s.info.Defs[id]] = fm
				}
			}
		}
	case len(as.Lhs) == 2 && len(as.Rhs) == 1:
		v := s.norm(as.Rhs[0])
		if id, ok := as.Lhs[0].(*ast.Ident); ok && id.Name != "_" {
			s.env[s.info.Defs[id]] = v
		}
		if id, ok := as.Lhs[1].(*ast.Ident); ok && id.Name != "_" {
			s.env[s.info.Defs[id]] = "ok(" + v + ")"
		}
	default:
		s.fail("unsupported assignment in comparator")
	}
}

func litsString(l []alit) string {
	var out []string
	seen := map[string]bool{}
	for _, x := range l {
		t := x.atom
		if !x.pos {
			t = "¬" + t
		}
		if !seen[t] {
			seen[t] = true
			out = append(out, t)
		}
	}
	sort.Strings(out)
	if len(out) == 0 {
		return "always"
	}
	return strings.Join(out, " ∧ ")
}

// identifying: x and y are the two elements themselves or the same identity-like projection of them.
func identifying(x, y string) bool {
	for proj := range projections {
		suffix := ""
		if proj != "" {
			suffix = "." + proj + "()"
		}
		if (x == "§a"+suffix && y == "§b"+suffix) || (x == "§b"+suffix && y == "§a"+suffix) {
			return true
		}
	}
	return false
}

// comparatorPaths unfolds the comparator; decides totality (no path returns 0 for different elements)
// and antisymmetry on the same paths.
func (a *Analyzer) comparatorPaths(info *types.Info, fl *ast.FuncLit, params []types.Object) (bool, string) {
	s := &asym{a: a, info: info, pa: params[0], pb: params[1], env: map[types.Object]string{}, bind: map[types.Object]string{}, fields: map[types.Object]map[string]string{}}
	paths := s.block(fl.Body.List, [][]alit{{}}, nil)
	if s.err != "" {
		return false, "the comparator cannot be unfolded into paths: " + s.err
	}
	if len(paths) == 0 {
		return false, "the comparator cannot be unfolded into paths: no return found"
	}
	for _, p := range paths {
		switch p.res.kind {
		case "const":
			if p.res.c == 0 {
				return false, "returns the constant 0 when " + litsString(p.lits)
			}
		default:
			if identifying(p.res.x, p.res.y) {
				continue
			}
			distinct := false
			for _, l := range p.lits {
				if !l.pos && l.atom == eqAtom(p.res.x, p.res.y) {
					distinct = true
				}
			}
			if !distinct {
				return false, fmt.Sprintf("may return 0 from %s for different elements (when %s): equal keys leave their order to the order of arrival", p.res, litsString(p.lits))
			}
		}
	}
	if ok, why := lexicographic(paths); !ok {
		return false, why
	}
	return a.antisymPaths(paths)
}

// mirroredKey: the atom compares the same projection of the two elements (eq(f(§a), f(§b))): returns f(§a).
func mirroredKey(atom string) string {
	if !strings.HasPrefix(atom, "eq(") {
		return ""
	}
	inner := atom[3 : len(atom)-1]
	depth, cut := 0, -1
	for i, c := range inner {
		switch c {
		case '(', '[':
			depth++
		case ')', ']':
			depth--
		case ',':
			if depth == 0 && cut < 0 {
				cut = i
			}
		}
	}
	if cut <= 0 {
		return ""
	}
	x, y := inner[:cut], inner[cut+1:]
	if x != y && swapAB(x) == y && strings.Contains(x+y, "§") {
		if strings.Contains(x, "§a") {
			return x
		}
		return y
	}
	return ""
}

// lexicographic (transitivity of a multi-key comparator): a path may decide by a later key only after it has
// established that every key which is compared before it elsewhere in the comparator is equal. A comparator
// that skips a key under some other condition (one of the two values is empty) and goes on to the next key
// orders a < b and b < c by different keys than a and c: the relation has cycles, and the result of sorting
// depends on the order of arrival.
func lexicographic(paths []apath) (bool, string) {
	keyOfRes := func(r ares) string {
		if r.kind == "const" {
			return ""
		}
		return mirroredKey(eqAtom(r.x, r.y))
	}
	// precedence among keys: j before k when some path tests j and later tests (or decides by) k
	before := map[[2]string]bool{}
	for _, p := range paths {
		var seq []string
		for _, l := range p.lits {
			if k := mirroredKey(l.atom); k != "" {
				seq = append(seq, k)
			}
		}
		if k := keyOfRes(p.res); k != "" {
			seq = append(seq, k)
		}
		for i := range seq {
			for j := i + 1; j < len(seq); j++ {
				if seq[i] != seq[j] {
					before[[2]string{seq[i], seq[j]}] = true
				}
			}
		}
	}
	for _, p := range paths {
		k := keyOfRes(p.res)
		if k == "" {
			continue
		}
		for pair := range before {
			if pair[1] != k || before[[2]string{k, pair[0]}] {
				continue // not a key that precedes k (or the two are not ordered consistently: left to antisymmetry)
			}
			j := pair[0]
			jb := swapAB(j)
			established, looked := false, false
			constA, constB := map[string]bool{}, map[string]bool{}
			for _, l := range p.lits {
				if l.pos && mirroredKey(l.atom) == j {
					established = true
				}
				if strings.Contains(l.atom, j) || strings.Contains(l.atom, jb) {
					looked = true
				}
				// both equal to the same third thing
				if l.pos && strings.HasPrefix(l.atom, "eq(") {
					inner := l.atom[3 : len(l.atom)-1]
					for _, side := range []string{j, jb} {
						other := ""
						if strings.HasPrefix(inner, side+",") {
							other = inner[len(side)+1:]
						} else if strings.HasSuffix(inner, ","+side) {
							other = inner[:len(inner)-len(side)-1]
						}
						if other != "" && !strings.Contains(other, "§") {
							if side == j {
								constA[other] = true
							} else {
								constB[other] = true
							}
						}
					}
				}
			}
			for c := range constA {
				if constB[c] {
					established = true
				}
			}
			// a path that never looked at the earlier key belongs to a class in which that key plays no part (decided by
			// keys established before); one that looked at it and went on without equality skips it
			if !established && looked {
				return false, fmt.Sprintf("the comparator decides by %s on a path (%s) that has not established %s to be equal, although %s is compared first elsewhere: the order is not transitive (a<b and b<c can be decided by different keys than a and c), so the sorted order depends on the order of arrival", strings.ReplaceAll(k, "§a", "a"), litsString(p.lits), strings.ReplaceAll(j, "§a", "a"), strings.ReplaceAll(j, "§a", "a"))
			}
		}
	}
	return true, ""
}

func (a *Analyzer) antisymPaths(paths []apath) (bool, string) {
	for _, p := range paths {
		for _, q := range paths {
			var both []alit
			both = append(both, p.lits...)
			for _, l := range q.lits {
				both = append(both, alit{swapAtom(l.atom), l.pos})
			}
			if !consistent(both) {
				continue
			}
			want := negRes(swapRes(q.res))
			if p.res != want {
				return false, fmt.Sprintf("the comparator is not antisymmetric: when %s it returns %s for (a, b) but %s for (b, a), so the order of such elements is the order they arrived in", litsString(both), p.res, swapRes(q.res))
			}
		}
	}
	return true, ""
}
