package e3order

import (
	"go/token"

	"golang.org/x/tools/go/ssa"

	"verif/sa/internal/pathx"
)

// isJoinHelperPaths decides on the enumerated paths of f(m, k, v) that all f does is the slot-wise maximum join
// m[k] = max(m[k], v): on a path on which k is absent it stores v; on a path on which k is present it stores
// max(cur, v), or stores v having established v > cur (or >=), or keeps the slot having established v <= cur
// (or <). Whatever the spelling — if/else, early return, `!ok || v > cur`, math.Max, the max builtin — repeated
// application in any order leaves m[k] = the maximum of all v (commutative, associative, idempotent).
func isJoinHelperPaths(f *ssa.Function) bool {
	if len(f.Params) != 3 || len(f.Blocks) == 0 {
		return false
	}
	m, k, v := f.Params[0], f.Params[1], f.Params[2]
	ex := &pathx.Explorer{Root: f, MaxPaths: 64, Follow: func(*ssa.Function) bool { return false }}
	paths := ex.Explore()
	if ex.Overflow || len(paths) == 0 {
		return false
	}
	strip := func(pt *pathx.Path, t pathx.Term) pathx.Term {
		for {
			t = pt.Resolve(t)
			switch x := t.V.(type) {
			case *ssa.Convert:
				t = t.Sub(x.X)
				continue
			case *ssa.ChangeType:
				t = t.Sub(x.X)
				continue
			}
			return t
		}
	}
	isV := func(pt *pathx.Path, t pathx.Term) bool { return strip(pt, t).V == ssa.Value(v) }
	isCur := func(pt *pathx.Path, t pathx.Term) bool {
		t = strip(pt, t)
		if ex, ok := t.V.(*ssa.Extract); ok && ex.Index == 0 {
			if lk, ok := ex.Tuple.(*ssa.Lookup); ok && pt.Resolve(t.Sub(lk.X)).V == ssa.Value(m) && pt.Resolve(t.Sub(lk.Index)).V == ssa.Value(k) {
				return true
			}
		}
		if lk, ok := t.V.(*ssa.Lookup); ok && !lk.CommaOk && pt.Resolve(t.Sub(lk.X)).V == ssa.Value(m) && pt.Resolve(t.Sub(lk.Index)).V == ssa.Value(k) {
			return true
		}
		return false
	}
	isMax := func(pt *pathx.Path, t pathx.Term) bool {
		t = strip(pt, t)
		c, ok := t.V.(*ssa.Call)
		if !ok || len(c.Common().Args) != 2 {
			return false
		}
		name := ""
		if b, isB := c.Common().Value.(*ssa.Builtin); isB {
			name = b.Name()
		} else if cal := c.Common().StaticCallee(); cal != nil && cal.Pkg != nil && cal.Pkg.Pkg.Path() == "math" {
			name = cal.Name()
		}
		if name != "max" && name != "Max" {
			return false
		}
		a0, a1 := t.Sub(c.Common().Args[0]), t.Sub(c.Common().Args[1])
		return (isCur(pt, a0) && isV(pt, a1)) || (isCur(pt, a1) && isV(pt, a0))
	}
	sawUpdate := false
	for _, pt := range paths {
		if pt.End != "return" {
			return false
		}
		var updates []pathx.Term
		for _, ev := range pt.Events {
			switch x := ev.Instr.(type) {
			case *ssa.MapUpdate:
				if pt.Resolve(ev.Term(x.Map)).V != ssa.Value(m) || pt.Resolve(ev.Term(x.Key)).V != ssa.Value(k) {
					return false
				}
				updates = append(updates, ev.Term(x.Value))
			case *ssa.Store:
				if _, local := x.Addr.(*ssa.Alloc); !local {
					return false
				}
			case *ssa.Call:
				if _, isB := x.Common().Value.(*ssa.Builtin); isB {
					continue
				}
				if cal := x.Common().StaticCallee(); cal != nil && cal.Pkg != nil && cal.Pkg.Pkg.Path() == "math" {
					continue
				}
				return false
			case *ssa.Return:
			default:
				return false
			}
		}
		if len(updates) > 1 {
			return false
		}
		// what the path established
		presence, rel := "", "" // presence: "present"/"absent"; rel: ">", ">=", "<", "<=" for v against cur
		for _, c := range pt.Conds {
			t, val := pt.Resolve(c.T), c.Branch
			for {
				u, ok := t.V.(*ssa.UnOp)
				if !ok || u.Op != token.NOT {
					break
				}
				t, val = pt.Resolve(t.Sub(u.X)), !val
			}
			if e, ok := t.V.(*ssa.Extract); ok && e.Index == 1 {
				if lk, ok := e.Tuple.(*ssa.Lookup); ok && pt.Resolve(t.Sub(lk.X)).V == ssa.Value(m) && pt.Resolve(t.Sub(lk.Index)).V == ssa.Value(k) {
					if val {
						presence = "present"
					} else {
						presence = "absent"
					}
				}
				continue
			}
			bo, ok := t.V.(*ssa.BinOp)
			if !ok {
				continue
			}
			l, r := t.Sub(bo.X), t.Sub(bo.Y)
			op := bo.Op
			switch {
			case isV(pt, l) && isCur(pt, r):
			case isCur(pt, l) && isV(pt, r):
				// cur OP v  ≡  v OP' cur
				switch op {
				case token.GTR:
					op = token.LSS
				case token.GEQ:
					op = token.LEQ
				case token.LSS:
					op = token.GTR
				case token.LEQ:
					op = token.GEQ
				}
			default:
				continue
			}
			if !val {
				switch op {
				case token.GTR:
					op = token.LEQ
				case token.GEQ:
					op = token.LSS
				case token.LSS:
					op = token.GEQ
				case token.LEQ:
					op = token.GTR
				}
			}
			switch op {
			case token.GTR, token.GEQ, token.LSS, token.LEQ:
				rel = op.String()
			}
		}
		switch {
		case len(updates) == 1 && isMax(pt, updates[0]):
			sawUpdate = true
		case presence == "absent":
			if len(updates) != 1 || !isV(pt, updates[0]) {
				return false
			}
			sawUpdate = true
		case len(updates) == 1 && isV(pt, updates[0]):
			if presence != "present" || (rel != ">" && rel != ">=") {
				return false
			}
			sawUpdate = true
		case len(updates) == 0 || isCur(pt, updates[0]):
			if presence != "present" || (rel != "<" && rel != "<=") {
				return false
			}
		default:
			return false
		}
	}
	return sawUpdate
}
