package e3order

import (
	"go/ast"
	"go/importer"
	"go/parser"
	"go/token"
	"go/types"
	"strings"

	"golang.org/x/tools/go/packages"

	"verif/sa/internal/oblig"
)

// fixture: functions named bad* must be reported, good* must not.
const fixtureSrc = `package fixture

import (
	"cmp"
	"slices"
	"sort"
)

type item struct{ name string; n int }

func badAppendErrors(m map[string]int) []string {
	var out []string
	for k := range m {
		out = append(out, k)
	}
	return out
}

func badLastWriter(m map[string]int) string {
	last := ""
	for k := range m {
		last = k
	}
	return last
}

func badEarlyReturn(m map[string]int) string {
	for k, v := range m {
		if v > 0 {
			return k
		}
	}
	return ""
}

func badPartialComparator(m map[string]*item) []string {
	keys := []string{}
	for k := range m {
		keys = append(keys, k)
	}
	slices.SortStableFunc(keys, func(a, b string) int { return cmp.Compare(m[a].n, m[b].n) })
	return keys
}

func badAsymmetricComparator(m map[string]*item) []string {
	keys := []string{}
	for k := range m {
		keys = append(keys, k)
	}
	slices.SortStableFunc(keys, func(a, b string) int {
		_, aok := m[a]
		_, bok := m[b]
		switch {
		case !aok:
			return -1
		case !bok:
			return 1
		}
		return cmp.Compare(a, b)
	})
	return keys
}

func goodMirroredComparator(m map[string]*item) []string {
	keys := []string{}
	for k := range m {
		keys = append(keys, k)
	}
	slices.SortStableFunc(keys, func(a, b string) int {
		an, bn := m[a].name, m[b].name
		if an == "" && bn == "" {
			return cmp.Compare(a, b)
		}
		if an == "" {
			return -1
		}
		if bn == "" {
			return 1
		}
		if an != bn {
			return cmp.Compare(an, bn)
		}
		return cmp.Compare(a, b)
	})
	return keys
}

func badAppendToOther(m map[string]int, deps map[string][]int) {
	for k, v := range m {
		deps["x"] = append(deps["x"], v)
		_ = k
	}
}

func badLoopCarried(m map[string]int, out map[string]int) {
	seen := []string{}
	for k, v := range m {
		if len(seen) == 0 {
			out[k] = v
		}
		seen = append(seen, k)
	}
	_ = len(seen)
}

func goodSorted(m map[string]int) []string {
	keys := make([]string, 0, len(m))
	for k := range m {
		keys = append(keys, k)
	}
	sort.Strings(keys)
	return keys
}

func goodSortedBranches(m map[string]*item, modular bool) []string {
	keys := []string{}
	for k := range m {
		keys = append(keys, k)
	}
	if modular {
		slices.SortStableFunc(keys, func(a, b string) int {
			if m[a].n != m[b].n {
				return cmp.Compare(m[a].n, m[b].n)
			}
			return cmp.Compare(a, b)
		})
	} else {
		sort.Strings(keys)
	}
	return keys
}

func goodMembership(m map[string]int, probe string) bool {
	names := []string{}
	for k := range m {
		names = append(names, k)
	}
	return slices.Contains(names, probe)
}

func goodKeyed(m map[string]int, out map[string]int) {
	for k, v := range m {
		out[k] = v + 1
	}
}

func goodJoin(m map[string]int, out map[string]int, f func(string) string) {
	for k, v := range m {
		if _, ok := out[k[:1]]; !ok {
			out[k[:1]] = v
		} else {
			out[k[:1]] = max(out[k[:1]], v)
		}
	}
}

func goodFind(m map[string]*item, want string) *item {
	var r *item
	for k, v := range m {
		if k == want {
			r = v

			break
		}
	}
	return r
}

func goodExists(m map[string]int) bool {
	for _, v := range m {
		if v > 3 {
			return true
		}
	}
	return false
}
`

// SelfTest runs the loop classifier on the embedded fixture: every bad* function must be reported
// and no good* function may be. A failure means the matcher no longer recognises the constructs.
func SelfTest(r *oblig.Report) {
	fset := token.NewFileSet()
	f, err := parser.ParseFile(fset, "fixture.go", fixtureSrc, 0)
	if err != nil {
		r.BrokenChecker("e3 fixture does not parse: " + err.Error())
		return
	}
	info := &types.Info{Types: map[ast.Expr]types.TypeAndValue{}, Defs: map[*ast.Ident]types.Object{}, Uses: map[*ast.Ident]types.Object{}, Selections: map[*ast.SelectorExpr]*types.Selection{}}
	conf := types.Config{Importer: importer.ForCompiler(fset, "source", nil)}
	tp, err := conf.Check("fixture", fset, []*ast.File{f}, info)
	if err != nil {
		r.BrokenChecker("e3 fixture does not type-check: " + err.Error())
		return
	}
	pk := &packages.Package{Fset: fset, Syntax: []*ast.File{f}, Types: tp, TypesInfo: info}
	scratch := oblig.New("selftest", "other", "quick")
	a := &Analyzer{R: scratch}
	var units []Unit
	for _, d := range f.Decls {
		if fd, ok := d.(*ast.FuncDecl); ok {
			units = append(units, Unit{Name: fd.Name.Name, Syn: fd, Pkg: pk})
		}
	}
	a.CollectUnits(units)
	a.Classify("fixture")
	got := map[string]string{}
	for _, rec := range scratch.Records {
		parts := strings.Split(rec.Construct, ":")
		if len(parts) >= 2 {
			got[parts[1]] = rec.Status
		}
	}
	n := 0
	for _, u := range units {
		st, ok := got[u.Name]
		if !ok {
			r.BrokenChecker("e3 self-test: no loop found in fixture function " + u.Name)
			continue
		}
		n++
		if strings.HasPrefix(u.Name, "bad") && st != oblig.Finding {
			r.BrokenChecker("e3 self-test: order-sensitive fixture " + u.Name + " was not reported")
		}
		if strings.HasPrefix(u.Name, "good") && st != oblig.Discharged {
			r.BrokenChecker("e3 self-test: order-insensitive fixture " + u.Name + " was reported")
		}
	}
	r.Analysed["e3_fixture_functions"] = n
}
