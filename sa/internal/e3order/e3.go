// Package e3order decides that nothing observable depends on map iteration order, on the order of
// gonum's map-backed iterators, or on entropy (ULIDs, time, rand). A loop over an order source is
// accepted only if every effect of its body falls in one of the recognised order-insensitive forms;
// everything else is reported.
package e3order

import (
	"fmt"
	"go/ast"
	"go/constant"
	"go/token"
	"go/types"
	"sort"
	"strings"

	"golang.org/x/tools/go/packages"
	"golang.org/x/tools/go/ssa"
	"golang.org/x/tools/go/types/typeutil"

	"verif/sa/internal/load"
	"verif/sa/internal/oblig"
)

// Exception is a reviewed order-sensitive-looking loop whose effects are bag-like for every consumer.
type Exception struct {
	Func    string // load.FuncName of the enclosing function
	Ranged  string // ranged expression, rendered from resolved selectors
	Effects string // effect signature; part of the key: a new effect invalidates the exception
	Reason  string
	// pattern form (Func/Ranged/Effects empty): the reviewed fact is about a data structure, not about one
	// function body, so it is keyed by the receiver type, the shape of the ranged expression and the set of
	// effects that may occur
	FuncPrefix     string
	RangedRe       string
	EffectsAllowed []string
}

// Exceptions were confirmed by reading every consumer (DESIGN.md R3.3).
var Exceptions = []Exception{
	{Func: "(*graph.WeightedAuthorizationModelGraph).calculateEdgeWeight", Ranged: "edge.to.weights",
		Effects: "collect(tupleCycle);keyed-store(weights);map-append(tupleCycleDependencies)",
		Reason:  "appends the one current edge to tupleCycleDependencies[d] for pairwise distinct d (keys of one map); tupleCycle is only consumed by membership tests, filters, len and per-element appends to distinct lists"},
	{Func: "(*graph.WeightedAuthorizationModelGraph).fixDependantEdgesWeight", Ranged: "edge.weights",
		Effects: "join(edgeWeights);nested[join(edgeWeights);map-append(tupleCycleDependencies)]",
		Reason:  "slot-wise maximum into a fresh map; the append adds the one current edge to the list of a different cycle root, once per distinct key2 first seen"},
	{Func: "(*graph.WeightedAuthorizationModelGraph).fixDependantEdgesWeight", Ranged: "node.weights",
		Effects: "join(edgeWeights);map-append(tupleCycleDependencies)",
		Reason:  "inner loop of the entry above"},
	{FuncPrefix: "(*graph.AuthorizationModelGraphBuilder).", RangedRe: `^iterator:\w+\.Lines\(\w+\.ID\(\), \w+\.ID\(\)\)$`,
		EffectsAllowed: []string{"field-append(conditions)", "nested[exists-return]", "exists-return", "return"},
		Reason:         "first match among the lines between two given nodes, selected by (edgeType, tuplesetRelation): at most one such line exists — Direct and TTU lines are only created through upsertEdge, which stops at the first match — so at most one iteration has an effect, whichever order the iterator uses"},
}

// Loop is one order-source loop.
type Loop struct {
	Fn     *ssa.Function
	FnName string
	Pkg    *packages.Package
	Stmt   ast.Stmt
	Kind   string // "map" or "iterator"
	Ranged string
	// RangedShape: the ranged expression with its root variable dropped (selector path only): stable under renaming
	RangedShape string
	Key         types.Object
	Val         types.Object
	Body        *ast.BlockStmt
	Hard        bool // a problem that a reviewed exception does not cover
	Effects     []string
	Problem     []string // why it is not provably order-insensitive
	Collect     []types.Object
	decl        ast.Node
}

// Analyzer holds per-run state.
type Analyzer struct {
	lastSortWhy string // why the last candidate sort call was rejected (for reports)
	sortDepth   int
	cmpDepth    int
	P           *load.Prog
	R           *oblig.Report
	Loops       []*Loop
	// CallerOrderElem: when set (e.g. "openfga/v1.TypeDefinition"), ranging a slice of pointers to
	// that type in the caller's order is an order source too, unless the ranged variable is a
	// fresh copy sorted by a total comparator (the property demands independence of that order).
	CallerOrderElem string
}

func isMap(t types.Type) bool {
	if t == nil {
		return false
	}
	_, ok := t.Underlying().(*types.Map)
	return ok
}

func isGonumIter(t types.Type) bool {
	if t == nil {
		return false
	}
	s := t.String()
	return strings.Contains(s, "gonum.org/v1/gonum/graph") && (strings.HasSuffix(s, ".Nodes") || strings.HasSuffix(s, ".Edges") || strings.HasSuffix(s, ".Lines") ||
		strings.HasSuffix(s, ".WeightedEdges") || strings.HasSuffix(s, ".WeightedLines") || strings.Contains(s, "iterator."))
}

// exprKey renders an expression from identifiers and selectors (no positions, no literals of interest).
func exprKey(e ast.Expr) string { return types.ExprString(e) }

// Unit is one function body to analyse.
type Unit struct {
	Name string
	Syn  ast.Node
	Pkg  *packages.Package
	Fn   *ssa.Function
}

// Units converts SSA functions into analysis units.
func (a *Analyzer) Units(funcs []*ssa.Function) []Unit {
	var out []Unit
	seen := map[ast.Node]bool{}
	for _, fn := range funcs {
		syn := fn.Syntax()
		pk := a.pkgOf(fn)
		if syn == nil || pk == nil || seen[syn] {
			continue // no source, or another instantiation of a generic function that was already taken
		}
		seen[syn] = true
		out = append(out, Unit{Name: load.FuncName(fn), Syn: syn, Pkg: pk, Fn: fn})
	}
	return out
}

// CollectLoops finds every order-source loop in the given functions.
func (a *Analyzer) CollectLoops(funcs []*ssa.Function) { a.CollectUnits(a.Units(funcs)) }

// CollectUnits finds every order-source loop in the given units.
func (a *Analyzer) CollectUnits(units []Unit) {
	for _, u := range units {
		syn, pk, fn := u.Syn, u.Pkg, u.Fn
		var body *ast.BlockStmt
		switch d := syn.(type) {
		case *ast.FuncDecl:
			body = d.Body
		case *ast.FuncLit:
			body = d.Body
		}
		if body == nil {
			continue
		}
		info := pk.TypesInfo
		iterVars := map[types.Object]ast.Expr{} // variables holding a gonum iterator → defining expression
		ast.Inspect(body, func(n ast.Node) bool {
			if fl, ok := n.(*ast.FuncLit); ok && n != syn {
				_ = fl
				return false // closures are separate SSA functions
			}
			switch s := n.(type) {
			case *ast.AssignStmt:
				if len(s.Lhs) == 1 && len(s.Rhs) == 1 {
					if id, ok := s.Lhs[0].(*ast.Ident); ok {
						if tv, ok := info.Types[s.Rhs[0]]; ok && isGonumIter(tv.Type) {
							if obj := objOf(info, id); obj != nil {
								iterVars[obj] = s.Rhs[0]
							}
						}
					}
				}
			case *ast.RangeStmt:
				if tv, ok := info.Types[s.X]; ok && a.CallerOrderElem != "" {
					if sl, isSl := tv.Type.Underlying().(*types.Slice); isSl && strings.HasSuffix(sl.Elem().String(), a.CallerOrderElem) {
						if sorted, _ := a.isSortedCopy(info, body, s); !sorted {
							l := &Loop{Fn: fn, FnName: u.Name, Pkg: pk, Stmt: s, Kind: "caller-order", Ranged: exprKey(s.X), Body: s.Body, decl: syn}
							if id, ok := s.Value.(*ast.Ident); ok && id.Name != "_" {
								l.Val = objOf(info, id)
							}
							a.Loops = append(a.Loops, l)
						}
					}
				}
				if tv, ok := info.Types[s.X]; ok && isMap(tv.Type) {
					l := &Loop{Fn: fn, FnName: u.Name, Pkg: pk, Stmt: s, Kind: "map", Ranged: exprKey(s.X), RangedShape: exprKey(s.X), Body: s.Body, decl: syn}
					if id, ok := s.Key.(*ast.Ident); ok && id.Name != "_" {
						l.Key = objOf(info, id)
					}
					if id, ok := s.Value.(*ast.Ident); ok && id.Name != "_" {
						l.Val = objOf(info, id)
					}
					a.Loops = append(a.Loops, l)
				}
			case *ast.ForStmt:
				if call, ok := s.Cond.(*ast.CallExpr); ok {
					if sel, ok := call.Fun.(*ast.SelectorExpr); ok && sel.Sel.Name == "Next" {
						if tv, ok := info.Types[sel.X]; ok && isGonumIter(tv.Type) {
							ranged := "iterator:" + exprKey(sel.X)
							// for it := g.Lines(…); it.Next(); { … }: the iterator is defined by the loop's own init statement
							if as, ok := s.Init.(*ast.AssignStmt); ok && len(as.Lhs) == 1 && len(as.Rhs) == 1 {
								if lid, ok := as.Lhs[0].(*ast.Ident); ok {
									if tv, ok := info.Types[as.Rhs[0]]; ok && isGonumIter(tv.Type) {
										if obj := objOf(info, lid); obj != nil {
											iterVars[obj] = as.Rhs[0]
										}
									}
								}
							}
							if id, ok := sel.X.(*ast.Ident); ok {
								if def, ok := iterVars[objOf(info, id)]; ok {
									ranged = "iterator:" + exprKey(def)
								}
							}
							a.Loops = append(a.Loops, &Loop{Fn: fn, FnName: u.Name, Pkg: pk, Stmt: s, Kind: "iterator", Ranged: ranged, Body: s.Body, decl: syn})
						}
					}
				}
			}
			return true
		})
	}
	sort.SliceStable(a.Loops, func(i, j int) bool {
		if a.Loops[i].FnName != a.Loops[j].FnName {
			return a.Loops[i].FnName < a.Loops[j].FnName
		}
		return a.Loops[i].Stmt.Pos() < a.Loops[j].Stmt.Pos()
	})
}

func objOf(info *types.Info, id *ast.Ident) types.Object {
	if o := info.Defs[id]; o != nil {
		return o
	}
	return info.Uses[id]
}

func (a *Analyzer) pkgOf(fn *ssa.Function) *packages.Package {
	pk := load.FuncPkg(fn)
	if pk == nil {
		return nil
	}
	return a.P.Pkgs[load.ShortPkg(pk)]
}

// pure callees: may be called in conditions and right-hand sides without being an effect.
func pureCallee(fn *types.Func) bool {
	if fn == nil {
		return false
	}
	pkg := ""
	if fn.Pkg() != nil {
		pkg = fn.Pkg().Path()
	}
	switch pkg {
	case "strings", "math", "cmp", "unicode", "unicode/utf8", "strconv", "path", "path/filepath", "errors":
		return true
	case "slices":
		switch fn.Name() {
		case "Contains", "ContainsFunc", "Index", "IndexFunc", "Equal", "Max", "Min", "BinarySearch":
			return true
		}
		return false
	case "fmt":
		return strings.HasPrefix(fn.Name(), "Sprint") || fn.Name() == "Errorf"
	case "maps":
		return false
	}
	// generated protobuf getters and String methods are read-only
	if strings.HasPrefix(pkg, "github.com/openfga/api/proto") {
		return strings.HasPrefix(fn.Name(), "Get") || fn.Name() == "String"
	}
	if strings.HasPrefix(pkg, "gonum.org/v1/gonum/graph") {
		switch fn.Name() {
		case "ID", "From", "To", "Node", "Line", "Edge", "Len", "ReversedLine", "ReversedEdge", "NodesOf", "LinesOf", "EdgesOf":
			return true // the *Of helpers drain an iterator that is local to the caller
		}
	}
	if strings.HasPrefix(pkg, "github.com/antlr4-go/antlr") {
		return strings.HasPrefix(fn.Name(), "Get")
	}
	return false
}

type bodyCtx struct {
	a      *Analyzer
	l      *Loop
	info   *types.Info
	locals map[types.Object]bool // declared inside the loop body
	inNest bool
	// alias: while the body of a helper called from the loop is walked in the loop's context, the helper's
	// parameters (and receiver) stand for the argument expressions of that call
	alias  map[types.Object]ast.Expr
	inline int // nesting depth of helper bodies being walked
	// slotAlias: a variable that holds the value read by a comma-ok lookup M[i] → the key of that slot
	slotAlias map[types.Object]string
}

// obj resolves an identifier to its object, looking through a helper parameter that stands for a plain variable.
func (c *bodyCtx) obj(id *ast.Ident) types.Object {
	o := objOf(c.info, id)
	for i := 0; i < 4 && o != nil; i++ {
		e, ok := c.alias[o]
		if !ok {
			break
		}
		aid, isID := ast.Unparen(e).(*ast.Ident)
		if !isID {
			break
		}
		o = objOf(c.info, aid)
	}
	return o
}

func (c *bodyCtx) mentions(e ast.Node, objs ...types.Object) bool {
	found := false
	ast.Inspect(e, func(n ast.Node) bool {
		if id, ok := n.(*ast.Ident); ok {
			if ae, aliased := c.alias[objOf(c.info, id)]; aliased && c.inline < 4 {
				c.inline++
				if c.mentions(ae, objs...) {
					found = true
				}
				c.inline--
			}
			o := c.obj(id)
			for _, want := range objs {
				if want != nil && o == want {
					found = true
				}
			}
		}
		return !found
	})
	return found
}

// loopVariant: does the expression depend on the loop variables or on locals of the body?
func (c *bodyCtx) loopVariant(e ast.Node) bool {
	v := false
	ast.Inspect(e, func(n ast.Node) bool {
		if id, ok := n.(*ast.Ident); ok {
			if ae, aliased := c.alias[objOf(c.info, id)]; aliased && c.inline < 4 {
				c.inline++
				if c.loopVariant(ae) {
					v = true
				}
				c.inline--
			}
			o := c.obj(id)
			if o != nil && (o == c.l.Key || o == c.l.Val || c.locals[o]) {
				v = true
			}
		}
		return !v
	})
	return v
}

// exprPure checks that an expression has no effect (only pure callees, no function literals called).
func (c *bodyCtx) exprPure(e ast.Node) (bool, string) {
	ok, why := true, ""
	ast.Inspect(e, func(n ast.Node) bool {
		call, isCall := n.(*ast.CallExpr)
		if !isCall || !ok {
			return ok
		}
		if tv, found := c.info.Types[call.Fun]; found && tv.IsType() {
			return true // conversion
		}
		if id, isID := ast.Unparen(call.Fun).(*ast.Ident); isID {
			if _, isBuiltin := c.info.Uses[id].(*types.Builtin); isBuiltin {
				switch id.Name {
				case "len", "cap", "min", "max", "make", "new", "append":
					return true
				}
				ok, why = false, "builtin "+id.Name
				return false
			}
		}
		fn, _ := typeutil.Callee(c.info, call).(*types.Func)
		if fn != nil && (pureCallee(fn) || c.a.repoPure(fn)) {
			return true
		}
		name := "dynamic call"
		if fn != nil {
			name = fn.FullName()
		}
		ok, why = false, "call of "+name
		return false
	})
	return ok, why
}

// repoPure: repository functions proven effect-free by an SSA summary.
func (a *Analyzer) repoPure(fn *types.Func) bool {
	if !load.IsRepoPkg(fn.Pkg()) || a.P == nil || a.P.SSA == nil {
		return false
	}
	sf := a.P.SSA.FuncValue(fn)
	if sf == nil {
		return false
	}
	return a.effectFree(sf, map[*ssa.Function]bool{})
}

// effectFree: no store, map update, send, go, defer or call of an unknown callee, transitively;
// stores into memory allocated by the function itself are allowed.
func (a *Analyzer) effectFree(f *ssa.Function, visiting map[*ssa.Function]bool) bool {
	if visiting[f] {
		return true
	}
	visiting[f] = true
	if len(f.Blocks) == 0 {
		return false
	}
	for _, b := range f.Blocks {
		for _, in := range b.Instrs {
			switch v := in.(type) {
			case *ssa.Store:
				if !localAddr(v.Addr) {
					return false
				}
			case *ssa.MapUpdate:
				if _, ok := v.Map.(*ssa.MakeMap); !ok {
					return false
				}
			case *ssa.Send, *ssa.Go, *ssa.Defer, *ssa.Panic:
				return false
			case ssa.CallInstruction:
				cc := v.Common()
				if cc.IsInvoke() {
					if cc.Method != nil && pureCallee(cc.Method) {
						continue
					}
					return false
				}
				switch callee := cc.Value.(type) {
				case *ssa.Builtin:
					switch callee.Name() {
					case "len", "cap", "min", "max", "append":
					default:
						return false
					}
				case *ssa.Function:
					if obj, ok := callee.Object().(*types.Func); ok && pureCallee(obj) {
						continue
					}
					if load.IsRepoPkg(load.FuncPkg(callee)) && a.effectFree(callee, visiting) {
						continue
					}
					return false
				default:
					return false
				}
			}
		}
	}
	return true
}

func localAddr(v ssa.Value) bool {
	switch x := v.(type) {
	case *ssa.Alloc:
		return true
	case *ssa.FieldAddr:
		return localAddr(x.X)
	case *ssa.IndexAddr:
		return localAddr(x.X)
	}
	return false
}

func (c *bodyCtx) effect(s string) { c.l.Effects = append(c.l.Effects, s) }
func (c *bodyCtx) problem(pos token.Pos, s string) {
	c.l.Problem = append(c.l.Problem, fmt.Sprintf("%s (%s)", s, c.a.pos(pos)))
}

func (a *Analyzer) pos(p token.Pos) string {
	if a.P == nil {
		return "fixture"
	}
	return a.P.Pos(p)
}

func rootIdent(e ast.Expr) *ast.Ident {
	for {
		switch x := e.(type) {
		case *ast.Ident:
			return x
		case *ast.SelectorExpr:
			e = x.X
		case *ast.IndexExpr:
			e = x.X
		case *ast.StarExpr:
			e = x.X
		case *ast.ParenExpr:
			e = x.X
		case *ast.CallExpr:
			// getter chain a.GetX().Y
			if sel, ok := x.Fun.(*ast.SelectorExpr); ok {
				e = sel.X
				continue
			}
			return nil
		default:
			return nil
		}
	}
}

func lastName(e ast.Expr) string {
	switch x := e.(type) {
	case *ast.Ident:
		return x.Name
	case *ast.SelectorExpr:
		return x.Sel.Name
	case *ast.IndexExpr:
		return lastName(x.X)
	case *ast.CallExpr:
		return lastName(x.Fun)
	}
	return "?"
}

// isMaxJoin recognises M[i] = int(math.Max(float64(M[i]), float64(v))) and M[i] = max(M[i], v).
func (c *bodyCtx) isMaxJoin(lhs *ast.IndexExpr, rhs ast.Expr) bool {
	want := exprKey(lhs)
	found := false
	ast.Inspect(rhs, func(n ast.Node) bool {
		call, ok := n.(*ast.CallExpr)
		if !ok {
			return true
		}
		name := ""
		if id, ok := call.Fun.(*ast.Ident); ok {
			name = id.Name
		} else if fn, _ := typeutil.Callee(c.info, call).(*types.Func); fn != nil && fn.Pkg() != nil && fn.Pkg().Path() == "math" {
			name = fn.Name()
		}
		if (name == "max" || name == "Max") && len(call.Args) == 2 {
			for _, arg := range call.Args {
				inner := arg
				for {
					cv, ok := ast.Unparen(inner).(*ast.CallExpr)
					if ok && len(cv.Args) == 1 {
						if tv, f := c.info.Types[cv.Fun]; f && tv.IsType() {
							inner = cv.Args[0]
							continue
						}
					}
					break
				}
				if exprKey(ast.Unparen(inner)) == want {
					found = true
				}
				// cur, ok := M[i] … max(cur, w): the value read by the comma-ok lookup of the same slot
				if id, ok := ast.Unparen(inner).(*ast.Ident); ok && c.slotAlias != nil && c.slotAlias[c.obj(id)] == want {
					found = true
				}
			}
		}
		return true
	})
	return found
}

// joinIf recognises: if _, ok := M[i]; !ok { M[i] = v } else { M[i] = max(M[i], w) }  (guarded first
// store may itself be nested in a further pure condition, which only drops contributions).
func (c *bodyCtx) joinIf(s *ast.IfStmt) (string, bool) { return c.joinIfAfter(s, nil) }

// joinIfAfter: the same with the comma-ok lookup written as the statement before the if (cur, ok := M[i]; if !ok …).
func (c *bodyCtx) joinIfAfter(s *ast.IfStmt, prev ast.Stmt) (string, bool) {
	init := s.Init
	if init == nil {
		init = prev
	}
	as, ok := init.(*ast.AssignStmt)
	if !ok || len(as.Lhs) != 2 || len(as.Rhs) != 1 || s.Else == nil {
		return "", false
	}
	if cur, isID := as.Lhs[0].(*ast.Ident); isID && cur.Name != "_" {
		if ix, isIx := as.Rhs[0].(*ast.IndexExpr); isIx {
			if c.slotAlias == nil {
				c.slotAlias = map[types.Object]string{}
			}
			c.slotAlias[c.obj(cur)] = exprKey(ix)
		}
	}
	ix, ok := as.Rhs[0].(*ast.IndexExpr)
	if !ok {
		return "", false
	}
	okID, isID := as.Lhs[1].(*ast.Ident)
	un, isNot := s.Cond.(*ast.UnaryExpr)
	if !isID || !isNot || un.Op != token.NOT {
		return "", false
	}
	if cid, ok := un.X.(*ast.Ident); !ok || c.obj(cid) != c.obj(okID) {
		return "", false
	}
	target := exprKey(ix)
	elseBlk, ok := s.Else.(*ast.BlockStmt)
	if !ok || len(elseBlk.List) != 1 {
		return "", false
	}
	ea, ok := elseBlk.List[0].(*ast.AssignStmt)
	if !ok || len(ea.Lhs) != 1 || len(ea.Rhs) != 1 {
		return "", false
	}
	el, ok := ea.Lhs[0].(*ast.IndexExpr)
	if !ok || exprKey(el) != target || !c.isMaxJoin(el, ea.Rhs[0]) {
		return "", false
	}
	return target, true
}

// walk classifies the statements of a loop body. thenOnlyStores: inside the !ok branch of a join-if
// for the given target, plain stores to that target are part of the join.
func (c *bodyCtx) walk(stmts []ast.Stmt, joinTarget string) {
	for i, st := range stmts {
		switch s := st.(type) {
		case *ast.DeclStmt:
			if gd, ok := s.Decl.(*ast.GenDecl); ok {
				for _, sp := range gd.Specs {
					if vs, ok := sp.(*ast.ValueSpec); ok {
						for _, n := range vs.Names {
							c.locals[c.info.Defs[n]] = true
						}
						for _, v := range vs.Values {
							if ok, why := c.exprPure(v); !ok {
								c.effect("call")
								c.problem(v.Pos(), "initialiser has an effect: "+why)
							}
						}
					}
				}
			}
		case *ast.AssignStmt:
			c.assign(s, joinTarget)
		case *ast.IncDecStmt:
			if id := rootIdent(s.X); id != nil && c.locals[c.obj(id)] {
				continue
			}
			c.effect("accumulate(" + lastName(s.X) + ")")
		case *ast.ExprStmt:
			call, ok := s.X.(*ast.CallExpr)
			if !ok {
				continue
			}
			if id, ok := call.Fun.(*ast.Ident); ok && id.Name == "delete" && len(call.Args) == 2 {
				if kid, ok := call.Args[1].(*ast.Ident); ok && c.l.Key != nil && c.obj(kid) == c.l.Key {
					c.effect("keyed-delete(" + lastName(call.Args[0]) + ")")
					continue
				}
				c.effect("delete(" + lastName(call.Args[0]) + ")")
				c.problem(s.Pos(), "delete at an index other than the loop key")
				continue
			}
			if m, ok := c.a.joinHelperCall(c.info, call); ok {
				// a repository helper whose whole body is the slot-wise maximum join on its map parameter
				c.effect("join(" + lastName(m) + ")")
				continue
			}
			if ok, why := c.exprPure(call); ok {
				continue
			} else if c.inlineHelper(call, joinTarget) {
				continue
			} else {
				fn, _ := typeutil.Callee(c.info, call).(*types.Func)
				name := "dynamic"
				if fn != nil {
					name = fn.Name()
				}
				c.effect("call(" + name + ")")
				c.problem(s.Pos(), "statement has an effect whose order sensitivity is unknown: "+why)
			}
		case *ast.IfStmt:
			var prevStmt ast.Stmt
			if s.Init == nil && i > 0 {
				prevStmt = stmts[i-1]
			}
			// "if ok { A } else { B }" is read as "if !ok { B } else { A }"
			if id, isID := s.Cond.(*ast.Ident); isID {
				if eb, isBlk := s.Else.(*ast.BlockStmt); isBlk {
					s = &ast.IfStmt{If: s.If, Init: s.Init, Cond: &ast.UnaryExpr{OpPos: id.Pos(), Op: token.NOT, X: id}, Body: eb, Else: s.Body}
				}
			}
			if target, ok := c.joinIfAfter(s, prevStmt); ok {
				initStmt := s.Init
				if initStmt == nil {
					initStmt = prevStmt
				}
				c.effect("join(" + lastName(initStmt.(*ast.AssignStmt).Rhs[0]) + ")")
				// the branch for an absent key stores the first contribution into that slot; if it stores nothing the
				// slot stays absent and every later contribution takes the same branch: the key never gets a value
				storesSlot := false
				ast.Inspect(s.Body, func(n ast.Node) bool {
					if as, ok := n.(*ast.AssignStmt); ok {
						for _, l := range as.Lhs {
							if ix, ok := l.(*ast.IndexExpr); ok && exprKey(ix) == target {
								storesSlot = true
							}
						}
					}
					return true
				})
				if !storesSlot {
					c.problem(s.Pos(), "the branch of the slot-wise maximum taken for an absent key stores nothing into "+target+": that key never receives a value")
					c.l.Hard = true // not covered by a reviewed exception: the exception is about the order of the joins, not about a join that lost its first store
				}
				// the !ok branch: stores to the same slot (possibly under a further pure condition) and nothing else order-sensitive
				c.walk(s.Body.List, target)
				continue
			}
			if s.Init != nil {
				c.walk([]ast.Stmt{s.Init}, joinTarget)
			}
			if ok, why := c.exprPure(s.Cond); !ok {
				c.effect("call")
				c.problem(s.Cond.Pos(), "condition has an effect: "+why)
			}
			// find-by-key / exists forms are judged on the whole if statement
			if c.findByKey(s) {
				continue
			}
			c.walk(s.Body.List, joinTarget)
			switch e := s.Else.(type) {
			case *ast.BlockStmt:
				c.walk(e.List, joinTarget)
			case *ast.IfStmt:
				c.walk([]ast.Stmt{e}, joinTarget)
			}
		case *ast.SwitchStmt:
			if s.Init != nil {
				c.walk([]ast.Stmt{s.Init}, joinTarget)
			}
			if s.Tag != nil {
				if ok, why := c.exprPure(s.Tag); !ok {
					c.effect("call")
					c.problem(s.Tag.Pos(), "switch tag has an effect: "+why)
				}
			}
			for _, cc := range s.Body.List {
				cl := cc.(*ast.CaseClause)
				for _, e := range cl.List {
					if ok, why := c.exprPure(e); !ok {
						c.effect("call")
						c.problem(e.Pos(), "case expression has an effect: "+why)
					}
				}
				c.walk(cl.Body, joinTarget)
			}
		case *ast.BlockStmt:
			c.walk(s.List, joinTarget)
		case *ast.BranchStmt:
			switch s.Tok {
			case token.CONTINUE:
			case token.BREAK:
				c.effect("break")
				c.problem(s.Pos(), "break outside the find-by-key form")
			default:
				c.effect(s.Tok.String())
				c.problem(s.Pos(), "unsupported branch statement")
			}
		case *ast.ReturnStmt:
			if c.inline > 0 {
				// the end of a helper whose body is walked in the loop's context, not of the loop
				for _, res := range s.Results {
					if ok, why := c.exprPure(res); !ok {
						c.effect("call")
						c.problem(res.Pos(), "result of the helper has an effect: "+why)
					}
				}
				continue
			}
			// a return of loop-invariant, effect-free values under pure conditions is an exists-test:
			// whichever iteration triggers it, the caller sees the same thing
			inv := true
			for _, res := range s.Results {
				if c.loopVariant(res) {
					inv = false
				}
				if ok, _ := c.exprPure(res); !ok {
					inv = false
				}
			}
			if inv && !c.effectsBefore() {
				c.effect("exists-return")
			} else {
				c.effect("return")
				c.problem(s.Pos(), "return inside the loop after or with order-dependent effects/values")
			}
		case *ast.RangeStmt:
			c.nested(s, s.Body, s.X, s.Key, s.Value)
		case *ast.ForStmt:
			if s.Init != nil {
				c.walk([]ast.Stmt{s.Init}, joinTarget)
			}
			c.walk(s.Body.List, joinTarget)
			if s.Post != nil {
				c.walk([]ast.Stmt{s.Post}, joinTarget)
			}
		default:
			c.effect(fmt.Sprintf("stmt(%T)", st))
			c.problem(st.Pos(), fmt.Sprintf("unsupported statement %T", st))
		}
		_ = i
	}
}

// inlineHelper walks the body of an unexported helper of the package (function or method) that the loop body calls
// as a statement, in the loop's own context: the helper's parameters stand for the arguments of the call, its
// locals are locals of the body, its effects are the loop's effects. False when the callee is not such a helper.
func (c *bodyCtx) inlineHelper(call *ast.CallExpr, joinTarget string) bool {
	if c.inline >= 2 {
		return false
	}
	fn, _ := typeutil.Callee(c.info, call).(*types.Func)
	if fn == nil || fn.Pkg() == nil || fn.Pkg() != c.l.Pkg.Types || fn.Exported() {
		return false
	}
	if fn.Origin() != nil {
		fn = fn.Origin()
	}
	var decl *ast.FuncDecl
	for _, f := range c.l.Pkg.Syntax {
		for _, d := range f.Decls {
			if fd, ok := d.(*ast.FuncDecl); ok && fd.Body != nil && c.info.Defs[fd.Name] == fn {
				decl = fd
			}
		}
	}
	if decl == nil || decl == c.l.decl {
		return false
	}
	var params []*ast.Ident
	if decl.Recv != nil {
		for _, f := range decl.Recv.List {
			params = append(params, f.Names...)
		}
		if len(params) == 0 {
			params = append(params, nil)
		}
	}
	for _, f := range decl.Type.Params.List {
		if len(f.Names) == 0 {
			params = append(params, nil)
		}
		params = append(params, f.Names...)
	}
	args := call.Args
	if decl.Recv != nil {
		sel, ok := ast.Unparen(call.Fun).(*ast.SelectorExpr)
		if !ok {
			return false
		}
		args = append([]ast.Expr{sel.X}, call.Args...)
	}
	if len(params) != len(args) || call.Ellipsis.IsValid() || decl.Type.Params.NumFields() > 0 && func() bool {
		last := decl.Type.Params.List[len(decl.Type.Params.List)-1]
		_, variadic := last.Type.(*ast.Ellipsis)
		return variadic
	}() {
		return false
	}
	for _, a := range args {
		if ok, _ := c.exprPure(a); !ok {
			return false
		}
	}
	saved := c.alias
	na := map[types.Object]ast.Expr{}
	for k, v := range saved {
		na[k] = v
	}
	for i, prm := range params {
		if prm != nil && prm.Name != "_" {
			if o := c.info.Defs[prm]; o != nil {
				na[o] = args[i]
			}
		}
	}
	c.alias = na
	c.inline++
	c.walk(decl.Body.List, joinTarget)
	c.inline--
	c.alias = saved
	return true
}

// effectsBefore: has the body already recorded an order-sensitive effect (other than keyed/join forms)?
func (c *bodyCtx) effectsBefore() bool {
	for _, e := range c.l.Effects {
		if strings.HasPrefix(e, "collect(") || strings.HasPrefix(e, "assign(") || strings.HasPrefix(e, "field-") || strings.HasPrefix(e, "map-append(") ||
			strings.HasPrefix(e, "store(") || strings.HasPrefix(e, "call") {
			return true
		}
	}
	return false
}

// nested handles a loop inside the body: its range variables are locals; its effects are wrapped.
func (c *bodyCtx) nested(s ast.Stmt, body *ast.BlockStmt, x ast.Expr, key, val ast.Expr) {
	for _, e := range []ast.Expr{key, val} {
		if id, ok := e.(*ast.Ident); ok && id.Name != "_" {
			if o := c.info.Defs[id]; o != nil {
				c.locals[o] = true
			}
		}
	}
	if ok, why := c.exprPure(x); !ok {
		c.effect("call")
		c.problem(x.Pos(), "ranged expression has an effect: "+why)
	}
	save := c.l.Effects
	c.l.Effects = nil
	c.walk(desugarContinue(body.List), "")
	inner := c.l.Effects
	c.l.Effects = save
	if len(inner) > 0 {
		c.effect("nested[" + strings.Join(dedup(inner), ";") + "]")
	}
}

func dedup(in []string) []string {
	seen := map[string]bool{}
	var out []string
	for _, s := range in {
		if !seen[s] {
			seen[s] = true
			out = append(out, s)
		}
	}
	return out
}

// findByKey recognises `if key == inv { r = value; break }` (keys are unique: at most one iteration matches).
func (c *bodyCtx) findByKey(s *ast.IfStmt) bool {
	if c.l.Key == nil || s.Else != nil {
		return false
	}
	be, ok := s.Cond.(*ast.BinaryExpr)
	if !ok || be.Op != token.EQL {
		return false
	}
	isKey := func(e ast.Expr) bool {
		id, ok := ast.Unparen(e).(*ast.Ident)
		return ok && c.obj(id) == c.l.Key
	}
	var other ast.Expr
	switch {
	case isKey(be.X):
		other = be.Y
	case isKey(be.Y):
		other = be.X
	default:
		return false
	}
	if c.loopVariant(other) {
		return false
	}
	// body: assignments of effect-free values, then break
	n := len(s.Body.List)
	if n == 0 {
		return false
	}
	switch last := s.Body.List[n-1].(type) {
	case *ast.BranchStmt:
		if last.Tok != token.BREAK {
			return false
		}
	case *ast.ReturnStmt:
		// return of what belongs to the one matching key (keys are unique: whichever order, the same iteration returns)
		if c.effectsBefore() {
			return false
		}
		for _, res := range last.Results {
			if ok, _ := c.exprPure(res); !ok {
				return false
			}
		}
	default:
		return false
	}
	for _, st := range s.Body.List[:n-1] {
		as, ok := st.(*ast.AssignStmt)
		if !ok {
			return false
		}
		for _, r := range as.Rhs {
			if ok, _ := c.exprPure(r); !ok {
				return false
			}
		}
	}
	c.effect("find-by-key")
	return true
}

func (c *bodyCtx) assign(s *ast.AssignStmt, joinTarget string) {
	if s.Tok == token.DEFINE {
		for _, l := range s.Lhs {
			if id, ok := l.(*ast.Ident); ok {
				if o := c.info.Defs[id]; o != nil {
					c.locals[o] = true
				}
			}
		}
	}
	for _, r := range s.Rhs {
		if call, isCall := ast.Unparen(r).(*ast.CallExpr); isCall {
			if m, ok := c.a.joinHelperCall(c.info, call); ok {
				// isNew := mergeMax(m, k, v): the slot-wise maximum join, its result telling whether the key was absent
				c.effect("join(" + lastName(m) + ")")
				continue
			}
		}
		if ok, why := c.exprPure(r); !ok {
			c.effect("call")
			c.problem(r.Pos(), "right-hand side has an effect: "+why)
		}
	}
	for i, lhs := range s.Lhs {
		var rhs ast.Expr
		if len(s.Rhs) == len(s.Lhs) {
			rhs = s.Rhs[i]
		} else if len(s.Rhs) == 1 {
			rhs = s.Rhs[0]
		}
		switch l := lhs.(type) {
		case *ast.Ident:
			if l.Name == "_" {
				continue
			}
			o := c.obj(l)
			if c.locals[o] {
				continue
			}
			// outer variable
			if call, ok := rhs.(*ast.CallExpr); ok {
				if id, ok := call.Fun.(*ast.Ident); ok && id.Name == "append" && len(call.Args) >= 1 {
					if aid, ok := call.Args[0].(*ast.Ident); ok && c.obj(aid) == o {
						c.effect("collect(" + l.Name + ")")
						c.l.Collect = append(c.l.Collect, o)
						continue
					}
				}
			}
			if s.Tok != token.ASSIGN && s.Tok != token.DEFINE {
				c.effect("accumulate(" + l.Name + ")")
				continue
			}
			if rhs != nil && !c.loopVariant(rhs) {
				c.effect("assign-invariant(" + l.Name + ")")
				continue
			}
			if rhs != nil && c.selfJoin(o, rhs) {
				c.effect("accumulate(" + l.Name + ")")
				continue
			}
			c.effect("assign(" + l.Name + ")")
			c.problem(s.Pos(), "assignment of a loop-dependent value to the outer variable "+l.Name+" (last writer wins)")
		case *ast.IndexExpr:
			tv := c.info.Types[l.X]
			if !isMap(tv.Type) {
				// slice element store
				if id := rootIdent(l.X); id != nil && c.locals[c.obj(id)] {
					continue
				}
				c.effect("store(" + lastName(l.X) + "[])")
				c.problem(s.Pos(), "store into a slice element inside an order-source loop")
				continue
			}
			name := lastName(l.X)
			if id := rootIdent(l.X); id != nil && c.locals[c.obj(id)] {
				continue // a map created inside the body
			}
			if joinTarget != "" && exprKey(l) == joinTarget {
				continue // first store of a join
			}
			if rhs != nil && c.isMaxJoin(l, rhs) {
				c.effect("join(" + name + ")")
				continue
			}
			if kid, ok := ast.Unparen(l.Index).(*ast.Ident); ok && c.l.Key != nil && c.obj(kid) == c.l.Key {
				c.effect("keyed-store(" + name + ")")
				continue
			}
			if call, ok := rhs.(*ast.CallExpr); ok {
				if id, ok := call.Fun.(*ast.Ident); ok && id.Name == "append" && len(call.Args) >= 1 && exprKey(call.Args[0]) == exprKey(l) {
					c.effect("map-append(" + name + ")")
					c.problem(s.Pos(), "append to the list stored at "+exprKey(l)+": list order follows iteration order")
					continue
				}
			}
			if rhs != nil && !c.loopVariant(rhs) {
				c.effect("store-const(" + name + ")")
				if c.loopVariant(l.Index) && !c.inNest {
					// same constant at loop-dependent slots: order cannot matter
					continue
				}
				continue
			}
			c.effect("store(" + name + ")")
			c.problem(s.Pos(), "store at an index other than the loop key with a loop-dependent value")
		case *ast.SelectorExpr, *ast.StarExpr:
			id := rootIdent(l)
			if id != nil && c.locals[c.obj(id)] {
				// field of a body-local value; if that local is a pointer obtained from outside it still writes outside
				if !c.localIsFresh(c.obj(id)) {
					c.fieldStore(s, l, rhs)
				}
				continue
			}
			c.fieldStore(s, l, rhs)
		default:
			c.effect("store(?)")
			c.problem(s.Pos(), "unsupported assignment target")
		}
	}
}

// selfJoin: x = x || e, x = x && e, x = max(x, e), x = x + e ...
func (c *bodyCtx) selfJoin(o types.Object, rhs ast.Expr) bool {
	switch r := ast.Unparen(rhs).(type) {
	case *ast.BinaryExpr:
		switch r.Op {
		case token.LOR, token.LAND, token.ADD, token.OR, token.AND, token.MUL:
			for _, side := range []ast.Expr{r.X, r.Y} {
				if id, ok := ast.Unparen(side).(*ast.Ident); ok && c.obj(id) == o {
					return true
				}
			}
		}
	case *ast.CallExpr:
		if id, ok := r.Fun.(*ast.Ident); ok && (id.Name == "max" || id.Name == "min") {
			for _, a := range r.Args {
				if aid, ok := ast.Unparen(a).(*ast.Ident); ok && c.obj(aid) == o {
					return true
				}
			}
		}
	}
	return false
}

// localIsFresh: a body-local variable initialised by a composite literal / make / new.
func (c *bodyCtx) localIsFresh(o types.Object) bool {
	fresh := false
	ast.Inspect(c.l.Body, func(n ast.Node) bool {
		as, ok := n.(*ast.AssignStmt)
		if !ok || as.Tok != token.DEFINE || len(as.Lhs) != len(as.Rhs) {
			return true
		}
		for i, l := range as.Lhs {
			if id, ok := l.(*ast.Ident); ok && c.info.Defs[id] == o {
				switch r := ast.Unparen(as.Rhs[i]).(type) {
				case *ast.CompositeLit:
					fresh = true
				case *ast.UnaryExpr:
					if _, ok := r.X.(*ast.CompositeLit); ok && r.Op == token.AND {
						fresh = true
					}
				case *ast.CallExpr:
					if fid, ok := r.Fun.(*ast.Ident); ok && (fid.Name == "make" || fid.Name == "new") {
						fresh = true
					}
				}
			}
		}
		return true
	})
	return fresh
}

func (c *bodyCtx) fieldStore(s *ast.AssignStmt, l ast.Expr, rhs ast.Expr) {
	name := lastName(l)
	// target selected by the loop key or value (distinct per iteration), or invariant value
	targetKeyed := (c.l.Key != nil && c.mentions(l, c.l.Key)) || (c.l.Val != nil && c.mentions(l, c.l.Val))
	if call, ok := rhs.(*ast.CallExpr); ok {
		if id, ok := call.Fun.(*ast.Ident); ok && id.Name == "append" && len(call.Args) >= 1 && exprKey(call.Args[0]) == exprKey(l) {
			c.effect("field-append(" + name + ")")
			c.problem(s.Pos(), "append to field "+exprKey(l)+" inside an order-source loop")
			return
		}
	}
	if targetKeyed {
		c.effect("keyed-field-store(" + name + ")")
		return
	}
	if rhs != nil && !c.loopVariant(rhs) {
		c.effect("field-store-invariant(" + name + ")")
		return
	}
	c.effect("field-store(" + name + ")")
	c.problem(s.Pos(), "store of a loop-dependent value into "+exprKey(l)+" (last writer wins)")
}

// joinHelperCall: the call invokes a repository function whose body is exactly
//
//	if cur, ok := m[k]; !ok { m[k] = v } else { m[k] = max(cur | m[k], v) }
//
// over its parameters m (a map), k and v; returns the map argument of the call.
func (a *Analyzer) joinHelperCall(info *types.Info, call *ast.CallExpr) (ast.Expr, bool) {
	fn, _ := typeutil.Callee(info, call).(*types.Func)
	if fn == nil || !load.IsRepoPkg(fn.Pkg()) {
		return nil, false
	}
	if fn.Origin() != nil {
		fn = fn.Origin()
	}
	// m.raise(k, v) on a named map type is the same helper with the map as receiver
	args := call.Args
	if sel, isSel := ast.Unparen(call.Fun).(*ast.SelectorExpr); isSel && fn.Type().(*types.Signature).Recv() != nil {
		args = append([]ast.Expr{sel.X}, call.Args...)
	}
	if len(args) != 3 {
		return nil, false
	}
	sf := a.P.SSA.FuncValue(fn)
	if sf == nil || len(sf.Blocks) == 0 || len(sf.Params) != 3 || !isMap(sf.Params[0].Type()) {
		return nil, false
	}
	if !isJoinHelperSSA(sf) && !isJoinHelperPaths(sf) {
		return nil, false
	}
	return args[0], true
}

// isJoinHelperSSA: f(m, k, v) does nothing but m[k] = v when k is absent and m[k] = max(m[k], v) when it is
// present — whatever the statement shape (if/else, early return, inverted test). Repeated application in any
// order leaves m[k] = max of all v (commutative, associative, idempotent).
func isJoinHelperSSA(f *ssa.Function) bool {
	m, k, v := f.Params[0], f.Params[1], f.Params[2]
	var lookups []*ssa.Lookup
	updates := 0
	strip := func(x ssa.Value) ssa.Value {
		for {
			switch y := x.(type) {
			case *ssa.Convert:
				x = y.X
				continue
			case *ssa.ChangeType:
				x = y.X
				continue
			}
			return x
		}
	}
	isCur := func(x ssa.Value) bool {
		x = strip(x)
		if ex, ok := x.(*ssa.Extract); ok && ex.Index == 0 {
			if lk, ok := ex.Tuple.(*ssa.Lookup); ok && lk.X == ssa.Value(m) && lk.Index == ssa.Value(k) {
				return true
			}
		}
		if lk, ok := x.(*ssa.Lookup); ok && !lk.CommaOk && lk.X == ssa.Value(m) && lk.Index == ssa.Value(k) {
			return true
		}
		return false
	}
	isMaxOfCurAndV := func(x ssa.Value) bool {
		x = strip(x)
		c, ok := x.(*ssa.Call)
		if !ok || len(c.Common().Args) != 2 {
			return false
		}
		name := ""
		if b, isB := c.Common().Value.(*ssa.Builtin); isB {
			name = b.Name()
		} else if cal := c.Common().StaticCallee(); cal != nil && cal.Pkg != nil && cal.Pkg.Pkg.Path() == "math" {
			name = cal.Name()
		}
		if name != "max" && name != "Max" {
			return false
		}
		a0, a1 := c.Common().Args[0], c.Common().Args[1]
		return (isCur(a0) && strip(a1) == ssa.Value(v)) || (isCur(a1) && strip(a0) == ssa.Value(v))
	}
	// presence at a block: the dominating test of the comma-ok result
	present := func(b *ssa.BasicBlock) (bool, bool) {
		for cur := b; cur != nil && cur.Idom() != nil; cur = cur.Idom() {
			idom := cur.Idom()
			ifi, ok := idom.Instrs[len(idom.Instrs)-1].(*ssa.If)
			if !ok || len(cur.Preds) != 1 {
				continue
			}
			cond := ifi.Cond
			neg := false
			if u, isU := cond.(*ssa.UnOp); isU && u.Op == token.NOT {
				cond, neg = u.X, true
			}
			ex, isEx := cond.(*ssa.Extract)
			if !isEx || ex.Index != 1 {
				continue
			}
			if lk, isLk := ex.Tuple.(*ssa.Lookup); !isLk || lk.X != ssa.Value(m) || lk.Index != ssa.Value(k) {
				continue
			}
			branch := idom.Succs[0] == cur
			return branch != neg, true
		}
		return false, false
	}
	for _, b := range f.Blocks {
		for _, in := range b.Instrs {
			switch x := in.(type) {
			case *ssa.Lookup:
				if x.X != ssa.Value(m) || x.Index != ssa.Value(k) {
					return false
				}
				lookups = append(lookups, x)
			case *ssa.MapUpdate:
				if x.Map != ssa.Value(m) || x.Key != ssa.Value(k) {
					return false
				}
				updates++
				isPresent, known := present(b)
				switch {
				case !known:
					return false
				case !isPresent && strip(x.Value) == ssa.Value(v):
				case isPresent && isMaxOfCurAndV(x.Value):
				default:
					return false
				}
			case *ssa.Store, *ssa.Send, *ssa.Go, *ssa.Defer, *ssa.Panic:
				return false
			case *ssa.Return:
				// an optional result may only tell whether the key was present (a constant per branch, or the comma-ok flag)
				var presence func(r ssa.Value, depth int) bool
				presence = func(r ssa.Value, depth int) bool {
					switch y := r.(type) {
					case *ssa.Const:
						return y.Value != nil && y.Value.Kind() == constant.Bool
					case *ssa.UnOp:
						return y.Op == token.NOT && depth < 4 && presence(y.X, depth+1)
					case *ssa.Extract:
						lk, ok := y.Tuple.(*ssa.Lookup)
						return ok && y.Index == 1 && lk.X == ssa.Value(m) && lk.Index == ssa.Value(k)
					case *ssa.Phi:
						for _, e := range y.Edges {
							if depth > 4 || !presence(e, depth+1) {
								return false
							}
						}
						return true
					}
					return false
				}
				if len(x.Results) > 1 || (len(x.Results) == 1 && !presence(x.Results[0], 0)) {
					return false
				}
			case *ssa.Call:
				if _, isB := x.Common().Value.(*ssa.Builtin); isB {
					continue
				}
				if cal := x.Common().StaticCallee(); cal != nil && cal.Pkg != nil && cal.Pkg.Pkg.Path() == "math" {
					continue
				}
				return false
			}
		}
	}
	return updates >= 2 && len(lookups) >= 1
}

func (a *Analyzer) joinHelperCallAST(info *types.Info, call *ast.CallExpr) (ast.Expr, bool) {
	fn, _ := typeutil.Callee(info, call).(*types.Func)
	if fn == nil || !load.IsRepoPkg(fn.Pkg()) {
		return nil, false
	}
	pk := a.P.Pkgs[load.ShortPkg(fn.Pkg())]
	if pk == nil {
		return nil, false
	}
	var decl *ast.FuncDecl
	for _, f := range pk.Syntax {
		for _, d := range f.Decls {
			if fd, ok := d.(*ast.FuncDecl); ok && pk.TypesInfo.Defs[fd.Name] == fn {
				decl = fd
			}
		}
	}
	if decl == nil || decl.Body == nil || decl.Recv != nil || len(decl.Body.List) != 1 {
		return nil, false
	}
	hi := pk.TypesInfo
	var params []types.Object
	for _, f := range decl.Type.Params.List {
		for _, n := range f.Names {
			params = append(params, hi.Defs[n])
		}
	}
	if len(params) != 3 || len(call.Args) != 3 || !isMap(params[0].Type()) {
		return nil, false
	}
	isParam := func(e ast.Expr, i int) bool {
		id, ok := ast.Unparen(e).(*ast.Ident)
		return ok && hi.Uses[id] == params[i]
	}
	isSlot := func(e ast.Expr) bool {
		ix, ok := ast.Unparen(e).(*ast.IndexExpr)
		return ok && isParam(ix.X, 0) && isParam(ix.Index, 1)
	}
	ifs, ok := decl.Body.List[0].(*ast.IfStmt)
	if !ok || ifs.Else == nil {
		return nil, false
	}
	init, ok := ifs.Init.(*ast.AssignStmt)
	if !ok || len(init.Lhs) != 2 || len(init.Rhs) != 1 || !isSlot(init.Rhs[0]) {
		return nil, false
	}
	var cur types.Object
	if id, ok := init.Lhs[0].(*ast.Ident); ok && id.Name != "_" {
		cur = hi.Defs[id]
	}
	okID, isID := init.Lhs[1].(*ast.Ident)
	un, isNot := ifs.Cond.(*ast.UnaryExpr)
	if !isID || !isNot || un.Op != token.NOT {
		return nil, false
	}
	if cid, ok := un.X.(*ast.Ident); !ok || hi.Uses[cid] != hi.Defs[okID] {
		return nil, false
	}
	single := func(b *ast.BlockStmt) *ast.AssignStmt {
		if b == nil || len(b.List) != 1 {
			return nil
		}
		as, _ := b.List[0].(*ast.AssignStmt)
		if as == nil || len(as.Lhs) != 1 || len(as.Rhs) != 1 || !isSlot(as.Lhs[0]) {
			return nil
		}
		return as
	}
	first := single(ifs.Body)
	elseBlk, _ := ifs.Else.(*ast.BlockStmt)
	second := single(elseBlk)
	if first == nil || second == nil || !isParam(first.Rhs[0], 2) {
		return nil, false
	}
	// the else store: max over {current slot value, v}
	strip := func(e ast.Expr) ast.Expr {
		for {
			e = ast.Unparen(e)
			cv, ok := e.(*ast.CallExpr)
			if ok && len(cv.Args) == 1 {
				if tv, f := hi.Types[cv.Fun]; f && tv.IsType() {
					e = cv.Args[0]
					continue
				}
			}
			return e
		}
	}
	mx, ok := strip(second.Rhs[0]).(*ast.CallExpr)
	if !ok || len(mx.Args) != 2 {
		return nil, false
	}
	name := ""
	if id, ok := mx.Fun.(*ast.Ident); ok {
		name = id.Name
	} else if f, _ := typeutil.Callee(hi, mx).(*types.Func); f != nil && f.Pkg() != nil && f.Pkg().Path() == "math" {
		name = f.Name()
	}
	if name != "max" && name != "Max" {
		return nil, false
	}
	sawCur, sawV := false, false
	for _, arg := range mx.Args {
		e := strip(arg)
		if isSlot(e) {
			sawCur = true
		} else if id, ok := e.(*ast.Ident); ok && cur != nil && hi.Uses[id] == cur {
			sawCur = true
		} else if isParam(e, 2) {
			sawV = true
		}
	}
	if !sawCur || !sawV {
		return nil, false
	}
	return call.Args[0], true
}

// desugarContinue rewrites, in the statement list of a loop body, "if c { A; continue }; REST" into
// "if c { A } else { REST }" (the two are the same program); the classifier's idioms are stated on the if/else form.
func desugarContinue(stmts []ast.Stmt) []ast.Stmt {
	for i, st := range stmts {
		s, ok := st.(*ast.IfStmt)
		if !ok || s.Else != nil || len(s.Body.List) == 0 {
			continue
		}
		br, ok := s.Body.List[len(s.Body.List)-1].(*ast.BranchStmt)
		if !ok || br.Tok != token.CONTINUE || br.Label != nil {
			continue
		}
		rest := desugarContinue(stmts[i+1:])
		if len(rest) == 0 {
			continue
		}
		out := append([]ast.Stmt{}, stmts[:i]...)
		out = append(out, &ast.IfStmt{If: s.If, Init: s.Init, Cond: s.Cond,
			Body: &ast.BlockStmt{Lbrace: s.Body.Lbrace, List: s.Body.List[:len(s.Body.List)-1], Rbrace: s.Body.Rbrace},
			Else: &ast.BlockStmt{Lbrace: rest[0].Pos(), List: rest, Rbrace: rest[len(rest)-1].End()}})
		return out
	}
	return stmts
}
