package e3order

import (
	"fmt"
	"go/ast"
	"go/token"
	"go/types"
	"golang.org/x/tools/go/packages"
	"regexp"
	"sort"
	"strings"

	"golang.org/x/tools/go/types/typeutil"

	"verif/sa/internal/load"
)

// Classify analyses every collected loop and emits one record per loop under rule.
func (a *Analyzer) Classify(rule string) {
	for _, l := range a.Loops {
		c := &bodyCtx{a: a, l: l, info: l.Pkg.TypesInfo, locals: map[types.Object]bool{}}
		// the loop's own variables (for k, v := range …) are per-iteration: adjusting one is not an accumulation
		if rs, ok := ast.Node(l.Stmt).(*ast.RangeStmt); ok && rs.Tok == token.DEFINE {
			if l.Key != nil {
				c.locals[l.Key] = true
			}
			if l.Val != nil {
				c.locals[l.Val] = true
			}
		}
		c.walk(desugarContinue(l.Body.List), "")
		l.Effects = dedup(l.Effects)
		a.loopCarriedReads(c)
		// collected slices: what happens to them after the loop decides
		for _, o := range uniqObjs(l.Collect) {
			form, why := a.postUse(l, o)
			switch form {
			case "S":
				replace(l, "collect("+o.Name()+")", "collect-then-sort("+o.Name()+")")
			case "M":
				replace(l, "collect("+o.Name()+")", "collect-then-membership("+o.Name()+")")
			default:
				l.Problem = append(l.Problem, "slice "+o.Name()+" collected in iteration order: "+why)
			}
		}
		sort.Strings(l.Effects) // canonical: the signature does not depend on statement order
		sig := strings.Join(l.Effects, ";")
		construct := fmt.Sprintf("%s-loop:%s:%s", l.Kind, l.FnName, l.Ranged)
		pos := a.pos(l.Stmt.Pos())
		if len(l.Problem) == 0 {
			by := "forms"
			if sig == "" {
				by = "no-effect"
			}
			a.R.OK(rule, construct, pos, by, "effects: "+sigOrNone(sig))
			continue
		}
		if ex := matchException(l, sig); ex != nil && !l.Hard {
			a.R.OK(rule, construct, pos, "reviewed-exception", "effects: "+sig+" — "+ex.Reason)
			continue
		}
		a.R.Bad(rule, construct, pos, "loop over an unordered source is not provably order-insensitive; effects: "+sigOrNone(sig)+"; "+strings.Join(l.Problem, "; "))
	}
}

func sigOrNone(s string) string {
	if s == "" {
		return "none"
	}
	return s
}

func replace(l *Loop, from, to string) {
	for i, e := range l.Effects {
		if e == from {
			l.Effects[i] = to
		}
		if strings.Contains(e, "nested[") {
			l.Effects[i] = strings.ReplaceAll(l.Effects[i], from, to)
		}
	}
}

func uniqObjs(in []types.Object) []types.Object {
	seen := map[types.Object]bool{}
	var out []types.Object
	for _, o := range in {
		if !seen[o] {
			seen[o] = true
			out = append(out, o)
		}
	}
	return out
}

var effectNameRe = regexp.MustCompile(`\(([^()\[\];]*)\)`)

// effectKinds drops the target names from an effect signature: "join(edgeWeights);map-append(deps)" → "join();map-append()".
func effectKinds(sig string) string {
	parts := strings.Split(effectNameRe.ReplaceAllString(sig, "()"), ";")
	sort.Strings(parts)
	return strings.Join(parts, ";")
}

// shapeOfRanged: the selector path of a ranged expression without its root ("edge.to.weights" → ".to.weights";
// a typed shape "(*T).to.weights" keeps the type).
func shapeOfRanged(r string) string {
	if strings.HasPrefix(r, "(") {
		return r
	}
	if i := strings.Index(r, "."); i >= 0 {
		return r[i:]
	}
	return r
}

func matchException(l *Loop, sig string) *Exception {
	for i := range Exceptions {
		e := &Exceptions[i]
		// the reviewed fact is about one loop of one function: keyed by the function, the shape of what is ranged (the
		// variable replaced by its type, so that renaming it changes nothing) and the kinds of effects (targets named
		// in the signature are for the reader: a renamed field is the same effect, a new kind of effect is not)
		if e.Func != "" && e.Func == l.FnName && (e.Ranged == l.Ranged || shapeOfRanged(e.Ranged) == shapeOfRanged(l.RangedShape)) && effectKinds(e.Effects) == effectKinds(sig) {
			return e
		}
		if e.Func == "" && e.FuncPrefix != "" && strings.HasPrefix(l.FnName, e.FuncPrefix) && regexp.MustCompile(e.RangedRe).MatchString(l.Ranged) {
			okAll := sig != ""
			for _, eff := range strings.Split(sig, ";") {
				found := false
				for _, al := range e.EffectsAllowed {
					if eff == al {
						found = true
					}
				}
				if !found {
					okAll = false
				}
			}
			if okAll {
				return e
			}
		}
	}
	return nil
}

// enclosing returns the chain of statement lists from the function body down to the list that
// directly contains target, with the index of the containing statement in each list.
type frame struct {
	list []ast.Stmt
	idx  int
	loop bool // the containing statement at idx is a loop
}

func pathTo(body *ast.BlockStmt, target ast.Stmt) []frame {
	var path []frame
	var find func(list []ast.Stmt) bool
	contains := func(s ast.Stmt) bool { return s.Pos() <= target.Pos() && target.End() <= s.End() }
	find = func(list []ast.Stmt) bool {
		for i, s := range list {
			if !contains(s) {
				continue
			}
			isLoop := false
			switch s.(type) {
			case *ast.RangeStmt, *ast.ForStmt:
				isLoop = s != target
			}
			path = append(path, frame{list: list, idx: i, loop: isLoop})
			if s == target {
				return true
			}
			ok := false
			switch x := s.(type) {
			case *ast.BlockStmt:
				ok = find(x.List)
			case *ast.IfStmt:
				ok = find(x.Body.List)
				if !ok && x.Else != nil {
					ok = find([]ast.Stmt{x.Else})
				}
			case *ast.ForStmt:
				ok = find(x.Body.List)
			case *ast.RangeStmt:
				ok = find(x.Body.List)
			case *ast.SwitchStmt:
				for _, cc := range x.Body.List {
					if find(cc.(*ast.CaseClause).Body) {
						ok = true
						break
					}
				}
			case *ast.TypeSwitchStmt:
				for _, cc := range x.Body.List {
					if find(cc.(*ast.CaseClause).Body) {
						ok = true
						break
					}
				}
			case *ast.LabeledStmt:
				ok = find([]ast.Stmt{x.Stmt})
			}
			if ok {
				return true
			}
			path = path[:len(path)-1]
		}
		return false
	}
	if find(body.List) {
		return path
	}
	return nil
}

func funcBody(n ast.Node) *ast.BlockStmt {
	switch d := n.(type) {
	case *ast.FuncDecl:
		return d.Body
	case *ast.FuncLit:
		return d.Body
	}
	return nil
}

// sortCall: is the call a canonicalising sort of obj with an accepted comparator?
func (a *Analyzer) sortCall(info *types.Info, call *ast.CallExpr, obj types.Object) (bool, string) {
	fn, _ := typeutil.Callee(info, call).(*types.Func)
	if fn == nil || fn.Pkg() == nil || len(call.Args) == 0 {
		return false, ""
	}
	id, ok := ast.Unparen(call.Args[0]).(*ast.Ident)
	if !ok || objOf(info, id) != obj {
		return false, ""
	}
	switch fn.Pkg().Path() + "." + fn.Name() {
	case "sort.Strings", "sort.Ints", "slices.Sort":
		return true, ""
	case "slices.SortFunc", "slices.SortStableFunc", "sort.Slice", "sort.SliceStable":
		if len(call.Args) < 2 {
			return false, "no comparator"
		}
		ok, why := a.comparatorTotal(info, call.Args[1])
		if !ok {
			return false, "comparator is not provably total on the collected elements: " + why
		}
		return true, ""
	}
	return false, ""
}

// postUse decides the fate of a slice collected in iteration order: "S" (sorted before any other
// use), "M" (only membership / length uses), or "" with a reason.
func (a *Analyzer) postUse(l *Loop, obj types.Object) (string, string) {
	info := l.Pkg.TypesInfo
	body := funcBody(l.decl)
	path := pathTo(body, l.Stmt)
	if path == nil {
		return "", "loop not found in its function"
	}
	// collect all uses of obj outside the loop statement itself
	type use struct {
		id   *ast.Ident
		kind string
	}
	allM := true
	why := ""
	anyUse := false
	var parents []ast.Node
	ast.Inspect(body, func(n ast.Node) bool {
		if n == nil {
			parents = parents[:len(parents)-1]
			return false
		}
		parents = append(parents, n)
		id, ok := n.(*ast.Ident)
		if !ok || objOf(info, id) != obj {
			return true
		}
		if id.Pos() >= l.Stmt.Pos() && id.End() <= l.Stmt.End() {
			return true // inside the loop
		}
		if info.Defs[id] == obj {
			return true // declaration
		}
		anyUse = true
		// classify the use by its parent
		if len(parents) >= 2 {
			switch p := parents[len(parents)-2].(type) {
			case *ast.CallExpr:
				if fid, ok := p.Fun.(*ast.Ident); ok && (fid.Name == "len" || fid.Name == "cap") {
					return true
				}
				fn, _ := typeutil.Callee(info, p).(*types.Func)
				if fn != nil && fn.Pkg() != nil && fn.Pkg().Path() == "slices" && (fn.Name() == "Contains" || fn.Name() == "ContainsFunc") && len(p.Args) > 0 && p.Args[0] == ast.Expr(id) {
					return true
				}
				// a repository callee whose parameter is only used for len()
				if fn != nil && load.IsRepoPkg(fn.Pkg()) {
					for ai, arg := range p.Args {
						if arg == ast.Expr(id) && a.paramOnlyLen(fn, ai) {
							return true
						}
					}
				}
			case *ast.AssignStmt:
				// x := make(...) / x := []T{} before the loop (re-initialisation) is not a use of the content
				for _, lhs := range p.Lhs {
					if lhs == ast.Expr(id) {
						if id.Pos() < l.Stmt.Pos() {
							return true
						}
					}
				}
			case *ast.ValueSpec:
				return true
			}
		}
		if id.Pos() < l.Stmt.Pos() && !inEnclosingLoop(path) {
			return true // a use before the loop in straight-line code cannot see the collected content
		}
		allM = false
		if why == "" {
			why = "used at " + a.pos(id.Pos())
		}
		return true
	})
	if !anyUse {
		return "M", ""
	}
	if allM {
		return "M", ""
	}
	// S: walking outwards, the statements that follow the loop must sort obj before anything else mentions it
	a.lastSortWhy = ""
	for depth := len(path) - 1; depth >= 0; depth-- {
		fr := path[depth]
		for _, st := range fr.list[fr.idx+1:] {
			switch a.firstMention(info, st, obj) {
			case "sorted":
				if inEnclosingLoop(path[:depth+1]) && !declaredInside(info, path[:depth+1], obj) {
					return "", "sorted after the loop, but the slice lives across iterations of an enclosing loop"
				}
				if w := a.laterUnstableSort(info, body, l.Stmt.End(), obj); w != "" {
					return "", w
				}
				return "S", ""
			case "bad":
				w := ""
				if a.lastSortWhy != "" {
					w = ": " + a.lastSortWhy
				}
				return "", "the first use after the loop (" + a.pos(st.Pos()) + ") is not a canonicalising sort" + w
			}
		}
		if fr.loop {
			return "", "no sort follows the loop inside the enclosing loop body"
		}
	}
	return "", "no canonicalising sort follows the loop; " + why
}

func inEnclosingLoop(path []frame) bool {
	for _, f := range path {
		if f.loop {
			return true
		}
	}
	return false
}

// declaredInside: is obj declared inside the innermost enclosing loop on the path?
func declaredInside(info *types.Info, path []frame, obj types.Object) bool {
	for i := len(path) - 1; i >= 0; i-- {
		if path[i].loop {
			st := path[i].list[path[i].idx]
			return obj.Pos() >= st.Pos() && obj.Pos() <= st.End()
		}
	}
	return false
}

// firstMention inspects one statement: "none" if it does not mention obj, "sorted" if its first
// action on obj on every path is a canonicalising sort, "bad" otherwise.
func (a *Analyzer) firstMention(info *types.Info, st ast.Stmt, obj types.Object) string {
	mentions := false
	ast.Inspect(st, func(n ast.Node) bool {
		if id, ok := n.(*ast.Ident); ok && objOf(info, id) == obj {
			mentions = true
		}
		return !mentions
	})
	if !mentions {
		return "none"
	}
	switch s := st.(type) {
	case *ast.ExprStmt:
		if call, ok := s.X.(*ast.CallExpr); ok {
			ok, why := a.sortCall(info, call, obj)
			if ok {
				return "sorted"
			}
			a.lastSortWhy = why
		}
		return "bad"
	case *ast.IfStmt:
		if s.Init != nil && a.firstMention(info, s.Init, obj) != "none" {
			return "bad"
		}
		condMentions := false
		ast.Inspect(s.Cond, func(n ast.Node) bool {
			if id, ok := n.(*ast.Ident); ok && objOf(info, id) == obj {
				condMentions = true
			}
			return true
		})
		if condMentions {
			return "bad"
		}
		thenR := a.firstInList(info, s.Body.List, obj)
		elseR := "none"
		switch e := s.Else.(type) {
		case *ast.BlockStmt:
			elseR = a.firstInList(info, e.List, obj)
		case *ast.IfStmt:
			elseR = a.firstMention(info, e, obj)
		}
		if thenR == "sorted" && elseR == "sorted" {
			return "sorted"
		}
		// `if c { sort(x); …; return … }` without else: that path is settled, the other path goes on below
		if thenR == "sorted" && s.Else == nil && len(s.Body.List) > 0 {
			if _, isRet := s.Body.List[len(s.Body.List)-1].(*ast.ReturnStmt); isRet {
				return "none"
			}
		}
		if thenR == "none" && elseR == "none" {
			return "none"
		}
		return "bad"
	case *ast.BlockStmt:
		return a.firstInList(info, s.List, obj)
	case *ast.ReturnStmt:
		// return keys — from an unexported helper every caller of which sorts the result before anything else
		if len(s.Results) == 1 {
			if id, ok := ast.Unparen(s.Results[0]).(*ast.Ident); ok && objOf(info, id) == obj && a.callersSortResult(info, s) {
				return "sorted"
			}
		}
	}
	return "bad"
}

// callersSortResult: the return statement belongs to an unexported function of the repository whose every call is
// the right-hand side of `x := f(…)` / `x = f(…)` followed, before any other use of x, by a canonicalising sort of x.
func (a *Analyzer) callersSortResult(info *types.Info, ret *ast.ReturnStmt) bool {
	if a.P == nil || a.sortDepth > 1 {
		return false
	}
	var pk *packages.Package
	for _, cand := range a.P.Pkgs {
		if cand.TypesInfo == info {
			pk = cand
		}
	}
	if pk == nil {
		return false
	}
	var decl *ast.FuncDecl
	for _, f := range pk.Syntax {
		for _, d := range f.Decls {
			if fd, ok := d.(*ast.FuncDecl); ok && fd.Body != nil && fd.Pos() <= ret.Pos() && ret.End() <= fd.End() {
				decl = fd
			}
		}
	}
	if decl == nil || decl.Name.IsExported() {
		return false
	}
	fn, _ := info.Defs[decl.Name].(*types.Func)
	if fn == nil {
		return false
	}
	calls, okAll := 0, true
	for _, f := range pk.Syntax {
		for _, d := range f.Decls {
			caller, ok := d.(*ast.FuncDecl)
			if !ok || caller.Body == nil {
				continue
			}
			var stack []ast.Node
			ast.Inspect(caller.Body, func(n ast.Node) bool {
				if n == nil {
					stack = stack[:len(stack)-1]
					return false
				}
				stack = append(stack, n)
				call, isCall := n.(*ast.CallExpr)
				if !isCall {
					return true
				}
				cf, _ := typeutil.Callee(info, call).(*types.Func)
				if cf != nil && cf.Origin() != nil {
					cf = cf.Origin()
				}
				if cf != fn {
					return true
				}
				calls++
				// the call must be the whole right-hand side of an assignment to one variable
				if len(stack) < 2 {
					okAll = false
					return true
				}
				as, isAs := stack[len(stack)-2].(*ast.AssignStmt)
				if !isAs || len(as.Lhs) != 1 || len(as.Rhs) != 1 || as.Rhs[0] != ast.Expr(call) {
					okAll = false
					return true
				}
				lid, isID := as.Lhs[0].(*ast.Ident)
				if !isID {
					okAll = false
					return true
				}
				a.sortDepth++
				form, _ := a.postUse(&Loop{Pkg: pk, decl: caller, Stmt: as}, objOf(info, lid))
				a.sortDepth--
				if form != "S" && form != "M" {
					okAll = false
				}
				return true
			})
		}
	}
	return calls > 0 && okAll
}

func (a *Analyzer) firstInList(info *types.Info, list []ast.Stmt, obj types.Object) string {
	for _, st := range list {
		if r := a.firstMention(info, st, obj); r != "none" {
			return r
		}
	}
	return "none"
}

// paramOnlyLen: parameter i of fn is used only as the operand of len().
func (a *Analyzer) paramOnlyLen(fn *types.Func, i int) bool {
	if a.P == nil {
		return false
	}
	short := load.ShortPkg(fn.Pkg())
	pk := a.P.Pkgs[short]
	if pk == nil {
		return false
	}
	var decl *ast.FuncDecl
	for _, f := range pk.Syntax {
		for _, d := range f.Decls {
			if fd, ok := d.(*ast.FuncDecl); ok && pk.TypesInfo.Defs[fd.Name] == fn {
				decl = fd
			}
		}
	}
	if decl == nil || decl.Body == nil {
		return false
	}
	sig := fn.Type().(*types.Signature)
	if i >= sig.Params().Len() {
		return false
	}
	param := sig.Params().At(i)
	ok := true
	var parents []ast.Node
	ast.Inspect(decl.Body, func(n ast.Node) bool {
		if n == nil {
			parents = parents[:len(parents)-1]
			return false
		}
		parents = append(parents, n)
		id, isID := n.(*ast.Ident)
		if !isID || pk.TypesInfo.Uses[id] != param {
			return true
		}
		if len(parents) >= 2 {
			if call, isCall := parents[len(parents)-2].(*ast.CallExpr); isCall {
				if fid, isF := call.Fun.(*ast.Ident); isF && fid.Name == "len" {
					return true
				}
			}
		}
		ok = false
		return true
	})
	return ok
}

// identity-like projections accepted in comparators, with the reason why equal projections mean
// equal elements for the purposes of the property.
var projections = map[string]string{
	"":        "the element itself",
	"ID":      "gonum ids are unique per graph (nodes) and per multigraph (lines)",
	"GetType": "type names identify type definitions; a model with two definitions of one name is outside every property's domain",
}

// comparatorTotal accepts comparators every zero-returning path of which compares the elements
// themselves (or an identity-like projection of them) as a last resort.
func (a *Analyzer) comparatorTotal(info *types.Info, e ast.Expr) (bool, string) {
	// the library's own three-way comparisons are total on their operand type
	if fn, _ := calleeOfValue(info, ast.Unparen(e)).(*types.Func); fn != nil && fn.Pkg() != nil {
		switch fn.Pkg().Path() + "." + fn.Name() {
		case "strings.Compare", "cmp.Compare", "bytes.Compare":
			return true, ""
		}
	}
	// a comparator handed in as a parameter of an unexported helper: every caller's argument must be total
	if id, isID := ast.Unparen(e).(*ast.Ident); isID && a.cmpDepth < 2 {
		if ok, why, decided := a.parameterComparator(info, id); decided {
			return ok, why
		}
	}
	fl, ok := ast.Unparen(e).(*ast.FuncLit)
	if !ok {
		// a named comparator: a local variable holding one function literal, or a function of the repository
		if id, isID := ast.Unparen(e).(*ast.Ident); isID {
			if lit, litInfo := a.namedComparator(info, id); lit != nil {
				fl, info, ok = lit, litInfo, true
			}
		}
	}
	if !ok {
		return false, "comparator is not a function literal"
	}
	if fl.Type.Params == nil {
		return false, "no parameters"
	}
	var params []types.Object
	for _, f := range fl.Type.Params.List {
		for _, n := range f.Names {
			params = append(params, info.Defs[n])
		}
	}
	if len(params) != 2 {
		return false, "comparator does not take two elements"
	}
	return a.comparatorPaths(info, fl, params)
}

// calleeOfValue: the function a function-valued expression denotes (strings.Compare, cmp.Compare[string], f).
func calleeOfValue(info *types.Info, e ast.Expr) types.Object {
	switch x := e.(type) {
	case *ast.Ident:
		return info.Uses[x]
	case *ast.SelectorExpr:
		return info.Uses[x.Sel]
	case *ast.IndexExpr:
		return calleeOfValue(info, ast.Unparen(x.X))
	case *ast.IndexListExpr:
		return calleeOfValue(info, ast.Unparen(x.X))
	}
	return nil
}

// parameterComparator: id is a parameter of an unexported repository function: the comparator is total when the
// argument of every call of that function is. decided is false when id is not such a parameter.
func (a *Analyzer) parameterComparator(info *types.Info, id *ast.Ident) (bool, string, bool) {
	v, isVar := objOf(info, id).(*types.Var)
	if !isVar || a.P == nil {
		return false, "", false
	}
	var pk *packages.Package
	for _, cand := range a.P.Pkgs {
		if cand.TypesInfo == info {
			pk = cand
		}
	}
	if pk == nil {
		return false, "", false
	}
	var decl *ast.FuncDecl
	idx := -1
	for _, f := range pk.Syntax {
		for _, d := range f.Decls {
			fd, ok := d.(*ast.FuncDecl)
			if !ok || fd.Body == nil || fd.Type.Params == nil {
				continue
			}
			k := 0
			for _, fld := range fd.Type.Params.List {
				for _, n := range fld.Names {
					if info.Defs[n] == types.Object(v) {
						decl, idx = fd, k
					}
					k++
				}
			}
		}
	}
	if decl == nil || decl.Name.IsExported() || decl.Recv != nil {
		return false, "", false
	}
	fn, _ := info.Defs[decl.Name].(*types.Func)
	calls := 0
	for _, f := range pk.Syntax {
		bad := ""
		ast.Inspect(f, func(n ast.Node) bool {
			call, isCall := n.(*ast.CallExpr)
			if !isCall || bad != "" {
				return bad == ""
			}
			cf, _ := typeutil.Callee(info, call).(*types.Func)
			if cf != nil && cf.Origin() != nil {
				cf = cf.Origin()
			}
			if cf != fn || idx >= len(call.Args) {
				return true
			}
			calls++
			a.cmpDepth++
			ok, why := a.comparatorTotal(info, call.Args[idx])
			a.cmpDepth--
			if !ok {
				bad = "the comparator passed at " + a.pos(call.Pos()) + " is not provably total: " + why
			}
			return true
		})
		if bad != "" {
			return false, bad, true
		}
	}
	if calls == 0 {
		return false, "the helper that receives the comparator is never called", true
	}
	return true, "", true
}

// namedComparator resolves an identifier used as a comparator to the function literal it stands for: the one
// literal a local variable is initialised with (and never re-assigned), or the body of a repository function.
func (a *Analyzer) namedComparator(info *types.Info, id *ast.Ident) (*ast.FuncLit, *types.Info) {
	obj := objOf(info, id)
	if obj == nil || obj.Pkg() == nil || !load.IsRepoPkg(obj.Pkg()) {
		return nil, nil
	}
	pk := a.P.Pkgs[load.ShortPkg(obj.Pkg())]
	if pk == nil {
		return nil, nil
	}
	pinfo := pk.TypesInfo
	switch o := obj.(type) {
	case *types.Func:
		for _, f := range pk.Syntax {
			for _, d := range f.Decls {
				if fd, ok := d.(*ast.FuncDecl); ok && fd.Body != nil && fd.Recv == nil && pinfo.Defs[fd.Name] == o {
					return &ast.FuncLit{Type: fd.Type, Body: fd.Body}, pinfo
				}
			}
		}
	case *types.Var:
		var lit *ast.FuncLit
		writes := 0
		for _, f := range pk.Syntax {
			if f.Pos() > o.Pos() || o.Pos() > f.End() {
				continue
			}
			ast.Inspect(f, func(n ast.Node) bool {
				switch s := n.(type) {
				case *ast.AssignStmt:
					for i, l := range s.Lhs {
						lid, ok := l.(*ast.Ident)
						if !ok || objOf(pinfo, lid) != obj {
							continue
						}
						writes++
						if len(s.Rhs) == len(s.Lhs) {
							lit, _ = ast.Unparen(s.Rhs[i]).(*ast.FuncLit)
						}
					}
				case *ast.ValueSpec:
					for i, n := range s.Names {
						if pinfo.Defs[n] == obj {
							writes++
							if i < len(s.Values) {
								lit, _ = ast.Unparen(s.Values[i]).(*ast.FuncLit)
							}
						}
					}
				case *ast.UnaryExpr:
					if s.Op == token.AND {
						if lid, ok := ast.Unparen(s.X).(*ast.Ident); ok && objOf(pinfo, lid) == obj {
							writes += 2 // address taken: may be re-assigned elsewhere
						}
					}
				}
				return true
			})
		}
		if writes == 1 && lit != nil {
			return lit, pinfo
		}
	}
	return nil, nil
}

func isCompare(info *types.Info, c *ast.CallExpr) bool {
	fn, _ := typeutil.Callee(info, c).(*types.Func)
	return fn != nil && fn.Pkg() != nil && len(c.Args) == 2 && ((fn.Pkg().Path() == "cmp" && fn.Name() == "Compare") || (fn.Pkg().Path() == "strings" && fn.Name() == "Compare"))
}

// guardedNE: rs is a statement of the body of `if X != Y` (possibly an else-if chain member) and the
// comparison compares exactly X and Y.
func guardedNE(root ast.Node, rs *ast.ReturnStmt, c *ast.CallExpr) bool {
	x, y := types.ExprString(ast.Unparen(c.Args[0])), types.ExprString(ast.Unparen(c.Args[1]))
	found := false
	ast.Inspect(root, func(n ast.Node) bool {
		is, ok := n.(*ast.IfStmt)
		if !ok {
			return true
		}
		be, ok := is.Cond.(*ast.BinaryExpr)
		if !ok || be.Op != token.NEQ {
			return true
		}
		l, r := types.ExprString(ast.Unparen(be.X)), types.ExprString(ast.Unparen(be.Y))
		if !((l == x && r == y) || (l == y && r == x)) {
			return true
		}
		for _, st := range is.Body.List {
			if st == ast.Stmt(rs) {
				found = true
			}
		}
		return true
	})
	return found
}

// projOf: e is p, p.M() or p.GetX() for parameter p; returns the parameter index and projection name.
func projOf(info *types.Info, e ast.Expr, params []types.Object) (int, string, bool) {
	e = ast.Unparen(e)
	if id, ok := e.(*ast.Ident); ok {
		for i, p := range params {
			if objOf(info, id) == p {
				return i, "", true
			}
		}
		return 0, "", false
	}
	if call, ok := e.(*ast.CallExpr); ok && len(call.Args) == 0 {
		if sel, ok := call.Fun.(*ast.SelectorExpr); ok {
			if id, ok := ast.Unparen(sel.X).(*ast.Ident); ok {
				for i, p := range params {
					if objOf(info, id) == p {
						return i, sel.Sel.Name, true
					}
				}
			}
		}
	}
	return 0, "", false
}

func (a *Analyzer) totalExpr(info *types.Info, e ast.Expr, params []types.Object, depth int) (bool, string) {
	e = ast.Unparen(e)
	if tv, ok := info.Types[e]; ok && tv.Value != nil {
		if tv.Value.String() == "0" {
			return false, "returns the constant 0"
		}
		return true, ""
	}
	if u, ok := e.(*ast.UnaryExpr); ok && u.Op == token.SUB {
		return a.totalExpr(info, u.X, params, depth)
	}
	call, ok := e.(*ast.CallExpr)
	if !ok {
		return false, "unsupported comparator result " + types.ExprString(e)
	}
	fn, _ := typeutil.Callee(info, call).(*types.Func)
	if fn == nil {
		return false, "dynamic call in comparator"
	}
	full := ""
	if fn.Pkg() != nil {
		full = fn.Pkg().Path() + "." + fn.Name()
	}
	if (full == "cmp.Compare" || full == "strings.Compare") && len(call.Args) == 2 {
		i, pi, ok1 := projOf(info, call.Args[0], params)
		j, pj, ok2 := projOf(info, call.Args[1], params)
		if ok1 && ok2 && i != j && pi == pj {
			if _, accepted := projections[pi]; accepted {
				return true, ""
			}
			return false, "compares the projection " + pi + "(), which is not known to identify elements"
		}
		return false, "compares something other than the two elements: " + types.ExprString(e)
	}
	// a repository comparator helper: inline one level, binding its parameters that receive the
	// elements (or accepted projections of them)
	if load.IsRepoPkg(fn.Pkg()) && depth < 2 {
		return a.helperTotal(info, fn, call, params)
	}
	return false, "unsupported comparator expression " + types.ExprString(e)
}

// helperTotal handles sortByModule(aName, bName, ...): the helper's zero-returning paths must end in
// cmp.Compare on the two parameters bound to the elements themselves.
func (a *Analyzer) helperTotal(info *types.Info, fn *types.Func, call *ast.CallExpr, params []types.Object) (bool, string) {
	short := load.ShortPkg(fn.Pkg())
	pk := a.P.Pkgs[short]
	var decl *ast.FuncDecl
	for _, f := range pk.Syntax {
		for _, d := range f.Decls {
			if fd, ok := d.(*ast.FuncDecl); ok && pk.TypesInfo.Defs[fd.Name] == fn {
				decl = fd
			}
		}
	}
	if decl == nil || decl.Body == nil {
		return false, "comparator helper has no body"
	}
	sig := fn.Type().(*types.Signature)
	// which helper parameters are bound to element a / element b (identity-like)?
	var ha, hb types.Object
	for k, arg := range call.Args {
		if k >= sig.Params().Len() {
			break
		}
		if i, proj, ok := projOf(info, arg, params); ok {
			if _, accepted := projections[proj]; accepted {
				if i == 0 && ha == nil {
					ha = sig.Params().At(k)
				} else if i == 1 && hb == nil {
					hb = sig.Params().At(k)
				}
			}
		}
	}
	if ha == nil || hb == nil {
		return false, "the elements themselves are not passed to the comparator helper " + fn.Name()
	}
	okAll, why := true, ""
	hinfo := pk.TypesInfo
	ast.Inspect(decl.Body, func(n ast.Node) bool {
		rs, isRet := n.(*ast.ReturnStmt)
		if !isRet || len(rs.Results) != 1 {
			return true
		}
		e := ast.Unparen(rs.Results[0])
		if tv, ok := hinfo.Types[e]; ok && tv.Value != nil {
			if tv.Value.String() == "0" {
				okAll, why = false, fn.Name()+" returns the constant 0"
			}
			return true
		}
		c, ok := e.(*ast.CallExpr)
		if !ok {
			okAll, why = false, "unsupported result in "+fn.Name()
			return true
		}
		cf, _ := typeutil.Callee(hinfo, c).(*types.Func)
		if cf == nil || cf.Pkg() == nil || cf.Pkg().Path() != "cmp" || cf.Name() != "Compare" || len(c.Args) != 2 {
			okAll, why = false, "unsupported result in "+fn.Name()
			return true
		}
		x, ok1 := ast.Unparen(c.Args[0]).(*ast.Ident)
		y, ok2 := ast.Unparen(c.Args[1]).(*ast.Ident)
		if ok1 && ok2 && hinfo.Uses[x] == ha && hinfo.Uses[y] == hb {
			return true // final comparison on the elements
		}
		// a comparison on other fields may return 0 only if guarded by inequality of the same operands
		if guardedNE(decl.Body, rs, c) {
			return true
		}
		okAll, why = false, fn.Name()+" may return 0 from "+types.ExprString(e)+" for different elements"
		return true
	})
	return okAll, why
}

// laterUnstableSort: after the canonical sort, a further *unstable* sort of the same slice with a
// comparator that is not total reshuffles equal elements arbitrarily.
func (a *Analyzer) laterUnstableSort(info *types.Info, body *ast.BlockStmt, after token.Pos, obj types.Object) string {
	why := ""
	ast.Inspect(body, func(n ast.Node) bool {
		call, ok := n.(*ast.CallExpr)
		if !ok || call.Pos() < after || len(call.Args) < 2 {
			return true
		}
		fn, _ := typeutil.Callee(info, call).(*types.Func)
		if fn == nil || fn.Pkg() == nil {
			return true
		}
		full := fn.Pkg().Path() + "." + fn.Name()
		if full != "slices.SortFunc" && full != "sort.Slice" {
			return true
		}
		id, ok := ast.Unparen(call.Args[0]).(*ast.Ident)
		if !ok || objOf(info, id) != obj {
			return true
		}
		if ok, w := a.comparatorTotal(info, call.Args[1]); !ok {
			why = "a later unstable sort (" + a.pos(call.Pos()) + ") uses a comparator that is not total: " + w
		}
		return true
	})
	return why
}

// loopCarriedReads: a condition or right-hand side that reads a variable the loop itself modifies
// (a collected slice, an accumulator, an assigned outer variable) sees a value that depends on how
// many iterations ran before — that is, on the iteration order. Self-updates (xs = append(xs, e),
// x = max(x, e), x += e) are the recognised forms and are not counted.
func (a *Analyzer) loopCarriedReads(c *bodyCtx) {
	l := c.l
	written := map[types.Object]bool{}
	ast.Inspect(l.Body, func(n ast.Node) bool {
		switch s := n.(type) {
		case *ast.AssignStmt:
			for _, lhs := range s.Lhs {
				if id, ok := lhs.(*ast.Ident); ok && id.Name != "_" {
					if o := c.obj(id); o != nil && !c.locals[o] && s.Tok != token.DEFINE {
						written[o] = true
					}
				}
			}
		case *ast.IncDecStmt:
			if id, ok := s.X.(*ast.Ident); ok {
				if o := c.obj(id); o != nil && !c.locals[o] {
					written[o] = true
				}
			}
		}
		return true
	})
	if len(written) == 0 {
		return
	}
	reported := map[types.Object]bool{}
	var check func(e ast.Node, self types.Object)
	check = func(e ast.Node, self types.Object) {
		if e == nil {
			return
		}
		ast.Inspect(e, func(n ast.Node) bool {
			id, ok := n.(*ast.Ident)
			if !ok {
				return true
			}
			o := c.obj(id)
			if o != nil && written[o] && o != self && !reported[o] {
				reported[o] = true
				l.Effects = append(l.Effects, "reads-modified("+o.Name()+")")
				l.Problem = append(l.Problem, "reads "+o.Name()+", which the loop itself modifies: the value seen depends on the iteration order ("+a.pos(id.Pos())+")")
			}
			return true
		})
	}
	ast.Inspect(l.Body, func(n ast.Node) bool {
		switch s := n.(type) {
		case *ast.IfStmt:
			check(s.Cond, nil)
		case *ast.SwitchStmt:
			check(s.Tag, nil)
		case *ast.CaseClause:
			for _, e := range s.List {
				check(e, nil)
			}
		case *ast.AssignStmt:
			for i, r := range s.Rhs {
				var self types.Object
				if i < len(s.Lhs) {
					if id, ok := s.Lhs[i].(*ast.Ident); ok {
						self = c.obj(id)
					}
				}
				check(r, self)
			}
		case *ast.ReturnStmt:
			for _, r := range s.Results {
				check(r, nil)
			}
		case *ast.ExprStmt:
			check(s.X, nil)
		}
		return true
	})
}
