package e3order

import (
	"fmt"
	"go/ast"
	"go/token"
	"go/types"
	"sort"
	"strings"

	"golang.org/x/tools/go/ssa"
	"golang.org/x/tools/go/types/typeutil"

	"verif/sa/internal/load"
)

var unorderedSliceFuncs = map[string]bool{"NodesOf": true, "EdgesOf": true, "LinesOf": true, "WeightedEdgesOf": true, "WeightedLinesOf": true}

// OrderCalls finds slices materialised from gonum's map-backed iterators outside loops
// (x := graph.NodesOf(...)) and demands the same S / M treatment as for collected slices.
func (a *Analyzer) OrderCalls(rule string, funcs []*ssa.Function) {
	for _, fn := range funcs {
		syn := fn.Syntax()
		pk := a.pkgOf(fn)
		body := funcBody(syn)
		if pk == nil || body == nil {
			continue
		}
		info := pk.TypesInfo
		ast.Inspect(body, func(n ast.Node) bool {
			if _, ok := n.(*ast.FuncLit); ok && n != syn {
				return false
			}
			as, ok := n.(*ast.AssignStmt)
			if !ok || len(as.Lhs) != 1 || len(as.Rhs) != 1 {
				return true
			}
			call, ok := as.Rhs[0].(*ast.CallExpr)
			if !ok {
				return true
			}
			cf, _ := typeutil.Callee(info, call).(*types.Func)
			if cf == nil || cf.Pkg() == nil || !strings.HasPrefix(cf.Pkg().Path(), "gonum.org/v1/gonum/graph") || !unorderedSliceFuncs[cf.Name()] {
				return true
			}
			id, ok := as.Lhs[0].(*ast.Ident)
			if !ok {
				return true
			}
			obj := objOf(info, id)
			l := &Loop{Fn: fn, FnName: load.FuncName(fn), Pkg: pk, Stmt: as, decl: syn}
			construct := fmt.Sprintf("unordered-slice:%s:%s", l.FnName, cf.Name())
			form, why := a.postUse(l, obj)
			switch form {
			case "S":
				a.R.OK(rule, construct, a.pos(as.Pos()), "collect-then-sort", id.Name+" is sorted with a total comparator before any other use")
			case "M":
				a.R.OK(rule, construct, a.pos(as.Pos()), "collect-then-membership", id.Name+" is only used for membership/length")
			default:
				a.R.Bad(rule, construct, a.pos(as.Pos()), "slice "+id.Name+" holds elements in gonum's map iteration order: "+why)
			}
			return true
		})
	}
}

// SortedCopy (R3.5): in fn, every range over a slice of elemType must range a variable that is a
// fresh copy (make+copy or slices.Clone) sorted by a total comparator before the loop.
func (a *Analyzer) SortedCopy(rule string, fn *ssa.Function, elemType string) {
	if fn == nil {
		a.R.Unknown(rule, "anchor:"+elemType, "-", "function not found")
		return
	}
	syn := fn.Syntax()
	pk := a.pkgOf(fn)
	body := funcBody(syn)
	if pk == nil || body == nil {
		a.R.Unknown(rule, "anchor:"+load.FuncName(fn), "-", "no syntax")
		return
	}
	info := pk.TypesInfo
	n := 0
	ast.Inspect(body, func(nd ast.Node) bool {
		rs, ok := nd.(*ast.RangeStmt)
		if !ok {
			return true
		}
		tv, ok := info.Types[rs.X]
		if !ok {
			return true
		}
		sl, ok := tv.Type.Underlying().(*types.Slice)
		if !ok || !strings.HasSuffix(sl.Elem().String(), elemType) {
			return true
		}
		n++
		construct := fmt.Sprintf("sorted-copy:%s:range %s", load.FuncName(fn), exprKey(rs.X))
		pos := a.pos(rs.Pos())
		sorted, why := a.isSortedCopy(info, body, rs)
		if sorted {
			a.R.OK(rule, construct, pos, "make+copy+sort", "types are visited in sorted order on a private copy")
		} else {
			a.R.Bad(rule, construct, pos, why)
		}
		return true
	})
	if n == 0 {
		a.R.Unknown(rule, "sorted-copy:"+load.FuncName(fn), a.pos(fn.Pos()), "no range over []"+elemType+" found: anchor no longer resolves")
	}
}

// ---------- R3.4 entropy taint ----------

var entropyPkgs = map[string]bool{"github.com/oklog/ulid/v2": true, "math/rand": true, "math/rand/v2": true, "crypto/rand": true}
var entropyFuncs = map[string]bool{"time.Now": true, "time.Since": true, "time.Until": true, "os.Getpid": true, "os.Getppid": true, "os.Hostname": true,
	"os.Getenv": true, "os.Environ": true, "runtime.NumGoroutine": true, "runtime.NumCPU": true, "os.Getwd": true}

// Taint is the result of the entropy analysis.
type Taint struct {
	Vals    map[ssa.Value]bool  // the value (for containers: its elements / map values) is entropy-derived
	Fields  map[*types.Var]bool // field-based: what is stored in the field
	Keys    map[ssa.Value]bool  // map whose keys are entropy-derived (selection by key is by design, not a taint of the value)
	FKeys   map[*types.Var]bool
	Sources []string
}

func isEntropyCall(c *ssa.CallCommon) (string, bool) {
	var fn *types.Func
	if c.IsInvoke() {
		fn = c.Method
	} else if f, ok := c.Value.(*ssa.Function); ok {
		fn, _ = f.Object().(*types.Func)
	}
	if fn == nil || fn.Pkg() == nil {
		return "", false
	}
	name := fn.Pkg().Path() + "." + fn.Name()
	if entropyPkgs[fn.Pkg().Path()] || entropyFuncs[name] {
		return name, true
	}
	return "", false
}

// Entropy runs the taint propagation over funcs and reports sinks under rule.
// attrSink additionally treats stores into gonum encoding.Attribute values as sinks (DOT text).
func (a *Analyzer) Entropy(rule string, funcs []*ssa.Function, attrSink bool) {
	t := &Taint{Vals: map[ssa.Value]bool{}, Fields: map[*types.Var]bool{}, Keys: map[ssa.Value]bool{}, FKeys: map[*types.Var]bool{}}
	inSet := map[*ssa.Function]bool{}
	for _, f := range funcs {
		inSet[f] = true
	}
	fieldOf := func(x ssa.Value, idx int) *types.Var {
		tp := x.Type()
		if p, ok := tp.Underlying().(*types.Pointer); ok {
			tp = p.Elem()
		}
		if st, ok := tp.Underlying().(*types.Struct); ok && idx < st.NumFields() {
			return st.Field(idx)
		}
		return nil
	}
	changed := true
	mark := func(v ssa.Value) {
		if v != nil && !t.Vals[v] {
			t.Vals[v] = true
			changed = true
		}
	}
	markField := func(f *types.Var) {
		if f != nil && !t.Fields[f] {
			t.Fields[f] = true
			changed = true
		}
	}
	// taint the storage a value was loaded from (so that later loads see it)
	var markOrigin func(v ssa.Value, depth int)
	markOrigin = func(v ssa.Value, depth int) {
		if depth > 6 {
			return
		}
		mark(v)
		switch x := v.(type) {
		case *ssa.UnOp:
			if x.Op == token.MUL {
				markOrigin(x.X, depth+1)
			}
		case *ssa.FieldAddr:
			markField(fieldOf(x.X, x.Field))
		case *ssa.Field:
			markField(fieldOf(x.X, x.Field))
		case *ssa.IndexAddr:
			markOrigin(x.X, depth+1)
		case *ssa.Slice:
			markOrigin(x.X, depth+1)
		case *ssa.Phi:
			for _, e := range x.Edges {
				mark(e)
			}
		}
	}
	var markKeyOrigin func(v ssa.Value, depth int)
	markKeyOrigin = func(v ssa.Value, depth int) {
		if depth > 6 {
			return
		}
		if !t.Keys[v] {
			t.Keys[v] = true
			changed = true
		}
		switch x := v.(type) {
		case *ssa.UnOp:
			if x.Op == token.MUL {
				if fa, ok := x.X.(*ssa.FieldAddr); ok {
					if f := fieldOf(fa.X, fa.Field); f != nil && !t.FKeys[f] {
						t.FKeys[f] = true
						changed = true
					}
				}
			}
		case *ssa.Phi:
			for _, e := range x.Edges {
				markKeyOrigin(e, depth+1)
			}
		}
	}
	srcSeen := map[string]bool{}
	for iter := 0; changed && iter < 50; iter++ {
		changed = false
		for _, f := range funcs {
			for _, b := range f.Blocks {
				for _, in := range b.Instrs {
					switch v := in.(type) {
					case *ssa.Call:
						if name, ok := isEntropyCall(v.Common()); ok {
							mark(v)
							key := load.FuncName(f) + " calls " + name
							if !srcSeen[key] {
								srcSeen[key] = true
								t.Sources = append(t.Sources, key)
							}
							continue
						}
						anyArg := false
						for _, arg := range v.Common().Args {
							if t.Vals[arg] {
								anyArg = true
							}
						}
						if v.Common().IsInvoke() && t.Vals[v.Common().Value] {
							anyArg = true
						}
						callee := v.Common().StaticCallee()
						if callee != nil && inSet[callee] {
							for i, arg := range v.Common().Args {
								if t.Vals[arg] && i < len(callee.Params) {
									mark(callee.Params[i])
								}
							}
							// returns
							for _, cb := range callee.Blocks {
								for _, ci := range cb.Instrs {
									if ret, ok := ci.(*ssa.Return); ok {
										for _, rv := range ret.Results {
											if t.Vals[rv] {
												mark(v)
											}
										}
									}
								}
							}
						} else if anyArg {
							// unknown or external callee: the result may carry the argument's taint
							if _, isB := v.Common().Value.(*ssa.Builtin); isB {
								switch v.Common().Value.Name() {
								case "len", "cap":
									continue
								case "append":
									mark(v)
									markOrigin(v.Common().Args[0], 0)
									continue
								}
							}
							mark(v)
						}
					case *ssa.BinOp:
						if t.Vals[v.X] || t.Vals[v.Y] {
							switch v.Op {
							case token.EQL, token.NEQ:
								// identity tests on random ids are by design
							default:
								mark(v)
							}
						}
					case *ssa.UnOp:
						if t.Vals[v.X] {
							mark(v)
						}
						if v.Op == token.MUL {
							if fa, ok := v.X.(*ssa.FieldAddr); ok {
								if t.Fields[fieldOf(fa.X, fa.Field)] {
									mark(v)
								}
								if t.FKeys[fieldOf(fa.X, fa.Field)] && !t.Keys[v] {
									t.Keys[v] = true
									changed = true
								}
							}
						}
					case *ssa.Field:
						if t.Vals[v.X] || t.Fields[fieldOf(v.X, v.Field)] {
							mark(v)
						}
					case *ssa.Store:
						if t.Vals[v.Val] {
							markOrigin(v.Addr, 0)
						}
					case *ssa.MapUpdate:
						if t.Vals[v.Value] {
							markOrigin(v.Map, 0)
						}
						if t.Vals[v.Key] {
							markKeyOrigin(v.Map, 0)
						}
					case *ssa.Lookup:
						if t.Vals[v.X] {
							mark(v)
						}
					case *ssa.Range:
					case *ssa.Next:
					case *ssa.Extract:
						if nx, ok := v.Tuple.(*ssa.Next); ok {
							if rg, ok := nx.Iter.(*ssa.Range); ok {
								if (v.Index == 1 && t.Keys[rg.X]) || (v.Index == 2 && t.Vals[rg.X]) {
									mark(v)
								}
							}
							continue
						}
						if t.Vals[v.Tuple] {
							mark(v)
						}
					case *ssa.Index:
						if t.Vals[v.X] {
							mark(v)
						}
					case *ssa.IndexAddr:
						if t.Vals[v.X] {
							mark(v)
						}
					case *ssa.Slice:
						if t.Vals[v.X] {
							mark(v)
						}
					case *ssa.Phi:
						for _, e := range v.Edges {
							if t.Vals[e] {
								mark(v)
							}
						}
					case *ssa.Convert:
						if t.Vals[v.X] {
							mark(v)
						}
					case *ssa.ChangeType:
						if t.Vals[v.X] {
							mark(v)
						}
					case *ssa.ChangeInterface:
						if t.Vals[v.X] {
							mark(v)
						}
					case *ssa.MakeInterface:
						if t.Vals[v.X] {
							mark(v)
						}
					case *ssa.TypeAssert:
						if t.Vals[v.X] {
							mark(v)
						}
					case *ssa.MakeClosure:
						if cf, ok := v.Fn.(*ssa.Function); ok {
							for i, bnd := range v.Bindings {
								if t.Vals[bnd] && i < len(cf.FreeVars) {
									mark(cf.FreeVars[i])
								}
							}
						}
					}
				}
			}
		}
	}
	sort.Strings(t.Sources)
	a.R.Analysed["entropy_sources"] = t.Sources
	var flds []string
	for f := range t.Fields {
		flds = append(flds, f.Name())
	}
	sort.Strings(flds)
	a.R.Analysed["entropy_tainted_fields"] = flds
	// sinks
	nsink := 0
	for _, f := range funcs {
		for _, b := range f.Blocks {
			for _, in := range b.Instrs {
				switch v := in.(type) {
				case *ssa.BinOp:
					switch v.Op {
					case token.LSS, token.LEQ, token.GTR, token.GEQ:
						if t.Vals[v.X] || t.Vals[v.Y] {
							nsink++
							a.R.Bad(rule, "entropy-order:"+load.FuncName(f)+":"+v.Op.String(), a.pos(v.Pos()), "an ordering comparison depends on a value derived from "+strings.Join(t.Sources, ", "))
						}
					}
				case *ssa.Call:
					cf := v.Common().StaticCallee()
					if cf == nil {
						continue
					}
					obj, _ := cf.Object().(*types.Func)
					if cf.Origin() != nil {
						obj, _ = cf.Origin().Object().(*types.Func)
					}
					if obj == nil || obj.Pkg() == nil {
						continue
					}
					full := obj.Pkg().Path() + "." + obj.Name()
					isOrder := strings.HasPrefix(full, "sort.") || strings.HasPrefix(full, "slices.Sort") || full == "cmp.Compare" || full == "strings.Compare" ||
						full == "slices.Max" || full == "slices.Min" || full == "slices.BinarySearch"
					if !isOrder {
						continue
					}
					for _, arg := range v.Common().Args {
						if t.Vals[arg] {
							nsink++
							a.R.Bad(rule, "entropy-order:"+load.FuncName(f)+":"+obj.Name(), a.pos(v.Pos()), "argument of "+full+" is derived from "+strings.Join(t.Sources, ", ")+": the resulting order changes from run to run")
							break
						}
					}
				case *ssa.Store:
					if !attrSink || !t.Vals[v.Val] {
						continue
					}
					if fa, ok := v.Addr.(*ssa.FieldAddr); ok {
						tp := fa.X.Type()
						if p, ok := tp.Underlying().(*types.Pointer); ok {
							tp = p.Elem()
						}
						if strings.HasSuffix(tp.String(), "gonum/graph/encoding.Attribute") {
							nsink++
							a.R.Bad(rule, "entropy-attribute:"+load.FuncName(f), a.pos(v.Pos()), "a DOT attribute value is derived from "+strings.Join(t.Sources, ", "))
						}
					}
				}
			}
		}
	}
	if nsink == 0 {
		a.R.OK(rule, "entropy-sinks", "-", "taint", fmt.Sprintf("%d entropy call sites, %d tainted SSA values, %d tainted fields, no ordering/attribute sink reached", len(t.Sources), len(t.Vals), len(t.Fields)))
	}
}

// SelfTest is replaced by the fixture-based self-test in selftest.go.

// isSortedCopy: the range statement ranges an identifier that, in the statements preceding the loop
// in the same block, was created fresh (make / slices.Clone), filled by copy, and sorted with a
// total comparator.
func (a *Analyzer) isSortedCopy(info *types.Info, body *ast.BlockStmt, rs *ast.RangeStmt) (bool, string) {
	if call, isCall := ast.Unparen(rs.X).(*ast.CallExpr); isCall {
		if fresh, copied, sorted, why := a.freshListExpr(info, call); fresh && copied && sorted {
			return true, ""
		} else if why != "" {
			return false, why
		}
		if ok, why := a.sortedCopyHelper(info, call); ok {
			return true, ""
		} else if why != "" {
			return false, why
		}
	}
	id, ok := ast.Unparen(rs.X).(*ast.Ident)
	if !ok {
		return false, "ranges " + exprKey(rs.X) + " directly: the order of visits follows the caller's order"
	}
	obj := objOf(info, id)
	path := pathTo(body, rs)
	if path == nil {
		return false, "loop not located"
	}
	fr := path[len(path)-1]
	return a.sortedCopyState(info, fr.list[:fr.idx], obj, id.Name)
}

// freshListExpr reads a call expression as the creation of a list: fresh (its backing array is new), copied (it
// holds the elements of the source) and sorted (by a total comparator) — for the idioms make, slices.Clone,
// append onto an empty fresh slice, slices.Collect, slices.Sorted / SortedFunc / SortedStableFunc.
func (a *Analyzer) freshListExpr(info *types.Info, call *ast.CallExpr) (fresh, copied, sorted bool, why string) {
	if fid, ok := call.Fun.(*ast.Ident); ok {
		switch fid.Name {
		case "make":
			return true, false, false, ""
		case "append":
			if len(call.Args) == 2 && call.Ellipsis.IsValid() && emptyFreshSlice(info, call.Args[0]) {
				return true, true, false, ""
			}
		}
		return false, false, false, ""
	}
	cf, _ := typeutil.Callee(info, call).(*types.Func)
	if cf == nil || cf.Pkg() == nil || cf.Pkg().Path() != "slices" {
		return false, false, false, ""
	}
	switch cf.Name() {
	case "Clone", "Collect":
		return true, true, false, ""
	case "Sorted":
		return true, true, true, ""
	case "SortedFunc", "SortedStableFunc":
		if len(call.Args) == 2 {
			if ok, w := a.comparatorTotal(info, call.Args[1]); ok {
				return true, true, true, ""
			} else {
				return true, true, false, "comparator is not provably total on the collected elements: " + w
			}
		}
	}
	return false, false, false, ""
}

// emptyFreshSlice: []T(nil), []T{}, make([]T, 0[, n]).
func emptyFreshSlice(info *types.Info, e ast.Expr) bool {
	switch x := ast.Unparen(e).(type) {
	case *ast.CompositeLit:
		return len(x.Elts) == 0
	case *ast.CallExpr:
		if fid, ok := x.Fun.(*ast.Ident); ok && fid.Name == "make" && len(x.Args) >= 2 {
			tv, ok := info.Types[x.Args[1]]
			return ok && tv.Value != nil && tv.Value.String() == "0"
		}
		// conversion of nil: []T(nil)
		if tv, ok := info.Types[x.Fun]; ok && tv.IsType() && len(x.Args) == 1 {
			if id, ok := ast.Unparen(x.Args[0]).(*ast.Ident); ok && id.Name == "nil" {
				return true
			}
		}
	case *ast.Ident:
		return x.Name == "nil"
	}
	return false
}

// sortedCopyHelper: the call is a repository helper that returns a fresh, sorted copy: its body ends in
// `return v` where v satisfies sortedCopyState over the preceding statements.
func (a *Analyzer) sortedCopyHelper(info *types.Info, call *ast.CallExpr) (bool, string) {
	fn, _ := typeutil.Callee(info, call).(*types.Func)
	if fn == nil || !load.IsRepoPkg(fn.Pkg()) {
		return false, ""
	}
	if fn.Origin() != nil {
		fn = fn.Origin()
	}
	pk := a.P.Pkgs[load.ShortPkg(fn.Pkg())]
	if pk == nil {
		return false, ""
	}
	for _, f := range pk.Syntax {
		for _, d := range f.Decls {
			fd, ok := d.(*ast.FuncDecl)
			if !ok || fd.Body == nil || pk.TypesInfo.Defs[fd.Name] != fn || len(fd.Body.List) == 0 {
				continue
			}
			last, ok := fd.Body.List[len(fd.Body.List)-1].(*ast.ReturnStmt)
			if !ok || len(last.Results) != 1 {
				return false, fn.Name() + " does not end in a single-value return"
			}
			rid, ok := ast.Unparen(last.Results[0]).(*ast.Ident)
			if !ok {
				return false, fn.Name() + " does not return a local variable"
			}
			// no other return
			others := 0
			ast.Inspect(fd.Body, func(n ast.Node) bool {
				if _, isLit := n.(*ast.FuncLit); isLit {
					return false
				}
				if r, ok := n.(*ast.ReturnStmt); ok && r != last {
					others++
				}
				return true
			})
			if others > 0 {
				return false, fn.Name() + " has several returns"
			}
			return a.sortedCopyState(pk.TypesInfo, fd.Body.List[:len(fd.Body.List)-1], objOf(pk.TypesInfo, rid), rid.Name+" (in "+fn.Name()+")")
		}
	}
	return false, ""
}

// sortedCopyState scans the statements before the use: the variable was created fresh (make / slices.Clone /
// a sorted-copy helper), filled by copy, and sorted with a total comparator, in that order.
func (a *Analyzer) sortedCopyState(info *types.Info, stmts []ast.Stmt, obj types.Object, name string) (bool, string) {
	id := &ast.Ident{Name: name}
	fresh, sorted, copied := false, false, false
	why := ""
	for _, st := range stmts {
		switch s := st.(type) {
		case *ast.AssignStmt:
			for i, l := range s.Lhs {
				lid, ok := l.(*ast.Ident)
				if !ok || objOf(info, lid) != obj || i >= len(s.Rhs) {
					continue
				}
				fresh, sorted, copied = false, false, false
				if call, ok := s.Rhs[i].(*ast.CallExpr); ok {
					var w string
					fresh, copied, sorted, w = a.freshListExpr(info, call)
					if w != "" {
						why = w
					}
					if ok, _ := a.sortedCopyHelper(info, call); ok {
						fresh, copied, sorted = true, true, true
					}
				}
			}
		case *ast.ExprStmt:
			call, ok := s.X.(*ast.CallExpr)
			if !ok {
				continue
			}
			if fid, ok := call.Fun.(*ast.Ident); ok && fid.Name == "copy" && len(call.Args) == 2 {
				if did, ok := ast.Unparen(call.Args[0]).(*ast.Ident); ok && objOf(info, did) == obj {
					copied = true
				}
				continue
			}
			if ok, w := a.sortCall(info, call, obj); ok {
				sorted = true
			} else if w != "" {
				why = w
			}
		}
	}
	switch {
	case !fresh || !copied:
		return false, id.Name + " is not a fresh copy (make+copy / slices.Clone) of the caller's slice"
	case !sorted:
		return false, id.Name + " is not sorted by a total comparator before the loop. " + why
	}
	return true, ""
}

// FreshLabels (C10 clause 4 / C17 clause 1): wherever a node of kind OperatorNode is created, its
// unique label must be derived from an entropy call made in the same function invocation (one
// fresh node per operator occurrence). A label computed from the parent's label alone makes two
// operators of the same kind under one parent collapse into one node.
func (a *Analyzer) FreshLabels(rule string, funcs []*ssa.Function, nodeCallees []string, labelParam, kindParam string, operatorKind int64) {
	n := 0
	for _, f := range funcs {
		for _, b := range f.Blocks {
			for _, in := range b.Instrs {
				call, ok := in.(*ssa.Call)
				if !ok {
					continue
				}
				callee := call.Common().StaticCallee()
				if callee == nil {
					continue
				}
				match := false
				for _, c := range nodeCallees {
					if callee.Name() == c {
						match = true
					}
				}
				if !match {
					continue
				}
				var label, kind ssa.Value
				for i, prm := range callee.Params {
					if i >= len(call.Common().Args) {
						break
					}
					if prm.Name() == labelParam {
						label = call.Common().Args[i]
					}
					if prm.Name() == kindParam {
						kind = call.Common().Args[i]
					}
				}
				kc, ok := kind.(*ssa.Const)
				if !ok || label == nil || kc.Value == nil || kc.Int64() != operatorKind {
					continue
				}
				n++
				construct := "fresh-operator-label:" + load.FuncName(f)
				if derivedFromEntropyHere(label, f, 0) {
					a.R.OK(rule, construct, a.pos(call.Pos()), "entropy-in-same-invocation", "operator label contains a ULID made in this invocation")
				} else {
					a.R.Bad(rule, construct, a.pos(call.Pos()), "the unique label of an operator node is not derived from a fresh random id made in the same invocation: two operators of one kind under the same parent would share a node")
				}
			}
		}
	}
	if n == 0 {
		a.R.Unknown(rule, "fresh-operator-label", "-", "no creation of an operator node found: anchor no longer resolves")
	}
}

func derivedFromEntropyHere(v ssa.Value, f *ssa.Function, depth int) bool {
	if depth > 10 {
		return false
	}
	switch x := v.(type) {
	case *ssa.Call:
		if _, ok := isEntropyCall(x.Common()); ok {
			return true
		}
		for _, a := range x.Common().Args {
			if derivedFromEntropyHere(a, f, depth+1) {
				return true
			}
		}
		if x.Common().IsInvoke() {
			return derivedFromEntropyHere(x.Common().Value, f, depth+1)
		}
	case *ssa.BinOp:
		return derivedFromEntropyHere(x.X, f, depth+1) || derivedFromEntropyHere(x.Y, f, depth+1)
	case *ssa.Phi:
		for _, e := range x.Edges {
			if !derivedFromEntropyHere(e, f, depth+1) {
				return false
			}
		}
		return len(x.Edges) > 0
	case *ssa.MakeInterface:
		return derivedFromEntropyHere(x.X, f, depth+1)
	case *ssa.Convert:
		return derivedFromEntropyHere(x.X, f, depth+1)
	case *ssa.ChangeType:
		return derivedFromEntropyHere(x.X, f, depth+1)
	case *ssa.Slice:
		// variadic operand list of Sprintf: any element derived from entropy
		if al, ok := x.X.(*ssa.Alloc); ok && al.Referrers() != nil {
			for _, ref := range *al.Referrers() {
				if ia, ok := ref.(*ssa.IndexAddr); ok && ia.Referrers() != nil {
					for _, r2 := range *ia.Referrers() {
						if st, ok := r2.(*ssa.Store); ok && derivedFromEntropyHere(st.Val, f, depth+1) {
							return true
						}
					}
				}
			}
		}
	}
	return false
}
