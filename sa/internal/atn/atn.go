// Package atn decodes ANTLR 4 serialized ATNs (format version 4) and extracts them, together with
// the vocabulary tables, from generated Go, TypeScript and Java sources and from .interp/.tokens
// files. Everything is read as data; nothing is executed.
package atn

import (
	"fmt"
)

// State types.
const (
	StInvalid = iota
	StBasic
	StRuleStart
	StBlockStart
	StPlusBlockStart
	StStarBlockStart
	StTokenStart
	StRuleStop
	StBlockEnd
	StStarLoopBack
	StStarLoopEntry
	StPlusLoopBack
	StLoopEnd
)

// Transition types.
const (
	TEpsilon    = 1
	TRange      = 2
	TRule       = 3
	TPredicate  = 4
	TAtom       = 5
	TAction     = 6
	TSet        = 7
	TNotSet     = 8
	TWildcard   = 9
	TPrecedence = 10
)

// Lexer action types.
const (
	ActChannel  = 0
	ActCustom   = 1
	ActMode     = 2
	ActMore     = 3
	ActPopMode  = 4
	ActPushMode = 5
	ActSkip     = 6
	ActType     = 7
)

// EOF is the symbol value used for end of input in sets and atoms.
const EOF = -1

// State is an ATN state.
type State struct {
	Type      int
	Rule      int
	Aux       int // loop-back state (LOOP_END) or end state (block starts); -1 otherwise
	NonGreedy bool
	Out       []*Edge
}

// Edge is a transition.
type Edge struct {
	Src, Trg int
	Type     int
	A1, A2   int
	A3       int
}

// Interval is an inclusive symbol interval.
type Interval struct{ Lo, Hi int }

// Action is a lexer action.
type Action struct{ Type, D1, D2 int }

// ATN is the decoded automaton.
type ATN struct {
	GrammarType  int // 0 lexer, 1 parser
	MaxTokenType int
	States       []*State
	RuleStart    []int
	RuleToken    []int // lexer only
	RuleStop     []int
	ModeStart    []int
	Sets         [][]Interval
	Edges        []*Edge
	Decisions    []int
	Actions      []Action
	Consumed     int
}

// Decode deserializes a version-4 ATN and insists on consuming the sequence exactly.
func Decode(d []int) (*ATN, error) {
	p := 0
	next := func() (int, error) {
		if p >= len(d) {
			return 0, fmt.Errorf("atn: truncated at %d", p)
		}
		v := d[p]
		p++
		return v, nil
	}
	must := func() int {
		v, err := next()
		if err != nil {
			panic(err)
		}
		return v
	}
	var a *ATN
	var derr error
	func() {
		defer func() {
			if r := recover(); r != nil {
				derr = fmt.Errorf("%v", r)
			}
		}()
		if v := must(); v != 4 {
			panic(fmt.Errorf("atn: unsupported serialized version %d", v))
		}
		a = &ATN{}
		a.GrammarType = must()
		a.MaxTokenType = must()
		ns := must()
		for i := 0; i < ns; i++ {
			t := must()
			s := &State{Type: t, Rule: -1, Aux: -1}
			a.States = append(a.States, s)
			if t == StInvalid {
				continue
			}
			s.Rule = must()
			if t == StLoopEnd {
				s.Aux = must()
			} else if t == StBlockStart || t == StPlusBlockStart || t == StStarBlockStart {
				s.Aux = must()
			}
		}
		nng := must()
		for i := 0; i < nng; i++ {
			a.States[must()].NonGreedy = true
		}
		npr := must()
		for i := 0; i < npr; i++ {
			must()
		}
		nr := must()
		for i := 0; i < nr; i++ {
			a.RuleStart = append(a.RuleStart, must())
			if a.GrammarType == 0 {
				a.RuleToken = append(a.RuleToken, must())
			}
		}
		a.RuleStop = make([]int, nr)
		for i := range a.RuleStop {
			a.RuleStop[i] = -1
		}
		for i, s := range a.States {
			if s.Type == StRuleStop {
				if s.Rule < 0 || s.Rule >= nr {
					panic(fmt.Errorf("atn: stop state %d has rule %d", i, s.Rule))
				}
				a.RuleStop[s.Rule] = i
			}
		}
		nm := must()
		for i := 0; i < nm; i++ {
			a.ModeStart = append(a.ModeStart, must())
		}
		nsets := must()
		for i := 0; i < nsets; i++ {
			n := must()
			var set []Interval
			if must() != 0 {
				set = append(set, Interval{EOF, EOF})
			}
			for j := 0; j < n; j++ {
				lo := must()
				hi := must()
				set = append(set, Interval{lo, hi})
			}
			a.Sets = append(a.Sets, set)
		}
		ne := must()
		for i := 0; i < ne; i++ {
			e := &Edge{Src: must(), Trg: must(), Type: must(), A1: must(), A2: must(), A3: must()}
			if e.Src < 0 || e.Src >= len(a.States) || e.Trg < 0 || e.Trg >= len(a.States) {
				panic(fmt.Errorf("atn: edge %d out of range", i))
			}
			a.Edges = append(a.Edges, e)
			a.States[e.Src].Out = append(a.States[e.Src].Out, e)
		}
		nd := must()
		for i := 0; i < nd; i++ {
			a.Decisions = append(a.Decisions, must())
		}
		if a.GrammarType == 0 {
			na := must()
			for i := 0; i < na; i++ {
				a.Actions = append(a.Actions, Action{must(), must(), must()})
			}
		}
	}()
	if derr != nil {
		return nil, derr
	}
	a.Consumed = p
	if p != len(d) {
		return nil, fmt.Errorf("atn: %d trailing integers after the decoded automaton", len(d)-p)
	}
	return a, nil
}

// EdgeSymbols returns the symbol intervals an edge consumes (nil for epsilon-like edges) and
// whether it is a complement. universe is [minSym,maxSym].
func (a *ATN) EdgeSymbols(e *Edge) (iv []Interval, negated bool, consumes bool) {
	switch e.Type {
	case TAtom:
		if e.A3 != 0 {
			return []Interval{{EOF, EOF}}, false, true
		}
		return []Interval{{e.A1, e.A1}}, false, true
	case TRange:
		if e.A3 != 0 {
			return []Interval{{EOF, e.A2}}, false, true
		}
		return []Interval{{e.A1, e.A2}}, false, true
	case TSet:
		return a.Sets[e.A1], false, true
	case TNotSet:
		return a.Sets[e.A1], true, true
	case TWildcard:
		return nil, true, true
	}
	return nil, false, false
}
