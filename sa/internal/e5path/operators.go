package e5path

import (
	"fmt"
	"go/constant"
	"go/token"
	"go/types"
	"os"
	"regexp"
	"sort"
	"strings"

	"golang.org/x/tools/go/ssa"

	"verif/sa/internal/load"
	"verif/sa/internal/oblig"
	"verif/sa/internal/pathx"
)

// OperatorNodePerOccurrence (C10 / C17 "one node per union / intersection / exclusion occurrence, operators point to
// their operands"): in the rewrite translation of a graph builder, every path on which the rewrite was found to be a
// union, an intersection or a difference creates a node of kind OperatorNode, and every operand that is translated
// on that path is attached to that node — never to the parent the function itself received (which would splice the
// operands into the enclosing relation or operator and lose the occurrence, e.g. a "fast path" for one operand).
// Decided on the enumerated paths of the translation function (helpers followed; the recursive call is an event).
func OperatorNodePerOccurrence(p *load.Prog, r *oblig.Report, rule string, specs []string) {
	opKind, ok := constOf(p, "graph", "OperatorNode")
	if !ok {
		r.Unknown(rule, "operator-node:anchor", "-", "constant graph.OperatorNode not found")
		return
	}
	for _, spec := range specs {
		parts := strings.Split(spec, ".")
		var fn *ssa.Function
		if len(parts) == 2 {
			fn = p.Func(parts[0], parts[1])
		} else {
			fn = p.Method(parts[0], parts[1], parts[2])
		}
		construct := "operator-node:" + spec
		if fn == nil {
			r.Unknown(rule, construct, "-", "function not found")
			continue
		}
		// helpers are entered, except the node constructors themselves (whatever takes a node kind): their call is the event looked for
		ex := &pathx.Explorer{Root: fn, MaxPaths: 20000, Follow: func(c *ssa.Function) bool {
			if c.Pkg != fn.Pkg || len(c.Blocks) == 0 {
				return false
			}
			for _, q := range c.Params {
				if strings.HasSuffix(q.Type().String(), ".NodeType") {
					return false
				}
			}
			return c.Parent() != nil || !token.IsExported(c.Name())
		}}
		paths := ex.Explore()
		if ex.Overflow || len(paths) == 0 {
			r.Unknown(rule, construct, p.Pos(fn.Pos()), "paths could not be enumerated")
			continue
		}
		operatorPaths := 0
		bad := map[string]string{}
		for _, pt := range paths {
			if pt.End != "return" {
				continue
			}
			// which variant of the rewrite oneof the path established
			variant := ""
			for _, c := range pt.Conds {
				if !c.Branch {
					continue
				}
				t := pt.Resolve(c.T)
				ext, ok := t.V.(*ssa.Extract)
				if !ok || ext.Index != 1 {
					continue
				}
				ta, ok := ext.Tuple.(*ssa.TypeAssert)
				if !ok {
					continue
				}
				name := ta.AssertedType.String()
				for _, v := range []string{"Union", "Intersection", "Difference"} {
					if strings.HasSuffix(name, ".Userset_"+v) {
						variant = v
					}
				}
			}
			if variant == "" {
				continue
			}
			operatorPaths++
			// the node of kind OperatorNode made on this path
			var node pathx.Term
			for _, ev := range pt.Events {
				call, ok := ev.Instr.(*ssa.Call)
				if !ok {
					continue
				}
				cal := call.Common().StaticCallee()
				if cal == nil || cal.Pkg != fn.Pkg || cal == fn {
					continue
				}
				for _, a := range call.Common().Args {
					if c, ok := pt.Resolve(ev.Term(a)).V.(*ssa.Const); ok && c.Value != nil && strings.HasSuffix(c.Type().String(), ".NodeType") && constant.Compare(c.Value, token.EQL, opKind) {
						node = ev.Term(call)
					}
				}
			}
			if node.V == nil {
				bad["no-node:"+variant] = fmt.Sprintf("a path that found the rewrite to be a %s returns without creating a node of kind OperatorNode (conditions: %s): that occurrence of the operator has no node, its operands hang on the enclosing node", strings.ToLower(variant), factList(pt.Facts(-1)))
				continue
			}
			// operands translated on the path are attached to that node
			for _, ev := range pt.Events {
				call, ok := ev.Instr.(*ssa.Call)
				if !ok || call.Common().StaticCallee() != fn {
					continue
				}
				attached := false
				for _, a := range call.Common().Args {
					at := pt.Resolve(ev.Term(a))
					if mi, ok := at.V.(*ssa.MakeInterface); ok {
						at = pt.Resolve(at.Sub(mi.X))
					}
					if at.V == node.V && at.F == node.F {
						attached = true
					}
				}
				if !attached {
					bad["operand-parent:"+variant] = fmt.Sprintf("on a path that found the rewrite to be a %s an operand is translated with a parent that is not the operator node created for this occurrence (%s)", strings.ToLower(variant), p.Pos(call.Pos()))
				}
			}
		}
		switch {
		case len(bad) > 0:
			keys := make([]string, 0, len(bad))
			for k := range bad {
				keys = append(keys, k)
			}
			sort.Strings(keys)
			for _, k := range keys {
				r.Bad(rule, construct+":"+k, p.Pos(fn.Pos()), bad[k])
			}
		case operatorPaths == 0:
			r.Unknown(rule, construct, p.Pos(fn.Pos()), "no path establishes a union / intersection / difference variant: anchors no longer resolve")
		default:
			r.OK(rule, construct, p.Pos(fn.Pos()), "path-enumeration", fmt.Sprintf("%d operator paths, each creates its operator node and attaches every translated operand to it", operatorPaths))
		}
	}
}

// constOf: the value of a package-level constant of a repository package.
func constOf(p *load.Prog, pkg, name string) (constant.Value, bool) {
	pk := p.Pkgs[pkg]
	if pk == nil {
		return nil, false
	}
	c, ok := pk.Types.Scope().Lookup(name).(*types.Const)
	if !ok {
		return nil, false
	}
	return c.Val(), true
}

// EveryNodeWeighed (C05 "accepted iff well-founded", C06): AssignWeights starts the weight calculation from every node
// of the graph. On the enumerated paths of one iteration of its loop over the nodes, the node is either handed to the
// weight calculation (a call of a function of the package that receives the node and can fail), or skipped because
// the traversal has visited it already (a lookup in the visited set the calculation itself maintains); any other
// skip leaves a node — and the errors only it would raise: no terminal type, a cycle behind it — unexamined.
func EveryNodeWeighed(p *load.Prog, r *oblig.Report, rule string) {
	fn := p.Method("graph", "WeightedAuthorizationModelGraph", "AssignWeights")
	construct := "every-node-weighed:AssignWeights"
	if fn == nil {
		r.Unknown(rule, construct, "-", "AssignWeights not found")
		return
	}
	errT := types.Universe.Lookup("error").Type()
	canFail := func(c *ssa.Function) bool {
		res := c.Signature.Results()
		for i := 0; i < res.Len(); i++ {
			if types.Identical(res.At(i).Type(), errT) {
				return true
			}
		}
		return false
	}
	// predicates (helpers that return a single bool) are entered; what can fail is the weighing and stays an event
	ex := &pathx.Explorer{Root: fn, MaxPaths: 5000, Follow: func(c *ssa.Function) bool {
		return c.Pkg == fn.Pkg && len(c.Blocks) > 0 && !canFail(c) && (c.Parent() != nil || !token.IsExported(c.Name()))
	}}
	paths := ex.Explore()
	if ex.Overflow || len(paths) == 0 {
		r.Unknown(rule, construct, p.Pos(fn.Pos()), "paths could not be enumerated")
		return
	}
	weighed, skippedVisited := 0, 0
	bad := ""
	for _, pt := range paths {
		// the element of the node list the iteration is about: a load through an index into a slice-typed field
		var elem pathx.Term
		var weighCall *ssa.Call
		for _, ev := range pt.Events {
			call, ok := ev.Instr.(*ssa.Call)
			if !ok {
				continue
			}
			cal := call.Common().StaticCallee()
			if cal == nil || cal.Pkg != fn.Pkg || !canFail(cal) {
				continue
			}
			for _, a := range call.Common().Args {
				at := pt.Resolve(ev.Term(a))
				if ld, ok := at.V.(*ssa.UnOp); ok && ld.Op == token.MUL {
					if _, ok := pt.Resolve(at.Sub(ld.X)).V.(*ssa.IndexAddr); ok {
						elem, weighCall = at, call
					}
				}
			}
		}
		if weighCall != nil {
			weighed++
			_ = elem
			continue
		}
		// no weighing on this path: either the loop body was not entered, or the node was skipped
		var skipFacts []pathx.Fact
		visitedSkip := false
		for _, c := range pt.Conds {
			t := pt.Resolve(c.T)
			isLookup := func(t pathx.Term) bool {
				switch x := t.V.(type) {
				case *ssa.Lookup:
					_, isMap := x.X.Type().Underlying().(*types.Map)
					return isMap
				case *ssa.Extract:
					_, ok := x.Tuple.(*ssa.Lookup)
					return ok
				}
				return false
			}
			f := pt.FactOf(c)
			if isLookup(t) {
				if c.Branch {
					visitedSkip = true
				}
				continue
			}
			// conditions of the loop head (index < len) are not skip conditions
			if bo, ok := t.V.(*ssa.BinOp); ok && (bo.Op == token.LSS || bo.Op == token.GTR || bo.Op == token.LEQ || bo.Op == token.GEQ) && strings.Contains(f.Atom, "len(") {
				continue
			}
			skipFacts = append(skipFacts, f)
		}
		entered := false
		for _, c := range pt.Conds {
			if _, ok := pt.Resolve(c.T).V.(*ssa.BinOp); ok && c.Branch && strings.Contains(pt.FactOf(c).Atom, "len(") {
				entered = true
			}
		}
		if !entered {
			continue
		}
		if visitedSkip && len(skipFacts) == 0 {
			skippedVisited++
			continue
		}
		bad = fmt.Sprintf("an iteration over the nodes ends without starting the weight calculation for the node, and not because the node was already visited (conditions: %s): that node, and the defects only it would reveal, are never examined", factList(pt.Facts(-1)))
	}
	switch {
	case bad != "":
		r.Bad(rule, construct, p.Pos(fn.Pos()), bad)
	case weighed == 0:
		r.Unknown(rule, construct, p.Pos(fn.Pos()), "no path hands a node of the list to a fallible function of the package: anchors no longer resolve")
	default:
		r.OK(rule, construct, p.Pos(fn.Pos()), "path-enumeration", fmt.Sprintf("%d weighing path(s), %d skip(s) of already visited nodes, no other skip", weighed, skippedVisited))
	}
}

// RootWildcardsReachDependants (C11 "also holds for nodes and edges on or behind tuple cycles"): when a tuple-cycle
// root is resolved, every edge recorded as depending on it, and the node such an edge leaves, must receive the
// wildcards of that ROOT. In every function that walks the dependants list of a root (an indexed read of the
// per-root table of dependant edges), on the enumerated paths (helpers followed):
//
//	(1) some path stores, into the wildcards of a dependant, a list that reads the wildcards of nodes[root];
//	(2) no store into a wildcards list reads the wildcards of anything but the object stored into and nodes[root]
//	    (a dependant patched with its own target's or its own edge's list names types the root does not contribute
//	    and misses those it does).
func RootWildcardsReachDependants(p *load.Prog, r *oblig.Report, rule string, funcs []*ssa.Function) {
	isDepTable := func(t types.Type) bool {
		m, ok := t.Underlying().(*types.Map)
		if !ok {
			return false
		}
		sl, ok := m.Elem().Underlying().(*types.Slice)
		return ok && strings.HasSuffix(sl.Elem().String(), "WeightedAuthorizationModelEdge")
	}
	// an indexed read (a walk) of a per-root table of edges that is handed around as a value — the graph's own
	// adjacency table has the same type but is a field of the graph
	walked := func(lk *ssa.Lookup) bool {
		if lk.CommaOk || !isDepTable(lk.X.Type()) || lk.Referrers() == nil {
			return false
		}
		if ld, ok := lk.X.(*ssa.UnOp); ok {
			if _, isField := ld.X.(*ssa.FieldAddr); isField {
				return false
			}
		}
		for _, ref := range *lk.Referrers() {
			if _, ok := ref.(*ssa.IndexAddr); ok {
				return true
			}
		}
		return false
	}
	found, toEdges, toNodes := 0, 0, 0
	for _, fn := range funcs {
		walks := false
		for _, b := range fn.Blocks {
			for _, in := range b.Instrs {
				if lk, ok := in.(*ssa.Lookup); ok && walked(lk) {
					walks = true
				}
			}
		}
		if !walks {
			continue
		}
		found++
		construct := "root-wildcards:" + load.FuncName(fn)
		ex := &pathx.Explorer{Root: fn, MaxPaths: 30000}
		paths := ex.Explore()
		if ex.Overflow || len(paths) == 0 {
			r.Unknown(rule, construct, p.Pos(fn.Pos()), "paths could not be enumerated")
			continue
		}
		fromRoot := 0
		bad := map[string]string{}
		type skipped struct {
			pt    *pathx.Path
			table string
		}
		var skips []skipped
		rootLists := map[string]bool{}
		for _, pt := range paths {
			// the root: key of the dependants table read on this path
			rootKey, table := "", ""
			for _, v := range pt.Trace {
				for _, in := range v.B.Instrs {
					if lk, ok := in.(*ssa.Lookup); ok && walked(lk) && v.F.Fn == fn {
						rootKey = pt.Render(pathx.Term{V: lk.Index, F: v.F, E: 0})
						table = pt.Render(pathx.Term{V: lk, F: v.F, E: 0})
					}
				}
			}
			if rootKey == "" {
				continue
			}
			rootStores := 0
			for _, ev := range pt.Events {
				st, ok := ev.Instr.(*ssa.Store)
				if !ok {
					continue
				}
				addr := pt.Resolve(ev.Term(st.Addr))
				fa, ok := addr.V.(*ssa.FieldAddr)
				if !ok || structFieldName(fa.X.Type(), fa.Field) != "wildcards" {
					continue
				}
				target := pt.Render(addr.Sub(fa.X))
				// the objects whose wildcards the stored list reads
				srcs := map[string]bool{}
				seen := map[ssa.Value]bool{}
				var walk func(t pathx.Term, depth int)
				walk = func(t pathx.Term, depth int) {
					t = pt.Resolve(t)
					if depth > 10 || t.V == nil || seen[t.V] {
						return
					}
					seen[t.V] = true
					switch x := t.V.(type) {
					case *ssa.UnOp:
						if x.Op != token.MUL {
							return
						}
						a := pt.Resolve(t.Sub(x.X))
						switch ax := a.V.(type) {
						case *ssa.FieldAddr:
							if structFieldName(ax.X.Type(), ax.Field) == "wildcards" {
								srcs[pt.Render(a.Sub(ax.X))] = true
							}
						case *ssa.IndexAddr:
							walk(a.Sub(ax.X), depth+1)
						case *ssa.Alloc:
							// a variadic / literal backing array: its elements
							if ax.Referrers() != nil {
								for _, ref := range *ax.Referrers() {
									if ia, ok := ref.(*ssa.IndexAddr); ok && ia.Referrers() != nil {
										for _, r2 := range *ia.Referrers() {
											if s2, ok := r2.(*ssa.Store); ok {
												walk(a.Sub(s2.Val), depth+1)
											}
										}
									}
								}
							}
						}
					case *ssa.Call:
						for _, a := range x.Common().Args {
							if _, isSlice := a.Type().Underlying().(*types.Slice); isSlice {
								walk(t.Sub(a), depth+1)
							} else if b, ok := a.Type().Underlying().(*types.Basic); ok && b.Kind() == types.String {
								walk(t.Sub(a), depth+1)
							}
						}
					case *ssa.Slice:
						walk(t.Sub(x.X), depth+1)
					case *ssa.Phi:
						for _, e := range x.Edges {
							walk(t.Sub(e), depth+1)
						}
					}
				}
				walk(ev.Term(st.Val), 0)
				for s := range srcs {
					switch {
					case s == target:
					case strings.HasSuffix(s, ".nodes["+rootKey+"]"):
						fromRoot++
						rootStores++
						rootLists[s+".wildcards"] = true
						if strings.HasSuffix(deref(fa.X.Type()).String(), "Edge") {
							toEdges++
						} else {
							toNodes++
							if !strings.Contains(target, ".from.uniqueLabel]") {
								bad["served-node"] = fmt.Sprintf("the node that receives the wildcards of the resolved root is %s, not the node the dependant edge leaves (nodes[edge.from…]) (%s)", pathx.StripUnique(target), p.Pos(st.Pos()))
							}
						}
					default:
						bad[pathx.StripUnique(s)] = fmt.Sprintf("while the dependants of the resolved cycle root %s are patched, the wildcards of %s receive those of %s (%s) — neither the object itself nor the root: the dependant names public types the root does not contribute and misses those it does", pathx.StripUnique(rootKey), pathx.StripUnique(target), pathx.StripUnique(s), p.Pos(st.Pos()))
					}
				}
			}
			if rootStores == 0 && pt.End == "return" {
				skips = append(skips, skipped{pt, table})
			}
		}
		// (3) a dependant is passed over only when there is nothing to hand on: the root's list is empty or exhausted,
		// or what it holds is in the dependant's list already
		for _, sk := range skips {
			entered, excused := false, false
			for _, f := range sk.pt.Facts(-1) {
				if f.Value && strings.Contains(f.Atom, "< len("+sk.table+")") {
					entered = true
				}
				for rl := range rootLists {
					switch {
					case f.Atom == "len("+rl+") == 0" && f.Value, f.Atom == "len("+rl+") > 0" && !f.Value,
						strings.HasSuffix(f.Atom, "< len("+rl+")") && !f.Value:
						excused = true
					}
				}
				if strings.HasPrefix(f.Atom, "slices.Contains(") && f.Value {
					excused = true
				}
			}
			if entered && !excused {
				bad["skipped"] = fmt.Sprintf("a dependant of the resolved cycle root is passed over although the root's wildcard list is neither empty nor already contained in the dependant's (conditions: %s): public types that are reachable through the cycle are missing on that edge or node", factList(sk.pt.Facts(-1)))
			}
		}
		switch {
		case len(bad) > 0:
			keys := make([]string, 0, len(bad))
			for k := range bad {
				keys = append(keys, k)
			}
			sort.Strings(keys)
			for _, k := range keys {
				r.Bad(rule, construct+":"+k, p.Pos(fn.Pos()), bad[k])
			}
		case fromRoot == 0:
			r.Bad(rule, construct, p.Pos(fn.Pos()), "the dependants of a resolved cycle root are walked, but on no path do the wildcards of a dependant receive those of the root: public types reachable through the cycle are missing on and behind it")
		default:
			r.OK(rule, construct, p.Pos(fn.Pos()), "path-enumeration", fmt.Sprintf("%d store(s) of the root's wildcards into dependants; no other source", fromRoot))
		}
	}
	if found == 0 {
		r.Unknown(rule, "root-wildcards:anchor", "-", "no function walks the dependants table of a cycle root: anchors no longer resolve")
	} else if toEdges == 0 || toNodes == 0 {
		r.Bad(rule, "root-wildcards:both-kinds", "-", fmt.Sprintf("when a cycle root is resolved its wildcards must reach the dependant edges AND the nodes those edges leave; found %d store(s) into edges and %d into nodes in the code reachable from Build: one of the two fix-ups is gone or no longer called", toEdges, toNodes))
	}
}

// NoDuplicateOnAppend (C10 / C17 "conditions": one edge per pair with its conditions collected, each once): in the
// edge upsert functions, a value is appended to the list kept in the named field of an existing object only on paths
// that established its absence from that very list — slices.Contains(list, v) false, or a comparison of an element of
// the list with v that failed (the hand-written search loop). A de-duplication applied afterwards to the whole list
// (slices.Compact, which only drops adjacent repeats) does not count.
func NoDuplicateOnAppend(p *load.Prog, r *oblig.Report, rule string, specs []string, field string) {
	for _, spec := range specs {
		parts := strings.Split(spec, ".")
		var fn *ssa.Function
		if len(parts) == 2 {
			fn = p.Func(parts[0], parts[1])
		} else {
			fn = p.Method(parts[0], parts[1], parts[2])
		}
		construct := "no-duplicate-append:" + spec + ":" + field
		if fn == nil {
			r.Unknown(rule, construct, "-", "function not found")
			continue
		}
		ex := &pathx.Explorer{Root: fn, MaxPaths: 20000}
		paths := ex.Explore()
		if ex.Overflow || len(paths) == 0 {
			r.Unknown(rule, construct, p.Pos(fn.Pos()), "paths could not be enumerated")
			continue
		}
		appends, bad := 0, ""
		for _, pt := range paths {
			for _, ev := range pt.Events {
				st, ok := ev.Instr.(*ssa.Store)
				if !ok {
					continue
				}
				addr := pt.Resolve(ev.Term(st.Addr))
				fa, ok := addr.V.(*ssa.FieldAddr)
				if !ok || structFieldName(fa.X.Type(), fa.Field) != field {
					continue
				}
				list := pt.Render(addr)
				// the stored value extends the list it replaces?
				var elem pathx.Term
				var find func(t pathx.Term, depth int) bool
				find = func(t pathx.Term, depth int) bool {
					t = pt.Resolve(t)
					if depth > 6 || t.V == nil {
						return false
					}
					call, ok := t.V.(*ssa.Call)
					if !ok {
						return false
					}
					if b, isB := call.Common().Value.(*ssa.Builtin); isB && b.Name() == "append" && len(call.Common().Args) == 2 {
						if pt.Render(t.Sub(call.Common().Args[0])) == list {
							// the one element of the variadic operand
							if sl, ok := call.Common().Args[1].(*ssa.Slice); ok {
								if al, ok := sl.X.(*ssa.Alloc); ok && al.Referrers() != nil {
									for _, ref := range *al.Referrers() {
										if ia, ok := ref.(*ssa.IndexAddr); ok && ia.Referrers() != nil {
											for _, r2 := range *ia.Referrers() {
												if s2, ok := r2.(*ssa.Store); ok {
													elem = t.Sub(s2.Val)
												}
											}
										}
									}
								}
							}
							return true
						}
						return false
					}
					for _, a := range call.Common().Args {
						if _, isSlice := a.Type().Underlying().(*types.Slice); isSlice && find(t.Sub(a), depth+1) {
							return true
						}
					}
					return false
				}
				if !find(ev.Term(st.Val), 0) {
					continue
				}
				appends++
				ev0 := "?"
				if elem.V != nil {
					ev0 = pt.Render(elem)
				}
				absent := false
				for _, f := range pt.Facts(ev.NCond) {
					if f.Value {
						continue
					}
					if strings.HasPrefix(f.Atom, "slices.Contains("+list+", ") && strings.HasSuffix(f.Atom, ", "+ev0+")") {
						absent = true
					}
					if strings.Contains(f.Atom, " == ") && strings.Contains(f.Atom, list+"[") && strings.Contains(f.Atom, ev0) {
						absent = true
					}
					// the search loop over the list ran to its end (or the list is empty)
					if strings.HasSuffix(f.Atom, "< len("+list+")") {
						absent = true
					}
				}
				if !absent {
					bad = fmt.Sprintf("%s is appended to %s on a path that did not establish that it is not in the list yet (%s; conditions: %s): the same %s can be recorded twice on one edge", pathx.StripUnique(ev0), pathx.StripUnique(list), p.Pos(st.Pos()), factList(pt.Facts(ev.NCond)), strings.TrimSuffix(field, "s"))
				}
			}
		}
		switch {
		case bad != "":
			r.Bad(rule, construct, p.Pos(fn.Pos()), bad)
		case appends == 0:
			r.Unknown(rule, construct, p.Pos(fn.Pos()), "no append to the "+field+" of an existing object found: anchors no longer resolve")
		default:
			r.OK(rule, construct, p.Pos(fn.Pos()), "path-enumeration", fmt.Sprintf("%d appending path(s), each after the absence of the value was established", appends))
		}
	}
}

// StepAlwaysCreatesEdge (C10 / C17 "edges correspond one-to-one to the rewrite"): a translation step that stands for
// exactly one operand — a computed userset — creates its edge on every path that returns without an error; a path
// that returns early (an operand that "leads nowhere", a missing metadata entry) loses the edge and with it the
// paths and cycles that run through it.
func StepAlwaysCreatesEdge(p *load.Prog, r *oblig.Report, rule string, specs []string) {
	edgeAPI := map[string]bool{"AddEdge": true, "UpsertEdge": true, "upsertEdge": true}
	for _, spec := range specs {
		parts := strings.Split(spec, ".")
		var fn *ssa.Function
		if len(parts) == 2 {
			fn = p.Func(parts[0], parts[1])
		} else {
			fn = p.Method(parts[0], parts[1], parts[2])
		}
		construct := "step-creates-edge:" + spec
		if fn == nil {
			r.Unknown(rule, construct, "-", "function not found")
			continue
		}
		ex := &pathx.Explorer{Root: fn, MaxPaths: 5000, Follow: func(c *ssa.Function) bool {
			return c.Pkg == fn.Pkg && len(c.Blocks) > 0 && !edgeAPI[c.Name()] && (c.Parent() != nil || !token.IsExported(c.Name()))
		}}
		paths := ex.Explore()
		if ex.Overflow || len(paths) == 0 {
			r.Unknown(rule, construct, p.Pos(fn.Pos()), "paths could not be enumerated")
			continue
		}
		creating, bad := 0, ""
		for _, pt := range paths {
			if pt.End != "return" {
				continue
			}
			// a return that reports an error is not a translation
			failed := false
			for i := range pt.Ret.Results {
				if types.Identical(pt.Ret.Results[i].Type(), types.Universe.Lookup("error").Type()) {
					rt := pt.Resolve(pt.RetTerm(i))
					if c, ok := rt.V.(*ssa.Const); ok && c.IsNil() {
						continue
					}
					// the error of the edge constructor itself, handed on
					if call, ok := rt.V.(*ssa.Call); ok {
						if cal := call.Common().StaticCallee(); cal != nil && edgeAPI[cal.Name()] {
							continue
						}
					}
					failed = true
				}
			}
			if failed {
				continue
			}
			has := false
			for _, ev := range pt.Events {
				if call, ok := ev.Instr.(*ssa.Call); ok {
					if cal := call.Common().StaticCallee(); cal != nil && edgeAPI[cal.Name()] {
						has = true
					}
				}
			}
			if has {
				creating++
			} else {
				bad = fmt.Sprintf("a path returns without creating the edge of this operand (conditions: %s)", factList(pt.Facts(-1)))
			}
		}
		switch {
		case bad != "":
			r.Bad(rule, construct, p.Pos(fn.Pos()), bad+": the rewrite has an operand the graph has no edge for")
		case creating == 0:
			r.Unknown(rule, construct, p.Pos(fn.Pos()), "no path creates an edge: anchors no longer resolve")
		default:
			r.OK(rule, construct, p.Pos(fn.Pos()), "path-enumeration", fmt.Sprintf("%d returning path(s), each creates the edge", creating))
		}
	}
}

// WildcardNameStrip (C11 "contains type T exactly when a 'T:*' restriction is reachable"): the public type named in a
// wildcard list is the label of the wildcard node 'T:*' without its two-character suffix. Every place that cuts a
// suffix of fixed length off a node label (label[:len(label)-k]) cuts exactly len(":*") characters; one character
// more or less and the lists name "T:" or "" instead of T.
func WildcardNameStrip(p *load.Prog, r *oblig.Report, rule string, funcs []*ssa.Function) {
	n := 0
	for _, f := range funcs {
		for _, b := range f.Blocks {
			for _, in := range b.Instrs {
				sl, ok := in.(*ssa.Slice)
				if !ok || sl.Low != nil || sl.High == nil {
					continue
				}
				if bt, ok := sl.X.Type().Underlying().(*types.Basic); !ok || bt.Info()&types.IsString == 0 {
					continue
				}
				bo, ok := sl.High.(*ssa.BinOp)
				if !ok || bo.Op != token.SUB {
					continue
				}
				lc, ok := bo.X.(*ssa.Call)
				if !ok {
					continue
				}
				if bi, isB := lc.Common().Value.(*ssa.Builtin); !isB || bi.Name() != "len" || lc.Common().Args[0] != sl.X {
					continue
				}
				k, ok := bo.Y.(*ssa.Const)
				if !ok || k.Value == nil {
					continue
				}
				if !strings.Contains(strings.ToLower(AccessPath(sl.X)), "label") {
					continue
				}
				n++
				construct := "wildcard-name:" + load.FuncName(f)
				// only the label of a wildcard node has that suffix
				// accepted guards: kind == SpecificTypeWildcard (if / switch / negated early exit), a suffix test on
				// the label, or a predicate of the repository's own (not looked into: no alarm on an idiom the rule does not know)
				guarded := wildcardGuarded(p, b)
				if !guarded {
					// a helper that only strips: the guard is where it is called
					sites := callSitesOf(funcs, f)
					guarded = len(sites) > 0
					for _, site := range sites {
						if !wildcardGuarded(p, site.Block()) {
							guarded = false
						}
					}
				}
				if !guarded {
					r.Bad(rule, construct, p.Pos(sl.Pos()), "two characters are cut off "+stripUnique(AccessPath(sl.X))+" at a place that is not guarded by 'node kind == SpecificTypeWildcard': the label of a type or relation node loses its last two characters and is recorded as a public type")
				} else if k.Int64() == int64(len(":*")) {
					r.OK(rule, construct, p.Pos(sl.Pos()), "suffix-length", "label[:len(label)-2] under kind == SpecificTypeWildcard")
				} else {
					r.Bad(rule, construct, p.Pos(sl.Pos()), fmt.Sprintf("the name of a public type is taken as %s[:len-%d]; the suffix of a wildcard label ':*' has 2 characters: the wildcard lists would name a string that is not the type", stripUnique(AccessPath(sl.X)), k.Int64()))
				}
			}
		}
	}
	if n == 0 {
		r.Unknown(rule, "wildcard-name", "-", "no place that strips the wildcard suffix off a label was found: anchors no longer resolve")
	}
}

// WildcardListsOnlyGrow (C11 "exactly the reachable public types … no duplicates"): what a node or an edge has
// collected is never thrown away, and what is found missing is added. In every function that stores into a wildcards
// field of an existing node or edge, on the enumerated paths (helpers followed):
//
//	(1) the stored list extends the list it replaces (an append to that same list, possibly inside a merge helper),
//	    unless the path established that the list was empty (len == 0) — a non-empty list is never overwritten;
//	(2) a path that established the absence of an element (slices.Contains(list, w) false) appends it to that list.
func WildcardListsOnlyGrow(p *load.Prog, r *oblig.Report, rule string, funcs []*ssa.Function) {
	judged := 0
	for _, fn := range funcs {
		stores := false
		for _, b := range fn.Blocks {
			for _, in := range b.Instrs {
				if st, ok := in.(*ssa.Store); ok {
					if fa, ok := st.Addr.(*ssa.FieldAddr); ok && structFieldName(fa.X.Type(), fa.Field) == "wildcards" {
						if _, fresh := fa.X.(*ssa.Alloc); !fresh {
							stores = true
						}
					}
				}
			}
		}
		if !stores {
			continue
		}
		construct := "wildcards-grow:" + load.FuncName(fn)
		ex := &pathx.Explorer{Root: fn, MaxPaths: 30000, Follow: func(c *ssa.Function) bool {
			// merge helpers that take and return lists are entered; functions that themselves own a wildcards store are judged on their own
			if c.Pkg != fn.Pkg || len(c.Blocks) == 0 || (c.Parent() == nil && token.IsExported(c.Name())) {
				return false
			}
			for _, b := range c.Blocks {
				for _, in := range b.Instrs {
					if st, ok := in.(*ssa.Store); ok {
						if fa, ok := st.Addr.(*ssa.FieldAddr); ok && structFieldName(fa.X.Type(), fa.Field) == "wildcards" {
							return false
						}
					}
				}
			}
			return true
		}}
		paths := ex.Explore()
		if ex.Overflow || len(paths) == 0 {
			r.Unknown(rule, construct, p.Pos(fn.Pos()), "paths could not be enumerated")
			continue
		}
		judged++
		bad := map[string]string{}
		nStores := 0
		for _, pt := range paths {
			type ext struct {
				list string
				elem string
			}
			var extended []ext
			for _, ev := range pt.Events {
				st, ok := ev.Instr.(*ssa.Store)
				if !ok {
					continue
				}
				addr := pt.Resolve(ev.Term(st.Addr))
				fa, ok := addr.V.(*ssa.FieldAddr)
				if !ok || structFieldName(fa.X.Type(), fa.Field) != "wildcards" {
					continue
				}
				if _, fresh := pt.Resolve(addr.Sub(fa.X)).V.(*ssa.Alloc); fresh {
					continue // a field of an object made on this path
				}
				nStores++
				list := pt.Render(addr)
				// does the value extend the same list?
				extends, elem := false, ""
				var walk func(t pathx.Term, depth int)
				walk = func(t pathx.Term, depth int) {
					t = pt.Resolve(t)
					if depth > 8 || t.V == nil {
						return
					}
					if call, ok := t.V.(*ssa.Call); ok {
						if b, isB := call.Common().Value.(*ssa.Builtin); isB && b.Name() == "append" && len(call.Common().Args) >= 1 {
							if pt.Render(t.Sub(call.Common().Args[0])) == list {
								extends = true
								if len(call.Common().Args) == 2 {
									if sl, ok := call.Common().Args[1].(*ssa.Slice); ok {
										if al, ok := sl.X.(*ssa.Alloc); ok && al.Referrers() != nil {
											for _, ref := range *al.Referrers() {
												if ia, ok := ref.(*ssa.IndexAddr); ok && ia.Referrers() != nil {
													for _, r2 := range *ia.Referrers() {
														if s2, ok := r2.(*ssa.Store); ok {
															elem = pt.Render(t.Sub(s2.Val))
														}
													}
												}
											}
										}
									}
								}
								return
							}
							walk(t.Sub(call.Common().Args[0]), depth+1)
						}
					}
				}
				walk(ev.Term(st.Val), 0)
				if pt.Render(ev.Term(st.Val)) == list {
					continue // the list itself handed back by a merge helper that had nothing to add
				}
				if extends {
					extended = append(extended, ext{list, elem})
					continue
				}
				// a replacement: only of an empty list
				empty := false
				for _, f := range pt.Facts(ev.NCond) {
					if (f.Atom == "len("+list+") == 0" && f.Value) || (f.Atom == "len("+list+") > 0" && !f.Value) {
						empty = true
					}
				}
				if !empty {
					bad["overwrite:"+pathx.StripUnique(list)] = fmt.Sprintf("%s is replaced by %s on a path that did not establish that it was empty (%s; conditions: %s): public types collected so far are thrown away", pathx.StripUnique(list), pathx.StripUnique(pt.Render(ev.Term(st.Val))), p.Pos(st.Pos()), factList(pt.Facts(ev.NCond)))
				}
			}
			// (2) what was found missing is added
			if pt.End == "return" {
				for _, f := range pt.Facts(-1) {
					if f.Value || !strings.HasPrefix(f.Atom, "slices.Contains(") || !strings.Contains(f.Atom, ".wildcards, ") {
						continue
					}
					inner := strings.TrimSuffix(strings.TrimPrefix(f.Atom, "slices.Contains("), ")")
					i := strings.Index(inner, ".wildcards, ")
					list, elem := inner[:i+len(".wildcards")], inner[i+len(".wildcards, "):]
					added := false
					for _, e := range extended {
						if e.list == list && (e.elem == elem || e.elem == "") {
							added = true
						}
					}
					if !added {
						bad["not-added:"+pathx.StripUnique(list)] = fmt.Sprintf("%s was found missing from %s but is not appended on that path (conditions: %s): a reachable public type is left out of the list", pathx.StripUnique(elem), pathx.StripUnique(list), factList(pt.Facts(-1)))
					}
				}
			}
		}
		switch {
		case len(bad) > 0:
			keys := make([]string, 0, len(bad))
			for k := range bad {
				keys = append(keys, k)
			}
			sort.Strings(keys)
			for _, k := range keys {
				r.Bad(rule, construct+":"+k, p.Pos(fn.Pos()), bad[k])
			}
		default:
			r.OK(rule, construct, p.Pos(fn.Pos()), "path-enumeration", fmt.Sprintf("%d store(s) on the enumerated paths: each extends the list or replaces an empty one; nothing found missing is left out", nStores))
		}
	}
	// (3) a loop that walks the wildcard list of a source (to merge it into another list) appends: a merge loop whose
	// body adds nothing leaves the destination without the source's public types
	for _, fn := range funcs {
		for _, b := range fn.Blocks {
			for _, in := range b.Instrs {
				ia, ok := in.(*ssa.IndexAddr)
				if !ok {
					continue
				}
				ld, ok := ia.X.(*ssa.UnOp)
				if !ok || ld.Op != token.MUL {
					continue
				}
				fa, ok := ld.X.(*ssa.FieldAddr)
				if !ok || structFieldName(fa.X.Type(), fa.Field) != "wildcards" {
					continue
				}
				idx := ia.Index
				if bo, ok := idx.(*ssa.BinOp); ok && bo.Op == token.ADD {
					idx = bo.X
				}
				ph, ok := idx.(*ssa.Phi)
				if !ok {
					continue
				}
				hdr := ph.Block()
				// body: blocks dominated by the header from which the header is reachable again
				appends := false
				for _, bb := range fn.Blocks {
					if bb == hdr || !hdr.Dominates(bb) || !reachesBlockE5(bb, hdr) {
						continue
					}
					for _, bi := range bb.Instrs {
						if c, ok := bi.(*ssa.Call); ok {
							if bt, isB := c.Common().Value.(*ssa.Builtin); isB && bt.Name() == "append" {
								appends = true
							}
							if cal := c.Common().StaticCallee(); cal != nil && cal.Pkg == fn.Pkg && len(cal.Blocks) > 0 {
								appends = true // handed to a helper of the package: judged there
							}
						}
					}
				}
				construct := "wildcards-merge-loop:" + load.FuncName(fn)
				if appends {
					r.OK(rule, construct, p.Pos(ia.Pos()), "loop-appends", "the loop over "+stripUnique(AccessPath(ld))+" appends")
				} else {
					r.Bad(rule, construct, p.Pos(ia.Pos()), "the loop over "+stripUnique(AccessPath(ld))+" adds nothing to any list: the public types of the source never reach a destination that is not empty")
				}
			}
		}
	}
	// (4) a membership test on a wildcard list is there to decide an append: one whose result nothing uses is the
	// remains of an append that is gone
	for _, fn := range funcs {
		for _, b := range fn.Blocks {
			for _, in := range b.Instrs {
				c, ok := in.(*ssa.Call)
				if !ok {
					continue
				}
				cal := c.Common().StaticCallee()
				if cal == nil || len(c.Common().Args) != 2 {
					continue
				}
				o := cal
				if cal.Origin() != nil {
					o = cal.Origin()
				}
				if o.Pkg == nil || o.Pkg.Pkg.Path() != "slices" || o.Name() != "Contains" || !strings.HasSuffix(AccessPath(c.Common().Args[0]), ".wildcards") {
					continue
				}
				used := false
				if refs := c.Referrers(); refs != nil {
					for _, ref := range *refs {
						if _, dbg := ref.(*ssa.DebugRef); !dbg {
							used = true
						}
					}
				}
				if !used {
					r.Bad(rule, "wildcards-test-unused:"+load.FuncName(fn), p.Pos(c.Pos()), "the result of slices.Contains("+stripUnique(AccessPath(c.Common().Args[0]))+", …) is not used: the element it asks about is never appended")
				}
			}
		}
	}
	if judged == 0 {
		r.Unknown(rule, "wildcards-grow", "-", "no function that stores into a wildcards field of an existing node or edge was found: anchors no longer resolve")
	}
}

func reachesBlockE5(from, to *ssa.BasicBlock) bool {
	seen := map[*ssa.BasicBlock]bool{}
	stack := []*ssa.BasicBlock{from}
	for len(stack) > 0 {
		b := stack[len(stack)-1]
		stack = stack[:len(stack)-1]
		for _, s := range b.Succs {
			if s == to {
				return true
			}
			if !seen[s] {
				seen[s] = true
				stack = append(stack, s)
			}
		}
	}
	return false
}

// NoTerminalTypeRejected (C05 "a relation that reaches no terminal type … is an error"): wherever the weight
// calculation finds that a node has no outgoing edge (len(edges) == 0), the paths on which the node is not a terminal
// type (a type or a wildcard) end in a non-nil error. Judged in the functions of the reachable graph code that test
// the emptiness of a node's edge list; decided on their enumerated paths.
func NoTerminalTypeRejected(p *load.Prog, r *oblig.Report, rule string, funcs []*ssa.Function) {
	tType, ok1 := constOf(p, "graph", "SpecificType")
	tWild, ok2 := constOf(p, "graph", "SpecificTypeWildcard")
	if !ok1 || !ok2 {
		r.Unknown(rule, "no-terminal-type:anchor", "-", "node kind constants not found")
		return
	}
	terminal := map[string]bool{tType.ExactString(): true, tWild.ExactString(): true}
	emptyRe := regexp.MustCompile(`^len\(.*edges\[.*\]\) == 0$`)
	kindRe := regexp.MustCompile(`\.nodeType == (\d+)$`)
	n := 0
	for _, fn := range funcs {
		has := false
		paramEmpty := map[string]bool{} // a helper that is handed the edge list of the node
		for _, b := range fn.Blocks {
			for _, in := range b.Instrs {
				if bo, ok := in.(*ssa.BinOp); ok && (bo.Op == token.EQL || bo.Op == token.GTR || bo.Op == token.NEQ) {
					if c, ok := bo.X.(*ssa.Call); ok {
						isEdgeListParam := false
						if len(c.Common().Args) == 0 {
							continue
						}
						if prm, isP := c.Common().Args[0].(*ssa.Parameter); isP {
							if sl, isS := prm.Type().Underlying().(*types.Slice); isS && strings.HasSuffix(sl.Elem().String(), "WeightedAuthorizationModelEdge") {
								isEdgeListParam = true
								paramEmpty["len("+prm.Name()+") == 0"] = true
							}
						}
						if bi, isB := c.Common().Value.(*ssa.Builtin); isB && bi.Name() == "len" && (isEdgeListParam || strings.Contains(AccessPath(c.Common().Args[0]), ".edges[")) {
							has = true
							// "no outgoing edge" is a comparison with 0
							if k, isC := bo.Y.(*ssa.Const); isC && k.Value != nil && bo.Op == token.EQL && k.Int64() != 0 && returnsErr(fn) {
								n++
								r.Bad(rule, "no-terminal-type:"+load.FuncName(fn)+":bound", p.Pos(bo.Pos()), fmt.Sprintf("the test for a node without outgoing edges compares the number of edges with %d, not with 0: a relation that reaches nothing is not recognised", k.Int64()))
							}
						}
					}
				}
			}
		}
		if !has || !returnsErr(fn) {
			continue
		}
		ex := &pathx.Explorer{Root: fn, MaxPaths: 20000, Follow: func(c *ssa.Function) bool { return false }}
		paths := ex.Explore()
		if ex.Overflow || len(paths) == 0 {
			continue
		}
		construct := "no-terminal-type:" + load.FuncName(fn)
		judgedPaths, bad := 0, ""
		for _, pt := range paths {
			if pt.End != "return" {
				continue
			}
			empty, isTerminal := false, false
			nonTerminalFacts := 0
			for _, f := range pt.Facts(-1) {
				if (emptyRe.MatchString(f.Atom) || paramEmpty[f.Atom]) && f.Value {
					empty = true
				}
				if m := kindRe.FindStringSubmatch(f.Atom); m != nil {
					if terminal[m[1]] && f.Value {
						isTerminal = true
					}
					if terminal[m[1]] && !f.Value {
						nonTerminalFacts++
					}
				}
			}
			if !empty || isTerminal {
				continue
			}
			judgedPaths++
			// the error result
			failed := false
			for i := range pt.Ret.Results {
				if types.Identical(pt.Ret.Results[i].Type(), types.Universe.Lookup("error").Type()) {
					if c, ok := pt.Resolve(pt.RetTerm(i)).V.(*ssa.Const); !ok || !c.IsNil() {
						failed = true
					}
				}
			}
			if !failed {
				bad = fmt.Sprintf("a path on which the node has no outgoing edge and is not known to be a terminal type returns without an error (conditions: %s): a relation that reaches no terminal type is accepted", factList(pt.Facts(-1)))
			}
		}
		if judgedPaths == 0 {
			continue
		}
		n++
		if bad != "" {
			r.Bad(rule, construct, p.Pos(fn.Pos()), bad)
		} else {
			r.OK(rule, construct, p.Pos(fn.Pos()), "path-enumeration", fmt.Sprintf("%d path(s) with an empty edge list and no terminal kind, each ends in an error", judgedPaths))
		}
	}
	if n == 0 {
		r.Unknown(rule, "no-terminal-type", "-", "no function that tests the emptiness of a node's edge list was found: anchors no longer resolve")
	}
}

func returnsErr(fn *ssa.Function) bool {
	res := fn.Signature.Results()
	for i := 0; i < res.Len(); i++ {
		if types.Identical(res.At(i).Type(), types.Universe.Lookup("error").Type()) {
			return true
		}
	}
	return false
}

// PlaceholderRegistered (C05 / C04 "no unresolved cycle placeholder is ever visible"): an edge that is given the
// placeholder weight of an unresolved cycle root ("R#" + root) is, on the same path, filed in the dependants table
// under that root — otherwise nothing ever replaces the placeholder when the root is resolved.
func PlaceholderRegistered(p *load.Prog, r *oblig.Report, rule string, funcs []*ssa.Function) {
	isDepTable := func(t types.Type) bool {
		m, ok := t.Underlying().(*types.Map)
		if !ok {
			return false
		}
		sl, ok := m.Elem().Underlying().(*types.Slice)
		return ok && strings.HasSuffix(sl.Elem().String(), "WeightedAuthorizationModelEdge")
	}
	n := 0
	for _, fn := range funcs {
		has := false
		for _, b := range fn.Blocks {
			for _, in := range b.Instrs {
				if mu, ok := in.(*ssa.MapUpdate); ok {
					if bo, ok := mu.Key.(*ssa.BinOp); ok && bo.Op == token.ADD {
						if c, ok := bo.X.(*ssa.Const); ok && c.Value != nil && c.Value.Kind() == constant.String && constant.StringVal(c.Value) == "R#" {
							has = true
						}
					}
				}
			}
		}
		if !has {
			continue
		}
		construct := "placeholder-registered:" + load.FuncName(fn)
		// small helpers (a "depends on" recorder) are entered; the recursive weight calculation (anything that can fail) is not
		ex := &pathx.Explorer{Root: fn, MaxPaths: 30000, Follow: func(c *ssa.Function) bool {
			return c.Pkg == fn.Pkg && len(c.Blocks) > 0 && len(c.Blocks) <= 4 && !returnsErr(c) && (c.Parent() != nil || !token.IsExported(c.Name()))
		}}
		paths := ex.Explore()
		if ex.Overflow || len(paths) == 0 {
			r.Unknown(rule, construct, p.Pos(fn.Pos()), "paths could not be enumerated")
			continue
		}
		n++
		placed, bad := 0, ""
		for _, pt := range paths {
			for _, ev := range pt.Events {
				mu, ok := ev.Instr.(*ssa.MapUpdate)
				if !ok {
					continue
				}
				bo, ok := mu.Key.(*ssa.BinOp)
				if !ok || bo.Op != token.ADD {
					continue
				}
				c, ok := bo.X.(*ssa.Const)
				if !ok || c.Value == nil || c.Value.Kind() != constant.String || constant.StringVal(c.Value) != "R#" {
					continue
				}
				placed++
				root := pt.Render(ev.Term(bo.Y))
				registered := false
				for _, e2 := range pt.Events {
					m2, ok := e2.Instr.(*ssa.MapUpdate)
					if !ok || !isDepTable(m2.Map.Type()) {
						continue
					}
					if pt.Render(e2.Term(m2.Key)) == root {
						registered = true
					}
				}
				if !registered {
					bad = fmt.Sprintf("an edge is given the placeholder weight \"R#\"+%s on a path that does not file it among the dependants of %s (%s): when that root is resolved nothing replaces the placeholder", pathx.StripUnique(root), pathx.StripUnique(root), p.Pos(mu.Pos()))
				}
			}
		}
		switch {
		case bad != "":
			r.Bad(rule, construct, p.Pos(fn.Pos()), bad)
		case placed == 0:
			r.Unknown(rule, construct, p.Pos(fn.Pos()), "no placeholder store met on the enumerated paths")
		default:
			r.OK(rule, construct, p.Pos(fn.Pos()), "path-enumeration", fmt.Sprintf("%d placeholder store(s), each with the edge filed under the same root on its path", placed))
		}
	}
	if n == 0 {
		r.Unknown(rule, "placeholder-registered", "-", "no store of a \"R#\" placeholder weight found: anchors no longer resolve")
	}
}

// CycleSegmentStart (C05 "a cycle of rewrites needs no tuple … is an error; a cycle through a tuple edge is not"): when
// the search comes back to a node that is still open, the cycle is the part of the ancestor path that starts with
// the first edge LEAVING that node; whether a tuple edge lies on the cycle is asked of that part only. The function
// that classifies the back edge locates the start by comparing the revisited node with the SOURCE of an ancestor
// edge; a comparison with the TARGET of an ancestor edge takes in the edge through which the search entered the
// cycle, which is not part of it. Judged in isTupleCycle, its closures and the helpers of its package it calls.
func CycleSegmentStart(p *load.Prog, r *oblig.Report, rule string) {
	fn := p.Method("graph", "WeightedAuthorizationModelGraph", "isTupleCycle")
	construct := "cycle-segment-start:isTupleCycle"
	if fn == nil {
		r.Unknown(rule, construct, "-", "isTupleCycle not found")
		return
	}
	var node *ssa.Parameter
	for _, q := range fn.Params {
		if b, ok := q.Type().Underlying().(*types.Basic); ok && b.Kind() == types.String {
			node = q
		}
	}
	if node == nil {
		r.Unknown(rule, construct, p.Pos(fn.Pos()), "isTupleCycle has no node parameter")
		return
	}
	// the functions judged, each with what the node parameter is called there
	type ctx struct {
		f    *ssa.Function
		node map[ssa.Value]bool
	}
	work := []ctx{{fn, map[ssa.Value]bool{node: true}}}
	seen := map[*ssa.Function]bool{fn: true}
	fromCmp, toCmp := 0, ""
	kindOnSource := ""
	for len(work) > 0 {
		c := work[0]
		work = work[1:]
		isNode := func(v ssa.Value) bool {
			for i := 0; i < 4; i++ {
				if c.node[v] {
					return true
				}
				switch x := v.(type) {
				case *ssa.UnOp:
					v = x.X // a captured variable read through its cell
					continue
				case *ssa.ChangeType:
					v = x.X
					continue
				}
				break
			}
			return false
		}
		endpoint := func(v ssa.Value) string {
			pth := AccessPath(v)
			switch {
			case strings.HasSuffix(pth, ".from.uniqueLabel"):
				return "from"
			case strings.HasSuffix(pth, ".to.uniqueLabel"):
				return "to"
			}
			return ""
		}
		for _, b := range c.f.Blocks {
			for _, in := range b.Instrs {
				switch x := in.(type) {
				case *ssa.BinOp:
					if x.Op != token.EQL && x.Op != token.NEQ {
						continue
					}
					// "a direct edge into a userset" is a test on the edge's target
					for _, side := range []ssa.Value{x.X, x.Y} {
						if cst, ok := side.(*ssa.Const); ok && cst.Value != nil && strings.HasSuffix(cst.Type().String(), ".NodeType") {
							otherSide := x.X
							if side == x.X {
								otherSide = x.Y
							}
							if strings.HasSuffix(AccessPath(otherSide), ".from.nodeType") {
								kindOnSource = p.Pos(x.Pos())
							}
						}
					}
					var other ssa.Value
					switch {
					case isNode(x.X):
						other = x.Y
					case isNode(x.Y):
						other = x.X
					default:
						continue
					}
					switch endpoint(other) {
					case "from":
						fromCmp++
					case "to":
						toCmp = p.Pos(x.Pos())
					}
				case *ssa.MakeClosure:
					if cf, ok := x.Fn.(*ssa.Function); ok && !seen[cf] {
						seen[cf] = true
						nm := map[ssa.Value]bool{}
						for i, fv := range cf.FreeVars {
							if i < len(x.Bindings) && isNode(x.Bindings[i]) {
								nm[fv] = true
							}
							// a cell that holds the parameter
							if i < len(x.Bindings) {
								if al, ok := x.Bindings[i].(*ssa.Alloc); ok && al.Referrers() != nil {
									for _, ref := range *al.Referrers() {
										if st, ok := ref.(*ssa.Store); ok && isNode(st.Val) {
											nm[fv] = true
										}
									}
								}
							}
						}
						work = append(work, ctx{cf, nm})
					}
				case *ssa.Call:
					if cal := x.Common().StaticCallee(); cal != nil && cal.Pkg == fn.Pkg && len(cal.Blocks) > 0 && !seen[cal] && !token.IsExported(cal.Name()) {
						nm := map[ssa.Value]bool{}
						for i, a := range x.Common().Args {
							if isNode(a) && i < len(cal.Params) {
								nm[cal.Params[i]] = true
							}
						}
						if len(nm) > 0 {
							seen[cal] = true
							work = append(work, ctx{cal, nm})
						}
					}
				}
			}
		}
	}
	// on the enumerated paths: the answer "tuple cycle" (the constant true) is given only after the start of the cycle
	// segment was recognised on that path — a scan that counts tuple edges from the beginning of the ancestor path
	// takes in edges that lie before the cycle
	earlyTrue := ""
	{
		ex := &pathx.Explorer{Root: fn, MaxPaths: 20000}
		for _, pt := range ex.Explore() {
			if pt.End != "return" || len(pt.Ret.Results) != 1 {
				continue
			}
			c, ok := pt.Resolve(pt.RetTerm(0)).V.(*ssa.Const)
			if !ok || c.Value == nil || c.Value.Kind() != constant.Bool || !constant.BoolVal(c.Value) {
				continue
			}
			started := false
			for _, f := range pt.Facts(-1) {
				if f.Value && strings.Contains(f.Atom, ".from.uniqueLabel == ") && strings.HasSuffix(f.Atom, "== "+node.Name()) {
					started = true
				}
				if f.Value && strings.HasPrefix(f.Atom, node.Name()+" == ") && strings.HasSuffix(f.Atom, ".from.uniqueLabel") {
					started = true
				}
			}
			if !started && !ex.Overflow {
				earlyTrue = fmt.Sprintf("conditions: %s", factList(pt.Facts(-1)))
			}
		}
	}
	// the verdict is a function of the ancestor path of THIS call: an answer read from a table (a verdict remembered
	// per node) is the verdict of another path
	remembered := ""
	for _, b := range fn.Blocks {
		ret, ok := b.Instrs[len(b.Instrs)-1].(*ssa.Return)
		if !ok || len(ret.Results) != 1 {
			continue
		}
		var from func(v ssa.Value, depth int) bool
		from = func(v ssa.Value, depth int) bool {
			if depth > 6 {
				return false
			}
			switch x := v.(type) {
			case *ssa.Lookup:
				_, isMap := x.X.Type().Underlying().(*types.Map)
				return isMap
			case *ssa.Extract:
				return from(x.Tuple, depth+1)
			case *ssa.Phi:
				for _, e := range x.Edges {
					if from(e, depth+1) {
						return true
					}
				}
			case *ssa.UnOp:
				if x.Op == token.NOT {
					return from(x.X, depth+1)
				}
				if fa, ok := x.X.(*ssa.FieldAddr); ok && x.Op == token.MUL && len(fn.Params) > 0 && fa.X == ssa.Value(fn.Params[0]) {
					return true
				}
			}
			return false
		}
		if from(ret.Results[0], 0) {
			remembered = p.Pos(ret.Pos())
		}
	}
	switch {
	case remembered != "":
		r.Bad(rule, construct, remembered, "the answer is read from a table or a field instead of being derived from the ancestor path handed in: whether a back edge closes a tuple cycle depends on the edges between the revisited node and the current one, and two back edges to the same node can differ in that")
	case earlyTrue != "" && toCmp == "":
		r.Bad(rule, construct, p.Pos(fn.Pos()), "the back edge is classified as a tuple cycle on a path that did not recognise where the cycle starts (no ancestor edge was found to leave the revisited node; "+earlyTrue+"): tuple edges that lie before the cycle are counted, so a rewrite-only cycle reached over a tuple edge passes")
	case kindOnSource != "":
		r.Bad(rule, construct, kindOnSource, "whether an ancestor edge is a tuple edge is asked of the kind of its SOURCE node: a direct edge needs a tuple when it leads INTO a userset (type#relation), whatever it leaves")
	case toCmp != "":
		r.Bad(rule, construct, toCmp, "the revisited node is compared with the TARGET of an ancestor edge: the edge through which the search entered the cycle is counted as part of the cycle, so a rewrite-only cycle reached over a tuple edge passes as a tuple cycle")
	case fromCmp == 0:
		r.Unknown(rule, construct, p.Pos(fn.Pos()), "no comparison of the revisited node with the source of an ancestor edge found: the start of the cycle segment is located in a way this rule does not read")
	default:
		r.OK(rule, construct, p.Pos(fn.Pos()), "endpoint-comparisons", fmt.Sprintf("%d comparison(s) with the source of an ancestor edge, none with a target", fromCmp))
	}
}

// NoDiscardedMaps (weight calculation): a map that a function makes and fills is stored, returned or handed on; a map
// whose only uses are its own updates and lookups is a result that is computed and thrown away (the assignment that
// published it is gone), so the object it was computed for keeps its stale — unresolved — content.
func NoDiscardedMaps(p *load.Prog, r *oblig.Report, rule string, funcs []*ssa.Function) {
	made, bad := 0, 0
	for _, fn := range funcs {
		if fn.Pkg == nil || !load.IsRepoPkg(fn.Pkg.Pkg) {
			continue
		}
		for _, b := range fn.Blocks {
			for _, in := range b.Instrs {
				mk, ok := in.(*ssa.MakeMap)
				if !ok || mk.Referrers() == nil {
					continue
				}
				made++
				written, published := false, false
				for _, ref := range *mk.Referrers() {
					switch x := ref.(type) {
					case *ssa.MapUpdate:
						if x.Map == ssa.Value(mk) {
							written = true
						} else {
							published = true
						}
					case *ssa.Lookup:
						// a local index: what is looked up is used for something other than filling this same map
						if valueEscapesMap(x, mk, 0) {
							published = true
						}
					case *ssa.DebugRef, *ssa.Range:
					case *ssa.Call:
						if bi, isB := x.Common().Value.(*ssa.Builtin); isB && (bi.Name() == "len" || bi.Name() == "delete") {
							continue
						}
						published = true
					default:
						published = true
					}
				}
				if written && !published {
					bad++
					r.Bad(rule, "discarded-map:"+load.FuncName(fn), p.Pos(mk.Pos()), "a map is made and filled in "+load.FuncName(fn)+" but never stored, returned or handed on: what was computed into it is thrown away")
				}
			}
		}
	}
	if bad == 0 {
		r.OK(rule, "discarded-map", "-", "def-use", fmt.Sprintf("%d maps made in the reachable repository functions, each one that is filled is also stored, returned or handed on", made))
	}
}

// AccessorFidelity (what a user of the graph sees): an exported parameterless method of a node / edge type whose body
// is "return receiver.field" returns the field it is named after (GetFrom → from, GetTo → to, GetWildcards →
// wildcards, Label → label …). The graph is observed through these accessors; one that hands out a sibling field of
// the same type (to for from, conditions for wildcards) turns every edge round for the caller while the structure
// itself, and every test that reads the fields directly, stays right.
func AccessorFidelity(p *load.Prog, r *oblig.Report, rule string, typeNames []string) {
	pk := p.Pkgs["graph"]
	if pk == nil {
		r.Unknown(rule, "accessor:anchor", "-", "package graph not loaded")
		return
	}
	n := 0
	for _, tn := range typeNames {
		obj := pk.Types.Scope().Lookup(tn)
		if obj == nil {
			r.Unknown(rule, "accessor:anchor:"+tn, "-", "type not found")
			continue
		}
		named, ok := obj.Type().(*types.Named)
		if !ok {
			continue
		}
		for i := 0; i < named.NumMethods(); i++ {
			m := named.Method(i)
			if !m.Exported() {
				continue
			}
			f := p.SSA.FuncValue(m)
			if f == nil || len(f.Blocks) != 1 || len(f.Params) != 1 {
				continue
			}
			ret, ok := f.Blocks[0].Instrs[len(f.Blocks[0].Instrs)-1].(*ssa.Return)
			if !ok || len(ret.Results) != 1 {
				continue
			}
			ld, ok := ret.Results[0].(*ssa.UnOp)
			if !ok || ld.Op != token.MUL {
				continue
			}
			fa, ok := ld.X.(*ssa.FieldAddr)
			if !ok || fa.X != ssa.Value(f.Params[0]) {
				continue
			}
			field := structFieldName(fa.X.Type(), fa.Field)
			want := strings.TrimPrefix(m.Name(), "Get")
			n++
			construct := "accessor:" + tn + "." + m.Name()
			if strings.EqualFold(want, field) {
				r.OK(rule, construct, p.Pos(f.Pos()), "name=field", field)
			} else {
				r.Bad(rule, construct, p.Pos(f.Pos()), m.Name()+" returns the field "+field+": callers that walk the graph through its accessors see "+field+" where they ask for "+strings.ToLower(want[:1])+want[1:])
			}
		}
	}
	if n == 0 {
		r.Unknown(rule, "accessor", "-", "no field accessor found on the graph types: anchors no longer resolve")
	}
}

// ConstructorAlwaysAdds (C10.10): AddEdge is the constructor the builders call once per operand occurrence; every
// path through it that was not turned away by a nil argument adds the edge (the store into the edge table, or
// gonum's SetLine). De-duplication is what UpsertEdge is for and its callers ask for it; an AddEdge that looks first
// and returns when "the edge is already there" merges the operands of 'a or a', 'x but not x', and leaves an
// operator node with fewer edges than the rewrite has operands.
func ConstructorAlwaysAdds(p *load.Prog, r *oblig.Report, rule, typ, method, sink string) {
	fn := p.Method("graph", typ, method)
	construct := "constructor-adds:" + typ + "." + method
	if fn == nil {
		r.Unknown(rule, construct, "-", "function not found")
		return
	}
	ex := &pathx.Explorer{Root: fn, MaxPaths: 5000, Follow: func(c *ssa.Function) bool { return false }}
	paths := ex.Explore()
	if ex.Overflow || len(paths) == 0 {
		r.Unknown(rule, construct, p.Pos(fn.Pos()), "paths could not be enumerated")
		return
	}
	adding, bad := 0, ""
	for _, pt := range paths {
		if pt.End != "return" {
			continue
		}
		excused := false
		for _, f := range pt.Facts(-1) {
			if f.Value && strings.HasSuffix(f.Atom, " == nil") {
				excused = true
			}
		}
		has := false
		for _, ev := range pt.Events {
			switch x := ev.Instr.(type) {
			case *ssa.MapUpdate:
				if sink == "edges" && strings.HasSuffix(pt.Render(ev.Term(x.Map)), ".edges") {
					has = true
				}
			case *ssa.Call:
				if x.Common().IsInvoke() && x.Common().Method.Name() == sink {
					has = true
				}
				if cal := x.Common().StaticCallee(); cal != nil && cal.Name() == sink {
					has = true
				}
			}
		}
		if has {
			adding++
		} else if !excused {
			bad = factList(pt.Facts(-1))
		}
	}
	switch {
	case bad != "":
		r.Bad(rule, construct, p.Pos(fn.Pos()), method+" returns without adding the edge on a path that no nil argument excuses (conditions: "+bad+"): an operand that occurs twice, or an edge some other step created first, leaves the graph with fewer edges than the rewrite has operands")
	case adding == 0:
		r.Unknown(rule, construct, p.Pos(fn.Pos()), "no path of "+method+" adds an edge: anchor no longer resolves")
	default:
		r.OK(rule, construct, p.Pos(fn.Pos()), "path-enumeration", fmt.Sprintf("%d returning path(s) add the edge; the others were turned away by a nil argument", adding))
	}
}

// wildcardGuarded: the block is only reached when the node kind is SpecificTypeWildcard (if / switch / negated early
// exit), after a suffix test on the label, or after a predicate of the repository's own (not looked into: no alarm
// on an idiom the rule does not know).
func wildcardGuarded(p *load.Prog, b *ssa.BasicBlock) bool {
	tw, _ := constOf(p, "graph", "SpecificTypeWildcard")
	for _, ce := range DominatingConds(b) {
		switch c := ce.Cond.(type) {
		case *ssa.BinOp:
			if !(c.Op == token.EQL && ce.Branch) && !(c.Op == token.NEQ && !ce.Branch) {
				continue
			}
			for _, side := range []ssa.Value{c.X, c.Y} {
				if k, ok := side.(*ssa.Const); ok && tw != nil && k.Value != nil && strings.HasSuffix(k.Type().String(), ".NodeType") && constant.Compare(k.Value, token.EQL, tw) {
					return true
				}
			}
		case *ssa.Call:
			if !ce.Branch {
				continue
			}
			if callee := c.Call.StaticCallee(); callee != nil {
				if callee.Pkg != nil && callee.Pkg.Pkg.Path() == "strings" && callee.Name() != "HasSuffix" {
					continue
				}
				return true
			}
		}
	}
	return false
}

// PlaceholderNeedsTuple (C05.9): the placeholder weight "R#"+root says "this edge closes a cycle that a tuple breaks;
// its weight comes when the root is resolved". It may be given only where a tuple on the cycle was established on
// that path: the verdict of the cycle classifier (isTupleCycle … true), or the kind of the edge itself compared with
// a tuple kind (TTU, direct). An edge from a node to itself is such a cycle of length one: 'define a: a' draws a
// computed one, and a placeholder given to it without asking for its kind accepts a relation that is defined as
// itself.
func PlaceholderNeedsTuple(p *load.Prog, r *oblig.Report, rule string, funcs []*ssa.Function) {
	n := 0
	for _, fn := range funcs {
		has := false
		for _, b := range fn.Blocks {
			for _, in := range b.Instrs {
				if mu, ok := in.(*ssa.MapUpdate); ok && isPlaceholderKey(mu.Key) {
					has = true
				}
			}
		}
		if !has {
			// a caller of a small helper that gives the placeholder is where the evidence is
			for _, b := range fn.Blocks {
				for _, in := range b.Instrs {
					if call, ok := in.(*ssa.Call); ok {
						if cal := call.Common().StaticCallee(); cal != nil && placesPlaceholder(cal) && isSmallHelper(cal, fn) {
							has = true
						}
					}
				}
			}
		} else if isSmallHelper(fn, fn) && len(callSitesOf(funcs, fn)) > 0 {
			continue // judged where it is called
		}
		if !has {
			continue
		}
		construct := "placeholder-needs-tuple:" + load.FuncName(fn)
		ex := &pathx.Explorer{Root: fn, MaxPaths: 30000, Follow: func(c *ssa.Function) bool {
			// a classifier (it is handed the ancestor path) stays a call: its verdict is the evidence looked for
			for _, q := range c.Params {
				if sl, ok := q.Type().Underlying().(*types.Slice); ok && strings.HasSuffix(sl.Elem().String(), "WeightedAuthorizationModelEdge") {
					return false
				}
			}
			return isSmallHelper(c, fn)
		}}
		paths := ex.Explore()
		if ex.Overflow || len(paths) == 0 {
			r.Unknown(rule, construct, p.Pos(fn.Pos()), "paths could not be enumerated")
			continue
		}
		n++
		placed, bad := 0, ""
		for _, pt := range paths {
			for _, ev := range pt.Events {
				mu, ok := ev.Instr.(*ssa.MapUpdate)
				if !ok || !isPlaceholderKey(mu.Key) {
					continue
				}
				// a substitution that copies an existing placeholder (the fix-up loops) is not the place where one is given
				if c, ok := mu.Value.(*ssa.Const); !ok || c.Value == nil {
					if !strings.Contains(pt.Render(ev.Term(mu.Value)), "Infinite") {
						continue
					}
				}
				placed++
				established := false
				for _, f := range pt.Facts(ev.NCond) {
					if f.Value && (strings.Contains(f.Atom, ".edgeType == ") || strings.Contains(f.Atom, "EdgeType() == ")) {
						established = true
					}
					// the verdict of a classifier of the package that is handed the ancestor path
					t, val := pt.Resolve(f.Cond.T), f.Cond.Branch
					for {
						u, ok := t.V.(*ssa.UnOp)
						if !ok || u.Op != token.NOT {
							break
						}
						t, val = pt.Resolve(t.Sub(u.X)), !val
					}
					if call, ok := t.V.(*ssa.Call); ok && val {
						if cal := call.Common().StaticCallee(); cal != nil && cal.Pkg == fn.Pkg {
							for _, a := range call.Common().Args {
								if sl, ok := a.Type().Underlying().(*types.Slice); ok && strings.HasSuffix(sl.Elem().String(), "WeightedAuthorizationModelEdge") {
									established = true
								}
							}
						}
					}
				}
				if os.Getenv("VERIF_PH_DEBUG") != "" {
					fmt.Fprintln(os.Stderr, "PH", p.Pos(mu.Pos()), factList(pt.Facts(ev.NCond)))
				}
				if !established {
					bad = fmt.Sprintf("an edge is given the placeholder weight \"R#\"+… at %s on a path that established neither the verdict of the cycle classifier nor a tuple kind (TTU, direct) of the edge itself (conditions: %s): a cycle that needs no tuple, such as a relation defined as itself, passes as a tuple cycle", p.Pos(mu.Pos()), factList(pt.Facts(ev.NCond)))
				}
			}
		}
		switch {
		case bad != "":
			r.Bad(rule, construct, p.Pos(fn.Pos()), bad)
		case placed == 0:
			r.OK(rule, construct, p.Pos(fn.Pos()), "path-enumeration", "placeholders are only copied here, none is given")
		default:
			r.OK(rule, construct, p.Pos(fn.Pos()), "path-enumeration", fmt.Sprintf("%d placeholder store(s), each after the classifier's verdict or a tuple kind of the edge", placed))
		}
	}
	if n == 0 {
		r.Unknown(rule, "placeholder-needs-tuple", "-", "no store of a \"R#\" placeholder weight found: anchors no longer resolve")
	}
}

func isPlaceholderKey(k ssa.Value) bool {
	bo, ok := k.(*ssa.BinOp)
	if !ok || bo.Op != token.ADD {
		return false
	}
	c, ok := bo.X.(*ssa.Const)
	return ok && c.Value != nil && c.Value.Kind() == constant.String && constant.StringVal(c.Value) == "R#"
}

// valueEscapesMap: a value read from the map mk reaches something other than a branch, a comparison or a store back
// into mk (through arithmetic, conversions, math.Max / max / min and phis).
func valueEscapesMap(v ssa.Value, mk ssa.Value, depth int) bool {
	if depth > 6 || v.Referrers() == nil {
		return false
	}
	for _, ref := range *v.Referrers() {
		switch x := ref.(type) {
		case *ssa.If, *ssa.DebugRef:
		case *ssa.MapUpdate:
			if x.Map != mk {
				return true
			}
		case *ssa.Extract, *ssa.Phi, *ssa.UnOp, *ssa.Convert, *ssa.ChangeType:
			if valueEscapesMap(x.(ssa.Value), mk, depth+1) {
				return true
			}
		case *ssa.BinOp:
			switch x.Op {
			case token.EQL, token.NEQ, token.LSS, token.LEQ, token.GTR, token.GEQ:
				if valueEscapesMap(x, mk, depth+1) {
					return true
				}
			default:
				if valueEscapesMap(x, mk, depth+1) {
					return true
				}
			}
		case *ssa.Call:
			name := ""
			if bi, ok := x.Common().Value.(*ssa.Builtin); ok {
				name = bi.Name()
			} else if c := x.Common().StaticCallee(); c != nil && c.Pkg != nil && c.Pkg.Pkg.Path() == "math" {
				name = c.Name()
			}
			switch name {
			case "max", "min", "Max", "Min":
				if valueEscapesMap(x, mk, depth+1) {
					return true
				}
			default:
				return true
			}
		default:
			return true
		}
	}
	return false
}

// IntersectionPerOperand (C05.10, also C06: operand order): the weight of an intersection is the set of types common
// to all OPERANDS. Found where a type is deleted from a running weight set because another set lacks it:
//
//	(a) the set it is compared with is the weight set of an operand, not of a single edge — a type restriction
//	    [a, b] and a tuple to userset over several parent types are drawn with one edge per type, and edge-by-edge
//	    intersection empties the running set among the edges of one operand;
//	(b) the running set is never refilled because it is empty: emptiness is the verdict "no common type", and a refill
//	    from the next operand makes the verdict depend on the order of the operands.
func IntersectionPerOperand(p *load.Prog, r *oblig.Report, rule string, funcs []*ssa.Function) {
	n := 0
	for _, fn := range funcs {
		if fn.Pkg == nil || fn.Pkg.Pkg.Name() != "graph" {
			continue
		}
		for _, b := range fn.Blocks {
			for _, in := range b.Instrs {
				call, ok := in.(*ssa.Call)
				if !ok {
					continue
				}
				bi, ok := call.Common().Value.(*ssa.Builtin)
				if !ok || bi.Name() != "delete" {
					continue
				}
				running := call.Common().Args[0]
				mt, ok := running.Type().Underlying().(*types.Map)
				if !ok {
					continue
				}
				if eb, ok := mt.Elem().Underlying().(*types.Basic); !ok || eb.Kind() != types.Int {
					continue
				}
				// the lookup whose miss leads here
				var other ssa.Value
				for _, ce := range DominatingConds(b) {
					v := ce.Cond
					if ex, ok := v.(*ssa.Extract); ok {
						if lk, ok := ex.Tuple.(*ssa.Lookup); ok && lk.CommaOk && !ce.Branch && lk.X != running {
							other = lk.X
						}
					}
				}
				if other == nil {
					continue
				}
				n++
				construct := "intersection-per-operand:" + load.FuncName(fn)
				perEdge := false
				if ld, ok := other.(*ssa.UnOp); ok && ld.Op == token.MUL {
					if fa, ok := ld.X.(*ssa.FieldAddr); ok && strings.HasSuffix(deref(fa.X.Type()).String(), "WeightedAuthorizationModelEdge") {
						perEdge = true
					}
				}
				// (b) a store into the running set under "the running set is empty"
				refill := ""
				for _, b2 := range fn.Blocks {
					for _, in2 := range b2.Instrs {
						mu, ok := in2.(*ssa.MapUpdate)
						if !ok || mu.Map != running {
							continue
						}
						for _, ce := range DominatingConds(b2) {
							bo, ok := ce.Cond.(*ssa.BinOp)
							if !ok {
								continue
							}
							isLenOfRunning := func(v ssa.Value) bool {
								c, ok := v.(*ssa.Call)
								if !ok {
									return false
								}
								bi, ok := c.Common().Value.(*ssa.Builtin)
								return ok && bi.Name() == "len" && c.Common().Args[0] == running
							}
							zero := func(v ssa.Value) bool {
								c, ok := v.(*ssa.Const)
								return ok && c.Value != nil && c.Value.Kind() == constant.Int && constant.Sign(c.Value) == 0
							}
							if (isLenOfRunning(bo.X) && zero(bo.Y)) || (isLenOfRunning(bo.Y) && zero(bo.X)) {
								if (bo.Op == token.EQL && ce.Branch) || (bo.Op == token.NEQ && !ce.Branch) || (bo.Op == token.GTR && !ce.Branch) {
									if loopHeaderOfBlockE5(b2) != nil {
										refill = p.Pos(mu.Pos())
									}
								}
							}
						}
					}
				}
				switch {
				case perEdge:
					r.Bad(rule, construct, p.Pos(call.Pos()), "a type is dropped from the running set because the weights of a single EDGE lack it ("+stripUnique(AccessPath(other))+"): the edges of one type restriction [a, b] (or of one tuple to userset over several parent types) are one operand, and intersecting them one by one empties the set although every operand has a common type")
				case refill != "":
					r.Bad(rule, construct, refill, "inside the loop the running set is filled again when it is empty: an intersection that ran out of common types is final; refilled from the next operand, 'a and b and c' is accepted or rejected depending on the order of its operands")
				default:
					r.OK(rule, construct, p.Pos(call.Pos()), "value-origin", "compared with the weight set of an operand ("+stripUnique(AccessPath(other))+"); no refill on emptiness")
				}
			}
		}
	}
	if n == 0 {
		r.Unknown(rule, "intersection-per-operand", "-", "no place found where a type is deleted from a running weight set for lack of it in another: the enforce-type strategy is written in a way this rule does not read")
	}
}

// loopHeaderOfBlockE5: some block that dominates b and is reachable from b again (b lies in a loop).
func loopHeaderOfBlockE5(b *ssa.BasicBlock) *ssa.BasicBlock {
	for h := b; h != nil; h = h.Idom() {
		for _, pred := range h.Preds {
			if h.Dominates(pred) && reachesBlockE5(b, pred) {
				return h
			}
		}
	}
	return nil
}

func isSmallHelper(c, from *ssa.Function) bool {
	return c.Pkg == from.Pkg && len(c.Blocks) > 0 && len(c.Blocks) <= 4 && !returnsErr(c) && (c.Parent() != nil || !token.IsExported(c.Name()))
}

func placesPlaceholder(f *ssa.Function) bool {
	for _, b := range f.Blocks {
		for _, in := range b.Instrs {
			if mu, ok := in.(*ssa.MapUpdate); ok && isPlaceholderKey(mu.Key) {
				return true
			}
		}
	}
	return false
}

// ExclusionPerOperand (C05.11): "the subtracted side" of an exclusion is its last OPERAND. Found where a loop position
// is compared with "the last one" (len(X)-1): X must be the list of operands, not the list of edges — a subtracted
// tuple to userset over several parent types is several edges, and all but the last would count as the base.
func ExclusionPerOperand(p *load.Prog, r *oblig.Report, rule string, funcs []*ssa.Function) {
	n := 0
	for _, fn := range funcs {
		if fn.Pkg == nil || fn.Pkg.Pkg.Name() != "graph" {
			continue
		}
		for _, b := range fn.Blocks {
			for _, in := range b.Instrs {
				bo, ok := in.(*ssa.BinOp)
				if !ok || (bo.Op != token.NEQ && bo.Op != token.EQL && bo.Op != token.LSS && bo.Op != token.GEQ) {
					continue
				}
				var list ssa.Value
				for _, side := range []ssa.Value{bo.X, bo.Y} {
					sub, ok := side.(*ssa.BinOp)
					if !ok || sub.Op != token.SUB {
						continue
					}
					if k, ok := sub.Y.(*ssa.Const); !ok || k.Value == nil || k.Int64() != 1 {
						continue
					}
					if lc, ok := sub.X.(*ssa.Call); ok {
						if bi, isB := lc.Common().Value.(*ssa.Builtin); isB && bi.Name() == "len" {
							list = lc.Common().Args[0]
						}
					}
				}
				if list == nil {
					continue
				}
				sl, ok := list.Type().Underlying().(*types.Slice)
				if !ok {
					continue
				}
				construct := "exclusion-per-operand:" + load.FuncName(fn)
				switch {
				case strings.HasSuffix(sl.Elem().String(), "WeightedAuthorizationModelEdge"):
					n++
					r.Bad(rule, construct, p.Pos(bo.Pos()), "the subtracted side is taken to be the last EDGE ("+stripUnique(AccessPath(list))+"): a subtracted tuple to userset over two parent types (or a restriction with two types) is two edges, and the first of them is counted as part of the base, so its types leak into the exclusion and into every intersection above it")
				default:
					if _, isMap := sl.Elem().Underlying().(*types.Map); isMap {
						n++
						r.OK(rule, construct, p.Pos(bo.Pos()), "value-origin", "the last element of a list of operand weight sets")
					}
				}
			}
		}
	}
	if n == 0 {
		r.Unknown(rule, "exclusion-per-operand", "-", "no place found where a loop position is compared with the last operand: the mixed strategy is written in a way this rule does not read")
	}
}

// RootReachesSomething (C05.12): where the root of a tuple cycle is resolved (the function that forms the root's
// own placeholder key "R#"+root and stores the root's weights), the stored weight set was tested for emptiness on the
// way and the empty case ends in an error: a relation whose edges all lead back into its own cycle reaches no user
// type at all.
func RootReachesSomething(p *load.Prog, r *oblig.Report, rule string, funcs []*ssa.Function) {
	n := 0
	for _, fn := range funcs {
		if fn.Pkg == nil || fn.Pkg.Pkg.Name() != "graph" || !returnsErr(fn) {
			continue
		}
		formsKey := false
		for _, b := range fn.Blocks {
			for _, in := range b.Instrs {
				if bo, ok := in.(*ssa.BinOp); ok && bo.Op == token.ADD {
					if c, ok := bo.X.(*ssa.Const); ok && c.Value != nil && c.Value.Kind() == constant.String && constant.StringVal(c.Value) == "R#" {
						if _, isParam := bo.Y.(*ssa.Parameter); isParam {
							formsKey = true
						}
					}
				}
			}
		}
		if !formsKey {
			continue
		}
		for _, b := range fn.Blocks {
			for _, in := range b.Instrs {
				st, ok := in.(*ssa.Store)
				if !ok {
					continue
				}
				fa, ok := st.Addr.(*ssa.FieldAddr)
				if !ok || structFieldName(fa.X.Type(), fa.Field) != "weights" || !strings.HasSuffix(deref(fa.X.Type()).String(), "WeightedAuthorizationModelNode") {
					continue
				}
				n++
				construct := "root-reaches-something:" + load.FuncName(fn)
				tested := false
				for _, ce := range DominatingConds(b) {
					bo, ok := ce.Cond.(*ssa.BinOp)
					if !ok {
						continue
					}
					isLen := func(v ssa.Value) bool {
						c, ok := v.(*ssa.Call)
						if !ok {
							return false
						}
						bi, ok := c.Common().Value.(*ssa.Builtin)
						return ok && bi.Name() == "len" && c.Common().Args[0] == st.Val
					}
					zero := func(v ssa.Value) bool {
						c, ok := v.(*ssa.Const)
						return ok && c.Value != nil && c.Value.Kind() == constant.Int && constant.Sign(c.Value) == 0
					}
					if (isLen(bo.X) && zero(bo.Y)) || (isLen(bo.Y) && zero(bo.X)) {
						nonEmptyHere := (bo.Op == token.EQL && !ce.Branch) || (bo.Op == token.NEQ && ce.Branch) || (bo.Op == token.GTR && ce.Branch)
						if nonEmptyHere {
							tested = true
						}
					}
				}
				if tested {
					r.OK(rule, construct, p.Pos(st.Pos()), "dominating-test", "the root's weights are stored only when they are not empty")
				} else {
					r.Bad(rule, construct, p.Pos(st.Pos()), "the weights of a resolved cycle root are stored without a test for emptiness: when every edge of the root leads back into its own cycle ('define a: [doc#a]', 'a: [doc#b]' with 'b: [doc#a]') the set is empty, the model is accepted and the relation reaches no user type")
				}
			}
		}
	}
	if n == 0 {
		r.Unknown(rule, "root-reaches-something", "-", "no function found that forms a root's own placeholder key and stores the root's weights: anchors no longer resolve")
	}
}

// DependantClassified (C05.13): in the function that gives placeholder weights, an edge is filed among the dependants
// of a cycle root only on a path that established a tuple on the cycle it joins: the verdict of the classifier, a tuple
// kind of the edge itself, or pending cycles handed back by the recursion through this very edge. An edge that is
// filed because its (finished) target still carries somebody's placeholder closes a cycle nobody looked at: if that
// cycle consists of rewrites only the model must be rejected, and it is accepted.
func DependantClassified(p *load.Prog, r *oblig.Report, rule string, funcs []*ssa.Function) {
	isDepTable := func(t types.Type) bool {
		m, ok := t.Underlying().(*types.Map)
		if !ok {
			return false
		}
		sl, ok := m.Elem().Underlying().(*types.Slice)
		return ok && strings.HasSuffix(sl.Elem().String(), "WeightedAuthorizationModelEdge")
	}
	n := 0
	for _, fn := range funcs {
		if placesPlaceholderConst(fn) {
			if isSmallHelper(fn, fn) && len(callSitesOf(funcs, fn)) > 0 {
				continue // a helper that only marks the edge: judged where it is called
			}
		} else {
			calls := false
			for _, b := range fn.Blocks {
				for _, in := range b.Instrs {
					if call, ok := in.(*ssa.Call); ok {
						if cal := call.Common().StaticCallee(); cal != nil && placesPlaceholderConst(cal) && isSmallHelper(cal, fn) {
							calls = true
						}
					}
				}
			}
			if !calls {
				continue
			}
		}
		ex := &pathx.Explorer{Root: fn, MaxPaths: 30000, Follow: func(c *ssa.Function) bool {
			for _, q := range c.Params {
				if sl, ok := q.Type().Underlying().(*types.Slice); ok && strings.HasSuffix(sl.Elem().String(), "WeightedAuthorizationModelEdge") {
					return false
				}
			}
			return isSmallHelper(c, fn)
		}}
		paths := ex.Explore()
		if ex.Overflow || len(paths) == 0 {
			r.Unknown(rule, "dependant-classified:"+load.FuncName(fn), p.Pos(fn.Pos()), "paths could not be enumerated")
			continue
		}
		type site struct {
			pos, label, conds string
			bad               bool
		}
		sites := map[string]*site{}
		for _, pt := range paths {
			for _, ev := range pt.Events {
				mu, ok := ev.Instr.(*ssa.MapUpdate)
				if !ok || !isDepTable(mu.Map.Type()) {
					continue
				}
				established, adopted := false, false
				for _, f := range pt.Facts(ev.NCond) {
					if f.Value && (strings.Contains(f.Atom, ".edgeType == ") || strings.Contains(f.Atom, "EdgeType() == ")) {
						established = true
					}
					if f.Value && (strings.Contains(f.Atom, "HasPrefix(") || strings.Contains(f.Atom, "CutPrefix(")) && strings.Contains(f.Atom, "\"R#\"") {
						adopted = true
					}
					// a loop over the pending cycles that is being executed: index < len(pending)
					if f.Value && strings.Contains(f.Atom, " < len(") && !strings.Contains(f.Atom, "weights") && !strings.Contains(f.Atom, "edges") {
						established = true
					}
					// pending cycles came back from the recursion: len(x) > 0 / != 0 on a non-map, non-weights value
					if strings.HasPrefix(f.Atom, "len(") && !strings.Contains(f.Atom, "weights") {
						if (strings.HasSuffix(f.Atom, " > 0") && f.Value) || (strings.HasSuffix(f.Atom, " == 0") && !f.Value) {
							established = true
						}
					}
					t, val := pt.Resolve(f.Cond.T), f.Cond.Branch
					for {
						u, ok := t.V.(*ssa.UnOp)
						if !ok || u.Op != token.NOT {
							break
						}
						t, val = pt.Resolve(t.Sub(u.X)), !val
					}
					if call, ok := t.V.(*ssa.Call); ok && val {
						if cal := call.Common().StaticCallee(); cal != nil && cal.Pkg == fn.Pkg {
							for _, a := range call.Common().Args {
								if sl, ok := a.Type().Underlying().(*types.Slice); ok && strings.HasSuffix(sl.Elem().String(), "WeightedAuthorizationModelEdge") {
									established = true
								}
							}
						}
					}
				}
				label := "site"
				if adopted {
					label = "adopted-pending-reference"
				}
				key := label + "@" + p.Pos(mu.Pos())
				s := sites[key]
				if s == nil {
					s = &site{pos: p.Pos(mu.Pos()), label: label}
					sites[key] = s
				}
				if !established {
					s.bad = true
					s.conds = factList(pt.Facts(ev.NCond))
				}
				if os.Getenv("VERIF_PH_DEBUG") != "" {
					fmt.Fprintln(os.Stderr, "DEP", p.Pos(mu.Pos()), established, factList(pt.Facts(ev.NCond)))
				}
			}
		}
		var keys []string
		for k := range sites {
			keys = append(keys, k)
		}
		sort.Strings(keys)
		idx := map[string]int{}
		for _, k := range keys {
			s := sites[k]
			n++
			idx[s.label]++
			construct := "dependant-classified:" + fn.Name() + ":" + s.label
			if idx[s.label] > 1 {
				construct += fmt.Sprintf("#%d", idx[s.label])
			}
			if s.bad {
				r.Bad(rule, construct, s.pos, "an edge is filed among the dependants of a cycle root on a path that established no tuple on the cycle it joins (conditions: "+s.conds+"): the edge reaches a finished node that still carries a placeholder, and the cycle it closes through that node is never classified; if it consists of rewrites only the model is accepted although it must be rejected")
			} else {
				r.OK(rule, construct, s.pos, "path-enumeration", "filed only after the classifier's verdict, a tuple kind of the edge, or pending cycles handed back by the recursion")
			}
		}
	}
	if n == 0 {
		r.Unknown(rule, "dependant-classified", "-", "no registration of a dependant found in the function that gives placeholder weights: anchors no longer resolve")
	}
}

func placesPlaceholderConst(f *ssa.Function) bool {
	for _, b := range f.Blocks {
		for _, in := range b.Instrs {
			if mu, ok := in.(*ssa.MapUpdate); ok && isPlaceholderKey(mu.Key) {
				if _, isC := mu.Value.(*ssa.Const); isC {
					return true
				}
			}
		}
	}
	return false
}
