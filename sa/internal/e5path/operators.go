package e5path

import (
	"fmt"
	"go/constant"
	"go/token"
	"go/types"
	"sort"
	"strings"

	"golang.org/x/tools/go/ssa"

	"verif/sa/internal/load"
	"verif/sa/internal/oblig"
	"verif/sa/internal/pathx"
)

// OperatorNodePerOccurrence (C10 / C17 "one node per union / intersection / exclusion occurrence, operators point to
// their operands"): in the rewrite translation of a graph builder, every path on which the rewrite was found to be a
// union, an intersection or a difference creates a node of kind OperatorNode, and every operand that is translated
// on that path is attached to that node — never to the parent the function itself received (which would splice the
// operands into the enclosing relation or operator and lose the occurrence, e.g. a "fast path" for one operand).
// Decided on the enumerated paths of the translation function (helpers followed; the recursive call is an event).
func OperatorNodePerOccurrence(p *load.Prog, r *oblig.Report, rule string, specs []string) {
	opKind, ok := constOf(p, "graph", "OperatorNode")
	if !ok {
		r.Unknown(rule, "operator-node:anchor", "-", "constant graph.OperatorNode not found")
		return
	}
	for _, spec := range specs {
		parts := strings.Split(spec, ".")
		var fn *ssa.Function
		if len(parts) == 2 {
			fn = p.Func(parts[0], parts[1])
		} else {
			fn = p.Method(parts[0], parts[1], parts[2])
		}
		construct := "operator-node:" + spec
		if fn == nil {
			r.Unknown(rule, construct, "-", "function not found")
			continue
		}
		// helpers are entered, except the node constructors themselves (whatever takes a node kind): their call is the event looked for
		ex := &pathx.Explorer{Root: fn, MaxPaths: 20000, Follow: func(c *ssa.Function) bool {
			if c.Pkg != fn.Pkg || len(c.Blocks) == 0 {
				return false
			}
			for _, q := range c.Params {
				if strings.HasSuffix(q.Type().String(), ".NodeType") {
					return false
				}
			}
			return c.Parent() != nil || !token.IsExported(c.Name())
		}}
		paths := ex.Explore()
		if ex.Overflow || len(paths) == 0 {
			r.Unknown(rule, construct, p.Pos(fn.Pos()), "paths could not be enumerated")
			continue
		}
		operatorPaths := 0
		bad := map[string]string{}
		for _, pt := range paths {
			if pt.End != "return" {
				continue
			}
			// which variant of the rewrite oneof the path established
			variant := ""
			for _, c := range pt.Conds {
				if !c.Branch {
					continue
				}
				t := pt.Resolve(c.T)
				ext, ok := t.V.(*ssa.Extract)
				if !ok || ext.Index != 1 {
					continue
				}
				ta, ok := ext.Tuple.(*ssa.TypeAssert)
				if !ok {
					continue
				}
				name := ta.AssertedType.String()
				for _, v := range []string{"Union", "Intersection", "Difference"} {
					if strings.HasSuffix(name, ".Userset_"+v) {
						variant = v
					}
				}
			}
			if variant == "" {
				continue
			}
			operatorPaths++
			// the node of kind OperatorNode made on this path
			var node pathx.Term
			for _, ev := range pt.Events {
				call, ok := ev.Instr.(*ssa.Call)
				if !ok {
					continue
				}
				cal := call.Common().StaticCallee()
				if cal == nil || cal.Pkg != fn.Pkg || cal == fn {
					continue
				}
				for _, a := range call.Common().Args {
					if c, ok := pt.Resolve(ev.Term(a)).V.(*ssa.Const); ok && c.Value != nil && strings.HasSuffix(c.Type().String(), ".NodeType") && constant.Compare(c.Value, token.EQL, opKind) {
						node = ev.Term(call)
					}
				}
			}
			if node.V == nil {
				bad["no-node:"+variant] = fmt.Sprintf("a path that found the rewrite to be a %s returns without creating a node of kind OperatorNode (conditions: %s): that occurrence of the operator has no node, its operands hang on the enclosing node", strings.ToLower(variant), factList(pt.Facts(-1)))
				continue
			}
			// operands translated on the path are attached to that node
			for _, ev := range pt.Events {
				call, ok := ev.Instr.(*ssa.Call)
				if !ok || call.Common().StaticCallee() != fn {
					continue
				}
				attached := false
				for _, a := range call.Common().Args {
					at := pt.Resolve(ev.Term(a))
					if mi, ok := at.V.(*ssa.MakeInterface); ok {
						at = pt.Resolve(at.Sub(mi.X))
					}
					if at.V == node.V && at.F == node.F {
						attached = true
					}
				}
				if !attached {
					bad["operand-parent:"+variant] = fmt.Sprintf("on a path that found the rewrite to be a %s an operand is translated with a parent that is not the operator node created for this occurrence (%s)", strings.ToLower(variant), p.Pos(call.Pos()))
				}
			}
		}
		switch {
		case len(bad) > 0:
			keys := make([]string, 0, len(bad))
			for k := range bad {
				keys = append(keys, k)
			}
			sort.Strings(keys)
			for _, k := range keys {
				r.Bad(rule, construct+":"+k, p.Pos(fn.Pos()), bad[k])
			}
		case operatorPaths == 0:
			r.Unknown(rule, construct, p.Pos(fn.Pos()), "no path establishes a union / intersection / difference variant: anchors no longer resolve")
		default:
			r.OK(rule, construct, p.Pos(fn.Pos()), "path-enumeration", fmt.Sprintf("%d operator paths, each creates its operator node and attaches every translated operand to it", operatorPaths))
		}
	}
}

// constOf: the value of a package-level constant of a repository package.
func constOf(p *load.Prog, pkg, name string) (constant.Value, bool) {
	pk := p.Pkgs[pkg]
	if pk == nil {
		return nil, false
	}
	c, ok := pk.Types.Scope().Lookup(name).(*types.Const)
	if !ok {
		return nil, false
	}
	return c.Val(), true
}

// EveryNodeWeighed (C05 "accepted iff well-founded", C06): AssignWeights starts the weight calculation from every node
// of the graph. On the enumerated paths of one iteration of its loop over the nodes, the node is either handed to the
// weight calculation (a call of a function of the package that receives the node and can fail), or skipped because
// the traversal has visited it already (a lookup in the visited set the calculation itself maintains); any other
// skip leaves a node — and the errors only it would raise: no terminal type, a cycle behind it — unexamined.
func EveryNodeWeighed(p *load.Prog, r *oblig.Report, rule string) {
	fn := p.Method("graph", "WeightedAuthorizationModelGraph", "AssignWeights")
	construct := "every-node-weighed:AssignWeights"
	if fn == nil {
		r.Unknown(rule, construct, "-", "AssignWeights not found")
		return
	}
	errT := types.Universe.Lookup("error").Type()
	canFail := func(c *ssa.Function) bool {
		res := c.Signature.Results()
		for i := 0; i < res.Len(); i++ {
			if types.Identical(res.At(i).Type(), errT) {
				return true
			}
		}
		return false
	}
	// predicates (helpers that return a single bool) are entered; what can fail is the weighing and stays an event
	ex := &pathx.Explorer{Root: fn, MaxPaths: 5000, Follow: func(c *ssa.Function) bool {
		return c.Pkg == fn.Pkg && len(c.Blocks) > 0 && !canFail(c) && (c.Parent() != nil || !token.IsExported(c.Name()))
	}}
	paths := ex.Explore()
	if ex.Overflow || len(paths) == 0 {
		r.Unknown(rule, construct, p.Pos(fn.Pos()), "paths could not be enumerated")
		return
	}
	weighed, skippedVisited := 0, 0
	bad := ""
	for _, pt := range paths {
		// the element of the node list the iteration is about: a load through an index into a slice-typed field
		var elem pathx.Term
		var weighCall *ssa.Call
		for _, ev := range pt.Events {
			call, ok := ev.Instr.(*ssa.Call)
			if !ok {
				continue
			}
			cal := call.Common().StaticCallee()
			if cal == nil || cal.Pkg != fn.Pkg || !canFail(cal) {
				continue
			}
			for _, a := range call.Common().Args {
				at := pt.Resolve(ev.Term(a))
				if ld, ok := at.V.(*ssa.UnOp); ok && ld.Op == token.MUL {
					if _, ok := pt.Resolve(at.Sub(ld.X)).V.(*ssa.IndexAddr); ok {
						elem, weighCall = at, call
					}
				}
			}
		}
		if weighCall != nil {
			weighed++
			_ = elem
			continue
		}
		// no weighing on this path: either the loop body was not entered, or the node was skipped
		var skipFacts []pathx.Fact
		visitedSkip := false
		for _, c := range pt.Conds {
			t := pt.Resolve(c.T)
			isLookup := func(t pathx.Term) bool {
				switch x := t.V.(type) {
				case *ssa.Lookup:
					_, isMap := x.X.Type().Underlying().(*types.Map)
					return isMap
				case *ssa.Extract:
					_, ok := x.Tuple.(*ssa.Lookup)
					return ok
				}
				return false
			}
			f := pt.FactOf(c)
			if isLookup(t) {
				if c.Branch {
					visitedSkip = true
				}
				continue
			}
			// conditions of the loop head (index < len) are not skip conditions
			if bo, ok := t.V.(*ssa.BinOp); ok && (bo.Op == token.LSS || bo.Op == token.GTR || bo.Op == token.LEQ || bo.Op == token.GEQ) && strings.Contains(f.Atom, "len(") {
				continue
			}
			skipFacts = append(skipFacts, f)
		}
		entered := false
		for _, c := range pt.Conds {
			if _, ok := pt.Resolve(c.T).V.(*ssa.BinOp); ok && c.Branch && strings.Contains(pt.FactOf(c).Atom, "len(") {
				entered = true
			}
		}
		if !entered {
			continue
		}
		if visitedSkip && len(skipFacts) == 0 {
			skippedVisited++
			continue
		}
		bad = fmt.Sprintf("an iteration over the nodes ends without starting the weight calculation for the node, and not because the node was already visited (conditions: %s): that node, and the defects only it would reveal, are never examined", factList(pt.Facts(-1)))
	}
	switch {
	case bad != "":
		r.Bad(rule, construct, p.Pos(fn.Pos()), bad)
	case weighed == 0:
		r.Unknown(rule, construct, p.Pos(fn.Pos()), "no path hands a node of the list to a fallible function of the package: anchors no longer resolve")
	default:
		r.OK(rule, construct, p.Pos(fn.Pos()), "path-enumeration", fmt.Sprintf("%d weighing path(s), %d skip(s) of already visited nodes, no other skip", weighed, skippedVisited))
	}
}

// RootWildcardsReachDependants (C11 "also holds for nodes and edges on or behind tuple cycles"): when a tuple-cycle
// root is resolved, every edge recorded as depending on it, and the node such an edge leaves, must receive the
// wildcards of that ROOT. In every function that walks the dependants list of a root (an indexed read of the
// per-root table of dependant edges), on the enumerated paths (helpers followed):
//
//	(1) some path stores, into the wildcards of a dependant, a list that reads the wildcards of nodes[root];
//	(2) no store into a wildcards list reads the wildcards of anything but the object stored into and nodes[root]
//	    (a dependant patched with its own target's or its own edge's list names types the root does not contribute
//	    and misses those it does).
func RootWildcardsReachDependants(p *load.Prog, r *oblig.Report, rule string, funcs []*ssa.Function) {
	isDepTable := func(t types.Type) bool {
		m, ok := t.Underlying().(*types.Map)
		if !ok {
			return false
		}
		sl, ok := m.Elem().Underlying().(*types.Slice)
		return ok && strings.HasSuffix(sl.Elem().String(), "WeightedAuthorizationModelEdge")
	}
	// an indexed read (a walk) of a per-root table of edges that is handed around as a value — the graph's own
	// adjacency table has the same type but is a field of the graph
	walked := func(lk *ssa.Lookup) bool {
		if lk.CommaOk || !isDepTable(lk.X.Type()) || lk.Referrers() == nil {
			return false
		}
		if ld, ok := lk.X.(*ssa.UnOp); ok {
			if _, isField := ld.X.(*ssa.FieldAddr); isField {
				return false
			}
		}
		for _, ref := range *lk.Referrers() {
			if _, ok := ref.(*ssa.IndexAddr); ok {
				return true
			}
		}
		return false
	}
	found := 0
	for _, fn := range funcs {
		walks := false
		for _, b := range fn.Blocks {
			for _, in := range b.Instrs {
				if lk, ok := in.(*ssa.Lookup); ok && walked(lk) {
					walks = true
				}
			}
		}
		if !walks {
			continue
		}
		found++
		construct := "root-wildcards:" + load.FuncName(fn)
		ex := &pathx.Explorer{Root: fn, MaxPaths: 30000}
		paths := ex.Explore()
		if ex.Overflow || len(paths) == 0 {
			r.Unknown(rule, construct, p.Pos(fn.Pos()), "paths could not be enumerated")
			continue
		}
		fromRoot := 0
		bad := map[string]string{}
		type skipped struct {
			pt    *pathx.Path
			table string
		}
		var skips []skipped
		rootLists := map[string]bool{}
		for _, pt := range paths {
			// the root: key of the dependants table read on this path
			rootKey, table := "", ""
			for _, v := range pt.Trace {
				for _, in := range v.B.Instrs {
					if lk, ok := in.(*ssa.Lookup); ok && walked(lk) && v.F.Fn == fn {
						rootKey = pt.Render(pathx.Term{V: lk.Index, F: v.F, E: 0})
						table = pt.Render(pathx.Term{V: lk, F: v.F, E: 0})
					}
				}
			}
			if rootKey == "" {
				continue
			}
			rootStores := 0
			for _, ev := range pt.Events {
				st, ok := ev.Instr.(*ssa.Store)
				if !ok {
					continue
				}
				addr := pt.Resolve(ev.Term(st.Addr))
				fa, ok := addr.V.(*ssa.FieldAddr)
				if !ok || structFieldName(fa.X.Type(), fa.Field) != "wildcards" {
					continue
				}
				target := pt.Render(addr.Sub(fa.X))
				// the objects whose wildcards the stored list reads
				srcs := map[string]bool{}
				seen := map[ssa.Value]bool{}
				var walk func(t pathx.Term, depth int)
				walk = func(t pathx.Term, depth int) {
					t = pt.Resolve(t)
					if depth > 10 || t.V == nil || seen[t.V] {
						return
					}
					seen[t.V] = true
					switch x := t.V.(type) {
					case *ssa.UnOp:
						if x.Op != token.MUL {
							return
						}
						a := pt.Resolve(t.Sub(x.X))
						switch ax := a.V.(type) {
						case *ssa.FieldAddr:
							if structFieldName(ax.X.Type(), ax.Field) == "wildcards" {
								srcs[pt.Render(a.Sub(ax.X))] = true
							}
						case *ssa.IndexAddr:
							walk(a.Sub(ax.X), depth+1)
						case *ssa.Alloc:
							// a variadic / literal backing array: its elements
							if ax.Referrers() != nil {
								for _, ref := range *ax.Referrers() {
									if ia, ok := ref.(*ssa.IndexAddr); ok && ia.Referrers() != nil {
										for _, r2 := range *ia.Referrers() {
											if s2, ok := r2.(*ssa.Store); ok {
												walk(a.Sub(s2.Val), depth+1)
											}
										}
									}
								}
							}
						}
					case *ssa.Call:
						for _, a := range x.Common().Args {
							if _, isSlice := a.Type().Underlying().(*types.Slice); isSlice {
								walk(t.Sub(a), depth+1)
							} else if b, ok := a.Type().Underlying().(*types.Basic); ok && b.Kind() == types.String {
								walk(t.Sub(a), depth+1)
							}
						}
					case *ssa.Slice:
						walk(t.Sub(x.X), depth+1)
					case *ssa.Phi:
						for _, e := range x.Edges {
							walk(t.Sub(e), depth+1)
						}
					}
				}
				walk(ev.Term(st.Val), 0)
				for s := range srcs {
					switch {
					case s == target:
					case strings.HasSuffix(s, ".nodes["+rootKey+"]"):
						fromRoot++
						rootStores++
						rootLists[s+".wildcards"] = true
					default:
						bad[pathx.StripUnique(s)] = fmt.Sprintf("while the dependants of the resolved cycle root %s are patched, the wildcards of %s receive those of %s (%s) — neither the object itself nor the root: the dependant names public types the root does not contribute and misses those it does", pathx.StripUnique(rootKey), pathx.StripUnique(target), pathx.StripUnique(s), p.Pos(st.Pos()))
					}
				}
			}
			if rootStores == 0 && pt.End == "return" {
				skips = append(skips, skipped{pt, table})
			}
		}
		// (3) a dependant is passed over only when there is nothing to hand on: the root's list is empty or exhausted,
		// or what it holds is in the dependant's list already
		for _, sk := range skips {
			entered, excused := false, false
			for _, f := range sk.pt.Facts(-1) {
				if f.Value && strings.Contains(f.Atom, "< len("+sk.table+")") {
					entered = true
				}
				for rl := range rootLists {
					switch {
					case f.Atom == "len("+rl+") == 0" && f.Value, f.Atom == "len("+rl+") > 0" && !f.Value,
						strings.HasSuffix(f.Atom, "< len("+rl+")") && !f.Value:
						excused = true
					}
				}
				if strings.HasPrefix(f.Atom, "slices.Contains(") && f.Value {
					excused = true
				}
			}
			if entered && !excused {
				bad["skipped"] = fmt.Sprintf("a dependant of the resolved cycle root is passed over although the root's wildcard list is neither empty nor already contained in the dependant's (conditions: %s): public types that are reachable through the cycle are missing on that edge or node", factList(sk.pt.Facts(-1)))
			}
		}
		switch {
		case len(bad) > 0:
			keys := make([]string, 0, len(bad))
			for k := range bad {
				keys = append(keys, k)
			}
			sort.Strings(keys)
			for _, k := range keys {
				r.Bad(rule, construct+":"+k, p.Pos(fn.Pos()), bad[k])
			}
		case fromRoot == 0:
			r.Bad(rule, construct, p.Pos(fn.Pos()), "the dependants of a resolved cycle root are walked, but on no path do the wildcards of a dependant receive those of the root: public types reachable through the cycle are missing on and behind it")
		default:
			r.OK(rule, construct, p.Pos(fn.Pos()), "path-enumeration", fmt.Sprintf("%d store(s) of the root's wildcards into dependants; no other source", fromRoot))
		}
	}
	if found == 0 {
		r.Unknown(rule, "root-wildcards:anchor", "-", "no function walks the dependants table of a cycle root: anchors no longer resolve")
	}
}

// NoDuplicateOnAppend (C10 / C17 "conditions": one edge per pair with its conditions collected, each once): in the
// edge upsert functions, a value is appended to the list kept in the named field of an existing object only on paths
// that established its absence from that very list — slices.Contains(list, v) false, or a comparison of an element of
// the list with v that failed (the hand-written search loop). A de-duplication applied afterwards to the whole list
// (slices.Compact, which only drops adjacent repeats) does not count.
func NoDuplicateOnAppend(p *load.Prog, r *oblig.Report, rule string, specs []string, field string) {
	for _, spec := range specs {
		parts := strings.Split(spec, ".")
		var fn *ssa.Function
		if len(parts) == 2 {
			fn = p.Func(parts[0], parts[1])
		} else {
			fn = p.Method(parts[0], parts[1], parts[2])
		}
		construct := "no-duplicate-append:" + spec + ":" + field
		if fn == nil {
			r.Unknown(rule, construct, "-", "function not found")
			continue
		}
		ex := &pathx.Explorer{Root: fn, MaxPaths: 20000}
		paths := ex.Explore()
		if ex.Overflow || len(paths) == 0 {
			r.Unknown(rule, construct, p.Pos(fn.Pos()), "paths could not be enumerated")
			continue
		}
		appends, bad := 0, ""
		for _, pt := range paths {
			for _, ev := range pt.Events {
				st, ok := ev.Instr.(*ssa.Store)
				if !ok {
					continue
				}
				addr := pt.Resolve(ev.Term(st.Addr))
				fa, ok := addr.V.(*ssa.FieldAddr)
				if !ok || structFieldName(fa.X.Type(), fa.Field) != field {
					continue
				}
				list := pt.Render(addr)
				// the stored value extends the list it replaces?
				var elem pathx.Term
				var find func(t pathx.Term, depth int) bool
				find = func(t pathx.Term, depth int) bool {
					t = pt.Resolve(t)
					if depth > 6 || t.V == nil {
						return false
					}
					call, ok := t.V.(*ssa.Call)
					if !ok {
						return false
					}
					if b, isB := call.Common().Value.(*ssa.Builtin); isB && b.Name() == "append" && len(call.Common().Args) == 2 {
						if pt.Render(t.Sub(call.Common().Args[0])) == list {
							// the one element of the variadic operand
							if sl, ok := call.Common().Args[1].(*ssa.Slice); ok {
								if al, ok := sl.X.(*ssa.Alloc); ok && al.Referrers() != nil {
									for _, ref := range *al.Referrers() {
										if ia, ok := ref.(*ssa.IndexAddr); ok && ia.Referrers() != nil {
											for _, r2 := range *ia.Referrers() {
												if s2, ok := r2.(*ssa.Store); ok {
													elem = t.Sub(s2.Val)
												}
											}
										}
									}
								}
							}
							return true
						}
						return false
					}
					for _, a := range call.Common().Args {
						if _, isSlice := a.Type().Underlying().(*types.Slice); isSlice && find(t.Sub(a), depth+1) {
							return true
						}
					}
					return false
				}
				if !find(ev.Term(st.Val), 0) {
					continue
				}
				appends++
				ev0 := "?"
				if elem.V != nil {
					ev0 = pt.Render(elem)
				}
				absent := false
				for _, f := range pt.Facts(ev.NCond) {
					if f.Value {
						continue
					}
					if strings.HasPrefix(f.Atom, "slices.Contains("+list+", ") && strings.HasSuffix(f.Atom, ", "+ev0+")") {
						absent = true
					}
					if strings.Contains(f.Atom, " == ") && strings.Contains(f.Atom, list+"[") && strings.Contains(f.Atom, ev0) {
						absent = true
					}
					// the search loop over the list ran to its end (or the list is empty)
					if strings.HasSuffix(f.Atom, "< len("+list+")") {
						absent = true
					}
				}
				if !absent {
					bad = fmt.Sprintf("%s is appended to %s on a path that did not establish that it is not in the list yet (%s; conditions: %s): the same %s can be recorded twice on one edge", pathx.StripUnique(ev0), pathx.StripUnique(list), p.Pos(st.Pos()), factList(pt.Facts(ev.NCond)), strings.TrimSuffix(field, "s"))
				}
			}
		}
		switch {
		case bad != "":
			r.Bad(rule, construct, p.Pos(fn.Pos()), bad)
		case appends == 0:
			r.Unknown(rule, construct, p.Pos(fn.Pos()), "no append to the "+field+" of an existing object found: anchors no longer resolve")
		default:
			r.OK(rule, construct, p.Pos(fn.Pos()), "path-enumeration", fmt.Sprintf("%d appending path(s), each after the absence of the value was established", appends))
		}
	}
}

// StepAlwaysCreatesEdge (C10 / C17 "edges correspond one-to-one to the rewrite"): a translation step that stands for
// exactly one operand — a computed userset — creates its edge on every path that returns without an error; a path
// that returns early (an operand that "leads nowhere", a missing metadata entry) loses the edge and with it the
// paths and cycles that run through it.
func StepAlwaysCreatesEdge(p *load.Prog, r *oblig.Report, rule string, specs []string) {
	edgeAPI := map[string]bool{"AddEdge": true, "UpsertEdge": true, "upsertEdge": true}
	for _, spec := range specs {
		parts := strings.Split(spec, ".")
		var fn *ssa.Function
		if len(parts) == 2 {
			fn = p.Func(parts[0], parts[1])
		} else {
			fn = p.Method(parts[0], parts[1], parts[2])
		}
		construct := "step-creates-edge:" + spec
		if fn == nil {
			r.Unknown(rule, construct, "-", "function not found")
			continue
		}
		ex := &pathx.Explorer{Root: fn, MaxPaths: 5000, Follow: func(c *ssa.Function) bool {
			return c.Pkg == fn.Pkg && len(c.Blocks) > 0 && !edgeAPI[c.Name()] && (c.Parent() != nil || !token.IsExported(c.Name()))
		}}
		paths := ex.Explore()
		if ex.Overflow || len(paths) == 0 {
			r.Unknown(rule, construct, p.Pos(fn.Pos()), "paths could not be enumerated")
			continue
		}
		creating, bad := 0, ""
		for _, pt := range paths {
			if pt.End != "return" {
				continue
			}
			// a return that reports an error is not a translation
			failed := false
			for i := range pt.Ret.Results {
				if types.Identical(pt.Ret.Results[i].Type(), types.Universe.Lookup("error").Type()) {
					rt := pt.Resolve(pt.RetTerm(i))
					if c, ok := rt.V.(*ssa.Const); ok && c.IsNil() {
						continue
					}
					// the error of the edge constructor itself, handed on
					if call, ok := rt.V.(*ssa.Call); ok {
						if cal := call.Common().StaticCallee(); cal != nil && edgeAPI[cal.Name()] {
							continue
						}
					}
					failed = true
				}
			}
			if failed {
				continue
			}
			has := false
			for _, ev := range pt.Events {
				if call, ok := ev.Instr.(*ssa.Call); ok {
					if cal := call.Common().StaticCallee(); cal != nil && edgeAPI[cal.Name()] {
						has = true
					}
				}
			}
			if has {
				creating++
			} else {
				bad = fmt.Sprintf("a path returns without creating the edge of this operand (conditions: %s)", factList(pt.Facts(-1)))
			}
		}
		switch {
		case bad != "":
			r.Bad(rule, construct, p.Pos(fn.Pos()), bad+": the rewrite has an operand the graph has no edge for")
		case creating == 0:
			r.Unknown(rule, construct, p.Pos(fn.Pos()), "no path creates an edge: anchors no longer resolve")
		default:
			r.OK(rule, construct, p.Pos(fn.Pos()), "path-enumeration", fmt.Sprintf("%d returning path(s), each creates the edge", creating))
		}
	}
}
