package e5path

import (
	"fmt"
	"go/token"
	"regexp"
	"sort"
	"strings"

	"golang.org/x/tools/go/ssa"

	"verif/sa/internal/load"
	"verif/sa/internal/oblig"
	"verif/sa/internal/pathx"
)

// FirstPositionEvidence (C02 "succeeds if and only if … it can be placed first"): the predicate that decides whether
// the single direct assignment of a relation is printable is read on its enumerated paths (helpers followed, the
// recursive call is an event) as a decision list, and three facts are required of it:
//
//	(a) it answers true only on a path that found a direct assignment — GetThis() != nil — on the rewrite itself, on
//	    the base of its difference, or on a child of its union / intersection (those are hoisted by the printer);
//	(b) a path that found one there answers true;
//	(c) it answers false outright only when nothing of the kind was found AND the rewrite is not an operator with
//	    operands left to look into (a union / intersection with children, a difference with a base: those recurse).
//
// Together with the recursion targets (C02.1b) and the variant coverage (R1.1) this pins the predicate up to the
// order in which it looks; a flipped comparison, a dropped case or a shifted bound changes one of the three.
func FirstPositionEvidence(p *load.Prog, r *oblig.Report, rule string) {
	fn := p.Method("transformer", "DirectAssignmentValidator", "isFirstPosition")
	construct := "first-position-evidence:isFirstPosition"
	if fn == nil {
		r.Unknown(rule, construct, "-", "isFirstPosition not found")
		return
	}
	var up *ssa.Parameter
	for _, q := range fn.Params {
		if strings.HasSuffix(q.Type().String(), "/v1.Userset") {
			up = q
		}
	}
	if up == nil {
		r.Unknown(rule, construct, p.Pos(fn.Pos()), "isFirstPosition has no *Userset parameter")
		return
	}
	ex := &pathx.Explorer{Root: fn, MaxPaths: 30000}
	paths := ex.Explore()
	if ex.Overflow || len(paths) == 0 {
		r.Unknown(rule, construct, p.Pos(fn.Pos()), "paths could not be enumerated")
		return
	}
	U := up.Name()
	q := regexp.QuoteMeta(U)
	allowed := regexp.MustCompile(`^` + q + `(\.Userset)?(\.Difference\.Base|\.(Union|Intersection)\.Child\[[^\]]*\])?\.This == nil$`)
	anyThis := regexp.MustCompile(`\.This == nil$`)
	operandsLeft := []*regexp.Regexp{
		regexp.MustCompile(`^len\(` + q + `\.(Union|Intersection)\.Child\) (> 0|== 0)$`),
		regexp.MustCompile(`^` + q + `\.Difference\.Base == nil$`),
		regexp.MustCompile(`^` + q + `\.(Union|Intersection)\.Child == nil$`),
	}
	isOperator := regexp.MustCompile(`^` + q + `\.(Union|Intersection|Difference) == nil$`)
	// a predicate literal "child is a direct assignment" handed to slices.ContainsFunc / IndexFunc
	isThisPredicate := func(v ssa.Value) bool {
		var f *ssa.Function
		switch x := v.(type) {
		case *ssa.Function:
			f = x
		case *ssa.MakeClosure:
			f, _ = x.Fn.(*ssa.Function)
		}
		if f == nil || len(f.Blocks) != 1 || len(f.Params) != 1 {
			return false
		}
		ret, ok := f.Blocks[0].Instrs[len(f.Blocks[0].Instrs)-1].(*ssa.Return)
		if !ok || len(ret.Results) != 1 {
			return false
		}
		bo, ok := ret.Results[0].(*ssa.BinOp)
		if !ok || bo.Op != token.NEQ {
			return false
		}
		call, ok := bo.X.(*ssa.Call)
		if !ok {
			return false
		}
		cal := call.Common().StaticCallee()
		return cal != nil && cal.Name() == "GetThis" && len(call.Common().Args) == 1 && call.Common().Args[0] == ssa.Value(f.Params[0])
	}
	trues, falses, recs := 0, 0, 0
	bad := map[string]string{}
	for _, pt := range paths {
		if pt.End != "return" || len(pt.Ret.Results) != 1 {
			continue
		}
		res := pt.Resolve(pt.RetTerm(0))
		kind := "other"
		switch x := res.V.(type) {
		case *ssa.Const:
			if x.Value != nil {
				kind = x.Value.ExactString() // "true" / "false"
			}
		case *ssa.Call:
			if x.Common().StaticCallee() == fn {
				kind = "rec"
			} else if cal := x.Common().StaticCallee(); cal != nil {
				o := cal
				if cal.Origin() != nil {
					o = cal.Origin()
				}
				if o.Pkg != nil && o.Pkg.Pkg.Path() == "slices" && o.Name() == "ContainsFunc" && len(x.Common().Args) == 2 && isThisPredicate(x.Common().Args[1]) {
					list := pt.Render(res.Sub(x.Common().Args[0]))
					if regexp.MustCompile(`^` + q + `\.(Union|Intersection)\.Child$`).MatchString(list) {
						kind = "exists-this" // true exactly when a child is a direct assignment: conforms to (a) and (b)
					}
				}
			}
		}
		facts := pt.Facts(-1)
		evidence, strayEvidence := false, ""
		noOperandsLeft, operator := false, false
		for _, f := range facts {
			if anyThis.MatchString(f.Atom) && !f.Value {
				if allowed.MatchString(f.Atom) {
					evidence = true
				} else {
					strayEvidence = f.Atom
				}
			}
			// slices.ContainsFunc(children, isThis) branched on
			if strings.HasPrefix(f.Atom, "slices.ContainsFunc("+U+".") && f.Value {
				evidence = true
			}
			for i, re := range operandsLeft {
				if re.MatchString(f.Atom) {
					switch {
					case i == 0 && strings.HasSuffix(f.Atom, "> 0") && !f.Value, i == 0 && strings.HasSuffix(f.Atom, "== 0") && f.Value, i > 0 && f.Value:
						noOperandsLeft = true
					}
				}
			}
			if isOperator.MatchString(f.Atom) && !f.Value {
				operator = true
			}
		}
		switch kind {
		case "true":
			trues++
			if !evidence {
				why := "no direct assignment was found on the rewrite, the base of its difference or a child of its union / intersection"
				if strayEvidence != "" {
					why = "the only direct assignment found is " + pathx.StripUnique(strayEvidence) + " false, which is none of those places"
				}
				bad["true-without-evidence"] = fmt.Sprintf("the predicate answers true on a path on which %s (conditions: %s): a relation whose direct assignment cannot be placed first is printed as different DSL", why, factList(facts))
			}
		case "false":
			falses++
			if evidence {
				bad["false-despite-evidence"] = fmt.Sprintf("the predicate answers false on a path that found a direct assignment in a printable place (conditions: %s): an expressible relation is turned down", factList(facts))
			} else if operator && !noOperandsLeft {
				bad["false-with-operands-left"] = fmt.Sprintf("the predicate answers false for a union / intersection / difference without having looked into its first operand or base and without having found it empty (conditions: %s): a direct assignment nested first is turned down", factList(facts))
			}
		case "rec":
			recs++
			if evidence {
				bad["rec-despite-evidence"] = fmt.Sprintf("a path that found a direct assignment in a printable place still defers to the recursion (conditions: %s)", factList(facts))
			}
		case "exists-this":
			trues++
			falses++
		default:
			bad["unreadable"] = "a path returns " + pathx.StripUnique(pt.Render(res)) + ", which is neither a constant, the recursive call nor an exists-test for a direct assignment among the operands"
		}
	}
	switch {
	case len(bad) > 0:
		keys := make([]string, 0, len(bad))
		for k := range bad {
			keys = append(keys, k)
		}
		sort.Strings(keys)
		for _, k := range keys {
			st := r.Bad
			if k == "unreadable" {
				st = r.Unknown
			}
			st(rule, construct+":"+k, p.Pos(fn.Pos()), bad[k])
		}
	case trues == 0 || falses == 0 || recs == 0:
		r.Unknown(rule, construct, p.Pos(fn.Pos()), fmt.Sprintf("expected paths answering true, false and deferring to the recursion (found %d, %d, %d)", trues, falses, recs))
	default:
		r.OK(rule, construct, p.Pos(fn.Pos()), "path-enumeration", fmt.Sprintf("%d paths answer true (each on evidence), %d false (none despite evidence or with operands left), %d recurse", trues, falses, recs))
	}
}
