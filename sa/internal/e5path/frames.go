package e5path

import (
	"fmt"
	"go/token"
	"go/types"
	"sort"
	"strings"

	"golang.org/x/tools/go/ssa"

	"verif/sa/internal/load"
	"verif/sa/internal/oblig"
	"verif/sa/internal/pathx"
)

// GroupFrames (C03 clause "redundant parentheses / grouping", typestate of the rewrite stack): when a parenthesised
// group opens, the callback saves parts of the enclosing level (its operands, its operator) in a frame; when the
// group closes, every saved part must be put back on every path that goes on with the enclosing level, and nothing
// else may be done with the enclosing level's operands: the level is still open, so an operator node built from
// them at this point (or a part that is not restored) changes the model that was written. Decided on the
// enumerated paths of the two callbacks, helpers followed:
//
//	(a) a path of the closing callback that stores into the relation being parsed puts back EVERY part the opening
//	    callback saved — the operator as it was saved, the operand list as the saved list plus the closed group —
//	    and the last store into each saved part is that restore;
//	(b) no path hands a value read from the popped frame to a function (the operands of the still open level are
//	    only moved back).
func GroupFrames(p *load.Prog, r *oblig.Report, rule string) {
	enter := p.Method("transformer", "OpenFgaDslListener", "EnterRelationRecurseNoDirect")
	exit := p.Method("transformer", "OpenFgaDslListener", "ExitRelationRecurseNoDirect")
	construct := "group-frame:RelationRecurseNoDirect"
	if enter == nil || exit == nil {
		r.Unknown(rule, construct, "-", "EnterRelationRecurseNoDirect / ExitRelationRecurseNoDirect not found")
		return
	}
	// what the opening callback saves: stores into a fresh struct (the frame) of values loaded from a field of
	// another struct (the relation being parsed)
	type saved struct {
		frameField, relField int
		name                 string
	}
	var frameT, relT types.Type
	var parts []saved
	ex := &pathx.Explorer{Root: enter}
	for _, pt := range ex.Explore() {
		for _, ev := range pt.Events {
			st, ok := ev.Instr.(*ssa.Store)
			if !ok {
				continue
			}
			addr := pt.Resolve(ev.Term(st.Addr))
			fa, ok := addr.V.(*ssa.FieldAddr)
			if !ok {
				continue
			}
			base := pt.Resolve(addr.Sub(fa.X))
			al, ok := base.V.(*ssa.Alloc)
			if !ok {
				continue
			}
			val := pt.Resolve(ev.Term(st.Val))
			ld, ok := val.V.(*ssa.UnOp)
			if !ok || ld.Op != token.MUL {
				continue
			}
			src, ok := pt.Resolve(val.Sub(ld.X)).V.(*ssa.FieldAddr)
			if !ok {
				continue
			}
			ft, rt := deref(al.Type()), deref(src.X.Type())
			if _, isStruct := ft.Underlying().(*types.Struct); !isStruct || types.Identical(ft, rt) {
				continue
			}
			if frameT == nil {
				frameT, relT = ft, rt
			}
			if !types.Identical(frameT, ft) || !types.Identical(relT, rt) {
				continue
			}
			dup := false
			for _, s := range parts {
				if s.frameField == fa.Field {
					dup = true
				}
			}
			if !dup {
				parts = append(parts, saved{fa.Field, src.Field, structFieldName(rt, src.Field)})
			}
		}
	}
	if ex.Overflow || len(parts) == 0 {
		r.Unknown(rule, construct, p.Pos(enter.Pos()), "no frame that saves parts of the enclosing level was found in the opening callback")
		return
	}
	sort.Slice(parts, func(i, j int) bool { return parts[i].relField < parts[j].relField })
	// a value read from a frame: load of field i of a *frame value (directly, or as the list an append extends)
	var fromFrame func(pt *pathx.Path, t pathx.Term, depth int) (field int, appended bool, ok bool)
	fromFrame = func(pt *pathx.Path, t pathx.Term, depth int) (int, bool, bool) {
		t = pt.Resolve(t)
		if depth > 6 || t.V == nil {
			return 0, false, false
		}
		switch x := t.V.(type) {
		case *ssa.UnOp:
			if x.Op == token.MUL {
				if fa, ok := pt.Resolve(t.Sub(x.X)).V.(*ssa.FieldAddr); ok && types.Identical(deref(fa.X.Type()), frameT) {
					return fa.Field, false, true
				}
			}
		case *ssa.Field:
			if types.Identical(deref(x.X.Type()), frameT) {
				return x.Field, false, true
			}
		case *ssa.Call:
			if b, isB := x.Common().Value.(*ssa.Builtin); isB && b.Name() == "append" && len(x.Common().Args) > 0 {
				if f, _, ok := fromFrame(pt, t.Sub(x.Common().Args[0]), depth+1); ok {
					return f, true, true
				}
			}
		case *ssa.Slice:
			return fromFrame(pt, t.Sub(x.X), depth+1)
		case *ssa.MakeInterface:
			return fromFrame(pt, t.Sub(x.X), depth+1)
		}
		return 0, false, false
	}
	ex2 := &pathx.Explorer{Root: exit}
	paths := ex2.Explore()
	if ex2.Overflow || len(paths) == 0 {
		r.Unknown(rule, construct, p.Pos(exit.Pos()), "the paths of the closing callback could not be enumerated")
		return
	}
	restoring := 0
	bad := map[string]string{}
	for _, pt := range paths {
		if pt.End != "return" {
			continue
		}
		last := map[int]string{} // relation field → how its last store on the path got its value
		touched := false
		for _, ev := range pt.Events {
			switch in := ev.Instr.(type) {
			case *ssa.Store:
				addr := pt.Resolve(ev.Term(in.Addr))
				fa, ok := addr.V.(*ssa.FieldAddr)
				if !ok || !types.Identical(deref(fa.X.Type()), relT) {
					continue
				}
				touched = true
				kind := "other"
				if f, app, ok := fromFrame(pt, ev.Term(in.Val), 0); ok {
					for _, s := range parts {
						if s.frameField == f && s.relField == fa.Field {
							kind = "restored"
							if app {
								kind = "restored+group"
							}
						}
					}
					if kind == "other" {
						kind = "crossed"
					}
				}
				last[fa.Field] = kind
			case *ssa.Call:
				cc := in.Common()
				if _, isB := cc.Value.(*ssa.Builtin); isB {
					continue
				}
				for _, a := range cc.Args {
					if _, _, ok := fromFrame(pt, ev.Term(a), 0); ok {
						name := "a function value"
						if cal := cc.StaticCallee(); cal != nil {
							name = cal.Name()
						} else if cc.IsInvoke() {
							name = cc.Method.Name()
						}
						bad["handed:"+name] = "a value read from the popped frame (the operands or the operator of the enclosing, still open level) is handed to " + name +
							" (" + p.Pos(in.Pos()) + "): the enclosing level's operands may only be moved back; building an operator node from them before the level is closed nests what was written flat"
					}
				}
			}
		}
		if !touched {
			continue
		}
		restoring++
		for _, s := range parts {
			switch k := last[s.relField]; k {
			case "restored", "restored+group":
			case "":
				bad["missing:"+s.name] = fmt.Sprintf("a path of the closing callback goes on with the enclosing level but does not put back its %s, which the opening callback saved (conditions: %s): the level continues with the %s of the group that was just closed", s.name, factList(pt.Facts(-1)), s.name)
			default:
				bad["last:"+s.name] = fmt.Sprintf("on a path of the closing callback the last value stored into %s is not the saved one (%s; conditions: %s)", s.name, k, factList(pt.Facts(-1)))
			}
		}
	}
	var names []string
	for _, s := range parts {
		names = append(names, s.name)
	}
	switch {
	case len(bad) > 0:
		keys := make([]string, 0, len(bad))
		for k := range bad {
			keys = append(keys, k)
		}
		sort.Strings(keys)
		for _, k := range keys {
			r.Bad(rule, construct+":"+k, p.Pos(exit.Pos()), bad[k])
		}
	case restoring == 0:
		r.Unknown(rule, construct, p.Pos(exit.Pos()), "no path of the closing callback restores the enclosing level: anchors no longer resolve")
	default:
		r.OK(rule, construct, p.Pos(exit.Pos()), "path-enumeration", fmt.Sprintf("saved parts {%s}; %d restoring path(s), each puts back every part; nothing else reads the frame", strings.Join(names, ", "), restoring))
	}
}

func deref(t types.Type) types.Type {
	if p, ok := t.Underlying().(*types.Pointer); ok {
		return p.Elem()
	}
	return t
}

func structFieldName(t types.Type, i int) string {
	if st, ok := deref(t).Underlying().(*types.Struct); ok && i < st.NumFields() {
		return st.Field(i).Name()
	}
	return fmt.Sprintf("#%d", i)
}
