package e5path

import (
	"go/token"
	"strings"
	"verif/sa/internal/pathx"

	"golang.org/x/tools/go/ssa"
)

// FuncTargets lists the functions a function-typed value may denote, following the idioms by which a
// dispatch is spelled without a direct call: a variable assigned in branches (phi), a selector helper that
// returns one of several functions, a closure, a method expression or bound method (synthetic wrapper), and a
// package-level table (map or slice literal) that is filled by its initialiser and never written afterwards.
// complete is false when some alternative could not be resolved (a nil alternative is simply skipped).
func FuncTargets(v ssa.Value) (out []*ssa.Function, complete bool) {
	seen := map[ssa.Value]bool{}
	set := map[*ssa.Function]bool{}
	complete = true
	var visit func(v ssa.Value, depth int)
	add := func(f *ssa.Function) {
		f = unwrapSynthetic(f)
		if !set[f] {
			set[f] = true
			out = append(out, f)
		}
	}
	visit = func(v ssa.Value, depth int) {
		if seen[v] {
			return
		}
		seen[v] = true
		if depth > 8 {
			complete = false
			return
		}
		switch x := v.(type) {
		case *ssa.Function:
			add(x)
		case *ssa.MakeClosure:
			if f, ok := x.Fn.(*ssa.Function); ok {
				add(f)
			} else {
				complete = false
			}
		case *ssa.Const:
			if !x.IsNil() {
				complete = false
			}
		case *ssa.ChangeType:
			visit(x.X, depth+1)
		case *ssa.Phi:
			for _, e := range x.Edges {
				visit(e, depth+1)
			}
		case *ssa.Extract:
			if lk, ok := x.Tuple.(*ssa.Lookup); ok && x.Index == 0 {
				visit(lk, depth+1)
				return
			}
			complete = false
		case *ssa.Lookup:
			vals, ok := pathx.GlobalTableValues(x.X)
			if !ok {
				complete = false
				return
			}
			for _, tv := range vals {
				visit(tv, depth+1)
			}
		case *ssa.UnOp:
			if x.Op == token.MUL {
				if ia, ok := x.X.(*ssa.IndexAddr); ok {
					if vals, ok := pathx.GlobalTableValues(ia.X); ok {
						for _, tv := range vals {
							visit(tv, depth+1)
						}
						return
					}
				}
			}
			complete = false
		case *ssa.Call:
			callee := x.Common().StaticCallee()
			if callee == nil || len(callee.Blocks) == 0 || callee.Signature.Results().Len() != 1 {
				complete = false
				return
			}
			for _, b := range callee.Blocks {
				if ret, ok := b.Instrs[len(b.Instrs)-1].(*ssa.Return); ok {
					visit(ret.Results[0], depth+1)
				}
			}
		default:
			complete = false
		}
	}
	visit(v, 0)
	return out, complete
}

// unwrapSynthetic: for a method-expression thunk or bound-method wrapper, the method it forwards to.
func unwrapSynthetic(f *ssa.Function) *ssa.Function {
	if f == nil || len(f.Blocks) != 1 || !(strings.HasPrefix(f.Synthetic, "thunk") || strings.HasPrefix(f.Synthetic, "bound method wrapper") || strings.HasPrefix(f.Synthetic, "wrapper for")) {
		return f
	}
	var only *ssa.Function
	for _, in := range f.Blocks[0].Instrs {
		if c, ok := in.(ssa.CallInstruction); ok {
			if only != nil {
				return f
			}
			only = c.Common().StaticCallee()
		}
	}
	if only != nil {
		return only
	}
	return f
}
