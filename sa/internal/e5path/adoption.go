package e5path

import (
	"fmt"
	"strings"

	"golang.org/x/tools/go/ssa"

	"verif/sa/internal/load"
	"verif/sa/internal/oblig"
	"verif/sa/internal/pathx"
)

// LiveAdoption (C07/C12): the merger takes over the relations of an extension wholesale (base.Relations = ext.Relations)
// only on paths that have just established, on the base type itself, that it has no relations — not on a flag or a
// table entry computed earlier: a second file extending the same type would otherwise replace what the first one
// contributed (the last file wins, no clash is reported). Decided on the enumerated paths of the merger.
func LiveAdoption(p *load.Prog, r *oblig.Report, rule string) {
	fn := p.Func("transformer", "TransformModuleFilesToModel")
	construct := "wholesale-adoption:TransformModuleFilesToModel"
	if fn == nil {
		r.Unknown(rule, construct, "-", "TransformModuleFilesToModel not found")
		return
	}
	ex := &pathx.Explorer{Root: fn, MaxPaths: 60000}
	paths := ex.Explore()
	if ex.Overflow || len(paths) == 0 {
		r.Unknown(rule, construct, p.Pos(fn.Pos()), fmt.Sprintf("the paths of the merger could not be enumerated (%d, overflow %v)", len(paths), ex.Overflow))
		return
	}
	sites, bad := map[ssa.Instruction]bool{}, ""
	badPos := ""
	for _, pt := range paths {
		for _, ev := range pt.Events {
			st, ok := ev.Instr.(*ssa.Store)
			if !ok {
				continue
			}
			fa, ok := st.Addr.(*ssa.FieldAddr)
			if !ok || !strings.HasSuffix(fa.X.Type().String(), "openfga/v1.TypeDefinition") {
				continue
			}
			addr := pt.Render(ev.Term(st.Addr))
			if !strings.HasSuffix(addr, ".Relations") {
				continue
			}
			val := pt.Render(ev.Term(st.Val))
			if !strings.HasSuffix(val, ".Relations") || val == addr {
				continue // a fresh map, or the same list: not the adoption of another type's relations
			}
			sites[st] = true
			base := strings.TrimSuffix(addr, ".Relations")
			okLive := false
			for _, f := range pt.Facts(ev.NCond) {
				if !f.Value {
					continue
				}
				if f.Atom == "len("+base+".Relations) == 0" || f.Atom == base+".Relations == nil" {
					okLive = true
				}
			}
			if !okLive {
				bad = "the relations of " + pathx.StripUnique(val[:len(val)-len(".Relations")]) + " replace those of " + pathx.StripUnique(base) + " on a path that has not just tested len(" + pathx.StripUnique(base) + ".Relations) == 0 on that object"
				badPos = p.Pos(st.Pos())
			}
		}
	}
	switch {
	case bad != "":
		r.Bad(rule, construct, badPos, bad+": decided on something computed earlier, a second extension of the same type replaces what the first one contributed and no clash is reported")
	case len(sites) == 0:
		r.Unknown(rule, construct, p.Pos(fn.Pos()), "no wholesale adoption of an extension's relations found in the merger")
	default:
		r.OK(rule, construct, p.Pos(fn.Pos()), "path-enumeration", fmt.Sprintf("%d adoption site(s), each reached only after the base type itself was found to have no relations", len(sites)))
	}
}
