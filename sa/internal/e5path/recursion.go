package e5path

import (
	"fmt"
	"go/types"
	"sort"

	"golang.org/x/tools/go/ssa"

	"verif/sa/internal/load"
	"verif/sa/internal/oblig"
)

// RecursionFanOut (C08, complexity of the recursive tree walkers): in every group of mutually recursive functions that
// walk a tree — some recursive call hands down a part of a parameter of tree type T — no path through one
// invocation makes two recursive calls that hand down the SAME, unchanged T parameter. Handing the whole node on
// once per invocation (dispatch by variant) is linear; doing it twice doubles the work at every level, so a few
// kilobytes of nesting stall the caller. Calls that hand down a part (a child, a field) may be made any number of times.
func RecursionFanOut(p *load.Prog, r *oblig.Report, rule string, funcs []*ssa.Function) {
	inSet := map[*ssa.Function]bool{}
	for _, f := range funcs {
		inSet[f] = true
	}
	cg := p.CallGraph()
	calleesOf := func(site ssa.CallInstruction) []*ssa.Function {
		if c := site.Common().StaticCallee(); c != nil {
			return []*ssa.Function{c}
		}
		var out []*ssa.Function
		if n := cg.Nodes[site.Parent()]; n != nil {
			for _, e := range n.Out {
				if e.Site == site && e.Callee.Func != nil {
					out = append(out, e.Callee.Func)
				}
			}
		}
		return out
	}
	succ := map[*ssa.Function][]*ssa.Function{}
	for _, f := range funcs {
		for _, b := range f.Blocks {
			for _, in := range b.Instrs {
				if site, ok := in.(ssa.CallInstruction); ok {
					for _, c := range calleesOf(site) {
						if inSet[c] {
							succ[f] = append(succ[f], c)
						}
					}
				}
			}
		}
	}
	// Tarjan
	index, low, onStack := map[*ssa.Function]int{}, map[*ssa.Function]int{}, map[*ssa.Function]bool{}
	var stack []*ssa.Function
	comp := map[*ssa.Function]int{}
	ncomp, next := 0, 0
	var members [][]*ssa.Function
	var strong func(v *ssa.Function)
	strong = func(v *ssa.Function) {
		index[v], low[v] = next, next
		next++
		stack = append(stack, v)
		onStack[v] = true
		for _, w := range succ[v] {
			if _, seen := index[w]; !seen {
				strong(w)
				if low[w] < low[v] {
					low[v] = low[w]
				}
			} else if onStack[w] && index[w] < low[v] {
				low[v] = index[w]
			}
		}
		if low[v] == index[v] {
			var ms []*ssa.Function
			for {
				w := stack[len(stack)-1]
				stack = stack[:len(stack)-1]
				onStack[w] = false
				comp[w] = ncomp
				ms = append(ms, w)
				if w == v {
					break
				}
			}
			members = append(members, ms)
			ncomp++
		}
	}
	sorted := append([]*ssa.Function{}, funcs...)
	sort.Slice(sorted, func(i, j int) bool { return load.FuncName(sorted[i]) < load.FuncName(sorted[j]) })
	for _, f := range sorted {
		if _, seen := index[f]; !seen {
			strong(f)
		}
	}
	treeType := func(t types.Type) bool {
		_, isPtr := t.Underlying().(*types.Pointer)
		return isPtr
	}
	strip := func(v ssa.Value) ssa.Value {
		for {
			switch x := v.(type) {
			case *ssa.ChangeType:
				v = x.X
				continue
			case *ssa.MakeInterface:
				v = x.X
				continue
			}
			return v
		}
	}
	var derived func(v ssa.Value, f *ssa.Function, typ types.Type, depth int, seen map[ssa.Value]bool) bool
	derived = func(v ssa.Value, f *ssa.Function, typ types.Type, depth int, seen map[ssa.Value]bool) bool {
		if depth > 12 || v == nil || seen[v] {
			return false
		}
		seen[v] = true
		if depth > 0 {
			if prm, ok := v.(*ssa.Parameter); ok && prm.Parent() == f && types.Identical(prm.Type(), typ) {
				return true
			}
		}
		switch x := v.(type) {
		case *ssa.UnOp:
			return derived(x.X, f, typ, depth+1, seen)
		case *ssa.FieldAddr:
			return derived(x.X, f, typ, depth+1, seen)
		case *ssa.Field:
			return derived(x.X, f, typ, depth+1, seen)
		case *ssa.IndexAddr:
			return derived(x.X, f, typ, depth+1, seen)
		case *ssa.Index:
			return derived(x.X, f, typ, depth+1, seen)
		case *ssa.Lookup:
			return derived(x.X, f, typ, depth+1, seen)
		case *ssa.Extract:
			return derived(x.Tuple, f, typ, depth+1, seen)
		case *ssa.Next:
			return derived(x.Iter, f, typ, depth+1, seen)
		case *ssa.Range:
			return derived(x.X, f, typ, depth+1, seen)
		case *ssa.Slice:
			return derived(x.X, f, typ, depth+1, seen)
		case *ssa.ChangeType:
			return derived(x.X, f, typ, depth+1, seen)
		case *ssa.MakeInterface:
			return derived(x.X, f, typ, depth+1, seen)
		case *ssa.TypeAssert:
			return derived(x.X, f, typ, depth+1, seen)
		case *ssa.ChangeInterface:
			return derived(x.X, f, typ, depth+1, seen)
		case *ssa.Phi:
			for _, e := range x.Edges {
				if derived(e, f, typ, depth+1, seen) {
					return true
				}
			}
		case *ssa.Call:
			// a getter or an accessor applied to something derived
			for _, a := range x.Common().Args {
				if derived(a, f, typ, depth+1, seen) {
					return true
				}
			}
			if x.Common().IsInvoke() {
				return derived(x.Common().Value, f, typ, depth+1, seen)
			}
		}
		return false
	}
	reaches := func(a, b ssa.Instruction) bool {
		if a.Block() == b.Block() {
			for _, in := range a.Block().Instrs {
				if in == a {
					return true
				}
				if in == b {
					break
				}
			}
		}
		seen := map[*ssa.BasicBlock]bool{}
		work := append([]*ssa.BasicBlock{}, a.Block().Succs...)
		for len(work) > 0 {
			blk := work[len(work)-1]
			work = work[:len(work)-1]
			if seen[blk] {
				continue
			}
			seen[blk] = true
			if blk == b.Block() {
				return true
			}
			work = append(work, blk.Succs...)
		}
		return false
	}
	walkers := 0
	for ci, ms := range members {
		recursive := len(ms) > 1
		if !recursive {
			for _, w := range succ[ms[0]] {
				if w == ms[0] {
					recursive = true
				}
			}
		}
		if !recursive {
			continue
		}
		type rsite struct {
			site   ssa.CallInstruction
			f      *ssa.Function
			same   map[*ssa.Parameter]bool
			passes []types.Type
		}
		var sites []rsite
		structural := map[string]types.Type{}
		for _, f := range ms {
			for _, b := range f.Blocks {
				for _, in := range b.Instrs {
					site, ok := in.(ssa.CallInstruction)
					if !ok {
						continue
					}
					rec := false
					for _, c := range calleesOf(site) {
						if inSet[c] && comp[c] == ci {
							rec = true
						}
					}
					if !rec {
						continue
					}
					rs := rsite{site: site, f: f, same: map[*ssa.Parameter]bool{}}
					for _, a := range site.Common().Args {
						if !treeType(a.Type()) {
							continue
						}
						if prm, isP := strip(a).(*ssa.Parameter); isP && prm.Parent() == f {
							rs.same[prm] = true
							continue
						}
						if derived(a, f, a.Type(), 0, map[ssa.Value]bool{}) {
							structural[a.Type().String()] = a.Type()
						}
					}
					sites = append(sites, rs)
				}
			}
		}
		if len(structural) == 0 {
			continue // not a tree walker (recursion over ids with a visited set, etc.)
		}
		walkers++
		names := make([]string, 0, len(ms))
		for _, f := range ms {
			names = append(names, f.Name())
		}
		sort.Strings(names)
		construct := fmt.Sprintf("recursion-fan-out:%s", names[0])
		bad := ""
		for i, s1 := range sites {
			for j, s2 := range sites {
				if i == j || s1.f != s2.f {
					continue
				}
				for prm := range s1.same {
					if _, isTree := structural[prm.Type().String()]; isTree && s2.same[prm] && reaches(s1.site.(ssa.Instruction), s2.site.(ssa.Instruction)) {
						bad = fmt.Sprintf("%s hands its unchanged parameter %s to the recursion at %s and again at %s on one path", load.FuncName(s1.f), prm.Name(), p.Pos(s1.site.Pos()), p.Pos(s2.site.Pos()))
					}
				}
			}
		}
		pos := p.Pos(ms[0].Pos())
		if bad != "" {
			r.Bad(rule, construct, pos, bad+": the work doubles at every nesting level, so a few kilobytes of nested input stall the caller")
		} else {
			r.OK(rule, construct, pos, "call-graph+cfg", fmt.Sprintf("%d mutually recursive functions (%v); no path hands the same tree node down twice", len(ms), names))
		}
	}
	if walkers == 0 {
		r.Unknown(rule, "recursion-fan-out", "-", "no recursive tree walker found among the analysed functions: anchors no longer resolve")
	}
}
