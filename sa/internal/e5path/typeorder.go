package e5path

import (
	"fmt"
	"go/token"
	"go/types"
	"os"
	"strings"

	"golang.org/x/tools/go/ssa"

	"verif/sa/internal/load"
	"verif/sa/internal/oblig"
	"verif/sa/internal/pathx"
)

func isTypeDefPtr(t types.Type) bool {
	return strings.HasSuffix(t.String(), "openfga/v1.TypeDefinition") && strings.HasPrefix(t.String(), "*")
}

func isTypeDefList(t types.Type) bool {
	sl, ok := t.Underlying().(*types.Slice)
	return ok && isTypeDefPtr(sl.Elem())
}

// SortedListIsRendered (C14, "for modular models also across any order of the type definitions"): on every path
// of TransformJSONProtoToDSL on which a list of type definitions is sorted, the type definitions that are then
// rendered are the elements of that sorted list itself — not of the caller's list, and not of a list that carries
// an unsorted part in front of or behind the sorted one. Decided on the enumerated paths (helpers that take the
// whole list or the model are followed; per-type renderers are the events).
func SortedListIsRendered(p *load.Prog, r *oblig.Report, rule string) {
	fn := p.Func("transformer", "TransformJSONProtoToDSL")
	construct := "sorted-list-is-rendered:TransformJSONProtoToDSL"
	if fn == nil {
		r.Unknown(rule, construct, "-", "TransformJSONProtoToDSL not found")
		return
	}
	ex := &pathx.Explorer{Root: fn, MaxPaths: 40000}
	ex.Follow = func(c *ssa.Function) bool {
		if c.Pkg != fn.Pkg || len(c.Blocks) == 0 || (c.Parent() == nil && token.IsExported(c.Name())) {
			return false
		}
		// a renderer of one type definition (or of one condition) is an effect, not a helper of the ordering
		for _, q := range c.Params {
			if isTypeDefPtr(q.Type()) || strings.HasSuffix(q.Type().String(), "openfga/v1.Condition") {
				return false
			}
			if _, isMap := q.Type().Underlying().(*types.Map); isMap {
				return false
			}
		}
		return true
	}
	paths := ex.Explore()
	if ex.Overflow || len(paths) == 0 {
		r.Unknown(rule, construct, p.Pos(fn.Pos()), "the paths of TransformJSONProtoToDSL could not be enumerated")
		return
	}
	sortedPaths, renders, bad := 0, 0, ""
	if os.Getenv("VERIF_PATHX_DEBUG") != "" {
		ends := map[string]int{}
		for _, pt := range paths {
			ends[pt.End]++
		}
		fmt.Fprintf(os.Stderr, "pathx TransformJSONProtoToDSL: %d paths %v\n", len(paths), ends)
		for i, pt := range paths {
			if i > 3 {
				break
			}
			for _, ev := range pt.Events {
				if c, ok := ev.Instr.(*ssa.Call); ok {
					fmt.Fprintf(os.Stderr, "  path %d call %s\n", i, c.Common().Value.String())
				}
			}
			for _, f := range pt.Facts(-1) {
				fmt.Fprintf(os.Stderr, "  path %d fact %s = %v\n", i, pathx.StripUnique(f.Atom), f.Value)
			}
		}
	}
	for _, pt := range paths {
		if pt.End == "cut" || pt.End == "panic" {
			continue
		}
		var sorted []pathx.Term
		for _, ev := range pt.Events {
			call, ok := ev.Instr.(*ssa.Call)
			if !ok {
				continue
			}
			cc := call.Common()
			callee := cc.StaticCallee()
			if callee == nil {
				continue
			}
			o := callee
			if callee.Origin() != nil {
				o = callee.Origin()
			}
			if o.Pkg != nil && (o.Pkg.Pkg.Path() == "slices" || o.Pkg.Pkg.Path() == "sort") && len(cc.Args) > 0 {
				switch o.Name() {
				case "SortFunc", "SortStableFunc", "Slice", "SliceStable", "Sort", "Stable":
					l := pt.Resolve(ev.Term(cc.Args[0]))
					if mi, isMI := l.V.(*ssa.MakeInterface); isMI {
						l = pt.Resolve(l.Sub(mi.X))
					}
					if isTypeDefList(l.V.Type()) {
						sorted = append(sorted, l)
					}
				case "Sorted", "SortedFunc", "SortedStableFunc":
					if isTypeDefList(call.Type()) {
						sorted = append(sorted, pt.Resolve(ev.Term(call)))
					}
				}
				continue
			}
			if len(sorted) == 0 {
				continue
			}
			// a per-type renderer: which list does its type definition come from?
			for _, a := range cc.Args {
				if !isTypeDefPtr(a.Type()) {
					continue
				}
				el := pt.Resolve(ev.Term(a))
				var from pathx.Term
				switch x := el.V.(type) {
				case *ssa.UnOp:
					if ia, isIA := x.X.(*ssa.IndexAddr); isIA && x.Op == token.MUL {
						from = pt.Resolve(el.Sub(ia.X))
					}
				case *ssa.Extract:
					if nx, isNx := x.Tuple.(*ssa.Next); isNx {
						if rg, isRg := nx.Iter.(*ssa.Range); isRg {
							from = pt.Resolve(el.Sub(rg.X))
						}
					}
				}
				if from.IsZero() {
					continue
				}
				renders++
				same := false
				for _, l := range sorted {
					if l.V == from.V && l.F == from.F {
						same = true
					}
				}
				if !same {
					bad = fmt.Sprintf("on a path that sorts a list of type definitions, %s is applied to an element of %s, which is not the sorted list", load.FuncName(callee), pathx.StripUnique(pt.Render(from)))
				}
			}
		}
		if len(sorted) > 0 {
			sortedPaths++
		}
	}
	switch {
	case bad != "":
		r.Bad(rule, construct, p.Pos(fn.Pos()), bad+": the output of a modular model follows the caller's order of type definitions")
	case sortedPaths == 0 || renders == 0:
		r.Unknown(rule, construct, p.Pos(fn.Pos()), fmt.Sprintf("expected paths that sort the type definitions and then render them (found %d sorting paths, %d rendered elements)", sortedPaths, renders))
	default:
		r.OK(rule, construct, p.Pos(fn.Pos()), "path-enumeration", fmt.Sprintf("%d paths sort the type definitions; every type rendered afterwards is an element of the sorted list", sortedPaths))
	}
}
