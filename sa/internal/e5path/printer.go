package e5path

import (
	"fmt"
	"go/constant"
	"go/token"
	"go/types"
	"sort"
	"strings"

	"golang.org/x/tools/go/ssa"

	"verif/sa/internal/load"
	"verif/sa/internal/oblig"
)

func isConstString(v ssa.Value, want string) bool {
	c, ok := v.(*ssa.Const)
	return ok && c.Value != nil && c.Value.Kind() == constant.String && constant.StringVal(c.Value) == want
}

func callersOf(funcs []*ssa.Function, target *ssa.Function) map[*ssa.Function][]ssa.CallInstruction {
	out := map[*ssa.Function][]ssa.CallInstruction{}
	for _, f := range funcs {
		for _, b := range f.Blocks {
			for _, in := range b.Instrs {
				call, ok := in.(ssa.CallInstruction)
				if !ok {
					continue
				}
				if call.Common().StaticCallee() == target {
					out[f] = append(out[f], call)
				}
				// function values: parseFn = parseUnion
			}
		}
	}
	return out
}

// usesAsValue: functions that mention target as a value (assigned to a variable, passed along).
func usesAsValue(funcs []*ssa.Function, target *ssa.Function) []*ssa.Function {
	var out []*ssa.Function
	for _, f := range funcs {
		found := false
		for _, b := range f.Blocks {
			for _, in := range b.Instrs {
				for _, op := range in.Operands(nil) {
					if *op == ssa.Value(target) {
						if call, ok := in.(ssa.CallInstruction); ok && call.Common().Value == ssa.Value(target) {
							continue
						}
						found = true
					}
				}
			}
		}
		if found {
			out = append(out, f)
		}
	}
	return out
}

// NestedInParens (C01 clause 3): the operator printers are reached only from the sub-relation
// printer — whose three operator branches wrap their result in "(" … ")" — and from the relation
// printer (top level, where no parentheses are needed). An operator printer that calls another
// operator printer directly prints a nested operator without parentheses.
func NestedInParens(p *load.Prog, r *oblig.Report, rule string, funcs []*ssa.Function) {
	sub := p.Func("transformer", "parseSubRelation")
	top := p.Func("transformer", "parseRelation")
	ops := map[string]*ssa.Function{}
	for _, n := range []string{"parseUnion", "parseIntersection", "parseDifference"} {
		ops[n] = p.Func("transformer", n)
	}
	if sub == nil || top == nil || ops["parseUnion"] == nil || ops["parseIntersection"] == nil || ops["parseDifference"] == nil {
		r.Unknown(rule, "anchor:printer-functions", "-", "one of parseSubRelation/parseRelation/parseUnion/parseIntersection/parseDifference not found")
		return
	}
	names := make([]string, 0, 3)
	for n := range ops {
		names = append(names, n)
	}
	sort.Strings(names)
	// opTargets: the operator printers a callee expression may denote — the function itself, a variable assigned
	// from several of them (phi), or the result of a selector helper that returns one of them (or nil)
	var opTargets func(v ssa.Value, depth int) map[string]bool
	selectorOf := func(f *ssa.Function, depth int) map[string]bool {
		out := map[string]bool{}
		if f == nil || f.Pkg != sub.Pkg || len(f.Blocks) == 0 || depth > 3 {
			return out
		}
		for _, b := range f.Blocks {
			if ret, ok := b.Instrs[len(b.Instrs)-1].(*ssa.Return); ok {
				for _, rv := range ret.Results {
					for n := range opTargets(rv, depth+1) {
						out[n] = true
					}
				}
			}
		}
		return out
	}
	opTargets = func(v ssa.Value, depth int) map[string]bool {
		out := map[string]bool{}
		if depth > 6 {
			return out
		}
		switch x := v.(type) {
		case *ssa.Function:
			for n, f := range ops {
				if x == f {
					out[n] = true
				}
			}
		case *ssa.ChangeType:
			return opTargets(x.X, depth+1)
		case *ssa.Phi:
			for _, e := range x.Edges {
				for n := range opTargets(e, depth+1) {
					out[n] = true
				}
			}
		case *ssa.Call:
			if _, isFn := x.Type().Underlying().(*types.Signature); isFn {
				return selectorOf(x.Common().StaticCallee(), depth)
			}
		}
		return out
	}
	// selectors: helpers of the package that hand out operator printers as function values
	selectors := map[*ssa.Function]bool{}
	for _, f := range funcs {
		if f != sub && f != top && f.Signature.Results().Len() == 1 {
			if _, isFn := f.Signature.Results().At(0).Type().Underlying().(*types.Signature); isFn && len(selectorOf(f, 0)) > 0 {
				selectors[f] = true
			}
		}
	}
	dynCallers := map[string]map[*ssa.Function]bool{}
	for _, f := range funcs {
		for _, b := range f.Blocks {
			for _, in := range b.Instrs {
				call, ok := in.(ssa.CallInstruction)
				if !ok || call.Common().IsInvoke() || call.Common().StaticCallee() != nil {
					continue
				}
				for n := range opTargets(call.Common().Value, 0) {
					if dynCallers[n] == nil {
						dynCallers[n] = map[*ssa.Function]bool{}
					}
					dynCallers[n][f] = true
				}
			}
		}
	}
	for _, n := range names {
		f := ops[n]
		construct := "operator-printer-callers:" + n
		bad := ""
		for caller := range callersOf(funcs, f) {
			if caller != sub && caller != top {
				bad = load.FuncName(caller)
			}
		}
		for caller := range dynCallers[n] {
			if caller != sub && caller != top {
				bad = load.FuncName(caller) + " (through a function value)"
			}
		}
		for _, user := range usesAsValue(funcs, f) {
			if user == top || user == sub {
				continue
			}
			if selectors[user] {
				// a selector helper: whoever receives its result must be one of the two printers
				for caller := range callersOf(funcs, user) {
					if caller != sub && caller != top {
						bad = load.FuncName(caller) + " (through the selector " + load.FuncName(user) + ")"
					}
				}
				for _, u2 := range usesAsValue(funcs, user) {
					bad = load.FuncName(u2) + " (the selector " + load.FuncName(user) + " as a function value)"
				}
				continue
			}
			bad = load.FuncName(user) + " (as a function value)"
		}
		if bad == "" {
			r.OK(rule, construct, p.Pos(f.Pos()), "who-may-call", "called only from parseSubRelation (parenthesised) and parseRelation (top level)")
		} else {
			r.Bad(rule, construct, p.Pos(f.Pos()), n+" is also reached from "+bad+": a nested operator is printed without the parentheses that parseSubRelation adds, so the text re-parses to a different tree")
		}
	}
	// in parseSubRelation: wherever the text of an operator printer appears in a returned string it stands
	// between "(" and ")" (Sprintf, concatenation or a wrapping helper — all read as templates)
	isOpText := func(v ssa.Value) []string {
		if ex, ok := v.(*ssa.Extract); ok && ex.Index == 0 {
			v = ex.Tuple
		}
		var out []string
		if c, ok := v.(*ssa.Call); ok {
			for n, f := range ops {
				if c.Common().StaticCallee() == f {
					out = append(out, n)
				}
			}
			if c.Common().StaticCallee() == nil && !c.Common().IsInvoke() {
				for n := range opTargets(c.Common().Value, 0) {
					out = append(out, n)
				}
			}
		}
		sort.Strings(out)
		return out
	}
	wrapped, bare := map[string]bool{}, map[string]string{}
	for _, t := range ReturnTemplates(sub, ops["parseUnion"], ops["parseIntersection"], ops["parseDifference"]) {
		for i, pc := range t {
			if pc.Val == nil {
				continue
			}
			for _, n := range isOpText(pc.Val) {
				before := i > 0 && t[i-1].Val == nil && strings.HasSuffix(t[i-1].Lit, "(")
				after := i+1 < len(t) && t[i+1].Val == nil && strings.HasPrefix(t[i+1].Lit, ")")
				if before && after {
					wrapped[n] = true
				} else {
					bare[n] = TemplateString(t)
				}
			}
		}
	}
	for _, n := range names {
		construct := "parenthesised-return:" + n
		switch {
		case bare[n] != "":
			r.Bad(rule, construct, p.Pos(sub.Pos()), fmt.Sprintf("parseSubRelation returns the text of %s as %q: it is not enclosed in '(' and ')', so the nested operator re-parses to a different tree", n, bare[n]))
		case wrapped[n]:
			r.OK(rule, construct, p.Pos(sub.Pos()), "template-shape", "\"(\" + text + \")\" in every returned string")
		default:
			r.Bad(rule, construct, p.Pos(sub.Pos()), "the text returned by "+n+" does not reach a string returned by parseSubRelation between parentheses")
		}
	}
}

// indexZeroPath extends AccessPath for x[0].
// pathsWithIndex: like pathWithIndex, with a phi in the indexed list expanded into its alternatives.
func pathsWithIndex(v ssa.Value) []string {
	if ld, ok := v.(*ssa.UnOp); ok && ld.Op == token.MUL {
		if ia, ok := ld.X.(*ssa.IndexAddr); ok {
			if ph, ok := ia.X.(*ssa.Phi); ok {
				idx := "?"
				if c, ok := ia.Index.(*ssa.Const); ok && c.Value != nil {
					idx = c.Value.ExactString()
				}
				var out []string
				for _, e := range ph.Edges {
					if c, isC := e.(*ssa.Const); isC && c.IsNil() {
						continue
					}
					out = append(out, pathWithIndex(e)+"["+idx+"]")
				}
				return out
			}
		}
	}
	return []string{pathWithIndex(v)}
}

func pathWithIndex(v ssa.Value) string {
	switch x := v.(type) {
	case *ssa.UnOp:
		if x.Op == token.MUL {
			if ia, ok := x.X.(*ssa.IndexAddr); ok {
				if c, ok := ia.Index.(*ssa.Const); ok && c.Value != nil {
					return pathWithIndex(ia.X) + "[" + c.Value.ExactString() + "]"
				}
				return pathWithIndex(ia.X) + "[?]"
			}
		}
	case *ssa.Index:
		if c, ok := x.Index.(*ssa.Const); ok && c.Value != nil {
			return pathWithIndex(x.X) + "[" + c.Value.ExactString() + "]"
		}
		return pathWithIndex(x.X) + "[?]"
	}
	return AccessPath(v)
}

// FirstPositionRecursion (C02 clause 1b / C01): the predicate that decides whether the single direct
// assignment is printable recurses exactly into the base of a difference and into the FIRST child
// of a union / intersection — into nothing else (that would accept a direct assignment in a later
// operand) and into nothing less (that would reject DSL the parser accepts).
func FirstPositionRecursion(p *load.Prog, r *oblig.Report, rule string) {
	fn := p.Method("transformer", "DirectAssignmentValidator", "isFirstPosition")
	if fn == nil {
		r.Unknown(rule, "anchor:isFirstPosition", "-", "isFirstPosition not found")
		return
	}
	// the rewrite asked about: the parameter of type *Userset (second of the method, first of a plain function)
	var usersetParam string
	ui := -1
	for i, prm := range fn.Params {
		if strings.HasSuffix(prm.Type().String(), "/v1.Userset") {
			usersetParam, ui = prm.Name(), i
		}
	}
	if ui < 0 {
		r.Unknown(rule, "anchor:isFirstPosition", p.Pos(fn.Pos()), "isFirstPosition has no *Userset parameter")
		return
	}
	got := map[string]bool{}
	// the recursive calls, in the function itself and in helpers of its package it delegates to (their
	// parameters rendered as the arguments they receive)
	subst := func(path string, env map[string]string) string {
		for name, arg := range env {
			if path == name {
				return arg
			}
			if strings.HasPrefix(path, name+".") || strings.HasPrefix(path, name+"[") {
				return arg + path[len(name):]
			}
		}
		return path
	}
	var collect func(f *ssa.Function, env map[string]string, depth int)
	collect = func(f *ssa.Function, env map[string]string, depth int) {
		for _, b := range f.Blocks {
			for _, in := range b.Instrs {
				call, ok := in.(ssa.CallInstruction)
				if !ok {
					continue
				}
				callee := call.Common().StaticCallee()
				if callee == nil {
					continue
				}
				if callee == fn && len(call.Common().Args) > ui {
					for _, pth := range pathsWithIndex(call.Common().Args[ui]) {
						got[subst(pth, env)] = true
					}
					continue
				}
				if callee.Pkg == fn.Pkg && len(callee.Blocks) > 0 && depth < 2 && callee != f {
					sub := map[string]string{}
					for i, prm := range callee.Params {
						if i < len(call.Common().Args) {
							sub[prm.Name()] = subst(pathWithIndex(call.Common().Args[i]), env)
						}
					}
					collect(callee, sub, depth+1)
				}
			}
		}
	}
	collect(fn, nil, 0)
	want := map[string]bool{
		usersetParam + ".Difference.Base":       true,
		usersetParam + ".Intersection.Child[0]": true,
		usersetParam + ".Union.Child[0]":        true,
	}
	var extra, missing []string
	for g := range got {
		if !want[g] {
			extra = append(extra, g)
		}
	}
	for w := range want {
		if !got[w] {
			missing = append(missing, w)
		}
	}
	sort.Strings(extra)
	sort.Strings(missing)
	construct := "first-position-recursion:isFirstPosition"
	switch {
	case len(extra) > 0:
		r.Bad(rule, construct, p.Pos(fn.Pos()), "isFirstPosition also descends into "+strings.Join(extra, ", ")+": a direct assignment in an operand that is not first would be declared printable and different (unparseable) DSL is produced instead of the nesting error")
	case len(missing) > 0:
		r.Bad(rule, construct, p.Pos(fn.Pos()), "isFirstPosition does not descend into "+strings.Join(missing, ", ")+": a direct assignment nested in the first operand — which the grammar accepts — would be rejected with the nesting error")
	default:
		r.OK(rule, construct, p.Pos(fn.Pos()), "recursion-targets", "difference base, first child of intersection, first child of union")
	}
}

// ValidatorGuard (C02 clause 1, R5.1): the only successful return of parseRelation that yields text
// is dominated by occurrences()==0 || (occurrences()==1 && isFirstPosition(root)), root being the
// function's own rewrite parameter; every This branch increments the validator it was handed.
func ValidatorGuard(p *load.Prog, r *oblig.Report, rule string) {
	fn := p.Func("transformer", "parseRelation")
	if fn == nil {
		r.Unknown(rule, "anchor:parseRelation", "-", "parseRelation not found")
		return
	}
	construct := "validator-guard:parseRelation"
	// The text of a relation may be returned only when occurrences()==0, or occurrences()==1 and
	// isFirstPosition(<own rewrite>) holds. Decided by walking the CFG under each of the six valuations of
	// (occurrences ∈ {0, 1, more}, isFirstPosition ∈ {true, false}); conditions on anything else are explored both
	// ways. The spelling of the guard (negated, hoisted into locals, early error return) does not matter.
	var relParam *ssa.Parameter
	for _, q := range fn.Params {
		if strings.HasSuffix(q.Type().String(), "openfga/v1.Userset") {
			relParam = q
		}
	}
	isOcc := func(v ssa.Value) bool {
		c, ok := v.(*ssa.Call)
		return ok && c.Common().StaticCallee() != nil && c.Common().StaticCallee().Name() == "occurrences"
	}
	wrongArg := ""
	type penv map[*ssa.Parameter]ssa.Value
	var env penv // bindings of the helper being evaluated (nil in parseRelation itself)
	resolveArg := func(v ssa.Value) ssa.Value {
		for i := 0; i < 4; i++ {
			q, ok := v.(*ssa.Parameter)
			if !ok || env == nil {
				break
			}
			b, has := env[q]
			if !has {
				break
			}
			v = b
		}
		return v
	}
	var explore func(f *ssa.Function, occ int, first bool, onReturn func(*ssa.Return, *ssa.BasicBlock, *ssa.BasicBlock))
	var eval func(v ssa.Value, occ int, first bool, prev, cur *ssa.BasicBlock, depth int) (bool, bool)
	helperDepth := 0
	eval = func(v ssa.Value, occ int, first bool, prev, cur *ssa.BasicBlock, depth int) (bool, bool) {
		if depth > 8 {
			return false, false
		}
		switch x := v.(type) {
		case *ssa.Const:
			if x.Value != nil && x.Value.Kind() == constant.Bool {
				return constant.BoolVal(x.Value), true
			}
		case *ssa.UnOp:
			if x.Op == token.NOT {
				r, k := eval(x.X, occ, first, prev, cur, depth+1)
				return !r, k
			}
		case *ssa.BinOp:
			var c *ssa.Const
			var other ssa.Value
			if cc, ok := x.Y.(*ssa.Const); ok {
				c, other = cc, x.X
			} else if cc, ok := x.X.(*ssa.Const); ok {
				c, other = cc, x.Y
			}
			if c != nil && isOcc(other) && c.Value != nil && c.Value.Kind() == constant.Int {
				k := int(c.Int64())
				val := occ // 0, 1, or 2 standing for "more than one"
				var res bool
				switch x.Op {
				case token.EQL:
					res = val == k
				case token.NEQ:
					res = val != k
				case token.GTR:
					res = val > k
				case token.GEQ:
					res = val >= k
				case token.LSS:
					res = val < k
				case token.LEQ:
					res = val <= k
				default:
					return false, false
				}
				if other == x.Y && c == x.X { // constant on the left: flip the relational operators
					switch x.Op {
					case token.GTR:
						res = k > val
					case token.GEQ:
						res = k >= val
					case token.LSS:
						res = k < val
					case token.LEQ:
						res = k <= val
					}
				}
				if k > 2 {
					return false, false
				}
				return res, true
			}
		case *ssa.Call:
			if cal := x.Common().StaticCallee(); cal != nil && cal.Name() == "isFirstPosition" {
				if len(x.Common().Args) == 2 && relParam != nil && resolveArg(x.Common().Args[1]) != ssa.Value(relParam) {
					wrongArg = AccessPath(resolveArg(x.Common().Args[1]))
				}
				return first, true
			}
			// a boolean helper of the package (validator.isExpressible(root)): the values it can return under this valuation
			if cal := x.Common().StaticCallee(); cal != nil && cal.Pkg == fn.Pkg && len(cal.Blocks) > 0 && helperDepth < 3 &&
				cal.Signature.Results().Len() == 1 && types.Identical(cal.Signature.Results().At(0).Type().Underlying(), types.Typ[types.Bool]) {
				saved := env
				ne := penv{}
				for i, q := range cal.Params {
					if i < len(x.Common().Args) {
						ne[q] = resolveArg(x.Common().Args[i])
					}
				}
				env = ne
				helperDepth++
				canT, canF, unknown := false, false, false
				explore(cal, occ, first, func(ret *ssa.Return, b, prev *ssa.BasicBlock) {
					rv, known := eval(ret.Results[0], occ, first, prev, b, 0)
					switch {
					case !known:
						unknown = true
					case rv:
						canT = true
					default:
						canF = true
					}
				})
				helperDepth--
				env = saved
				if !unknown && canT != canF {
					return canT, true
				}
				return false, false
			}
		case *ssa.Phi:
			if x.Block() == cur && prev != nil {
				for i, pb := range cur.Preds {
					if pb == prev {
						return eval(x.Edges[i], occ, first, nil, prev, depth+1)
					}
				}
			}
		}
		return false, false
	}
	type vis struct {
		b, prev *ssa.BasicBlock
	}
	explore = func(f *ssa.Function, occ int, first bool, onReturn func(*ssa.Return, *ssa.BasicBlock, *ssa.BasicBlock)) {
		seen := map[vis]bool{}
		var walk func(b, prev *ssa.BasicBlock)
		walk = func(b, prev *ssa.BasicBlock) {
			if seen[vis{b, prev}] {
				return
			}
			seen[vis{b, prev}] = true
			switch t := b.Instrs[len(b.Instrs)-1].(type) {
			case *ssa.Return:
				onReturn(t, b, prev)
			case *ssa.If:
				res, known := eval(t.Cond, occ, first, prev, b, 0)
				if !known || res {
					walk(b.Succs[0], b)
				}
				if !known || !res {
					walk(b.Succs[1], b)
				}
			default:
				for _, sc := range b.Succs {
					walk(sc, b)
				}
			}
		}
		walk(f.Blocks[0], nil)
	}
	reach := func(occ int, first bool) bool {
		found := false
		ei := returnsError(fn)
		explore(fn, occ, first, func(t *ssa.Return, _, _ *ssa.BasicBlock) {
			if ei >= 0 && ei < len(t.Results) {
				if c, ok := t.Results[ei].(*ssa.Const); ok && c.IsNil() && !isConstString(t.Results[0], "") {
					found = true
				}
			}
		})
		return found
	}
	// the converse: an error that parseRelation itself constructs (not one handed on from a callee) is returned only
	// when the guard fails — an expressible relation is never turned down
	ownError := func(occ int, first bool) bool {
		found := false
		ei := returnsError(fn)
		explore(fn, occ, first, func(t *ssa.Return, _, _ *ssa.BasicBlock) {
			if ei >= 0 && ei < len(t.Results) {
				if call, ok := t.Results[ei].(*ssa.Call); ok {
					if cal := call.Common().StaticCallee(); cal != nil && cal.Pkg != nil && load.IsRepoPkg(cal.Pkg.Pkg) && load.ShortPkg(cal.Pkg.Pkg) == "errors" {
						found = true
					}
				}
			}
		})
		return found
	}
	var allowed, forbidden, overRejected []string
	for _, occ := range []int{0, 1, 2} {
		for _, first := range []bool{true, false} {
			desc := fmt.Sprintf("occurrences=%s,isFirstPosition=%v", []string{"0", "1", ">1"}[occ], first)
			ok := reach(occ, first)
			legal := occ == 0 || (occ == 1 && first)
			if legal && ownError(occ, first) {
				overRejected = append(overRejected, desc)
			}
			switch {
			case ok && !legal:
				forbidden = append(forbidden, desc)
			case ok:
				allowed = append(allowed, desc)
			}
		}
	}
	switch {
	case wrongArg != "":
		r.Bad(rule, construct, p.Pos(fn.Pos()), "isFirstPosition is asked about "+wrongArg+", not about the relation's own rewrite: the position of the direct assignment inside this relation is not what is checked")
	case len(forbidden) > 0:
		r.Bad(rule, construct, p.Pos(fn.Pos()), "the DSL text of a relation can be returned when {"+strings.Join(forbidden, " | ")+"}; required: occurrences()==0, or occurrences()==1 and isFirstPosition(<the relation's own rewrite>): otherwise a second or misplaced direct assignment is printed as different DSL instead of the nesting error")
	case len(overRejected) > 0:
		r.Bad(rule, construct, p.Pos(fn.Pos()), "parseRelation can return an error it constructs itself when {"+strings.Join(overRejected, " | ")+"}, i.e. for a relation whose single direct assignment is (or can be placed) first: conversion must succeed exactly for those; an expressible relation is turned down")
	case len(allowed) == 0:
		r.Unknown(rule, construct, p.Pos(fn.Pos()), "no successful return with text is reachable under any valuation of the guard")
	default:
		r.OK(rule, construct, p.Pos(fn.Pos()), "guard-valuations", "text is returned only under {"+strings.Join(allowed, " | ")+"}")
	}
	// incr on every This branch of parseSubRelation, with the validator it received
	sub := p.Func("transformer", "parseSubRelation")
	c2 := "direct-assignment-counted:parseSubRelation"
	if sub == nil {
		r.Unknown(rule, c2, "-", "parseSubRelation not found")
		return
	}
	var validatorParam *ssa.Parameter
	for _, q := range sub.Params {
		if strings.Contains(q.Type().String(), "DirectAssignmentValidator") {
			validatorParam = q
		}
	}
	counted := false
	for _, b := range sub.Blocks {
		for _, in := range b.Instrs {
			call, ok := in.(ssa.CallInstruction)
			if !ok || call.Common().StaticCallee() == nil || call.Common().StaticCallee().Name() != "incr" {
				continue
			}
			if len(call.Common().Args) == 1 && call.Common().Args[0] == ssa.Value(validatorParam) {
				// dominated by GetThis() != nil true, and nothing else
				conds := DominatingConds(b)
				if len(conds) == 1 {
					if bo, ok := conds[0].Cond.(*ssa.BinOp); ok && strings.HasSuffix(AccessPath(bo.X), ".This") && bo.Op == token.NEQ && conds[0].Branch {
						counted = true
					}
				}
			}
		}
	}
	// all recursive calls hand the same validator down
	sameValidator := true
	for _, f := range []string{"parseSubRelation", "parseUnion", "parseIntersection", "parseDifference"} {
		g := p.Func("transformer", f)
		if g == nil {
			continue
		}
		var vp *ssa.Parameter
		for _, q := range g.Params {
			if strings.Contains(q.Type().String(), "DirectAssignmentValidator") {
				vp = q
			}
		}
		for _, b := range g.Blocks {
			for _, in := range b.Instrs {
				call, ok := in.(ssa.CallInstruction)
				if !ok {
					continue
				}
				callee := call.Common().StaticCallee()
				if callee == nil || !strings.HasPrefix(callee.Name(), "parse") {
					continue
				}
				for i, q := range callee.Params {
					if strings.Contains(q.Type().String(), "DirectAssignmentValidator") && i < len(call.Common().Args) && call.Common().Args[i] != ssa.Value(vp) {
						sameValidator = false
					}
				}
			}
		}
	}
	switch {
	case !counted:
		r.Bad(rule, c2, p.Pos(sub.Pos()), "the branch for a direct assignment (GetThis() != nil) does not unconditionally call incr() on the validator it was handed: the occurrence count the guard relies on is wrong")
	case !sameValidator:
		r.Bad(rule, c2, p.Pos(sub.Pos()), "a recursive printer call passes a different validator: occurrences in that subtree are not counted")
	default:
		r.OK(rule, c2, p.Pos(sub.Pos()), "dominance+def-use", "incr() under GetThis()!=nil only; one validator handed down everywhere")
	}
}

// guardDisjunct judges one incoming edge of the success return.
func guardDisjunct(cond ssa.Value, branch bool, fn *ssa.Function) (string, bool) {
	switch c := cond.(type) {
	case *ssa.BinOp:
		if call, ok := c.X.(*ssa.Call); ok && call.Common().StaticCallee() != nil && call.Common().StaticCallee().Name() == "occurrences" {
			if k, ok := c.Y.(*ssa.Const); ok && c.Op == token.EQL {
				if k.Int64() == 0 && branch {
					return "occurrences()==0", true
				}
				return fmt.Sprintf("occurrences()==%d is %v", k.Int64(), branch), false
			}
			return "occurrences() " + c.Op.String() + " …", false
		}
	case *ssa.Call:
		if cal := c.Common().StaticCallee(); cal != nil && cal.Name() == "isFirstPosition" && branch {
			// argument must be the function's own rewrite parameter, and the block must be dominated by occurrences()==1
			arg := c.Common().Args[len(c.Common().Args)-1]
			prm, isP := arg.(*ssa.Parameter)
			if !isP || prm.Parent() != fn {
				return "isFirstPosition(" + AccessPath(arg) + ")", false
			}
			okOne := false
			for _, ce := range DominatingConds(c.Block()) {
				if bo, ok := ce.Cond.(*ssa.BinOp); ok && bo.Op == token.EQL && ce.Branch {
					if oc, ok := bo.X.(*ssa.Call); ok && oc.Common().StaticCallee() != nil && oc.Common().StaticCallee().Name() == "occurrences" {
						if k, ok := bo.Y.(*ssa.Const); ok && k.Int64() == 1 {
							okOne = true
						}
					}
				}
			}
			if okOne {
				return "occurrences()==1 && isFirstPosition(" + prm.Name() + ")", true
			}
			return "isFirstPosition(" + prm.Name() + ") without occurrences()==1", false
		}
	}
	return AccessPath(cond) + fmt.Sprintf(" is %v", branch), false
}

// HoistShape (C02 clause 4): prioritizeDirectAssignment returns its argument unchanged or a FRESH
// slice made of x[p], x[:p], x[p+1:] in that order (no write into the caller's backing array).
func HoistShape(p *load.Prog, r *oblig.Report, rule string) {
	fn := p.Func("transformer", "prioritizeDirectAssignment")
	construct := "hoist-shape:prioritizeDirectAssignment"
	if fn == nil || len(fn.Params) != 1 {
		r.Unknown(rule, construct, "-", "prioritizeDirectAssignment not found")
		return
	}
	x := fn.Params[0]
	okAll := true
	n := 0
	for _, b := range fn.Blocks {
		for _, in := range b.Instrs {
			ret, ok := in.(*ssa.Return)
			if !ok {
				continue
			}
			n++
			v := ret.Results[0]
			if v == ssa.Value(x) {
				continue
			}
			// fresh list made of x[p], x[:p], x[p+1:] — however it is spelled (literal, make+append, nil+append)
			segs, why := listExpr(v, x, 0)
			if why != "" {
				okAll = false
				r.Bad(rule, construct, p.Pos(ret.Pos()), "the hoisted list is not a fresh list built from the argument's elements: "+why+" (operands are lost, or the caller's array is written)")
				continue
			}
			var shape []string
			var pos ssa.Value
			samePos := true
			for _, sg := range segs {
				shape = append(shape, sg.kind)
				if sg.p != nil {
					if pos == nil {
						pos = sg.p
					} else if pos != sg.p {
						samePos = false
					}
				}
			}
			if strings.Join(shape, " ") != "x[p] x[:p] x[p+1:]" || !samePos {
				okAll = false
				r.Bad(rule, construct, p.Pos(ret.Pos()), fmt.Sprintf("the hoisted list is %s (one position variable: %v); required x[p] x[:p] x[p+1:] so that only the direct assignment moves and every other operand keeps its order", strings.Join(shape, " ++ "), samePos))
			} else if pos != nil {
				// the hoist happens for every position after the first: the conditions that dominate this return, read as
				// conditions on the position found (and on the length of a list that holds it), are true for p = 1 and p = 2
				for _, k := range []int64{1, 2} {
					for _, ce := range DominatingConds(b) {
						val, known := evalHoistCond(ce.Cond, pos, x, k)
						if known && val != ce.Branch {
							okAll = false
							r.Bad(rule, construct+":condition", p.Pos(ce.If.Pos()), fmt.Sprintf("a direct assignment found at position %d is not moved to the front: the hoisted list is returned only under %s being %v, which fails for that position; the printer then emits it in the middle, which the parser rejects or reads differently", k, stripUnique(AccessPath(ce.Cond)), ce.Branch))
						}
					}
				}
			}
		}
	}
	if n == 0 {
		r.Unknown(rule, construct, p.Pos(fn.Pos()), "no return found")
	} else if okAll {
		r.OK(rule, construct, p.Pos(fn.Pos()), "ssa-shape", "argument itself, or fresh{x[p]} ++ x[:p] ++ x[p+1:]")
	}
}

type listSeg struct {
	kind string    // "x[p]", "x[:p]", "x[p+1:]", or a description of something else
	p    ssa.Value // the position value involved
}

// listExpr reads a slice value as a concatenation of segments of the parameter x, built on a fresh base.
func listExpr(v ssa.Value, x ssa.Value, depth int) ([]listSeg, string) {
	if depth > 8 {
		return nil, "expression too deep"
	}
	elemSeg := func(e ssa.Value) listSeg {
		if ld, ok := e.(*ssa.UnOp); ok && ld.Op == token.MUL {
			if ia, ok := ld.X.(*ssa.IndexAddr); ok && ia.X == x {
				return listSeg{"x[p]", ia.Index}
			}
		}
		return listSeg{"‹" + stripUnique(AccessPath(e)) + "›", nil}
	}
	switch y := v.(type) {
	case *ssa.Const:
		if y.IsNil() {
			return nil, ""
		}
	case *ssa.MakeSlice:
		if c, ok := y.Len.(*ssa.Const); ok && c.Int64() == 0 {
			return nil, ""
		}
		return nil, "make with a non-zero length"
	case *ssa.Slice:
		if al, ok := y.X.(*ssa.Alloc); ok {
			// slice literal: elements stored into the fresh array
			arr, isArr := al.Type().Underlying().(*types.Pointer).Elem().Underlying().(*types.Array)
			if !isArr {
				return nil, "unsupported literal"
			}
			out := make([]listSeg, arr.Len())
			for i := range out {
				out[i] = listSeg{"‹zero›", nil}
			}
			if refs := al.Referrers(); refs != nil {
				for _, ref := range *refs {
					if ia, ok := ref.(*ssa.IndexAddr); ok && ia.Referrers() != nil {
						if ic, ok := ia.Index.(*ssa.Const); ok && ic.Int64() < int64(len(out)) {
							for _, r2 := range *ia.Referrers() {
								if st, ok := r2.(*ssa.Store); ok {
									out[ic.Int64()] = elemSeg(st.Val)
								}
							}
						}
					}
				}
			}
			return out, ""
		}
		if y.X == x {
			d, _ := sliceOf(y, x)
			switch d {
			case "low=nil high=p":
				return []listSeg{{"x[:p]", y.High}}, ""
			case "low=p+1 high=nil":
				return []listSeg{{"x[p+1:]", y.Low.(*ssa.BinOp).X}}, ""
			case "low=p high=p+1":
				if y.High.(*ssa.BinOp).X == y.Low {
					return []listSeg{{"x[p]", y.Low}}, ""
				}
			}
			return []listSeg{{"x[" + d + "]", nil}}, ""
		}
		return nil, "a sub-slice of " + stripUnique(AccessPath(y.X))
	case *ssa.Call:
		// slices.Concat(a, b, c): a fresh list holding the segments in order
		if cal := y.Common().StaticCallee(); cal != nil && cal.Origin() != nil && cal.Origin().Pkg != nil && cal.Origin().Pkg.Pkg.Path() == "slices" && cal.Origin().Name() == "Concat" && len(y.Common().Args) == 1 {
			sl, isSl := y.Common().Args[0].(*ssa.Slice)
			if !isSl {
				return nil, "slices.Concat of a computed list of lists"
			}
			al, isAl := sl.X.(*ssa.Alloc)
			if !isAl || al.Referrers() == nil {
				return nil, "slices.Concat of a computed list of lists"
			}
			arr, isArr := al.Type().Underlying().(*types.Pointer).Elem().Underlying().(*types.Array)
			if !isArr {
				return nil, "unsupported literal"
			}
			parts := make([][]listSeg, arr.Len())
			for _, ref := range *al.Referrers() {
				ia, ok := ref.(*ssa.IndexAddr)
				if !ok || ia.Referrers() == nil {
					continue
				}
				ic, ok := ia.Index.(*ssa.Const)
				if !ok || ic.Int64() >= int64(len(parts)) {
					return nil, "unsupported literal"
				}
				for _, r2 := range *ia.Referrers() {
					if st, ok := r2.(*ssa.Store); ok {
						var why string
						if st.Val == x {
							parts[ic.Int64()] = []listSeg{{"x[:]", nil}}
						} else if parts[ic.Int64()], why = listExpr(st.Val, x, depth+1); why != "" {
							return nil, why
						}
					}
				}
			}
			var out []listSeg
			for _, ps := range parts {
				out = append(out, ps...)
			}
			return out, ""
		}
		if c, ok := appendCall(y); ok {
			base, why := listExpr(c.Common().Args[0], x, depth+1)
			if why != "" {
				return nil, why
			}
			if sl, isSl := c.Common().Args[0].(*ssa.Slice); isSl && sl.X == x {
				return nil, "it starts as a sub-slice of the argument, so append overwrites the caller's operands"
			}
			if c.Common().Args[0] == x {
				return nil, "it appends to the argument itself"
			}
			more, why := listExpr(c.Common().Args[1], x, depth+1)
			if why != "" {
				return nil, why
			}
			return append(base, more...), ""
		}
	}
	return nil, "unsupported list expression " + stripUnique(AccessPath(v))
}

func appendCall(v ssa.Value) (*ssa.Call, bool) {
	c, ok := v.(*ssa.Call)
	if !ok {
		return nil, false
	}
	b, ok := c.Common().Value.(*ssa.Builtin)
	if !ok || b.Name() != "append" || len(c.Common().Args) != 2 {
		return nil, false
	}
	return c, true
}

// sliceOf: v is x[lo:hi]; describes the bounds relative to a position variable p.
func sliceOf(v ssa.Value, x ssa.Value) (string, bool) {
	sl, ok := v.(*ssa.Slice)
	if !ok || sl.X != x {
		return "?", false
	}
	d := func(b ssa.Value) string {
		if b == nil {
			return "nil"
		}
		if bo, ok := b.(*ssa.BinOp); ok && bo.Op == token.ADD {
			if c, ok := bo.Y.(*ssa.Const); ok && c.Int64() == 1 {
				return "p+1"
			}
		}
		if _, ok := b.(*ssa.Const); ok {
			return "const"
		}
		return "p"
	}
	return "low=" + d(sl.Low) + " high=" + d(sl.High), true
}

// AllPartsPrinted (C02): in parseTypeRestriction the tests for wildcard, relation and condition are
// evaluated on every path to every return (their blocks dominate all returns): no part of a
// restriction can be skipped by an early return.
func AllPartsPrinted(p *load.Prog, r *oblig.Report, rule string) {
	fn := p.Func("transformer", "parseTypeRestriction")
	if fn == nil {
		r.Unknown(rule, "anchor:parseTypeRestriction", "-", "function not found")
		return
	}
	var rets []*ssa.BasicBlock
	for _, b := range fn.Blocks {
		if _, ok := b.Instrs[len(b.Instrs)-1].(*ssa.Return); ok {
			rets = append(rets, b)
		}
	}
	for _, part := range []string{"Wildcard", "Relation", "Condition"} {
		construct := "restriction-part-always-considered:" + part
		var testBlock *ssa.BasicBlock
		for _, b := range fn.Blocks {
			if ifi, ok := b.Instrs[len(b.Instrs)-1].(*ssa.If); ok {
				if bo, ok := ifi.Cond.(*ssa.BinOp); ok && strings.HasSuffix(AccessPath(bo.X), "."+part) {
					testBlock = b
				}
			}
		}
		switch {
		case testBlock == nil:
			r.Bad(rule, construct, p.Pos(fn.Pos()), "parseTypeRestriction never tests the "+part+" part of a restriction: it is not printed")
		default:
			ok := true
			for _, rb := range rets {
				if !testBlock.Dominates(rb) {
					ok = false
				}
			}
			if ok {
				r.OK(rule, construct, p.Pos(fn.Pos()), "test-dominates-returns", "")
			} else {
				r.Bad(rule, construct, p.Pos(fn.Pos()), "a return of parseTypeRestriction is reachable without the "+part+" part having been considered: for some combination (e.g. wildcard with condition) that part is silently dropped from the DSL")
			}
		}
	}
}

// ExpressionVerbatim (C01 clause 5): the listener stores the condition expression as ctx.GetText()
// with at most whitespace trimmed at the ends, and the printer emits GetExpression() through a
// plain %s verb.
func ExpressionVerbatim(p *load.Prog, r *oblig.Report, rule string) {
	fn := p.Method("transformer", "OpenFgaDslListener", "ExitConditionExpression")
	construct := "expression-stored-verbatim:ExitConditionExpression"
	if fn == nil {
		r.Unknown(rule, construct, "-", "ExitConditionExpression not found")
	} else {
		n := 0
		for _, b := range fn.Blocks {
			for _, in := range b.Instrs {
				st, ok := in.(*ssa.Store)
				if !ok || !strings.HasSuffix(AccessPath(st.Addr), ".Expression") {
					continue
				}
				n++
				v := st.Val
				okChain := true
				why := ""
				for {
					call, isCall := v.(*ssa.Call)
					if !isCall {
						okChain, why = false, "the stored text is "+AccessPath(v)
						break
					}
					if pth := AccessPath(call); strings.HasSuffix(pth, ".GetText()") {
						if !strings.HasPrefix(pth, "ctx.") || strings.Count(pth, "()") != 1 {
							okChain, why = false, "the text comes from "+pth+", not from the whole expression context"
						}
						break
					}
					cal := call.Common().StaticCallee()
					if cal == nil || cal.Pkg == nil || cal.Pkg.Pkg.Path() != "strings" {
						okChain, why = false, "the expression text passes through a call that is not a whitespace trim"
						break
					}
					switch cal.Name() {
					case "TrimRight", "TrimLeft", "Trim":
						cs, _ := call.Common().Args[1].(*ssa.Const)
						if cs == nil || strings.Trim(constant.StringVal(cs.Value), " \t\r\n\f") != "" {
							okChain, why = false, cal.Name()+" with a cut set that is not whitespace"
						}
					case "TrimSpace":
					default:
						okChain, why = false, "strings."+cal.Name()+" rewrites the interior of the expression (only trims of surrounding whitespace keep it intact)"
					}
					if !okChain {
						break
					}
					v = call.Common().Args[0]
				}
				if okChain {
					r.OK(rule, construct, p.Pos(st.Pos()), "def-use", "ctx.GetText() with surrounding whitespace trimmed")
				} else {
					r.Bad(rule, construct, p.Pos(st.Pos()), "the condition expression is not stored verbatim: "+why)
				}
			}
		}
		if n == 0 {
			r.Unknown(rule, construct, p.Pos(fn.Pos()), "no store into Expression found")
		}
	}
	pc := p.Func("transformer", "parseCondition")
	c2 := "expression-printed-verbatim:parseCondition"
	if pc == nil {
		r.Unknown(rule, c2, "-", "parseCondition not found")
		return
	}
	// every text parseCondition can return (one template per way through it and through the helpers that build parts
	// of it) carries the expression itself
	ok, n := true, 0
	for _, t := range ReturnTemplates(pc) {
		if len(t) == 0 || (len(t) == 1 && t[0].Val == nil && t[0].Lit == "") {
			continue // the "" of an error return
		}
		n++
		has := false
		for _, piece := range t {
			if piece.Val != nil && isStringType(piece.Val.Type()) && strings.HasSuffix(AccessPath(piece.Val), ".Expression") {
				has = true
			}
		}
		if !has {
			ok = false
		}
	}
	if n == 0 {
		ok = false
	}
	if ok {
		r.OK(rule, c2, p.Pos(pc.Pos()), "format-shape", "GetExpression() through a plain verb")
	} else {
		r.Bad(rule, c2, p.Pos(pc.Pos()), "some string returned by parseCondition does not contain GetExpression() itself (as a plain string operand of a Sprintf or concatenation): the expression is rewritten on the way out")
	}
}

// RewriteMoves (C03 clause 3): every store into a Rewrites field of the listener's relation /
// stackRelation is a fresh list, an append of one element to the same field, an append to the list
// of the stack element just popped, or the hand-over of the current list to a new stack element.
// A sub-slice of an existing list shares its backing array and later appends overwrite operands.
func RewriteMoves(p *load.Prog, r *oblig.Report, rule string, funcs []*ssa.Function) {
	n := 0
	for _, f := range funcs {
		if f.Signature.Recv() == nil || !strings.Contains(f.Signature.Recv().Type().String(), "OpenFgaDslListener") {
			continue
		}
		for _, b := range f.Blocks {
			for _, in := range b.Instrs {
				st, ok := in.(*ssa.Store)
				if !ok {
					continue
				}
				fa, ok := st.Addr.(*ssa.FieldAddr)
				if !ok || fieldNameOf(fa.X.Type(), fa.Field) != "Rewrites" {
					continue
				}
				owner := structNameOf(fa.X.Type())
				if owner != "relation" && owner != "stackRelation" {
					continue
				}
				n++
				construct := fmt.Sprintf("rewrites-store:%s:%s", f.Name(), owner)
				kind, why := rewriteOrigin(st.Val, fa)
				if kind != "" {
					r.OK(rule, construct, p.Pos(st.Pos()), kind, "")
				} else {
					r.Bad(rule, construct, p.Pos(st.Pos()), "the operand list is replaced by "+why+": it shares its backing array with a list that is still in use, so a later append overwrites operands (order and nesting of the parsed rewrite change)")
				}
			}
		}
	}
	if n == 0 {
		r.Unknown(rule, "rewrites-store", "-", "no store into a Rewrites field found in the listener")
	}
}

// oneElementList: the variadic part of an append built from a single operand (slice of a fresh [1]T).
func oneElementList(v ssa.Value) bool {
	sl, ok := v.(*ssa.Slice)
	if !ok {
		return false
	}
	al, ok := sl.X.(*ssa.Alloc)
	if !ok {
		return false
	}
	arr, ok := al.Type().Underlying().(*types.Pointer).Elem().Underlying().(*types.Array)
	return ok && arr.Len() == 1
}

func structNameOf(t types.Type) string {
	if p, ok := t.Underlying().(*types.Pointer); ok {
		t = p.Elem()
	}
	if n, ok := t.(*types.Named); ok {
		return n.Obj().Name()
	}
	return ""
}

func rewriteOrigin(v ssa.Value, target *ssa.FieldAddr) (string, string) {
	switch x := v.(type) {
	case *ssa.Slice:
		if _, ok := x.X.(*ssa.Alloc); ok {
			return "fresh", ""
		}
		return "", "a sub-slice of " + AccessPath(x.X)
	case *ssa.MakeSlice:
		return "fresh", ""
	case *ssa.Const:
		return "fresh", ""
	case *ssa.Call:
		if b, ok := x.Common().Value.(*ssa.Builtin); ok && b.Name() == "append" {
			first := x.Common().Args[0]
			fp := AccessPath(first)
			// exactly one operand is added: a group or operand becomes ONE element of the enclosing list
			if len(x.Common().Args) == 2 && !oneElementList(x.Common().Args[1]) {
				return "", "an append that splices the whole list " + AccessPath(x.Common().Args[1]) + " into another operand list (a parenthesised group would lose its own node and its operands would change level)"
			}
			if fp == AccessPath(target) {
				return "append-to-own", ""
			}
			if strings.HasSuffix(fp, ".Rewrites") && strings.Contains(fp, "rewriteStack") {
				return "append-to-popped", ""
			}
			// the popped element handed out by a pop helper: l.pop().Rewrites with pop returning an element of the stack
			if ld, ok := first.(*ssa.UnOp); ok && ld.Op == token.MUL {
				if fa, ok := ld.X.(*ssa.FieldAddr); ok && fieldNameOf(fa.X.Type(), fa.Field) == "Rewrites" {
					if hc, ok := fa.X.(*ssa.Call); ok {
						if h := hc.Common().StaticCallee(); h != nil && len(h.Blocks) > 0 {
							okAll, rets := true, 0
							for _, hb := range h.Blocks {
								if ret, ok := hb.Instrs[len(hb.Instrs)-1].(*ssa.Return); ok && len(ret.Results) == 1 {
									rets++
									if !strings.Contains(AccessPath(ret.Results[0]), "rewriteStack[") {
										okAll = false
									}
								}
							}
							if okAll && rets > 0 {
								return "append-to-popped", ""
							}
						}
					}
				}
			}
			if k, why := rewriteOrigin(first, target); k == "fresh" {
				return "fresh", why
			}
			return "", "an append to " + fp
		}
		if cal := x.Common().StaticCallee(); cal != nil && cal.Name() == "Clone" {
			return "fresh", ""
		}
	case *ssa.UnOp:
		if x.Op == token.MUL {
			pth := AccessPath(x.X)
			if strings.HasSuffix(pth, "currentRelation.Rewrites") && structNameOf(target.X.Type()) == "stackRelation" {
				return "hand-over-to-stack", ""
			}
			// the same hand-over inside a helper that receives the relation being parsed as a parameter
			if fa, ok := x.X.(*ssa.FieldAddr); ok && structNameOf(target.X.Type()) == "stackRelation" &&
				structNameOf(fa.X.Type()) == "relation" && fieldNameOf(fa.X.Type(), fa.Field) == "Rewrites" {
				return "hand-over-to-stack", ""
			}
			return "", "the list held by " + pth
		}
	}
	return "", AccessPath(v)
}

// StackDiscipline (C03 clause 4, D8): the rewrite stack is reset to a fresh list when a relation
// declaration starts, pushed exactly once when a parenthesised group opens and popped exactly once
// when it closes; nothing else writes it.
func StackDiscipline(p *load.Prog, r *oblig.Report, rule string, funcs []*ssa.Function) {
	got := map[string][]string{}
	isCallback := func(f *ssa.Function) bool {
		return strings.HasPrefix(f.Name(), "Enter") || strings.HasPrefix(f.Name(), "Exit")
	}
	for _, f := range funcs {
		if f.Signature.Recv() == nil || !strings.Contains(f.Signature.Recv().Type().String(), "OpenFgaDslListener") || !isCallback(f) {
			continue // helpers are accounted for in the callbacks that call them
		}
		// what running the callback does to the stack: its own stores and those of the helper methods it calls
		for _, si := range StoresWithHelpers(f) {
			{
				st := si.St
				if si.Path(st.Addr) != "l.rewriteStack" {
					continue
				}
				samePath := func(v ssa.Value) bool { return si.Path(v) == "l.rewriteStack" }
				kind := "other:" + AccessPath(st.Val)
				switch v := st.Val.(type) {
				case *ssa.Slice:
					if _, isAlloc := v.X.(*ssa.Alloc); isAlloc {
						kind = "fresh"
					} else if samePath(v.X) && v.Low == nil && v.High != nil {
						if bo, ok := v.High.(*ssa.BinOp); ok && bo.Op == token.SUB {
							if c, ok := bo.Y.(*ssa.Const); ok && c.Int64() == 1 {
								kind = "pop"
							}
						}
					}
				case *ssa.Call:
					if ac, ok := appendCall(v); ok && samePath(ac.Common().Args[0]) {
						kind = "push"
					}
				case *ssa.Const:
					kind = "nil"
				}
				got[f.Name()] = append(got[f.Name()], kind)
			}
		}
	}
	want := map[string]string{"EnterRelationDeclaration": "fresh", "EnterRelationRecurseNoDirect": "push", "ExitRelationRecurseNoDirect": "pop"}
	names := []string{}
	for n := range got {
		names = append(names, n)
	}
	for n := range want {
		if _, ok := got[n]; !ok {
			names = append(names, n)
		}
	}
	sort.Strings(names)
	for _, n := range names {
		construct := "rewrite-stack:" + n
		g := strings.Join(got[n], ",")
		switch {
		case want[n] == "":
			r.Bad(rule, construct, "-", n+" writes the rewrite stack ("+g+"): pushes and pops no longer pair with the parentheses of the grammar")
		case g != want[n]:
			r.Bad(rule, construct, "-", fmt.Sprintf("%s performs {%s} on the rewrite stack, expected exactly one %s", n, g, want[n]))
		default:
			r.OK(rule, construct, "-", "store-kinds", want[n])
		}
	}
}

// evalHoistCond evaluates a condition that only speaks about the position found (pos = k) and the length of the list
// (taken as k+2, a list that holds that position and more); unknown when it speaks about anything else.
func evalHoistCond(c ssa.Value, pos ssa.Value, list ssa.Value, k int64) (bool, bool) {
	var evalInt func(v ssa.Value, depth int) (int64, bool)
	evalInt = func(v ssa.Value, depth int) (int64, bool) {
		if depth > 6 {
			return 0, false
		}
		if v == pos {
			return k, true
		}
		switch x := v.(type) {
		case *ssa.Const:
			if x.Value != nil && x.Value.Kind() == constant.Int {
				return x.Int64(), true
			}
		case *ssa.Call:
			if b, ok := x.Common().Value.(*ssa.Builtin); ok && b.Name() == "len" && len(x.Common().Args) == 1 && x.Common().Args[0] == list {
				return k + 2, true
			}
		case *ssa.BinOp:
			l, ok1 := evalInt(x.X, depth+1)
			r, ok2 := evalInt(x.Y, depth+1)
			if ok1 && ok2 {
				switch x.Op {
				case token.ADD:
					return l + r, true
				case token.SUB:
					return l - r, true
				}
			}
		case *ssa.Convert:
			return evalInt(x.X, depth+1)
		}
		return 0, false
	}
	switch x := c.(type) {
	case *ssa.UnOp:
		if x.Op == token.NOT {
			v, ok := evalHoistCond(x.X, pos, list, k)
			return !v, ok
		}
	case *ssa.BinOp:
		l, ok1 := evalInt(x.X, 0)
		r, ok2 := evalInt(x.Y, 0)
		if !ok1 || !ok2 {
			return false, false
		}
		switch x.Op {
		case token.EQL:
			return l == r, true
		case token.NEQ:
			return l != r, true
		case token.LSS:
			return l < r, true
		case token.LEQ:
			return l <= r, true
		case token.GTR:
			return l > r, true
		case token.GEQ:
			return l >= r, true
		}
	}
	return false, false
}

// NoEmptyRestrictionList (C02.5): the grammar derives a direct assignment only with at least one restriction between
// the brackets (R8.4: "[]" is underivable). Where the printer writes "[" + the joined restrictions + "]", the list
// was shown to be non-empty — in that function or at every one of its call sites — or the printer fails. A model
// whose relation has a direct assignment and no directly related user types (every schema 1.0 model) is otherwise
// printed as "define r: []", which no parser of this grammar accepts.
func NoEmptyRestrictionList(p *load.Prog, r *oblig.Report, rule string, funcs []*ssa.Function) {
	n := 0
	nonEmptyGuard := func(b *ssa.BasicBlock) bool {
		for _, ce := range DominatingConds(b) {
			bo, ok := ce.Cond.(*ssa.BinOp)
			if !ok {
				continue
			}
			for _, side := range []ssa.Value{bo.X, bo.Y} {
				if c, ok := side.(*ssa.Call); ok {
					if bi, isB := c.Common().Value.(*ssa.Builtin); isB && bi.Name() == "len" {
						if _, isSl := c.Common().Args[0].Type().Underlying().(*types.Slice); isSl {
							nonEmpty := (bo.Op == token.GTR && ce.Branch) || (bo.Op == token.NEQ && ce.Branch) || (bo.Op == token.EQL && !ce.Branch) || (bo.Op == token.LSS && ce.Branch)
							if nonEmpty {
								return true
							}
						}
					}
				}
			}
		}
		return false
	}
	for _, fn := range funcs {
		if fn.Pkg == nil || fn.Pkg.Pkg.Name() != "transformer" {
			continue
		}
		for _, b := range fn.Blocks {
			for _, in := range b.Instrs {
				call, ok := in.(*ssa.Call)
				if !ok {
					continue
				}
				cal := call.Common().StaticCallee()
				if cal == nil || cal.Pkg == nil || cal.Pkg.Pkg.Path() != "fmt" || cal.Name() != "Sprintf" || len(call.Common().Args) == 0 {
					continue
				}
				k, ok := call.Common().Args[0].(*ssa.Const)
				if !ok || k.Value == nil || k.Value.Kind() != constant.String {
					continue
				}
				f := constant.StringVal(k.Value)
				if !(strings.HasPrefix(f, "[%") && strings.HasSuffix(f, "]") && len(f) <= 5) {
					continue
				}
				n++
				construct := "empty-restriction-list:" + fn.Name()
				guarded := nonEmptyGuard(b)
				if !guarded {
					sites := callSitesOf(funcs, fn)
					guarded = len(sites) > 0
					for _, s := range sites {
						if !nonEmptyGuard(s.Block()) {
							guarded = false
						}
					}
				}
				if guarded {
					r.OK(rule, construct, p.Pos(call.Pos()), "dominating-test", "the bracketed list is written only when it has an element")
				} else {
					r.Bad(rule, construct, p.Pos(call.Pos()), "the brackets of a direct assignment are written around a list that was not shown to have an element: a relation with a direct assignment and no directly related user types is printed as 'define r: []', which the grammar does not derive (R8.4), instead of the conversion failing")
				}
			}
		}
	}
	if n == 0 {
		r.Unknown(rule, "empty-restriction-list", "-", "no place found where the printer writes a bracketed list: anchors no longer resolve")
	}
}
