package e5path

import (
	"fmt"
	"go/token"
	"go/types"
	"regexp"
	"strconv"

	"golang.org/x/tools/go/ssa"

	"verif/sa/internal/load"
	"verif/sa/internal/oblig"
	"verif/sa/internal/pathx"
)

var lenAtomRe = regexp.MustCompile(`^len\((\w+)\) (==|<|>) (\d+)$`)

// lenLowerBound: the least length the list named name can have, given the conditions taken on a path.
func lenLowerBound(facts []pathx.Fact, name string) int {
	lb := 0
	for changed, rounds := true, 0; changed && rounds < 8; rounds++ {
		changed = false
		for _, f := range facts {
			m := lenAtomRe.FindStringSubmatch(f.Atom)
			if m == nil || m[1] != name {
				continue
			}
			k, _ := strconv.Atoi(m[3])
			nb := lb
			switch {
			case m[2] == "==" && f.Value && k > lb:
				nb = k
			case m[2] == "==" && !f.Value && k == lb:
				nb = k + 1
			case m[2] == ">" && f.Value && k+1 > lb:
				nb = k + 1
			case m[2] == "<" && !f.Value && k > lb:
				nb = k
			}
			if nb != lb {
				lb, changed = nb, true
			}
		}
	}
	return lb
}

// SingleOperandUnwrapped (C03 clause "redundant parentheses"): ParseExpression wraps its operand list into a union,
// intersection or difference only on paths on which the list is known to hold at least two operands; a single
// operand — a parenthesised group that collapsed to one rewrite, or `(a)` — is handed back as it is. Decided on
// the enumerated paths of ParseExpression (table dispatch and helper constructors followed).
func SingleOperandUnwrapped(p *load.Prog, r *oblig.Report, rule string) {
	fn := p.Func("transformer", "ParseExpression")
	construct := "single-operand-unwrapped:ParseExpression"
	if fn == nil {
		r.Unknown(rule, construct, "-", "ParseExpression not found")
		return
	}
	var list *ssa.Parameter
	for _, q := range fn.Params {
		if _, ok := q.Type().Underlying().(*types.Slice); ok {
			list = q
		}
	}
	if list == nil {
		r.Unknown(rule, construct, p.Pos(fn.Pos()), "ParseExpression has no list parameter")
		return
	}
	ex := &pathx.Explorer{Root: fn}
	paths := ex.Explore()
	if ex.Overflow || len(paths) == 0 {
		r.Unknown(rule, construct, p.Pos(fn.Pos()), "the paths of ParseExpression could not be enumerated")
		return
	}
	wrappers, passthrough, bad := 0, 0, ""
	for _, pt := range paths {
		if pt.Ret == nil || len(pt.Ret.Results) != 1 {
			continue
		}
		res := pt.Resolve(pt.RetTerm(0))
		// the operand handed back as it is: rewrites[k]
		if ld, ok := res.V.(*ssa.UnOp); ok && ld.Op == token.MUL {
			if ia, ok := ld.X.(*ssa.IndexAddr); ok && pt.Resolve(res.Sub(ia.X)).V == ssa.Value(list) {
				passthrough++
				continue
			}
		}
		// a wrapper built on this path: does it hold the operand list (or its elements)?
		uses := false
		seen := map[ssa.Value]bool{}
		var walk func(t pathx.Term, depth int)
		walk = func(t pathx.Term, depth int) {
			t = pt.Resolve(t)
			if depth > 8 || t.V == nil || seen[t.V] {
				return
			}
			seen[t.V] = true
			switch x := t.V.(type) {
			case *ssa.Parameter:
				if x == list {
					uses = true
				}
			case *ssa.MakeInterface:
				walk(t.Sub(x.X), depth+1)
			case *ssa.UnOp:
				if x.Op == token.MUL {
					if ia, ok := x.X.(*ssa.IndexAddr); ok && pt.Resolve(t.Sub(ia.X)).V == ssa.Value(list) {
						uses = true
						return
					}
					walk(t.Sub(x.X), depth+1)
				}
			case *ssa.Alloc:
				for _, fv := range pt.Fields(t) {
					walk(fv, depth+1)
				}
			case *ssa.Slice:
				walk(t.Sub(x.X), depth+1)
			}
		}
		walk(res, 0)
		if !uses {
			continue
		}
		wrappers++
		if lb := lenLowerBound(pt.Facts(-1), list.Name()); lb < 2 {
			bad = fmt.Sprintf("an operator node is built around the operand list on a path on which the list may hold %d operand(s) (conditions: %s)", lb, factList(pt.Facts(-1)))
		}
	}
	switch {
	case bad != "":
		r.Bad(rule, construct, p.Pos(fn.Pos()), bad+": a group that collapsed to one rewrite, or redundant parentheses, yields a one-child union/intersection instead of the rewrite itself")
	case wrappers == 0 || passthrough == 0:
		r.Unknown(rule, construct, p.Pos(fn.Pos()), fmt.Sprintf("expected paths that wrap the operand list and a path that hands a single operand back (found %d and %d)", wrappers, passthrough))
	default:
		r.OK(rule, construct, p.Pos(fn.Pos()), "path-enumeration", fmt.Sprintf("%d wrapping paths, each with at least two operands established; a single operand is handed back as it is", wrappers))
	}
}

func factList(fs []pathx.Fact) string {
	s := ""
	for i, f := range fs {
		if i > 0 {
			s += ", "
		}
		s += fmt.Sprintf("%s is %v", pathx.StripUnique(f.Atom), f.Value)
	}
	return s
}
