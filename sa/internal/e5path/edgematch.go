package e5path

import (
	"fmt"
	"go/ast"
	"go/token"
	"strings"

	"golang.org/x/tools/go/ssa"

	"verif/sa/internal/load"
	"verif/sa/internal/oblig"
	"verif/sa/internal/pathx"
)

// EdgeIdentity (C10/C17, "one edge per (source, target, kind, tupleset)"): in the functions that look an edge up —
// the upsert and the has-edge functions of both builders — an existing edge is taken for the one asked about only
// on paths that compared its kind with the kind parameter and its tupleset relation with the tupleset parameter.
// Decided on the enumerated paths (a shared find helper is followed).
func EdgeIdentity(p *load.Prog, r *oblig.Report, rule string, specs []string) {
	for _, spec := range specs {
		parts := strings.Split(spec, ".")
		var fn *ssa.Function
		if len(parts) == 2 {
			fn = p.Func(parts[0], parts[1])
		} else {
			fn = p.Method(parts[0], parts[1], parts[2])
		}
		construct := "edge-identity:" + spec
		if fn == nil {
			r.Unknown(rule, construct, "-", "function not found")
			continue
		}
		var kindP, tupleP *ssa.Parameter
		for _, q := range fn.Params {
			if strings.HasSuffix(q.Type().String(), ".EdgeType") {
				kindP = q
			}
			if strings.Contains(strings.ToLower(q.Name()), "tupleset") {
				tupleP = q
			}
		}
		if kindP == nil || tupleP == nil {
			r.Unknown(rule, construct, p.Pos(fn.Pos()), "no edge-kind / tupleset parameters found")
			continue
		}
		ex := &pathx.Explorer{Root: fn, MaxPaths: 5000}
		paths := ex.Explore()
		if ex.Overflow || len(paths) == 0 {
			r.Unknown(rule, construct, p.Pos(fn.Pos()), "paths could not be enumerated")
			continue
		}
		matches, bad := 0, ""
		// equalities a path established, struct comparisons (a key type) taken field by field
		equalities := func(pt *pathx.Path) [][2]string {
			var out [][2]string
			for _, c := range pt.Conds {
				f := pt.FactOf(c)
				if !f.Value || !strings.Contains(f.Atom, " == ") {
					continue
				}
				sides := strings.SplitN(f.Atom, " == ", 2)
				out = append(out, [2]string{sides[0], sides[1]})
				t := pt.Resolve(c.T)
				if bo, ok := t.V.(*ssa.BinOp); ok {
					l, r := pt.Resolve(t.Sub(bo.X)), pt.Resolve(t.Sub(bo.Y))
					lit := func(x pathx.Term) (pathx.Term, bool) {
						if ld, ok := x.V.(*ssa.UnOp); ok {
							if al, ok := pt.Resolve(x.Sub(ld.X)).V.(*ssa.Alloc); ok {
								return pt.Resolve(x.Sub(ld.X)), al != nil
							}
						}
						return x, false
					}
					ll, ok1 := lit(l)
					rl, ok2 := lit(r)
					if ok1 && ok2 {
						lf, rf := pt.Fields(ll), pt.Fields(rl)
						for name, lv := range lf {
							if rv, has := rf[name]; has {
								out = append(out, [2]string{pt.Render(lv), pt.Render(rv)})
							}
						}
					}
				}
			}
			return out
		}
		judge := func(pt *pathx.Path) {
			kindOK, tupleOK, compared := false, false, false
			for _, eq := range equalities(pt) {
				for i := 0; i < 2; i++ {
					a, b := eq[i], eq[1-i]
					if b == kindP.Name() && strings.Contains(a, ".") {
						kindOK = true
					}
					if b == tupleP.Name() && strings.Contains(a, ".") {
						tupleOK = true
					}
				}
				compared = true
			}
			if !compared {
				return // no candidate was looked at on this path
			}
			matches++
			if !kindOK || !tupleOK {
				bad = fmt.Sprintf("an existing edge is taken for the one asked about on a path that did not compare its kind with %s (compared: %v) and its tupleset relation with %s (compared: %v)", kindP.Name(), kindOK, tupleP.Name(), tupleOK)
			}
		}
		// a predicate handed to a library search (slices.ContainsFunc, slices.IndexFunc): its own paths that answer true
		var closures []*ssa.Function
		var collect func(g *ssa.Function)
		seenFn := map[*ssa.Function]bool{}
		collect = func(g *ssa.Function) {
			if seenFn[g] {
				return
			}
			seenFn[g] = true
			closures = append(closures, g.AnonFuncs...)
			for _, an := range g.AnonFuncs {
				collect(an)
			}
			for _, b := range g.Blocks {
				for _, in := range b.Instrs {
					if ci, ok := in.(ssa.CallInstruction); ok {
						if c := ci.Common().StaticCallee(); c != nil && c.Pkg == fn.Pkg && len(c.Blocks) > 0 && c.Parent() == nil && !ast.IsExported(c.Name()) {
							collect(c)
						}
					}
				}
			}
		}
		collect(fn)
		delegated := false
		for _, cf := range closures {
			if cf.Signature.Results().Len() != 1 || cf.Signature.Results().At(0).Type().String() != "bool" {
				continue
			}
			cex := &pathx.Explorer{Root: cf, MaxPaths: 500}
			for _, pt := range cex.Explore() {
				if pt.Ret == nil {
					continue
				}
				res := pt.Resolve(pt.RetTerm(0))
				if c, ok := res.V.(*ssa.Const); ok && c.Value != nil && c.Value.String() == "false" {
					continue
				}
				delegated = true
				// the predicate's result may be the last comparison itself: count it as established
				if bo, ok := res.V.(*ssa.BinOp); ok && bo.Op == token.EQL {
					pt.Conds = append(pt.Conds, pathx.Cond{T: res, Branch: true})
				}
				judge(pt)
			}
		}
		for _, pt := range paths {
			if pt.Ret == nil {
				continue
			}
			// a path that takes an existing edge for the match: it went through the loop over the candidates and neither
			// created an edge nor answered "no"
			inLoop := false
			for _, vis := range pt.Trace {
				if len(ex.LoopBody(vis.B)) > 0 {
					inLoop = true
				}
			}
			if !inLoop {
				continue
			}
			created := false
			for _, ev := range pt.Events {
				switch x := ev.Instr.(type) {
				case *ssa.Call:
					if c := x.Common().StaticCallee(); c != nil && strings.EqualFold(c.Name(), "AddEdge") {
						created = true
					}
				case *ssa.Store:
					if al, ok := x.Val.(*ssa.Alloc); ok && strings.HasSuffix(structNameOf(al.Type()), "Edge") {
						created = true
					}
				case *ssa.MapUpdate:
					created = true
				}
			}
			if created {
				continue
			}
			if len(pt.Ret.Results) > 0 {
				res := pt.Resolve(pt.RetTerm(0))
				if c, ok := res.V.(*ssa.Const); ok && c.Value != nil && c.Value.String() == "false" {
					continue
				}
				// found != nil with found the nil a followed find helper returned on this path
				if bo, ok := res.V.(*ssa.BinOp); ok && (bo.Op == token.NEQ || bo.Op == token.EQL) {
					lc, lok := pt.Resolve(res.Sub(bo.X)).V.(*ssa.Const)
					rc, rok := pt.Resolve(res.Sub(bo.Y)).V.(*ssa.Const)
					if lok && rok && lc.IsNil() && rc.IsNil() && bo.Op == token.NEQ {
						continue
					}
				}
				if c, ok := res.V.(*ssa.Const); ok && c.IsNil() && strings.HasSuffix(fn.Signature.Results().At(0).Type().String(), "Edge") {
					continue // "not found" of a find helper used as root
				}
			}
			judge(pt)
		}
		if matches == 0 && delegated {
			matches++
		}
		switch {
		case bad != "":
			r.Bad(rule, construct, p.Pos(fn.Pos()), bad+": edges of different kinds between the same nodes are merged (conditions land on the wrong edge, an edge is never created)")
		case matches == 0:
			r.Unknown(rule, construct, p.Pos(fn.Pos()), "no path that matches an existing edge was found")
		default:
			r.OK(rule, construct, p.Pos(fn.Pos()), "path-enumeration", fmt.Sprintf("%d matching paths, each compares kind and tupleset relation of the candidate with the parameters", matches))
		}
	}
}
