package e5path

import (
	"fmt"
	"go/ast"
	"go/constant"
	"go/token"
	"go/types"
	"golang.org/x/tools/go/packages"
	"sort"
	"strings"

	"golang.org/x/tools/go/ssa"

	"verif/sa/internal/load"
	"verif/sa/internal/oblig"
)

var errorType = types.Universe.Lookup("error").Type()

func returnsError(f *ssa.Function) int {
	res := f.Signature.Results()
	for i := 0; i < res.Len(); i++ {
		if types.Identical(res.At(i).Type(), errorType) {
			return i
		}
	}
	return -1
}

// sentinelGlobals resolves the sentinel names and finds package-level errors that wrap one of them
// (built in the package initialiser by fmt.Errorf with %w bound to a sentinel).
func sentinelGlobals(p *load.Prog, pkg string, names []string) (map[*ssa.Global]string, []string) {
	out := map[*ssa.Global]string{}
	var missing []string
	sp := p.SSAPkg[pkg]
	for _, n := range names {
		g, _ := sp.Members[n].(*ssa.Global)
		if g == nil {
			missing = append(missing, n)
			continue
		}
		out[g] = n
	}
	// derived package-level errors
	if init := sp.Func("init"); init != nil {
		for changed := true; changed; {
			changed = false
			for _, b := range init.Blocks {
				for _, in := range b.Instrs {
					st, ok := in.(*ssa.Store)
					if !ok {
						continue
					}
					g, ok := st.Addr.(*ssa.Global)
					if !ok || out[g] != "" {
						continue
					}
					if s := wrapsSentinel(st.Val, out); s != "" {
						out[g] = s + " (via " + g.Name() + ")"
						changed = true
					}
				}
			}
		}
	}
	return out, missing
}

// wrapsSentinel: v is fmt.Errorf(constant format with %w, ..., sentinel, ...) with the %w operand a
// load of a sentinel global. Returns the sentinel name or "".
func wrapsSentinel(v ssa.Value, sentinels map[*ssa.Global]string) string {
	call, ok := v.(*ssa.Call)
	if !ok {
		return ""
	}
	callee := call.Common().StaticCallee()
	if callee == nil || callee.Pkg == nil || callee.Pkg.Pkg.Path() != "fmt" || callee.Name() != "Errorf" {
		return ""
	}
	c, ok := call.Common().Args[0].(*ssa.Const)
	if !ok || c.Value == nil || c.Value.Kind() != constant.String {
		return ""
	}
	format := constant.StringVal(c.Value)
	var ops []ssa.Value
	if len(call.Common().Args) >= 2 {
		ops = variadicOperands(call.Common().Args[1])
	}
	vp := verbPositions(format)
	for i, pos := range vp {
		if format[pos[1]-1] != 'w' || i >= len(ops) {
			continue
		}
		if s := sentinelLoad(ops[i], sentinels); s != "" {
			return s
		}
	}
	return ""
}

func sentinelLoad(v ssa.Value, sentinels map[*ssa.Global]string) string {
	for {
		if mi, ok := v.(*ssa.MakeInterface); ok {
			v = mi.X
			continue
		}
		if ci, ok := v.(*ssa.ChangeInterface); ok {
			v = ci.X
			continue
		}
		break
	}
	if u, ok := v.(*ssa.UnOp); ok && u.Op == token.MUL {
		if g, ok := u.X.(*ssa.Global); ok {
			return sentinels[g]
		}
	}
	return ""
}

// ErrorProvenance (R5.5): every error that can leave the functions in funcs (those returning error)
// is nil, a sentinel, an Errorf wrapping a sentinel with %w, or the error of another function in
// funcs. One record per origin site.
func ErrorProvenance(p *load.Prog, r *oblig.Report, rule string, pkg string, sentinelNames []string, funcs []*ssa.Function) {
	sent, missing := sentinelGlobals(p, pkg, sentinelNames)
	for _, m := range missing {
		r.Unknown(rule, "anchor:sentinel:"+m, "-", "sentinel error "+m+" not found")
	}
	inSet := map[*ssa.Function]bool{}
	for _, f := range funcs {
		inSet[f] = true
	}
	for _, f := range funcs {
		ei := returnsError(f)
		if ei < 0 {
			continue
		}
		seen := map[ssa.Value]bool{}
		var origin func(v ssa.Value, at ssa.Instruction)
		n := 0
		origin = func(v ssa.Value, at ssa.Instruction) {
			if seen[v] {
				return
			}
			seen[v] = true
			switch x := v.(type) {
			case *ssa.Const:
				if x.IsNil() {
					return
				}
			case *ssa.Phi:
				for _, e := range x.Edges {
					origin(e, at)
				}
				return
			case *ssa.Extract:
				origin(x.Tuple, at)
				return
			case *ssa.MakeInterface:
				origin(x.X, at)
				return
			case *ssa.UnOp:
				if x.Op == token.MUL {
					if g, ok := x.X.(*ssa.Global); ok {
						n++
						construct := fmt.Sprintf("error-origin:%s:global %s", load.FuncName(f), g.Name())
						if s := sent[g]; s != "" {
							r.OK(rule, construct, p.Pos(at.Pos()), "sentinel", s)
						} else {
							r.Bad(rule, construct, p.Pos(at.Pos()), "returns package-level error "+g.Name()+", which is none of "+strings.Join(sentinelNames, ", ")+" and does not wrap one")
						}
						return
					}
					if al, ok := x.X.(*ssa.Alloc); ok {
						// named result / local variable: follow the stores
						if refs := al.Referrers(); refs != nil {
							for _, ref := range *refs {
								if st, ok := ref.(*ssa.Store); ok && st.Addr == ssa.Value(al) {
									origin(st.Val, st)
								}
							}
						}
						return
					}
				}
			case *ssa.Call:
				callee := x.Common().StaticCallee()
				if callee != nil && inSet[callee] && returnsError(callee) >= 0 {
					return // judged at the callee
				}
				if callee == nil && !x.Common().IsInvoke() {
					// dispatch through a function value (strategy table, selector helper): judged at each possible callee
					if targets, complete := FuncTargets(x.Common().Value); complete && len(targets) > 0 {
						allIn := true
						for _, t := range targets {
							if !inSet[t] || returnsError(t) < 0 {
								allIn = false
							}
						}
						if allIn {
							return
						}
					}
				}
				if s := wrapsSentinel(x, sent); s != "" {
					n++
					r.OK(rule, fmt.Sprintf("error-origin:%s:Errorf %%w %s", load.FuncName(f), s), p.Pos(x.Pos()), "wraps-sentinel", s)
					return
				}
				n++
				name := "dynamic call"
				if callee != nil {
					name = load.FuncName(callee)
				}
				r.Bad(rule, fmt.Sprintf("error-origin:%s:%s", load.FuncName(f), name), p.Pos(x.Pos()),
					"error produced by "+name+" does not wrap one of "+strings.Join(sentinelNames, ", ")+" with %w: errors.Is against the documented sentinels fails")
				return
			case *ssa.Parameter:
				return // an error passed in by a caller inside the set is judged there
			}
			n++
			r.Unknown(rule, fmt.Sprintf("error-origin:%s:%T", load.FuncName(f), v), p.Pos(at.Pos()), "cannot trace where this error value comes from")
		}
		for _, b := range f.Blocks {
			for _, in := range b.Instrs {
				if ret, ok := in.(*ssa.Return); ok && ei < len(ret.Results) {
					origin(ret.Results[ei], ret)
				}
			}
		}
	}
}

// Propagation (R5.6 / R5.1): every call in funcs whose callee returns an error either returns that
// error directly, or tests it against nil and returns it on the non-nil branch. Reviewed exceptions
// are keyed by caller+callee.
type DropException struct{ Caller, Callee, Reason string }

func Propagation(p *load.Prog, r *oblig.Report, rule string, funcs []*ssa.Function, exceptions []DropException) {
	n := 0
	for _, f := range funcs {
		for _, b := range f.Blocks {
			for _, in := range b.Instrs {
				call, ok := in.(*ssa.Call)
				if !ok {
					continue
				}
				sig := call.Common().Signature()
				ei := -1
				for i := 0; i < sig.Results().Len(); i++ {
					if types.Identical(sig.Results().At(i).Type(), errorType) {
						ei = i
					}
				}
				if ei < 0 {
					continue
				}
				callee := "dynamic"
				if c := call.Common().StaticCallee(); c != nil {
					callee = load.FuncName(c)
				} else if call.Common().IsInvoke() {
					callee = call.Common().Method.FullName()
				}
				// skip calls that create errors (fmt.Errorf, errors.New, constructors returning only an error)
				if sig.Results().Len() == 1 && (strings.HasPrefix(callee, "fmt.") || strings.HasPrefix(callee, "errors.")) {
					continue
				}
				// library writers documented to always return a nil error
				if why, never := neverFails[callee]; never {
					_ = why
					continue
				}
				n++
				construct := fmt.Sprintf("error-use:%s:%s", load.FuncName(f), callee)
				var errVal ssa.Value = call
				if sig.Results().Len() > 1 {
					errVal = nil
					if refs := call.Referrers(); refs != nil {
						for _, ref := range *refs {
							if ex, ok := ref.(*ssa.Extract); ok && ex.Index == ei {
								errVal = ex
							}
						}
					}
				}
				status, why := errorHandled(f, errVal)
				if status {
					r.OK(rule, construct, p.Pos(call.Pos()), why, "")
					continue
				}
				matched := false
				for _, ex := range exceptions {
					if ex.Caller == load.FuncName(f) && ex.Callee == callee {
						r.OK(rule, construct, p.Pos(call.Pos()), "reviewed-exception", ex.Reason)
						matched = true
					}
				}
				if !matched {
					r.Bad(rule, construct, p.Pos(call.Pos()), "the error returned by "+callee+" is "+why)
				}
			}
		}
	}
	if n == 0 {
		r.OK(rule, "error-use:none", "-", "scan", "no call returning an error in the analysed functions")
	}
}

// neverFails: calls whose error result is documented to be always nil.
var neverFails = map[string]string{
	"(*strings.Builder).WriteString": "strings.Builder: \"WriteString ... returns the length of s and a nil error\"",
	"(*strings.Builder).WriteByte":   "always nil",
	"(*strings.Builder).WriteRune":   "always nil",
	"(*strings.Builder).Write":       "always nil",
	"(*bytes.Buffer).WriteString":    "\"err is always nil\"",
	"(*bytes.Buffer).WriteByte":      "always nil",
	"(*bytes.Buffer).WriteRune":      "always nil",
	"(*bytes.Buffer).Write":          "\"err is always nil\"",
}

func errorHandled(f *ssa.Function, e ssa.Value) (bool, string) {
	if e == nil {
		return false, "discarded (never extracted)"
	}
	refs := e.Referrers()
	if refs == nil || len(*refs) == 0 {
		return false, "discarded"
	}
	// follow phis (err variable re-used) one level
	vals := []ssa.Value{e}
	tested, returned := false, false
	seen := map[ssa.Value]bool{}
	for len(vals) > 0 {
		v := vals[len(vals)-1]
		vals = vals[:len(vals)-1]
		if seen[v] {
			continue
		}
		seen[v] = true
		rs := v.Referrers()
		if rs == nil {
			continue
		}
		for _, ref := range *rs {
			switch u := ref.(type) {
			case *ssa.Return:
				returned = true
			case *ssa.BinOp:
				if u.Op == token.NEQ || u.Op == token.EQL {
					tested = true
				}
			case *ssa.Phi:
				vals = append(vals, u)
			case *ssa.MakeInterface:
				vals = append(vals, u)
			case *ssa.Call:
				// passed on (errors.As, multierror.Append, Errorf %w): counts as used
				returned = true
			case *ssa.Store:
				returned = true
			case *ssa.TypeAssert, *ssa.ChangeInterface:
				vals = append(vals, u.(ssa.Value))
			}
		}
	}
	// a nil test that is combined with further conditions (short-circuit phi) lets the error vanish when they fail
	if rs := e.Referrers(); rs != nil {
		for _, ref := range *rs {
			bo, ok := ref.(*ssa.BinOp)
			if !ok || (bo.Op != token.NEQ && bo.Op != token.EQL) || bo.Referrers() == nil {
				continue
			}
			for _, r2 := range *bo.Referrers() {
				if _, isPhi := r2.(*ssa.Phi); isPhi {
					return false, "returned only under a further condition combined with the nil test: when that condition fails the error is dropped and the caller sees success"
				}
				if ifi, isIf := r2.(*ssa.If); isIf {
					// the non-nil branch must leave the function or report
					nonNil := ifi.Block().Succs[0]
					if bo.Op == token.EQL {
						nonNil = ifi.Block().Succs[1]
					}
					if blk := nonNil; blk != nil {
						if _, isIf2 := blk.Instrs[len(blk.Instrs)-1].(*ssa.If); isIf2 {
							return false, "after the nil test the error is handled only under a further condition"
						}
					}
				}
			}
		}
	}
	// polarity: when the error is branched on, what hands it on (a return, a call that reports it, a store) must sit
	// on the side where it is non-nil; if every such use sits on the side where it is nil, a failure is swallowed
	if rs := e.Referrers(); rs != nil {
		for _, ref := range *rs {
			bo, ok := ref.(*ssa.BinOp)
			if !ok || (bo.Op != token.NEQ && bo.Op != token.EQL) || bo.Referrers() == nil {
				continue
			}
			if c, isC := bo.Y.(*ssa.Const); !isC || !c.IsNil() {
				if c2, isC2 := bo.X.(*ssa.Const); !isC2 || !c2.IsNil() {
					continue
				}
			}
			for _, r2 := range *bo.Referrers() {
				ifi, isIf := r2.(*ssa.If)
				if !isIf {
					continue
				}
				nonNil, isNil := ifi.Block().Succs[0], ifi.Block().Succs[1]
				if bo.Op == token.EQL {
					nonNil, isNil = isNil, nonNil
				}
				if len(isNil.Preds) != 1 {
					continue
				}
				// blocks reachable from the non-nil side
				reach := map[*ssa.BasicBlock]bool{}
				stack := []*ssa.BasicBlock{nonNil}
				for len(stack) > 0 {
					b := stack[len(stack)-1]
					stack = stack[:len(stack)-1]
					if reach[b] {
						continue
					}
					reach[b] = true
					stack = append(stack, b.Succs...)
				}
				onNonNil, onNil := 0, 0
				for v := range seen {
					urs := v.Referrers()
					if urs == nil {
						continue
					}
					for _, u := range *urs {
						switch u.(type) {
						case *ssa.Return, *ssa.Call, *ssa.Store:
							switch {
							case isNil.Dominates(u.Block()):
								onNil++
							case reach[u.Block()]:
								onNonNil++
							}
						}
					}
				}
				if onNil > 0 && onNonNil == 0 {
					return false, "handed on only on the branch where it is nil: when the call fails, control goes on as if it had succeeded and the failure is swallowed"
				}
			}
		}
	}
	switch {
	case returned && (tested || true):
		if tested {
			return true, "tested-and-propagated"
		}
		return true, "returned-directly"
	case tested:
		// converted: the non-nil branch reports another error into an accumulator
		if rs := e.Referrers(); rs != nil {
			for _, ref := range *rs {
				bo, ok := ref.(*ssa.BinOp)
				if !ok || bo.Referrers() == nil {
					continue
				}
				for _, r2 := range *bo.Referrers() {
					ifi, ok := r2.(*ssa.If)
					if !ok {
						continue
					}
					nonNil := ifi.Block().Succs[0]
					if bo.Op == token.EQL {
						nonNil = ifi.Block().Succs[1]
					}
					// a message chosen on the non-nil branch and reported after the join (problem = "failed to decode …")
					if len(nonNil.Preds) == 1 {
						for _, succ := range nonNil.Succs {
							for _, sin := range succ.Instrs {
								phi, isPhi := sin.(*ssa.Phi)
								if !isPhi {
									break
								}
								for i, pred := range succ.Preds {
									if pred == nonNil && i < len(phi.Edges) && isStringType(phi.Type()) && nonEmptyText(phi.Edges[i], 0) {
										return true, "tested-and-converted-to-message"
									}
								}
							}
						}
					}
					// everything reached only through the non-nil branch
					for _, blk := range f.Blocks {
						if !dominatesBlock(nonNil, blk) || len(nonNil.Preds) != 1 {
							continue
						}
						for _, in := range blk.Instrs {
							switch x := in.(type) {
							case *ssa.Call:
								if reportsError(x, 0) {
									return true, "tested-and-converted"
								}
							case *ssa.Return:
								// another, non-nil error (an `error` or a pointer to a type that implements it) is returned in its place
								for ri, res := range x.Results {
									isErr := ri == returnsError(f) || types.Implements(res.Type(), errorType.Underlying().(*types.Interface))
									if ex, isEx := res.(*ssa.Extract); isEx && !isErr {
										isErr = types.Implements(ex.Type(), errorType.Underlying().(*types.Interface))
									}
									if !isErr {
										continue
									}
									if c, isC := res.(*ssa.Const); !isC || !c.IsNil() {
										return true, "tested-and-replaced-by-another-error"
									}
								}
								// or a message that describes the failure is returned in its place (the caller reports it)
								for _, res := range x.Results {
									if isStringType(res.Type()) && nonEmptyText(res, 0) {
										return true, "tested-and-converted-to-message"
									}
								}
							}
						}
					}
				}
			}
		}
		return false, "tested against nil but never returned or passed on"
	}
	return false, "not used"
}

// SuccessGuard (R5.1): in fn, every return whose error result is the nil constant and whose first
// result is not nil/zero is dominated by a block reached only when guard(v) holds, where the guard
// is expressed as a predicate over If conditions. The predicate receives the condition value and
// reports whether taking the given branch establishes the guard.
func SuccessReturns(fn *ssa.Function) []*ssa.Return {
	var out []*ssa.Return
	ei := returnsError(fn)
	for _, b := range fn.Blocks {
		for _, in := range b.Instrs {
			ret, ok := in.(*ssa.Return)
			if !ok {
				continue
			}
			if ei >= 0 && ei < len(ret.Results) {
				if c, ok := ret.Results[ei].(*ssa.Const); !ok || !c.IsNil() {
					continue
				}
			}
			out = append(out, ret)
		}
	}
	return out
}

// DominatingConds lists, for a block, the (condition, branch) pairs of the If instructions that
// dominate it on a definite branch (the block is dominated by that successor and the successor has
// the If block as its only predecessor).
type CondEdge struct {
	Cond   ssa.Value
	Branch bool
	If     *ssa.If
}

func DominatingConds(b *ssa.BasicBlock) []CondEdge {
	return dominatingConds(b, 0)
}

func dominatingConds(b *ssa.BasicBlock, depth int) []CondEdge {
	var out []CondEdge
	for cur := b; cur != nil; cur = cur.Idom() {
		idom := cur.Idom()
		if idom == nil {
			break
		}
		last, ok := idom.Instrs[len(idom.Instrs)-1].(*ssa.If)
		if !ok {
			continue
		}
		// which successor leads (exclusively) to cur?
		for si, succ := range idom.Succs {
			if succ == cur && len(cur.Preds) == 1 {
				out = append(out, expandBoolPhi(CondEdge{Cond: last.Cond, Branch: si == 0, If: last}, depth)...)
			}
		}
	}
	return out
}

// expandBoolPhi: a short-circuit && / || compiled into a phi of booleans. If the phi is true and all
// edges but one are the constant false, control came through that one edge with its value true (and
// everything that dominates that predecessor held); dually for || and false.
func expandBoolPhi(ce CondEdge, depth int) []CondEdge {
	phi, ok := ce.Cond.(*ssa.Phi)
	if !ok || depth > 6 {
		return []CondEdge{ce}
	}
	var live []int
	for i, e := range phi.Edges {
		if c, isC := e.(*ssa.Const); isC && c.Value != nil && c.Value.Kind() == constant.Bool && constant.BoolVal(c.Value) != ce.Branch {
			continue // this edge would give the other truth value
		}
		live = append(live, i)
	}
	if len(live) != 1 {
		return []CondEdge{ce}
	}
	i := live[0]
	pred := phi.Block().Preds[i]
	out := []CondEdge{ce}
	if _, isC := phi.Edges[i].(*ssa.Const); !isC {
		out = append(out, expandBoolPhi(CondEdge{Cond: phi.Edges[i], Branch: ce.Branch, If: ce.If}, depth+1)...)
	}
	// conditions that held when control left the predecessor: those dominating it, plus the branch that led from
	// its own dominator chain
	out = append(out, dominatingConds(pred, depth+1)...)
	return out
}

// SortedStrings is a helper for evidence lists.
func SortedStrings(m map[string]bool) []string {
	out := make([]string, 0, len(m))
	for k := range m {
		out = append(out, k)
	}
	sort.Strings(out)
	return out
}

// NormalisedBeforeCompare (C10 clause 5): in fn, the parameter named param is compared with other
// values only after the `if param == "" { param = <const> }` normalisation: every equality
// comparison that involves the parameter uses the phi that merges the normalised value, never the
// raw parameter.
func NormalisedBeforeCompare(p *load.Prog, r *oblig.Report, rule string, fn *ssa.Function, param string) {
	if fn == nil {
		r.Unknown(rule, "anchor:normalise", "-", "function not found")
		return
	}
	var pv *ssa.Parameter
	for _, q := range fn.Params {
		if q.Name() == param {
			pv = q
		}
	}
	construct := "normalise-first:" + load.FuncName(fn) + ":" + param
	if pv == nil || pv.Referrers() == nil {
		r.Unknown(rule, construct, p.Pos(fn.Pos()), "parameter "+param+" not found")
		return
	}
	rawCompares, emptyTest, phi := 0, false, false
	for _, ref := range *pv.Referrers() {
		switch u := ref.(type) {
		case *ssa.BinOp:
			other := u.Y
			if other == ssa.Value(pv) {
				other = u.X
			}
			if c, ok := other.(*ssa.Const); ok && c.Value != nil && c.Value.Kind() == constant.String && constant.StringVal(c.Value) == "" {
				emptyTest = true
			} else {
				rawCompares++
			}
		case *ssa.Phi:
			phi = true
		case *ssa.DebugRef:
		default:
			rawCompares++
		}
	}
	switch {
	case !emptyTest || !phi:
		r.Bad(rule, construct, p.Pos(fn.Pos()), "the empty "+param+" is not normalised to a constant before use: '' and 'none' would be kept as two different conditions")
	case rawCompares > 0:
		r.Bad(rule, construct, p.Pos(fn.Pos()), fmt.Sprintf("%d use(s) of the raw %s parameter bypass the normalisation", rawCompares, param))
	default:
		r.OK(rule, construct, p.Pos(fn.Pos()), "def-use", "all uses go through the normalised value")
	}
}

// CompleteIteration: in the named functions every loop over a slice runs to completion unless it
// fails: a return inside a loop must carry a non-nil error, and break is not allowed. An early
// success return silently drops the remaining operands / restrictions.
func CompleteIteration(p *load.Prog, r *oblig.Report, rule string, specs []string) {
	completeIteration(p, r, rule, specs, false)
}

// CollectingLoopsComplete: the same rule restricted to the loops that collect (append to a list or write a map in
// their body): such a loop left by break or by a return without an error silently drops the contributions of the
// remaining elements. Loops that only search (find-first, exists) may stop early and are not judged.
func CollectingLoopsComplete(p *load.Prog, r *oblig.Report, rule string, specs []string) {
	completeIteration(p, r, rule, specs, true)
}

// CollectingLoopsCompleteIn applies CollectingLoopsComplete to every given function that has a declaration in the
// named repository package (a universe rule: functions may come and go, the loops that exist are judged).
func CollectingLoopsCompleteIn(p *load.Prog, r *oblig.Report, rule, pkg string, funcs []*ssa.Function) {
	var specs []string
	seen := map[string]bool{}
	for _, f := range funcs {
		fd, ok := f.Syntax().(*ast.FuncDecl)
		if !ok || f.Pkg == nil || load.ShortPkg(f.Pkg.Pkg) != pkg || f.Parent() != nil {
			continue
		}
		name := pkg + "." + load.DeclName(fd)
		if !seen[name] {
			seen[name] = true
			specs = append(specs, name)
		}
	}
	sort.Strings(specs)
	n := len(r.Records)
	completeIterationQuiet(p, r, rule, specs, true)
	if len(r.Records) == n {
		r.Unknown(rule, "complete-iteration:"+pkg, "-", "no collecting loop found in the reachable functions of package "+pkg+": anchors no longer resolve")
	}
}

func collects(pk *packages.Package, body *ast.BlockStmt) bool {
	found := false
	ast.Inspect(body, func(n ast.Node) bool {
		switch x := n.(type) {
		case *ast.FuncLit:
			return false
		case *ast.AssignStmt:
			for _, l := range x.Lhs {
				if ix, ok := l.(*ast.IndexExpr); ok {
					if tv, ok := pk.TypesInfo.Types[ix.X]; ok {
						if _, isMap := tv.Type.Underlying().(*types.Map); isMap {
							found = true
						}
					}
				}
			}
			// a list kept in a variable grows (an append into a field of the element at hand is an update of that
			// element, as in a find-and-update loop, and does not make the loop a collecting one)
			for i, rh := range x.Rhs {
				if call, ok := rh.(*ast.CallExpr); ok && i < len(x.Lhs) {
					if id, ok := call.Fun.(*ast.Ident); ok && id.Name == "append" {
						if _, isVar := x.Lhs[i].(*ast.Ident); isVar {
							found = true
						}
					}
				}
			}
		}
		return true
	})
	return found
}

func completeIteration(p *load.Prog, r *oblig.Report, rule string, specs []string, collectingOnly bool) {
	completeIterationX(p, r, rule, specs, collectingOnly, false)
}

// completeIterationQuiet: functions without a (collecting) loop are skipped instead of reported as lost anchors.
func completeIterationQuiet(p *load.Prog, r *oblig.Report, rule string, specs []string, collectingOnly bool) {
	completeIterationX(p, r, rule, specs, collectingOnly, true)
}

func completeIterationX(p *load.Prog, r *oblig.Report, rule string, specs []string, collectingOnly, quiet bool) {
	for _, spec := range specs {
		parts := strings.SplitN(spec, ".", 2)
		fd, pk := p.FuncDecl(parts[0], parts[1])
		construct := "complete-iteration:" + spec
		if fd == nil {
			r.Unknown(rule, construct, "-", "function not found")
			continue
		}
		bad := 0
		loops := 0
		// the loop may live in an unexported helper the function delegates to: consulted only when the
		// function has no loop of its own
		for hi, hd := range p.WithHelpers(pk, fd, 1) {
			if hi > 0 && (loops > 0 || quiet) {
				break
			}
			if hi == 1 {
				bad = 0
			}
			hasErr := false
			if hd.Type.Results != nil {
				for _, f := range hd.Type.Results.List {
					if tv, ok := pk.TypesInfo.Types[f.Type]; ok && types.Identical(tv.Type, errorType) {
						hasErr = true
					}
				}
			}
			var walk func(n ast.Node, inLoop bool, inSwitch bool)
			walk = func(n ast.Node, inLoop, inSwitch bool) {
				ast.Inspect(n, func(m ast.Node) bool {
					if m == nil || m == n {
						return true
					}
					switch s := m.(type) {
					case *ast.FuncLit:
						return false
					case *ast.RangeStmt:
						if tv, ok := pk.TypesInfo.Types[s.X]; ok {
							if _, isSlice := tv.Type.Underlying().(*types.Slice); isSlice {
								if collectingOnly && !collects(pk, s.Body) {
									walk(s.Body, inLoop, false)
									return false
								}
								loops++
								walk(s.Body, true, false)
								return false
							}
						}
					case *ast.ForStmt:
						if collectingOnly && !collects(pk, s.Body) {
							walk(s.Body, inLoop, false)
							return false
						}
						loops++
						walk(s.Body, true, false)
						return false
					case *ast.SwitchStmt, *ast.TypeSwitchStmt, *ast.SelectStmt:
						walk(s, inLoop, true)
						return false
					case *ast.ReturnStmt:
						if !inLoop {
							return true
						}
						ok := false
						if hasErr && len(s.Results) > 0 {
							last := s.Results[len(s.Results)-1]
							if tv, found := pk.TypesInfo.Types[last]; found && !tv.IsNil() {
								ok = true
							}
						}
						if !ok {
							bad++
							r.Bad(rule, construct, p.Pos(s.Pos()), "a loop that translates or collects its elements is left by a return that does not report an error: the remaining elements are silently skipped")
						}
					case *ast.BranchStmt:
						if inLoop && s.Tok == token.BREAK && !inSwitch {
							bad++
							r.Bad(rule, construct, p.Pos(s.Pos()), "a loop that translates or collects its elements is left by break: the remaining elements are silently skipped")
						}
					}
					return true
				})
			}
			walk(hd.Body, false, false)
		}
		if loops == 0 {
			if !quiet {
				r.Unknown(rule, construct, p.Pos(fd.Pos()), "no loop found: anchor no longer resolves")
			}
		} else if bad == 0 {
			r.OK(rule, construct, p.Pos(fd.Pos()), "only-error-exits", fmt.Sprintf("%d loops", loops))
		}
	}
}

// DelegatesTo: every return of fn whose error result is nil returns, as its first result, the value
// of a call of the named library function whose arguments come (in order) from calls of argSource
// applied to fn's parameters in order.
func DelegatesTo(p *load.Prog, r *oblig.Report, rule string, fn *ssa.Function, libPkg, libFunc string, argSource string) {
	if fn == nil {
		r.Unknown(rule, "anchor:delegates", "-", "function not found")
		return
	}
	construct := "delegates:" + load.FuncName(fn) + "→" + libFunc
	n := 0
	for _, ret := range SuccessReturns(fn) {
		n++
		if len(ret.Results) == 0 {
			continue
		}
		call, ok := ret.Results[0].(*ssa.Call)
		callee := (*ssa.Function)(nil)
		if ok {
			callee = call.Common().StaticCallee()
		}
		if callee == nil || callee.Pkg == nil || callee.Pkg.Pkg.Path() != libPkg || callee.Name() != libFunc {
			r.Bad(rule, construct, p.Pos(ret.Pos()), "a successful return does not return the result of "+libPkg+"."+libFunc+": the query is answered by something other than the library reachability search")
			continue
		}
		// the node arguments: results of argSource(param_i) in parameter order
		order := []int{}
		for _, a := range call.Common().Args {
			v := a
			for {
				if mi, ok := v.(*ssa.MakeInterface); ok {
					v = mi.X
					continue
				}
				if ex, ok := v.(*ssa.Extract); ok {
					v = ex.Tuple
					continue
				}
				break
			}
			if c, ok := v.(*ssa.Call); ok {
				if cc := c.Common().StaticCallee(); cc != nil && cc.Name() == argSource {
					for _, ca := range c.Common().Args {
						for pi, prm := range fn.Params {
							if pi == 0 && fn.Signature.Recv() != nil {
								continue
							}
							if ca == ssa.Value(prm) {
								order = append(order, pi)
							}
						}
					}
				}
			}
		}
		if len(order) == 2 && order[0] < order[1] {
			r.OK(rule, construct, p.Pos(ret.Pos()), "library-call", fmt.Sprintf("%s(%s(from), %s(to))", libFunc, argSource, argSource))
		} else {
			r.Bad(rule, construct, p.Pos(ret.Pos()), fmt.Sprintf("%s is not called with the looked-up 'from' and 'to' nodes in that order (parameter indices %v)", libFunc, order))
		}
	}
	if n == 0 {
		r.Unknown(rule, construct, p.Pos(fn.Pos()), "no successful return found")
	}
}

// ErrorConstructors (R5.5 for the printer): every error origin reachable in funcs is nil, the result
// of one of the named constructors of the repository's errors package, or the error of a library
// call that is returned unchanged from a decoding step.
func ErrorConstructors(p *load.Prog, r *oblig.Report, rule string, funcs []*ssa.Function, constructors []string) {
	inSet := map[*ssa.Function]bool{}
	for _, f := range funcs {
		inSet[f] = true
	}
	raised := map[string]int{}
	allowed := map[string]bool{}
	for _, c := range constructors {
		allowed[c] = true
	}
	n := 0
	for _, f := range funcs {
		ei := returnsError(f)
		if ei < 0 {
			continue
		}
		if pk := load.FuncPkg(f); pk != nil && load.ShortPkg(pk) == "errors" {
			continue // the documented constructors themselves
		}
		seen := map[ssa.Value]bool{}
		var origin func(v ssa.Value, at ssa.Instruction)
		origin = func(v ssa.Value, at ssa.Instruction) {
			if seen[v] {
				return
			}
			seen[v] = true
			switch x := v.(type) {
			case *ssa.Const:
				if x.IsNil() {
					return
				}
			case *ssa.Phi:
				for _, e := range x.Edges {
					origin(e, at)
				}
				return
			case *ssa.Extract:
				origin(x.Tuple, at)
				return
			case *ssa.MakeInterface:
				origin(x.X, at)
				return
			case *ssa.Parameter:
				return
			case *ssa.Call:
				callee := x.Common().StaticCallee()
				if callee == nil {
					// dynamic call of a printer function value (parseFn): judged at the possible callees
					return
				}
				pk := load.FuncPkg(callee)
				if inSet[callee] && returnsError(callee) >= 0 && !(pk != nil && load.ShortPkg(pk) == "errors") {
					return
				}
				n++
				construct := fmt.Sprintf("error-origin:%s:%s", load.FuncName(f), callee.Name())
				switch {
				case pk != nil && load.ShortPkg(pk) == "errors" && !allowed[callee.Name()]:
					r.Bad(rule, construct, p.Pos(x.Pos()), "the printer fails with "+callee.Name()+", which is not one of the documented kinds of failure ("+strings.Join(constructors, ", ")+")")
				case pk != nil && load.ShortPkg(pk) == "errors" && allowed[callee.Name()]:
					raised[callee.Name()]++
					r.OK(rule, construct, p.Pos(x.Pos()), "documented-constructor", callee.Name())
				case pk != nil && !load.IsRepoPkg(pk) && strings.Contains(callee.Name(), "nmarshal"):
					r.OK(rule, construct, p.Pos(x.Pos()), "decoder-error", load.FuncName(callee))
				default:
					r.Bad(rule, construct, p.Pos(x.Pos()), "the printer can fail with an error made by "+load.FuncName(callee)+", which is none of the documented constructors ("+strings.Join(constructors, ", ")+")")
				}
				return
			}
			n++
			r.Unknown(rule, fmt.Sprintf("error-origin:%s:%T", load.FuncName(f), v), p.Pos(at.Pos()), "cannot trace where this error value comes from")
		}
		for _, b := range f.Blocks {
			for _, in := range b.Instrs {
				if ret, ok := in.(*ssa.Return); ok && ei < len(ret.Results) {
					origin(ret.Results[ei], ret)
				}
			}
		}
	}
	if n == 0 {
		r.Unknown(rule, "error-origin:none", "-", "no error origin found: anchors no longer resolve")
	}
	// every documented kind of failure is still raised somewhere: a model the DSL cannot express (or that contradicts
	// itself) must be turned down, not printed as something else
	for _, c := range constructors {
		if raised[c] == 0 {
			r.Bad(rule, "error-raised:"+c, "-", "the documented failure "+c+" is never raised by the printer any more: the inputs it stood for are now printed as if they were expressible")
		}
	}
}

// NoEmptySuccess (C02.7): a printer function with results (string, error) never reports success with
// the empty text constant, except under an emptiness test of its input (len(x) == 0): a dispatch
// that falls through must fail with an error, not print nothing.
func NoEmptySuccess(p *load.Prog, r *oblig.Report, rule string, funcs []*ssa.Function) {
	for _, fn := range funcs {
		res := fn.Signature.Results()
		if res.Len() != 2 || returnsError(fn) != 1 {
			continue
		}
		if b, ok := res.At(0).Type().Underlying().(*types.Basic); !ok || b.Kind() != types.String {
			continue
		}
		construct := "text-on-success:" + load.FuncName(fn)
		bad := ""
		for _, ret := range SuccessReturns(fn) {
			c, ok := ret.Results[0].(*ssa.Const)
			if !ok || c.Value == nil || c.Value.ExactString() != `""` {
				continue
			}
			empty := false
			for _, ce := range DominatingConds(ret.Block()) {
				if bo, ok := ce.Cond.(*ssa.BinOp); ok && ce.Branch && bo.Op == token.EQL && isLenCall(bo.X) && isZeroConst(bo.Y) {
					empty = true
				}
			}
			if !empty {
				bad = p.Pos(ret.Pos())
			}
		}
		if bad != "" {
			r.Bad(rule, construct, bad, "the printer reports success with empty text although its input was not tested to be empty: the construct is silently dropped from the DSL instead of being rejected")
		} else {
			r.OK(rule, construct, p.Pos(fn.Pos()), "text-or-error", "every success return carries computed text, or the input was tested to be empty")
		}
	}
}

func isLenCall(v ssa.Value) bool {
	c, ok := v.(*ssa.Call)
	if !ok {
		return false
	}
	b, ok := c.Call.Value.(*ssa.Builtin)
	return ok && b.Name() == "len"
}

func isZeroConst(v ssa.Value) bool {
	c, ok := v.(*ssa.Const)
	return ok && c.Value != nil && c.Value.ExactString() == "0"
}

// reportsError: the call appends to an error accumulator — multierror.Append itself, or a function / closure of
// the repository whose body does (one level, e.g. a local `report := func(node, msg) { errs = multierror.Append(…) }`).
// nonEmptyText: the string cannot be "" (a non-empty constant, or a concatenation or format that contains one).
func nonEmptyText(v ssa.Value, depth int) bool {
	if depth > 6 {
		return false
	}
	switch x := v.(type) {
	case *ssa.Const:
		return x.Value != nil && x.Value.Kind() == constant.String && constant.StringVal(x.Value) != ""
	case *ssa.BinOp:
		return x.Op == token.ADD && (nonEmptyText(x.X, depth+1) || nonEmptyText(x.Y, depth+1))
	case *ssa.Phi:
		for _, e := range x.Edges {
			if !nonEmptyText(e, depth+1) {
				return false
			}
		}
		return len(x.Edges) > 0
	case *ssa.Call:
		if c := x.Common().StaticCallee(); c != nil && c.Pkg != nil && c.Pkg.Pkg.Path() == "fmt" && c.Name() == "Sprintf" && len(x.Common().Args) > 0 {
			if f, ok := x.Common().Args[0].(*ssa.Const); ok && f.Value != nil && f.Value.Kind() == constant.String {
				s := constant.StringVal(f.Value)
				return strings.Trim(s, "%svdqxT+#0123456789.[]*") != ""
			}
		}
	}
	return false
}

func reportsError(call *ssa.Call, depth int) bool {
	// append(problems, err): a plain list of errors as accumulator
	if b, isB := call.Common().Value.(*ssa.Builtin); isB && b.Name() == "append" && len(call.Common().Args) == 2 {
		if sl, ok := call.Common().Args[0].Type().Underlying().(*types.Slice); ok && types.Implements(sl.Elem(), errorType.Underlying().(*types.Interface)) {
			return true
		}
	}
	if c := call.Common().StaticCallee(); c != nil {
		if c.Name() == "Append" && c.Pkg != nil && strings.Contains(c.Pkg.Pkg.Path(), "multierror") {
			return true
		}
		if depth < 2 && load.InRepo(c) {
			return bodyReports(c, depth)
		}
		return false
	}
	// a closure held in a local variable
	v := call.Common().Value
	if mc, ok := v.(*ssa.MakeClosure); ok {
		if fn, ok := mc.Fn.(*ssa.Function); ok && depth < 2 {
			return bodyReports(fn, depth)
		}
	}
	if ld, ok := v.(*ssa.UnOp); ok {
		if al, ok := ld.X.(*ssa.Alloc); ok && al.Referrers() != nil {
			for _, ref := range *al.Referrers() {
				if st, ok := ref.(*ssa.Store); ok {
					if mc, ok := st.Val.(*ssa.MakeClosure); ok {
						if fn, ok := mc.Fn.(*ssa.Function); ok && depth < 2 && bodyReports(fn, depth) {
							return true
						}
					}
				}
			}
		}
	}
	return false
}

func bodyReports(fn *ssa.Function, depth int) bool {
	for _, b := range fn.Blocks {
		for _, in := range b.Instrs {
			if c, ok := in.(*ssa.Call); ok && reportsError(c, depth+1) {
				return true
			}
		}
	}
	return false
}

// IndexLoopsCoverList: an index loop over a list — for i := C; i < len(xs); i++ — in the given functions visits every
// element: it starts at 0 and runs while i < len(xs) (a loop that starts at 1 or stops one short silently leaves an
// element out of whatever the loop decides or renders). Judged: loops whose condition compares the loop variable with
// len(...) and whose step is i++; anything else is not an index loop over a list and is left alone.
func IndexLoopsCoverList(p *load.Prog, r *oblig.Report, rule string, funcs []*ssa.Function) {
	n, bad := 0, 0
	seen := map[*ast.FuncDecl]bool{}
	for _, f := range funcs {
		fd, ok := f.Syntax().(*ast.FuncDecl)
		if !ok || seen[fd] || f.Pkg == nil || !load.IsRepoPkg(f.Pkg.Pkg) || load.ShortPkg(f.Pkg.Pkg) == "gen" {
			continue
		}
		seen[fd] = true
		pk := p.Pkgs[load.ShortPkg(f.Pkg.Pkg)]
		if pk == nil {
			continue
		}
		ast.Inspect(fd.Body, func(nd ast.Node) bool {
			fs, ok := nd.(*ast.ForStmt)
			if !ok || fs.Init == nil || fs.Cond == nil || fs.Post == nil {
				return true
			}
			as, ok := fs.Init.(*ast.AssignStmt)
			if !ok || len(as.Lhs) != 1 || len(as.Rhs) != 1 {
				return true
			}
			iv, ok := as.Lhs[0].(*ast.Ident)
			if !ok {
				return true
			}
			inc, ok := fs.Post.(*ast.IncDecStmt)
			if !ok || inc.Tok != token.INC {
				return true
			}
			if id, ok := inc.X.(*ast.Ident); !ok || id.Name != iv.Name {
				return true
			}
			cond, ok := fs.Cond.(*ast.BinaryExpr)
			if !ok {
				return true
			}
			lhs, ok := cond.X.(*ast.Ident)
			if !ok || lhs.Name != iv.Name {
				return true
			}
			// the bound mentions len(...)
			mentionsLen := false
			ast.Inspect(cond.Y, func(m ast.Node) bool {
				if call, ok := m.(*ast.CallExpr); ok {
					if id, ok := call.Fun.(*ast.Ident); ok && id.Name == "len" {
						mentionsLen = true
					}
				}
				return true
			})
			if !mentionsLen {
				return true
			}
			n++
			construct := "index-loop:" + load.FuncName(f) + ":" + types.ExprString(cond.Y)
			start, startKnown := int64(-1), false
			if tv, ok := pk.TypesInfo.Types[as.Rhs[0]]; ok && tv.Value != nil {
				if v, exact := constant.Int64Val(tv.Value); exact {
					start, startKnown = v, true
				}
			}
			_, boundIsLen := cond.Y.(*ast.CallExpr)
			switch {
			case !startKnown || start != 0:
				bad++
				r.Bad(rule, construct, p.Pos(fs.Pos()), "the index loop starts at "+types.ExprString(as.Rhs[0])+", not at 0: the first element(s) of the list are left out of what the loop decides or renders")
			case cond.Op != token.LSS || !boundIsLen:
				bad++
				r.Bad(rule, construct, p.Pos(fs.Pos()), "the index loop runs while "+types.ExprString(fs.Cond)+", not while "+iv.Name+" < len(list): it stops short of the last element or runs past it")
			default:
				r.OK(rule, construct, p.Pos(fs.Pos()), "0..len", "")
			}
			return true
		})
	}
	if n == 0 {
		r.OK(rule, "index-loop", "-", "none", "no index loop over a list in the functions judged")
	}
	_ = bad
}

// RejectionReasons (R5.5r): the distinct reasons for which the reachable functions of a package reject their input —
// the format strings of the fmt.Errorf calls they return, and the package-level errors they return as they are (per
// function). Counted as instances so that the floor of the rule is the number of reasons confirmed by reading:
// merging four identical sites into one helper keeps the count, dropping or merging away a reason lowers it.
func RejectionReasons(p *load.Prog, r *oblig.Report, rule, pkg string, funcs []*ssa.Function) {
	seen := map[string]bool{}
	for _, f := range funcs {
		if f.Pkg == nil || f.Pkg.Pkg.Name() != pkg {
			continue
		}
		ei := returnsError(f)
		if ei < 0 {
			continue
		}
		var visit func(v ssa.Value, at ssa.Instruction, depth int)
		visit = func(v ssa.Value, at ssa.Instruction, depth int) {
			if depth > 5 {
				return
			}
			key := ""
			switch x := v.(type) {
			case *ssa.Phi:
				for _, e := range x.Edges {
					visit(e, at, depth+1)
				}
				return
			case *ssa.Call:
				if c := x.Common().StaticCallee(); c != nil && c.Pkg != nil && c.Pkg.Pkg.Path() == "fmt" && c.Name() == "Errorf" && len(x.Common().Args) > 0 {
					if k, ok := x.Common().Args[0].(*ssa.Const); ok && k.Value != nil && k.Value.Kind() == constant.String {
						key = "format:" + constant.StringVal(k.Value)
					}
				}
			case *ssa.UnOp:
				if g, ok := x.X.(*ssa.Global); ok && x.Op == token.MUL {
					key = f.Name() + ":" + g.Name()
				}
			}
			if key != "" && !seen[key] {
				seen[key] = true
				r.OK(rule, "rejection-reason:"+key, p.Pos(at.Pos()), "distinct-reason", key)
			}
		}
		for _, b := range f.Blocks {
			for _, in := range b.Instrs {
				if ret, ok := in.(*ssa.Return); ok && ei < len(ret.Results) {
					visit(ret.Results[ei], ret, 0)
				}
			}
		}
	}
	if len(seen) == 0 {
		r.Unknown(rule, "rejection-reason", "-", "no rejection found in package "+pkg+": anchors no longer resolve")
	}
}
